package main

// E7 (core) — ordered effects on an accumulator (bytes.Buffer, hash.Hash):
// the sequence of writes that determine what a read (Sum, Bytes) returns,
// reconstructed from dominance alone (DESIGN 2.8).

import (
	"fmt"
	"go/token"
	"sort"

	"golang.org/x/tools/go/ssa"
)

// objKey is a function-local access path identifying an object: "alloc@<ptr>",
// "param:hs.mac", ...  Two values with the same key designate the same object
// (field loads are keyed by path, so re-loading hs.mac gives the same key).
func objKey(v ssa.Value) string {
	v = stripConv(v)
	switch x := v.(type) {
	case *ssa.Alloc:
		return fmt.Sprintf("alloc@%p", x)
	case *ssa.Parameter:
		return "param:" + x.Name()
	case *ssa.FreeVar:
		return "free:" + x.Name()
	case *ssa.Global:
		return "global:" + x.String()
	case *ssa.UnOp:
		if x.Op == token.MUL {
			if fa, ok := x.X.(*ssa.FieldAddr); ok {
				if k, ok := fieldKeyOf(fa.X.Type(), fa.Field); ok {
					return objKey(fa.X) + "." + k.Field
				}
			}
			if g, ok := x.X.(*ssa.Global); ok {
				return "global:" + g.String()
			}
			if a, ok := x.X.(*ssa.Alloc); ok {
				return fmt.Sprintf("cell@%p", a)
			}
		}
	case *ssa.FieldAddr:
		if k, ok := fieldKeyOf(x.X.Type(), x.Field); ok {
			return objKey(x.X) + ".&" + k.Field
		}
	}
	return fmt.Sprintf("val@%p", v)
}

type accOp struct {
	Call   ssa.CallInstruction
	Method string
	Args   []ssa.Value // arguments without the receiver
}

// recvOf returns the receiver value and method name of a method call
// (interface invoke or static method), or nil.
func recvOf(call ssa.CallInstruction) (ssa.Value, string, []ssa.Value) {
	c := call.Common()
	if c.IsInvoke() {
		return c.Value, c.Method.Name(), c.Args
	}
	if sc := c.StaticCallee(); sc != nil && sc.Signature.Recv() != nil && len(c.Args) > 0 {
		return c.Args[0], sc.Name(), c.Args[1:]
	}
	return nil, "", nil
}

var accWriteMethods = map[string]bool{"Write": true, "WriteString": true, "WriteByte": true, "WriteRune": true, "ReadFrom": true}
var accReadMethods = map[string]bool{"Sum": true, "Bytes": true, "String": true, "Len": true, "Sum64": true, "Size": true, "BlockSize": true, "Cap": true}
var accConsumeMethods = map[string]bool{"Read": true, "Next": true, "ReadByte": true, "Truncate": true, "WriteTo": true, "ReadBytes": true, "ReadString": true, "Grow": false}

// AccumSeq returns the operations on read's receiver object that determine
// its content at `read`: everything since the last dominating Reset (or since
// the object's creation when it is a local that is never reset), in dominance
// order.  decided=false (with reason) if an operation on the object could
// execute between the start and the read without dominating the read.
func (p *Prog) AccumSeq(read ssa.CallInstruction) (ops []accOp, start string, reason string) {
	fn := read.Parent()
	recv, _, _ := recvOf(read)
	if recv == nil {
		return nil, "", "not a method call"
	}
	key := objKey(recv)
	var all []accOp
	allInstrs(fn, func(in ssa.Instruction) {
		call, ok := in.(ssa.CallInstruction)
		if !ok || call == read {
			return
		}
		r, m, args := recvOf(call)
		if r != nil && objKey(r) == key {
			all = append(all, accOp{call, m, args})
			return
		}
		// the object handed to another function
		for _, a := range call.Common().Args {
			if objKey(a) == key {
				all = append(all, accOp{call, "escape:" + p.CalleeID(call.Common()), nil})
			}
		}
	})
	// last dominating Reset
	var R ssa.CallInstruction
	for _, op := range all {
		if op.Method == "Reset" && instrDominates(op.Call, read) {
			if R == nil || instrDominates(R, op.Call) {
				R = op.Call
			}
		}
	}
	via := map[ssa.Instruction]bool{}
	if R != nil {
		via[R] = true
		start = "Reset at " + p.InstrPos(R)
	} else {
		// only a function-local object has a known empty start
		if _, isAlloc := stripConv(recv).(*ssa.Alloc); isAlloc {
			start = "zero value (local)"
		} else if c, _ := callOf(stripConv(recv)); c != nil && p.isFreshAccumCtor(c) {
			start = "fresh " + p.CalleeID(c.Common())
			// seed content of the constructor counts as first operand
			if id := p.CalleeID(c.Common()); (id == "bytes.NewBuffer" || id == "bytes.NewBufferString") && len(c.Common().Args) == 1 {
				ops = append(ops, accOp{c, "Init", c.Common().Args})
			}
		} else if prm, isParam := stripConv(recv).(*ssa.Parameter); isParam {
			// a buffer handed in by the caller: its content at entry is the parameter's term
			start = "content of parameter " + prm.Name()
			ops = append(ops, accOp{nil, "Param", []ssa.Value{prm}})
		} else {
			return nil, "", "accumulator is neither reset before the read nor a fresh local object"
		}
	}
	var rel []accOp
	for _, op := range all {
		if op.Call == R {
			continue
		}
		if accReadMethods[op.Method] {
			continue
		}
		reaches := false
		if R != nil {
			reaches = canReachWithout(op.Call, read, via)
		} else {
			reaches = canReachWithout(op.Call, read, nil) || instrDominates(op.Call, read)
		}
		if !reaches {
			continue
		}
		if !instrDominates(op.Call, read) {
			return nil, start, fmt.Sprintf("%s at %s may or may not execute before the read at %s", op.Method, p.InstrPos(op.Call), p.InstrPos(read))
		}
		if R == nil && blockOnCycle(op.Call.Block()) {
			return nil, start, fmt.Sprintf("%s at %s is in a loop before the read", op.Method, p.InstrPos(op.Call))
		}
		// with a reset: the operation must not be able to run again without passing the reset (a Reset
		// hoisted out of a loop leaves the writes of earlier iterations in the accumulator: Sum does
		// not clear it)
		if R != nil && canReachWithout(op.Call, op.Call, via) {
			return nil, start, fmt.Sprintf("%s at %s can execute again (loop) without passing the %s: earlier iterations' input stays in the accumulator", op.Method, p.InstrPos(op.Call), start)
		}
		rel = append(rel, op)
	}
	sort.SliceStable(rel, func(i, j int) bool { return instrDominates(rel[i].Call, rel[j].Call) && rel[i].Call != rel[j].Call })
	// insertion sort is needed for a partial order; dominance among ops that
	// all dominate `read` is total (dominators of a node form a chain).
	for i := 1; i < len(rel); i++ {
		for j := i; j > 0 && instrDominates(rel[j].Call, rel[j-1].Call); j-- {
			rel[j], rel[j-1] = rel[j-1], rel[j]
		}
	}
	ops = append(ops, rel...)
	for _, op := range ops {
		if len(op.Method) > 7 && op.Method[:7] == "escape:" {
			return ops, start, fmt.Sprintf("the accumulator is handed to %s at %s before the read", op.Method[7:], p.InstrPos(op.Call))
		}
		if accConsumeMethods[op.Method] {
			return ops, start, fmt.Sprintf("the accumulator is consumed by %s at %s before the read", op.Method, p.InstrPos(op.Call))
		}
	}
	return ops, start, ""
}

func (p *Prog) isFreshAccumCtor(c *ssa.Call) bool {
	switch p.CalleeID(c.Common()) {
	case "bytes.NewBuffer", "bytes.NewBufferString", "crypto/hmac.New", "crypto/sha256.New", "crypto/sha512.New", "crypto/sha1.New":
		return true
	}
	return false
}

// writesOf filters the write operations and returns their (single) arguments.
func writesOf(ops []accOp) []ssa.Value {
	var out []ssa.Value
	for _, op := range ops {
		if (accWriteMethods[op.Method] || op.Method == "Init") && len(op.Args) >= 1 {
			out = append(out, op.Args[0])
		}
	}
	return out
}
