package main

// Replay of the archived sub-agent changes (DESIGN 8.6) as part of the thorough tier: every change
// under /verif/seeded/<prop>-N (breaks the property: the property's own check must report it) and
// every refactoring under /verif/benign/<prop>-xN that is not listed as a known limit (must stay
// silent) is applied IN MEMORY (go/packages overlay; nothing is written, /repo is not touched) and
// the property's rules are run on the result.  A patch that no longer applies to the tree under
// analysis is skipped.

import (
	"bufio"
	"fmt"
	"os"
	"path/filepath"
	"regexp"
	"runtime/debug"
	"sort"
	"strconv"
	"strings"
)

var hunkRe = regexp.MustCompile(`^@@ -(\d+)(?:,(\d+))? \+(\d+)(?:,(\d+))? @@`)

// applyUnifiedDiff returns the patched contents of every file the diff touches (keyed by absolute
// path under repo), or an error if a hunk does not match.
func applyUnifiedDiff(repo string, diff []byte) (map[string][]byte, error) {
	out := map[string][]byte{}
	lines := strings.SplitAfter(string(diff), "\n")
	i := 0
	for i < len(lines) {
		if !strings.HasPrefix(lines[i], "--- ") {
			i++
			continue
		}
		if i+1 >= len(lines) || !strings.HasPrefix(lines[i+1], "+++ ") {
			i++
			continue
		}
		oldName := strings.TrimSpace(strings.TrimPrefix(lines[i], "--- "))
		newName := strings.TrimSpace(strings.TrimPrefix(lines[i+1], "+++ "))
		i += 2
		if newName == "/dev/null" {
			return nil, fmt.Errorf("the patch deletes %s", oldName)
		}
		rel := strings.TrimPrefix(newName, "b/")
		if j := strings.IndexByte(rel, '\t'); j >= 0 {
			rel = rel[:j]
		}
		path := filepath.Join(repo, rel)
		var src []string
		if oldName != "/dev/null" {
			b, ok := out[path]
			if !ok {
				rb, err := os.ReadFile(path)
				if err != nil {
					return nil, err
				}
				b = rb
			}
			src = strings.SplitAfter(string(b), "\n")
			if n := len(src); n > 0 && src[n-1] == "" {
				src = src[:n-1]
			}
		}
		var dst []string
		pos := 0 // index into src
		for i < len(lines) && strings.HasPrefix(lines[i], "@@") {
			m := hunkRe.FindStringSubmatch(lines[i])
			if m == nil {
				return nil, fmt.Errorf("bad hunk header %q", lines[i])
			}
			start, _ := strconv.Atoi(m[1])
			if start > 0 {
				start--
			}
			if oldName == "/dev/null" {
				start = 0
			}
			i++
			// the hunk's body
			type hl struct {
				kind byte
				text string
			}
			var body []hl
			for i < len(lines) {
				l := lines[i]
				if strings.HasPrefix(l, "@@") || strings.HasPrefix(l, "diff ") || strings.HasPrefix(l, "--- ") && i+1 < len(lines) && strings.HasPrefix(lines[i+1], "+++ ") {
					break
				}
				switch {
				case strings.HasPrefix(l, " "), strings.HasPrefix(l, "-"), strings.HasPrefix(l, "+"):
					body = append(body, hl{l[0], l[1:]})
				case strings.HasPrefix(l, "\\"):
				case l == "":
					// the empty string after the diff's final newline
				case strings.TrimSpace(l) == "":
					body = append(body, hl{' ', l})
				default:
					i = len(lines)
					continue
				}
				i++
			}
			var old []string
			for _, b := range body {
				if b.kind != '+' {
					old = append(old, strings.TrimRight(b.text, "\n"))
				}
			}
			matches := func(at int) bool {
				if at < pos || at+len(old) > len(src) {
					return false
				}
				for k, o := range old {
					if strings.TrimRight(src[at+k], "\n") != o {
						return false
					}
				}
				return true
			}
			// like git apply: the stated position first, then growing offsets
			at := -1
			for d := 0; d <= 600 && at < 0; d++ {
				if matches(start + d) {
					at = start + d
				} else if d > 0 && matches(start-d) {
					at = start - d
				}
			}
			if at < 0 {
				return nil, fmt.Errorf("%s: hunk near line %d does not match", rel, start+1)
			}
			dst = append(dst, src[pos:at]...)
			pos = at
			for _, b := range body {
				switch b.kind {
				case ' ':
					dst = append(dst, src[pos])
					pos++
				case '-':
					pos++
				case '+':
					dst = append(dst, b.text)
				}
			}
		}
		dst = append(dst, src[pos:]...)
		out[path] = []byte(strings.Join(dst, ""))
	}
	if len(out) == 0 {
		return nil, fmt.Errorf("no file in the patch")
	}
	return out, nil
}

// benignKnownLimits reads /verif/benign/KNOWN_LIMITS.txt: ids of archived refactorings that are known
// to be answered UNDECIDED / reported (DESIGN 8.6); they are not replayed.
func benignKnownLimits(verif string) map[string]bool {
	out := map[string]bool{}
	f, err := os.Open(filepath.Join(verif, "benign", "KNOWN_LIMITS.txt"))
	if err != nil {
		return out
	}
	defer f.Close()
	sc := bufio.NewScanner(f)
	for sc.Scan() {
		l := strings.TrimSpace(sc.Text())
		if l == "" || strings.HasPrefix(l, "#") {
			continue
		}
		out[strings.Fields(l)[0]] = true
	}
	return out
}

func runArchive(info *PropInfo, repo, verif string) int {
	findings, _ := loadFindings(filepath.Join(verif, "KNOWN_FINDINGS.jsonl"))
	known := map[string]bool{}
	for _, f := range findings {
		if f.Status == "known" {
			known[f.Key] = true
		}
	}
	limits := benignKnownLimits(verif)
	misses := idList(filepath.Join(verif, "seeded", "KNOWN_MISSES.txt"))
	nm := 0
	type item struct {
		id, patch string
		breaking  bool
	}
	var items []item
	for _, kind := range []string{"seeded", "benign"} {
		ds, _ := filepath.Glob(filepath.Join(verif, kind, info.ID+"-*"))
		sort.Strings(ds)
		for _, d := range ds {
			id := filepath.Base(d)
			if kind == "benign" && limits[id] {
				continue
			}
			p := filepath.Join(d, "patch.diff")
			if _, err := os.Stat(p); err == nil {
				items = append(items, item{id, p, kind == "seeded"})
			}
		}
	}
	if len(items) == 0 {
		return 0
	}
	var outs []seedOutcome
	bad := 0
	nf, ns, nk := 0, 0, 0
	for _, it := range items {
		out := seedOutcome{Name: it.id}
		diff, err := os.ReadFile(it.patch)
		var overlay map[string][]byte
		if err == nil {
			overlay, err = applyUnifiedDiff(repo, diff)
		}
		if err != nil {
			out.Status, out.Detail = "skipped", err.Error()
			nk++
			outs = append(outs, out)
			continue
		}
		c, err := runOne(info, repo, "quick", quickMatrix[0], overlay)
		if err != nil {
			out.Status, out.Detail = "skipped", "does not load: "+err.Error()
			nk++
			outs = append(outs, out)
			continue
		}
		out.Failing = failingKeys(c, known)
		switch {
		case it.breaking && len(out.Failing) > 0:
			out.Status = "flagged"
			nf++
		case it.breaking && misses[it.id]:
			// a confirmed breaking change that no rule of this property reports yet: listed, counted and
			// printed on every run, never silently dropped from the archive
			out.Status = "missed-listed"
			nm++
			fmt.Printf("archived change %-10s not reported by %s (listed in seeded/KNOWN_MISSES.txt)\n", it.id, info.ID)
		case it.breaking:
			out.Status = "MISSED"
			bad++
		case len(out.Failing) == 0:
			out.Status = "silent-ok"
			ns++
		default:
			out.Status = "FALSE-ALARM"
			bad++
		}
		if out.Status == "MISSED" || out.Status == "FALSE-ALARM" {
			fmt.Printf("archived change %-10s %s %v\n", it.id, out.Status, out.Failing)
		}
		outs = append(outs, out)
		debug.FreeOSMemory()
	}
	fmt.Printf("%s archived changes: %d replayed in memory, %d breaking reported, %d refactorings silent, %d skipped (patch does not apply to this tree), %d listed misses, %d not as expected\n", info.ID, len(items), nf, ns, nk, nm, bad)
	_ = writeJSON(filepath.Join(verif, "evidence", "selfcheck", info.ID+"-archive.json"), outs)
	if bad > 0 {
		fmt.Fprintf(os.Stderr, "obfsvet: %s: %d archived change(s) not handled as expected\n", info.ID, bad)
		return 2
	}
	return 0
}

// idList reads a file of ids, one per line ('#' starts a comment; the first word of a line is the id).
func idList(path string) map[string]bool {
	out := map[string]bool{}
	b, err := os.ReadFile(path)
	if err != nil {
		return out
	}
	for _, ln := range strings.Split(string(b), "\n") {
		if i := strings.Index(ln, "#"); i >= 0 {
			ln = ln[:i]
		}
		if f := strings.Fields(ln); len(f) > 0 {
			out[f[0]] = true
		}
	}
	return out
}
