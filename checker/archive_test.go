package main

import (
	"os"
	"testing"
)

func TestApplyDiff(t *testing.T) {
	for _, id := range []string{"C03-1", "C03-2", "C11-1"} {
		d, err := os.ReadFile("/verif/seeded/" + id + "/patch.diff")
		if err != nil {
			t.Skip(err)
		}
		m, err := applyUnifiedDiff("/repo", d)
		if err != nil {
			t.Errorf("%s: %v", id, err)
		}
		for k, v := range m {
			t.Logf("%s: %s %d bytes", id, k, len(v))
		}
	}
}
