package main

// E8 — relational bounds analysis (DESIGN 2.9, A.4).  On-demand proof of
// linear integer goals at an instruction from the facts that dominate it:
// branch conditions (E1), SSA definitions, type ranges, library contracts,
// callee summaries by inlining the callee's return cases, non-loop phis by
// joint case split per phi block, and interval invariants of integer fields.
// Entailment is Fourier–Motzkin elimination implemented here; nothing is
// executed and no external solver is used.

import (
	"fmt"
	"go/constant"
	"go/token"
	"go/types"
	"math/big"
	"os"
	"sort"
	"strings"

	"golang.org/x/tools/go/ssa"
)

// Cons is the constraint L <= 0.
type Cons struct{ L Lin }

func le(a, b Lin) Cons        { return Cons{a.Sub(b)} }                  // a <= b
func lt(a, b Lin) Cons        { return Cons{a.Sub(b).Add(linConst(1))} } // a < b
func eq(a, b Lin) []Cons      { return []Cons{le(a, b), le(b, a)} }      // a == b
func ge(a, b Lin) Cons        { return le(b, a) }                        // a >= b
func geC(a Lin, c int64) Cons { return le(linConst(c), a) }              // a >= c
func leC(a Lin, c int64) Cons { return le(a, linConst(c)) }              // a <= c

// ---- Fourier–Motzkin ----------------------------------------------------------

type row struct {
	co map[string]*big.Int
	c  *big.Int
}

func toRow(c Cons) row {
	r := row{co: map[string]*big.Int{}, c: big.NewInt(c.L.C)}
	for k, v := range c.L.T {
		if v != 0 {
			r.co[k] = big.NewInt(v)
		}
	}
	return r
}

// infeasible reports whether the conjunction of constraints has no integer
// solution (sound: true only if there is none over Q after integer
// tightening of each row).
func infeasible(cs []Cons) bool {
	rows := make([]row, 0, len(cs))
	for _, c := range cs {
		rows = append(rows, toRow(c))
	}
	for iter := 0; iter < 64; iter++ {
		// constant rows
		var vars = map[string]int{}
		keep := rows[:0]
		for _, r := range rows {
			if len(r.co) == 0 {
				if r.c.Sign() > 0 {
					return true
				}
				continue
			}
			// normalise by gcd of coefficients, tightening the constant (integers)
			g := new(big.Int)
			for _, v := range r.co {
				g.GCD(nil, nil, g, new(big.Int).Abs(v))
			}
			if g.Cmp(big.NewInt(1)) > 0 {
				for k, v := range r.co {
					r.co[k] = new(big.Int).Quo(v, g)
				}
				// c/g rounded up (ceil) keeps soundness: a·x + c <= 0  ⇒  a'·x + ceil(c/g) <= 0
				q, m := new(big.Int).DivMod(r.c, g, new(big.Int))
				if m.Sign() != 0 {
					q.Add(q, big.NewInt(1))
				}
				r.c = q
			}
			for k := range r.co {
				vars[k]++
			}
			keep = append(keep, r)
		}
		rows = keep
		if len(rows) == 0 {
			return false
		}
		// choose the variable minimising pos*neg
		best, bestCost := "", -1
		var names []string
		for k := range vars {
			names = append(names, k)
		}
		sort.Strings(names)
		for _, k := range names {
			pos, neg := 0, 0
			for _, r := range rows {
				if v, ok := r.co[k]; ok {
					if v.Sign() > 0 {
						pos++
					} else {
						neg++
					}
				}
			}
			cost := pos*neg - pos - neg
			if bestCost == -1 || cost < bestCost {
				best, bestCost = k, cost
			}
		}
		var P, N, Z []row
		for _, r := range rows {
			v, ok := r.co[best]
			switch {
			case !ok:
				Z = append(Z, r)
			case v.Sign() > 0:
				P = append(P, r)
			default:
				N = append(N, r)
			}
		}
		if len(P)*len(N) > 4096 {
			return false // give up: undecided
		}
		for _, a := range P {
			for _, b := range N {
				// a: pa*x + A <= 0 ; b: -nb*x + B <= 0  ⇒ nb*A + pa*B <= 0
				pa := a.co[best]
				nb := new(big.Int).Neg(b.co[best])
				nr := row{co: map[string]*big.Int{}, c: new(big.Int)}
				nr.c.Add(new(big.Int).Mul(nb, a.c), new(big.Int).Mul(pa, b.c))
				for k, v := range a.co {
					if k != best {
						nr.co[k] = new(big.Int).Mul(nb, v)
					}
				}
				for k, v := range b.co {
					if k != best {
						t := new(big.Int).Mul(pa, v)
						if o, ok := nr.co[k]; ok {
							t.Add(t, o)
						}
						if t.Sign() == 0 {
							delete(nr.co, k)
						} else {
							nr.co[k] = t
						}
					}
				}
				Z = append(Z, nr)
			}
		}
		rows = Z
		if len(rows) > 8192 {
			return false
		}
	}
	return false
}

// ---- bounds context -----------------------------------------------------------

type Bounds struct {
	p        *Prog
	word     int
	fieldIv  map[FieldKey]*ival
	fieldLen map[FieldKey]*ival
	busyIv   map[FieldKey]bool
	Assumed  map[string]bool
	depthCap int
}

type ival struct {
	lo, hi       int64
	hasLo, hasHi bool
}

func (p *Prog) NewBounds() *Bounds {
	w := 64
	if p.Cfg.GOARCH == "386" || p.Cfg.GOARCH == "arm" {
		w = 32
	}
	return &Bounds{p: p, word: w, fieldIv: map[FieldKey]*ival{}, fieldLen: map[FieldKey]*ival{}, busyIv: map[FieldKey]bool{}, Assumed: map[string]bool{}, depthCap: 3}
}

// scope is one function instance (the function under analysis, or a callee
// inlined at a call site): atoms are prefixed so that instances do not clash.
type scope struct {
	b      *Bounds
	fn     *ssa.Function
	prefix string
	lc     *linCtx
	parent *scope
	call   ssa.CallInstruction // the call site in parent that this scope inlines / is entered from
	depth  int
	onPath bool // facts of this scope hold on the path under analysis (not a per-case inlined callee)
}

func (b *Bounds) newScope(fn *ssa.Function, prefix string, parent *scope, call ssa.CallInstruction) *scope {
	s := &scope{b: b, fn: fn, prefix: prefix, lc: b.p.newLin(), parent: parent, call: call}
	s.lc.wrapOK = false
	if parent != nil {
		s.depth = parent.depth + 1
	}
	return s
}

// lin returns the linear form of v with scope-prefixed atoms, and registers
// the atoms for later fact generation.
func (s *scope) lin(v ssa.Value, pr *proof) Lin {
	l := s.lc.Of(v)
	out := Lin{T: map[string]int64{}, C: l.C}
	for k, co := range l.T {
		name := s.prefix + k
		out.T[name] = co
		if _, ok := pr.atoms[name]; !ok {
			pr.atoms[name] = atomRef{s, s.lc.rep[k]}
		}
		if !pr.known[name] {
			pr.known[name] = true
			pr.queue = append(pr.queue, name)
		}
	}
	return out
}

type atomRef struct {
	s *scope
	v ssa.Value
}

// split is a disjunction: exactly one of the cases holds.
type split struct {
	key   string
	cases [][]Cons
	// nest[i]: indices (in proof.splits) of the splits that apply only inside case i — what was
	// learnt while that case was built (facts about values first met there, callee summaries,
	// path conditions of phi edges) must not constrain the other cases
	nest  [][]int
	inner bool // listed in some case's nest: not active at the top level
}

type proof struct {
	b      *Bounds
	cons   []Cons
	splits []split
	atoms  map[string]atomRef
	queue  []string
	done   map[string]bool
	seenSp map[string]bool
	errNil map[*ssa.Call]bool
	errNon map[*ssa.Call]bool
	notes  []string
	known  map[string]bool // atoms this proof (or an ancestor, before this one was created) has queued
	depth  int             // nesting depth of case proofs
	budget *int            // case proofs still allowed under the same top-level proof
}

func (b *Bounds) newProof() *proof {
	n := 1500
	return &proof{b: b, atoms: map[string]atomRef{}, done: map[string]bool{}, seenSp: map[string]bool{}, errNil: map[*ssa.Call]bool{}, errNon: map[*ssa.Call]bool{},
		known: map[string]bool{}, budget: &n}
}

// child creates the proof of ONE case of a split of pr: it shares the atom table and what is
// known about call errors on the path, and starts from copies of what pr has already queued,
// expanded and split on (so that it expands only what is new to the case, and a sibling case can
// learn the same things again).
func (pr *proof) child() *proof {
	sub := &proof{b: pr.b, atoms: pr.atoms, errNil: pr.errNil, errNon: pr.errNon, depth: pr.depth + 1, budget: pr.budget,
		done: make(map[string]bool, len(pr.done)), seenSp: make(map[string]bool, len(pr.seenSp)), known: make(map[string]bool, len(pr.known))}
	for k := range pr.done {
		sub.done[k] = true
	}
	for k := range pr.seenSp {
		sub.seenSp[k] = true
	}
	for k := range pr.known {
		sub.known[k] = true
	}
	*pr.budget--
	return sub
}

// absorb turns the finished case proof sub into a case of a split of pr: the atoms first met in
// the case are expanded inside it, and the splits it produced become inner splits of that case.
func (pr *proof) absorb(sub *proof) ([]Cons, []int) {
	if *pr.budget < 0 || sub.depth > 4 {
		// out of budget: keep the plain constraints only (dropping detail weakens the case: sound)
		return sub.cons, nil
	}
	sub.expandAtoms()
	off := len(pr.splits)
	var idx []int
	for _, sp := range sub.splits {
		nsp := sp
		if len(sp.nest) > 0 {
			nsp.nest = make([][]int, len(sp.nest))
			for i, ns := range sp.nest {
				for _, j := range ns {
					nsp.nest[i] = append(nsp.nest[i], j+off)
				}
			}
		}
		if !sp.inner {
			idx = append(idx, len(pr.splits))
		}
		nsp.inner = true
		pr.splits = append(pr.splits, nsp)
	}
	return sub.cons, idx
}

// begin reserves the key of a split that is about to be built (false: already there).
func (pr *proof) begin(key string) bool {
	if pr.seenSp[key] {
		return false
	}
	pr.seenSp[key] = true
	return true
}

// pushSplit adds a split whose key was reserved with begin.
func (pr *proof) pushSplit(key string, cases [][]Cons, nest [][]int) {
	pr.splits = append(pr.splits, split{key: key, cases: cases, nest: nest})
}

func (pr *proof) add(cs ...Cons) { pr.cons = append(pr.cons, cs...) }

func (pr *proof) addSplit(key string, cases [][]Cons) {
	if pr.seenSp[key] {
		return
	}
	pr.seenSp[key] = true
	pr.splits = append(pr.splits, split{key: key, cases: cases})
}

// cmpCons translates "x op y" (already with polarity applied) into
// constraints; != yields a split.
func (s *scope) cmpCons(pr *proof, op token.Token, x, y ssa.Value, key string) {
	if !isIntType(x.Type()) || !isIntType(y.Type()) {
		return
	}
	a, c := s.lin(x, pr), s.lin(y, pr)
	switch op {
	case token.LSS:
		pr.add(lt(a, c))
	case token.LEQ:
		pr.add(le(a, c))
	case token.GTR:
		pr.add(lt(c, a))
	case token.GEQ:
		pr.add(le(c, a))
	case token.EQL:
		pr.add(eq(a, c)...)
	case token.NEQ:
		pr.addSplit("ne:"+key, [][]Cons{{lt(a, c)}, {lt(c, a)}})
	}
}

func negOp(op token.Token) token.Token {
	switch op {
	case token.LSS:
		return token.GEQ
	case token.LEQ:
		return token.GTR
	case token.GTR:
		return token.LEQ
	case token.GEQ:
		return token.LSS
	case token.EQL:
		return token.NEQ
	case token.NEQ:
		return token.EQL
	}
	return token.ILLEGAL
}

// factCons adds the integer content of a branch fact.
func (s *scope) factCons(pr *proof, f Fact) {
	if phi, isPhi := f.Cond.(*ssa.Phi); isPhi && isBoolType(phi.Type()) {
		s.flagSplit(pr, f, phi)
		return
	}
	b, ok := f.Cond.(*ssa.BinOp)
	if !ok {
		return
	}
	op := b.Op
	if !f.Pol {
		op = negOp(op)
	}
	if op == token.ILLEGAL {
		return
	}
	s.cmpCons(pr, op, b.X, b.Y, fmt.Sprintf("%s%p", s.prefix, b))
}

// flagSplit: a merged boolean (x := a && b; if x ...; the result of an inlined predicate) is
// known to have the value f.Pol: one case per way it can have got that value.
func (s *scope) flagSplit(pr *proof, f Fact, phi *ssa.Phi) {
	key := fmt.Sprintf("flag:%s%p/%v", s.prefix, phi, f.Pol)
	if pr.seenSp[key] {
		return
	}
	ff := s.b.p.Facts(s.fn)
	alts := ff.Alternatives([]Fact{f}, 0)
	if len(alts) == 0 || (len(alts) == 1 && len(alts[0]) == 1 && alts[0][0] == f) || !pr.begin(key) {
		return
	}
	var cases [][]Cons
	var nest [][]int
	for _, alt := range alts {
		sub := pr.child()
		for _, g := range alt {
			if g == f {
				continue
			}
			s.factCons(sub, g)
		}
		cs, ns := pr.absorb(sub)
		cases, nest = append(cases, cs), append(nest, ns)
	}
	pr.pushSplit(key, cases, nest)
}

// blockFacts adds all integer facts that hold at block blk of the scope's
// function.
func (s *scope) blockFacts(pr *proof, blk *ssa.BasicBlock) {
	ff := s.b.p.Facts(s.fn)
	// value semantics: facts about earlier events on re-evaluated operands are left out (NCv)
	for _, f := range ff.NCv(blk) {
		s.factCons(pr, f)
		// a module predicate: isValid(x) returned true / false — the facts of the callee's
		// returns that can yield that value
		if cl, isCall := unspill(f.Cond).(*ssa.Call); isCall && isBoolType(cl.Type()) {
			s.boolCaseSplit(pr, cl, f.Pol)
		}
		if x, isNil, ok := FactNilCmp(f); ok {
			if c, idx := callOf(unspill(x)); c != nil {
				if s.onPath && isErrorType(x.Type()) {
					if isNil {
						pr.errNil[c] = true
					} else {
						pr.errNon[c] = true
					}
				}
				if isErrorType(x.Type()) {
					s.errCaseSplit(pr, c, idx, isNil)
				}
			}
		}
	}
}

// boolCaseSplit: a module callee with a single bool result is known to have
// returned want: one case per return statement (and, for a merged result, per
// way it got its value) that can yield want, with the callee's facts there.
func (s *scope) boolCaseSplit(pr *proof, call *ssa.Call, want bool) {
	callee := call.Common().StaticCallee()
	if callee == nil || !s.b.p.inModule(callee) || s.depth >= s.b.depthCap || callee.Blocks == nil {
		return
	}
	if callee.Signature.Results().Len() != 1 {
		return
	}
	for q := s; q != nil; q = q.parent {
		if q.fn == callee {
			return
		}
	}
	key := fmt.Sprintf("boolcase:%s%p/%v", s.prefix, call, want)
	rets := returnsOf(callee)
	if len(rets) == 0 || len(rets) > 12 {
		return
	}
	if !pr.begin(key) {
		return
	}
	var nest [][]int
	ff := s.b.p.Facts(callee)
	prefix := fmt.Sprintf("%s%s@%p/", s.prefix, callee.Name(), call)
	cs := s.b.newScope(callee, prefix, s, call)
	var cases [][]Cons
	for _, r := range rets {
		if ff.Infeasible(r.Block()) {
			continue
		}
		rv := unspill(r.Results[0])
		if k, ok := rv.(*ssa.Const); ok && k.Value != nil && k.Value.Kind() == constant.Bool {
			if constant.BoolVal(k.Value) != want {
				continue
			}
			sub := pr.child()
			cs.blockFacts(sub, r.Block())
			cc, ns := pr.absorb(sub)
			cases, nest = append(cases, cc), append(nest, ns)
			continue
		}
		// the ways the returned expression can have the wanted value
		cond, pol := stripNot(rv, want)
		alts := ff.Alternatives([]Fact{{cond, pol}}, 0)
		if len(alts) == 0 {
			alts = [][]Fact{{{cond, pol}}}
		}
		for _, alt := range alts {
			sub := pr.child()
			cs.blockFacts(sub, r.Block())
			for _, g := range alt {
				cs.factCons(sub, g)
			}
			cc, ns := pr.absorb(sub)
			cases, nest = append(cases, cc), append(nest, ns)
		}
	}
	if len(cases) == 0 {
		cases, nest = [][]Cons{{{linConst(1)}}}, [][]int{nil}
	}
	pr.pushSplit(key, cases, nest)
}

// errCaseSplit: the error result of a module callee is known nil / non-nil:
// only the callee's returns compatible with that are possible; each
// contributes the integer facts that hold at it (parameters bound to the
// arguments).
func (s *scope) errCaseSplit(pr *proof, call *ssa.Call, idx int, isNil bool) {
	callee := call.Common().StaticCallee()
	if callee == nil || !s.b.p.inModule(callee) || s.depth >= s.b.depthCap {
		return
	}
	for q := s; q != nil; q = q.parent {
		if q.fn == callee {
			return
		}
	}
	ei := errResultIndex(callee)
	if ei < 0 || (idx >= 0 && idx != ei) {
		return
	}
	key := fmt.Sprintf("errcase:%s%p/%v", s.prefix, call, isNil)
	rets := returnsOf(callee)
	if len(rets) == 0 || len(rets) > 12 {
		return
	}
	if !pr.begin(key) {
		return
	}
	var nest [][]int
	ff := s.b.p.Facts(callee)
	prefix := fmt.Sprintf("%s%s@%p/", s.prefix, callee.Name(), call)
	cs := s.b.newScope(callee, prefix, s, call)
	var cases [][]Cons
	for _, r := range rets {
		// single-exit style: the error returned is a phi of the return's block — one case per way in
		if phi, isPhi := unspill(r.Results[ei]).(*ssa.Phi); isPhi && phi.Block() == r.Block() && len(phi.Edges) == len(r.Block().Preds) {
			for i, e := range phi.Edges {
				pred := r.Block().Preds[i]
				if ff.EdgeInfeasible(pred, r.Block()) || ff.Infeasible(pred) {
					continue
				}
				constNil := false
				if c, ok := e.(*ssa.Const); ok && c.IsNil() {
					constNil = true
				}
				if isNil && ff.ProvablyNonNil(e, pred, 0) || !isNil && constNil {
					continue
				}
				sub := pr.child()
				cs.blockFacts(sub, pred)
				if ef, ok := edgeFact(pred, r.Block()); ok {
					cs.factCons(sub, ef)
				}
				// the error of a nested module call handed on: its own cases
				if c2, idx2 := callOf(unspill(e)); c2 != nil && !constNil {
					cs.errCaseSplit(sub, c2, idx2, isNil)
				}
				cc, ns := pr.absorb(sub)
				cases, nest = append(cases, cc), append(nest, ns)
			}
			continue
		}
		nonNil := ff.ProvablyNonNil(r.Results[ei], r.Block(), 0)
		constNil := false
		if c, ok := r.Results[ei].(*ssa.Const); ok && c.IsNil() {
			constNil = true
		}
		if isNil && nonNil {
			continue
		}
		if !isNil && constNil {
			continue
		}
		sub := pr.child()
		cs.blockFacts(sub, r.Block())
		cc, ns := pr.absorb(sub)
		cases, nest = append(cases, cc), append(nest, ns)
	}
	if len(cases) == 0 {
		cases, nest = [][]Cons{{{linConst(1)}}}, [][]int{nil} // no compatible return: contradiction
	}
	pr.pushSplit(key, cases, nest)
}

// expandAtoms generates the facts known about every atom that entered the
// proof (type ranges, definitions, contracts, phis, callee summaries, field
// invariants), until no new atom appears.
func (pr *proof) expandAtoms() {
	for rounds := 0; len(pr.queue) > 0 && rounds < 2000; rounds++ {
		name := pr.queue[0]
		pr.queue = pr.queue[1:]
		if pr.done[name] {
			continue
		}
		pr.done[name] = true
		ar := pr.atoms[name]
		if ar.v == nil {
			continue
		}
		ar.s.atomFacts(pr, name, ar.v)
	}
}

func (s *scope) atomLin(name string) Lin { return Lin{T: map[string]int64{name: 1}} }

// lenLin returns the linear form of len(x) for a slice/array/string valued x.
func (s *scope) lenLin(x ssa.Value, pr *proof) (Lin, bool) {
	t := x.Type().Underlying()
	if pt, ok := t.(*types.Pointer); ok {
		if at, ok := pt.Elem().Underlying().(*types.Array); ok {
			return linConst(at.Len()), true
		}
		return Lin{}, false
	}
	if at, ok := t.(*types.Array); ok {
		return linConst(at.Len()), true
	}
	switch t.(type) {
	case *types.Slice, *types.Basic:
	default:
		return Lin{}, false
	}
	name := "len(" + s.lc.refName(unspill(x)) + ")"
	// register as an atom whose rep value is a synthetic len marker: reuse lenOf facts
	full := s.prefix + name
	if _, ok := pr.atoms[full]; !ok {
		pr.atoms[full] = atomRef{s, lenMarker{x: unspill(x)}}
	}
	if !pr.known[full] {
		pr.known[full] = true
		pr.queue = append(pr.queue, full)
	}
	return Lin{T: map[string]int64{full: 1}}, true
}

// lenMarker is a pseudo SSA value standing for len(x).
type lenMarker struct {
	ssa.Value
	x ssa.Value
}

func (lenMarker) Name() string   { return "len" }
func (lenMarker) String() string { return "len" }

func (s *scope) typeRange(pr *proof, a Lin, t types.Type) {
	if !isIntType(t) {
		return
	}
	bits, signed := intWidth(t, s.b.word)
	if !signed {
		pr.add(geC(a, 0))
		if bits <= 32 {
			pr.add(leC(a, (int64(1)<<uint(bits))-1))
		}
	} else if bits < 32 {
		pr.add(geC(a, -(int64(1) << uint(bits-1))))
		pr.add(leC(a, (int64(1)<<uint(bits-1))-1))
	}
}

func (s *scope) atomFacts(pr *proof, name string, v ssa.Value) {
	p := s.b.p
	a := s.atomLin(name)
	if lm, ok := v.(lenMarker); ok {
		pr.add(geC(a, 0))
		s.lenFacts(pr, a, lm.x)
		return
	}
	s.typeRange(pr, a, v.Type())
	switch x := v.(type) {
	case *ssa.Call:
		cm := x.Common()
		if bi, ok := cm.Value.(*ssa.Builtin); ok {
			switch bi.Name() {
			case "len":
				pr.add(geC(a, 0))
				s.lenFacts(pr, a, unspill(cm.Args[0]))
			case "cap":
				pr.add(geC(a, 0))
				if l, ok := s.lenLin(cm.Args[0], pr); ok {
					pr.add(ge(a, l))
				}
			case "copy":
				// n = min(len(dst), len(src))
				pr.add(geC(a, 0))
				ld, ok1 := s.lenLin(cm.Args[0], pr)
				ls, ok2 := s.lenLin(cm.Args[1], pr)
				if ok1 {
					pr.add(le(a, ld))
				}
				if ok2 {
					pr.add(le(a, ls))
				}
				if ok1 && ok2 {
					pr.addSplit(fmt.Sprintf("copy:%s%p", s.prefix, x), [][]Cons{
						append(eq(a, ls), le(ls, ld)),
						append(eq(a, ld), lt(ld, ls)),
					})
				}
			}
			return
		}
		s.callFacts(pr, a, x, -1)
	case *ssa.Extract:
		if c, ok := x.Tuple.(*ssa.Call); ok {
			s.callFacts(pr, a, c, x.Index)
		}
	case *ssa.BinOp:
		s.binopFacts(pr, a, x)
	case *ssa.Convert:
		s.convertFacts(pr, a, x)
	case *ssa.Phi:
		s.phiFacts(pr, a, x)
	case *ssa.Parameter:
		s.paramFacts(pr, a, x)
	case *ssa.UnOp:
		if x.Op == token.MUL {
			s.loadFacts(pr, a, x)
		}
	case *ssa.Index, *ssa.Lookup:
	}
	_ = p
}

// lenFacts: what is known about len(x).
func (s *scope) lenFacts(pr *proof, a Lin, x ssa.Value) {
	p := s.b.p
	x = unspill(x)
	switch y := x.(type) {
	case *ssa.Slice:
		// len(y[l:h]) = h - l with defaults
		lo := linConst(0)
		if y.Low != nil {
			lo = s.lin(y.Low, pr)
		}
		var hi Lin
		if y.High != nil {
			hi = s.lin(y.High, pr)
		} else if l, ok := s.lenLin(y.X, pr); ok {
			hi = l
		} else {
			return
		}
		pr.add(eq(a, hi.Sub(lo))...)
	case *ssa.MakeSlice:
		pr.add(eq(a, s.lin(y.Len, pr))...)
	case *ssa.Convert:
		// []byte(string) / string([]byte): same length
		if l, ok := s.lenLin(y.X, pr); ok {
			if _, isB := y.X.Type().Underlying().(*types.Basic); isB || isByteSlice(y.X.Type()) {
				pr.add(eq(a, l)...)
			}
		}
	case *ssa.ChangeType:
		if l, ok := s.lenLin(y.X, pr); ok {
			pr.add(eq(a, l)...)
		}
	case *ssa.Const:
		if str, ok := constString(y); ok {
			pr.add(eq(a, linConst(int64(len(str))))...)
		} else if y.IsNil() {
			pr.add(eq(a, linConst(0))...)
		}
	case *ssa.Phi:
		// len of a phi of slices: joint split with the phi block (handled via phiFacts on a pseudo basis)
		s.phiLenFacts(pr, a, y)
	case *ssa.Parameter:
		if s.parent != nil && s.call != nil {
			// bind to the argument at the inlined call site
			idx := paramIndex(s.fn, y)
			args := s.call.Common().Args
			if idx >= 0 && idx < len(args) {
				if l, ok := s.parent.lenLin(args[idx], pr); ok {
					pr.add(eq(a, l)...)
				}
			}
		} else {
			s.b.paramLenContract(s, pr, a, y)
		}
	case *ssa.Call:
		s.callLenFacts(pr, a, y, -1)
	case *ssa.Extract:
		if c, ok := y.Tuple.(*ssa.Call); ok {
			s.callLenFacts(pr, a, c, y.Index)
		}
	case *ssa.UnOp:
		if y.Op == token.MUL {
			if fv, ok := y.X.(*ssa.FreeVar); ok {
				// a captured variable loaded again inside a function literal that never assigns it and calls
				// nothing that could: the same slice as at the first load
				if first := stableFreeVarLoad(s.b.p, y, fv); first != nil && first != y {
					if l, ok := s.lenLin(first, pr); ok {
						pr.add(eq(a, l)...)
					}
				}
			}
			if k, ok := fieldAddrKey(y.X); ok {
				if iv := s.b.fieldLenInv(k); iv != nil {
					if iv.hasLo {
						pr.add(geC(a, iv.lo))
					}
					if iv.hasHi {
						pr.add(leC(a, iv.hi))
					}
					s.b.Assumed[fmt.Sprintf("len(%s.%s) in [%s] (verified at every store site; initialised-before-use assumed)", k.Type, k.Field, iv)] = true
				}
				// the same field of the same object loaded again with nothing in between that
				// stores to it: the same slice
				if prev := s.b.p.previousLoad(y, k); prev != nil {
					if l, ok := s.lenLin(prev, pr); ok {
						pr.add(eq(a, l)...)
					}
				}
			}
		}
	}
	_ = p
}

// stableFreeVarLoad: the first load of the captured variable fv in ld's function, provided that function never
// stores to fv and calls only builtins and library functions that are handed no function, interface or
// module-typed pointer (nothing that could run module code assigning the variable).
func stableFreeVarLoad(p *Prog, ld *ssa.UnOp, fv *ssa.FreeVar) *ssa.UnOp {
	fn := ld.Parent()
	var first *ssa.UnOp
	stable := true
	allInstrs(fn, func(in ssa.Instruction) {
		switch x := in.(type) {
		case *ssa.UnOp:
			if x.Op == token.MUL && x.X == ssa.Value(fv) && first == nil {
				first = x
			}
		case *ssa.Store:
			if x.Addr == ssa.Value(fv) {
				stable = false
			}
		case ssa.CallInstruction:
			if _, isB := x.Common().Value.(*ssa.Builtin); isB {
				return
			}
			callee := x.Common().StaticCallee()
			if callee == nil || p.inModule(callee) {
				stable = false
				return
			}
			for _, arg := range x.Common().Args {
				switch t := arg.Type().Underlying().(type) {
				case *types.Interface, *types.Signature:
					stable = false
				case *types.Pointer:
					if nt, ok := t.Elem().(*types.Named); ok && nt.Obj().Pkg() != nil && strings.HasPrefix(nt.Obj().Pkg().Path(), modulePath) {
						stable = false
					}
				}
			}
		}
	})
	if !stable {
		return nil
	}
	return first
}

// previousLoad finds the closest earlier load of the same field of the same
// object, walking backwards through the block and its chain of unique
// predecessors, with no store to that field (directly or in a module callee)
// in between.
func (p *Prog) previousLoad(ld *ssa.UnOp, k FieldKey) *ssa.UnOp {
	key := objKey(ld)
	blk := ld.Block()
	pos := -1
	for i, in := range blk.Instrs {
		if in == ssa.Instruction(ld) {
			pos = i
		}
	}
	writers := map[*ssa.Function]bool{}
	for _, st := range p.stores[k] {
		writers[st.Fn] = true
	}
	for hops := 0; hops < 8 && blk != nil; hops++ {
		for i := pos - 1; i >= 0; i-- {
			switch x := blk.Instrs[i].(type) {
			case *ssa.UnOp:
				if x.Op == token.MUL && x != ld {
					if k2, ok := fieldAddrKey(x.X); ok && k2 == k && objKey(x) == key {
						return x
					}
				}
			case *ssa.Store:
				if k2, ok := fieldAddrKey(x.Addr); ok && k2 == k {
					return nil
				}
				// a store through a pointer to a struct that embeds the field (whole-struct assignment)
				if _, isFA := x.Addr.(*ssa.FieldAddr); !isFA {
					if _, isIA := x.Addr.(*ssa.IndexAddr); !isIA {
						if _, isAl := x.Addr.(*ssa.Alloc); !isAl {
							return nil
						}
					}
				}
			case ssa.CallInstruction:
				if _, isB := x.Common().Value.(*ssa.Builtin); isB {
					continue
				}
				callee := x.Common().StaticCallee()
				if callee == nil {
					if x.Common().IsInvoke() || len(writers) > 0 {
						// dynamic call: could reach a writer of the field
						for w := range writers {
							_ = w
							return nil
						}
					}
					continue
				}
				if !p.inModule(callee) {
					// library code cannot name the field, but it can call back into the module
					// through an interface, function or module-typed pointer it was given
					for _, arg := range x.Common().Args {
						switch t := arg.Type().Underlying().(type) {
						case *types.Interface, *types.Signature:
							return nil
						case *types.Pointer:
							if nt, ok := t.Elem().(*types.Named); ok && nt.Obj().Pkg() != nil && strings.HasPrefix(nt.Obj().Pkg().Path(), modulePath) {
								return nil
							}
						}
					}
					continue
				}
				for fn := range p.Reachable(callee) {
					if writers[fn] {
						return nil
					}
				}
			}
		}
		if len(blk.Preds) != 1 {
			return nil
		}
		blk = blk.Preds[0]
		pos = len(blk.Instrs)
	}
	return nil
}

func isByteSlice(t types.Type) bool {
	sl, ok := t.Underlying().(*types.Slice)
	if !ok {
		return false
	}
	b, ok := sl.Elem().Underlying().(*types.Basic)
	return ok && b.Kind() == types.Uint8
}

func paramIndex(fn *ssa.Function, q *ssa.Parameter) int {
	for i, x := range fn.Params {
		if x == q {
			return i
		}
	}
	return -1
}

func (iv *ival) String() string {
	lo, hi := "-inf", "+inf"
	if iv.hasLo {
		lo = fmt.Sprint(iv.lo)
	}
	if iv.hasHi {
		hi = fmt.Sprint(iv.hi)
	}
	return lo + "," + hi
}

func (s *scope) binopFacts(pr *proof, a Lin, x *ssa.BinOp) {
	if !isIntType(x.Type()) {
		return
	}
	if bits, signed := intWidth(x.Type(), s.b.word); !signed && (x.Op == token.ADD || x.Op == token.SUB || x.Op == token.MUL) {
		// exact unless it wraps
		s.lc.wrapOK = true
		xl, yl := s.lin(x.X, pr), s.lin(x.Y, pr)
		s.lc.wrapOK = false
		var e Lin
		okLin := true
		switch x.Op {
		case token.ADD:
			e = xl.Add(yl)
		case token.SUB:
			e = xl.Sub(yl)
		case token.MUL:
			if c, ok := xl.IsConst(); ok {
				e = yl.Scale(c)
			} else if c, ok := yl.IsConst(); ok {
				e = xl.Scale(c)
			} else {
				okLin = false
			}
		}
		if okLin && bits <= 62 {
			max := (int64(1) << uint(bits)) - 1
			M := max + 1
			// exact, wrapped once below (a = e + 2^bits), wrapped once above (a = e - 2^bits), further out
			pr.addSplit("uwrap:"+fmt.Sprintf("%s%p", s.prefix, x), [][]Cons{
				append(eq(a, e), geC(e, 0), leC(e, max)),
				append(eq(a, e.Add(linConst(M))), leC(e, -1), geC(e, -M)),
				append(eq(a, e.Sub(linConst(M))), geC(e, M), leC(e, 2*M-1)),
				{leC(e, -M-1)},
				{geC(e, 2*M)},
			})
		}
		return
	}
	switch x.Op {
	case token.REM:
		if c, ok := intConst(x.Y); ok && c > 0 {
			pr.add(leC(a, c-1))
			pr.add(geC(a, -(c - 1)))
			xl := s.lin(x.X, pr)
			// if x >= 0 then 0 <= r <= x
			pr.addSplit("rem:"+fmt.Sprintf("%p", x), [][]Cons{
				{geC(xl, 0), geC(a, 0), le(a, xl)},
				{leC(xl, -1), leC(a, 0)},
			})
		}
	case token.QUO:
		if c, ok := intConst(x.Y); ok && c > 0 {
			xl := s.lin(x.X, pr)
			// for x >= 0: c*q <= x < c*q + c
			pr.addSplit("quo:"+fmt.Sprintf("%p", x), [][]Cons{
				{geC(xl, 0), geC(a, 0), le(a.Scale(c), xl), lt(xl, a.Scale(c).Add(linConst(c)))},
				{leC(xl, -1), leC(a, 0)},
			})
		}
	case token.AND:
		for _, side := range []ssa.Value{x.X, x.Y} {
			if c, ok := intConst(side); ok && c >= 0 {
				pr.add(geC(a, 0), leC(a, c))
			}
		}
	case token.SHR:
		if _, signed := intWidth(x.X.Type(), s.b.word); !signed {
			pr.add(geC(a, 0), le(a, s.lin(x.X, pr)))
		}
	case token.OR, token.SHL:
		// byte-assembly idiom: int(b0)<<8 | int(b1) with uint8 operands
		if lo, hi, ok := s.smallRange(x); ok {
			pr.add(geC(a, lo), leC(a, hi))
		}
	}
}

// smallRange computes a constant range for expressions built from narrow
// unsigned values with <<, |, & (enough for big-endian byte assembly).
func (s *scope) smallRange(v ssa.Value) (int64, int64, bool) {
	v = unspill(v)
	switch x := v.(type) {
	case *ssa.Const:
		if c, ok := intConst(x); ok && c >= 0 {
			return c, c, true
		}
	case *ssa.Convert:
		if isIntType(x.X.Type()) {
			bits, signed := intWidth(x.X.Type(), s.b.word)
			if !signed && bits <= 16 {
				return 0, (1 << uint(bits)) - 1, true
			}
			return s.smallRange(x.X)
		}
	case *ssa.BinOp:
		switch x.Op {
		case token.SHL:
			if k, ok := intConst(x.Y); ok && k >= 0 && k <= 24 {
				if _, hi, ok := s.smallRange(x.X); ok && hi < 1<<24 {
					return 0, hi << uint(k), true
				}
			}
		case token.OR, token.ADD:
			_, h1, ok1 := s.smallRange(x.X)
			_, h2, ok2 := s.smallRange(x.Y)
			if ok1 && ok2 {
				// OR of non-negative values is below the next power of two above max
				m := h1
				if h2 > m {
					m = h2
				}
				pw := int64(1)
				for pw <= m {
					pw <<= 1
				}
				if x.Op == token.ADD {
					return 0, h1 + h2, true
				}
				return 0, pw - 1, true
			}
		}
	default:
		if isIntType(v.Type()) {
			bits, signed := intWidth(v.Type(), s.b.word)
			if !signed && bits <= 16 {
				return 0, (1 << uint(bits)) - 1, true
			}
		}
	}
	return 0, 0, false
}

// convertFacts: a narrowing or sign-changing conversion equals its operand
// when the operand is in range; the split records both possibilities so that
// the proof must show the out-of-range case impossible (or irrelevant).
func (s *scope) convertFacts(pr *proof, a Lin, x *ssa.Convert) {
	if !isIntType(x.Type()) || !isIntType(x.X.Type()) {
		return
	}
	tb, ts := intWidth(x.Type(), s.b.word)
	xl := s.lin(x.X, pr)
	var lo, hi int64
	if ts {
		if tb >= 63 {
			// conversion to a 64-bit signed type from anything narrower or unsigned<=63 bits
			pr.addSplit("conv:"+fmt.Sprintf("%p", x), [][]Cons{append(eq(a, xl), geC(xl, -(1<<62)), leC(xl, 1<<62)), {}})
			return
		}
		lo, hi = -(int64(1) << uint(tb-1)), (int64(1)<<uint(tb-1))-1
	} else {
		lo = 0
		if tb >= 63 {
			pr.addSplit("conv:"+fmt.Sprintf("%p", x), [][]Cons{append(eq(a, xl), geC(xl, 0)), {leC(xl, -1)}})
			return
		}
		hi = (int64(1) << uint(tb)) - 1
	}
	pr.addSplit("conv:"+fmt.Sprintf("%p", x), [][]Cons{
		append(eq(a, xl), geC(xl, lo), leC(xl, hi)),
		{leC(xl, lo-1)},
		{geC(xl, hi+1)},
	})
}

// isBackEdge: edge pred→blk where blk dominates pred.
func isBackEdge(pred, blk *ssa.BasicBlock) bool { return blk.Dominates(pred) }

func (s *scope) phiFacts(pr *proof, a Lin, x *ssa.Phi) {
	if !isIntType(x.Type()) {
		return
	}
	blk := x.Block()
	loop := false
	for _, pred := range blk.Preds {
		if isBackEdge(pred, blk) {
			loop = true
		}
	}
	if loop {
		// len-congruent parallel phis: x = phi(len(y1), len(y2), ...) next to y = phi(y1, y2, ...) ⇒ x == len(y)
		for _, in := range blk.Instrs {
			y, ok := in.(*ssa.Phi)
			if !ok {
				break
			}
			if y == x || len(y.Edges) != len(x.Edges) {
				continue
			}
			if _, isSl := y.Type().Underlying().(*types.Slice); !isSl {
				continue
			}
			cong := true
			for i := range x.Edges {
				c, _ := callOf(unspill(x.Edges[i]))
				if c == nil {
					cong = false
					break
				}
				bi, isB := c.Common().Value.(*ssa.Builtin)
				if !isB || bi.Name() != "len" || unspill(c.Common().Args[0]) != unspill(y.Edges[i]) {
					cong = false
					break
				}
			}
			if cong {
				if l, ok := s.lenLin(y, pr); ok {
					pr.add(eq(a, l)...)
				}
			}
		}
		// monotone counter heuristic: phi = [init, phi + c (c>0)] ⇒ phi >= init
		var inits []ssa.Value
		mono := true
		for i, e := range x.Edges {
			if isBackEdge(blk.Preds[i], blk) {
				b, ok := unspill(e).(*ssa.BinOp)
				if !ok || b.Op != token.ADD {
					mono = false
					break
				}
				nonNeg := func(v ssa.Value) bool {
					if c, okc := intConst(v); okc {
						return c >= 0
					}
					// len(x), cap(x), copy(d, s) are never negative
					if cl, _ := callOf(unspill(v)); cl != nil {
						if bi, isB := cl.Common().Value.(*ssa.Builtin); isB && (bi.Name() == "len" || bi.Name() == "cap" || bi.Name() == "copy") {
							return true
						}
					}
					return false
				}
				if !(unspill(b.X) == ssa.Value(x) && nonNeg(b.Y)) && !(unspill(b.Y) == ssa.Value(x) && nonNeg(b.X)) {
					mono = false
					break
				}
			} else {
				inits = append(inits, e)
			}
		}
		if mono {
			for _, in := range inits {
				if c, ok := intConst(in); ok {
					if len(inits) == 1 {
						pr.add(geC(a, c))
					}
				}
			}
		}
		// ... and the mirror image: phi = [init, phi - c (c>=0)] ⇒ phi <= init (down-counting loops)
		down := true
		var dinits []ssa.Value
		for i, e := range x.Edges {
			if isBackEdge(blk.Preds[i], blk) {
				b, ok := unspill(e).(*ssa.BinOp)
				if !ok {
					down = false
					break
				}
				okd := false
				if b.Op == token.SUB && unspill(b.X) == ssa.Value(x) {
					if c, okc := intConst(b.Y); okc && c >= 0 {
						okd = true
					}
				}
				if b.Op == token.ADD {
					if c, okc := intConst(b.Y); okc && c <= 0 && unspill(b.X) == ssa.Value(x) {
						okd = true
					}
					if c, okc := intConst(b.X); okc && c <= 0 && unspill(b.Y) == ssa.Value(x) {
						okd = true
					}
				}
				if !okd {
					down = false
					break
				}
			} else {
				dinits = append(dinits, e)
			}
		}
		if down && len(dinits) == 1 {
			if c, ok := intConst(dinits[0]); ok {
				pr.add(leC(a, c))
			}
		}
		return
	}
	s.phiBlockSplit(pr, blk)
}

func (s *scope) phiLenFacts(pr *proof, a Lin, x *ssa.Phi) {
	blk := x.Block()
	for _, pred := range blk.Preds {
		if isBackEdge(pred, blk) {
			return
		}
	}
	s.phiBlockSplit(pr, blk)
}

// phiBlockSplit adds one joint split for all integer (and slice-length) phis
// of blk: case i = "came through predecessor i".
func (s *scope) phiBlockSplit(pr *proof, blk *ssa.BasicBlock) {
	key := fmt.Sprintf("phi:%s%p", s.prefix, blk)
	if !pr.begin(key) {
		return
	}
	ff := s.b.p.Facts(s.fn)
	var cases [][]Cons
	var nest [][]int
	for i, pred := range blk.Preds {
		sub := pr.child()
		for _, in := range blk.Instrs {
			phi, ok := in.(*ssa.Phi)
			if !ok {
				break
			}
			if isIntType(phi.Type()) {
				sub.add(eq(s.lin(phi, sub), s.lin(phi.Edges[i], sub))...)
			} else if l, ok := s.lenLin(phi, sub); ok {
				if le2, ok := s.lenLin(phi.Edges[i], sub); ok {
					sub.add(eq(l, le2)...)
				}
			}
		}
		for _, f := range ff.NCv(pred) {
			s.factCons(sub, f)
		}
		if ef, ok := edgeFact(pred, blk); ok {
			s.factCons(sub, ef)
		}
		cc, ns := pr.absorb(sub)
		cases, nest = append(cases, cc), append(nest, ns)
	}
	pr.pushSplit(key, cases, nest)
}

func (s *scope) paramFacts(pr *proof, a Lin, x *ssa.Parameter) {
	if s.parent != nil && s.call != nil {
		idx := paramIndex(s.fn, x)
		args := s.call.Common().Args
		if idx >= 0 && idx < len(args) && isIntType(x.Type()) {
			pr.add(eq(a, s.parent.lin(args[idx], pr))...)
		}
	}
}

// loadFacts: integer loaded from memory.
func (s *scope) loadFacts(pr *proof, a Lin, x *ssa.UnOp) {
	if !isIntType(x.Type()) {
		return
	}
	if fa, ok := x.X.(*ssa.FieldAddr); ok {
		if k, ok := fieldKeyOf(fa.X.Type(), fa.Field); ok {
			if iv := s.b.fieldInterval(k); iv != nil {
				if iv.hasLo {
					pr.add(geC(a, iv.lo))
				}
				if iv.hasHi {
					pr.add(leC(a, iv.hi))
				}
			}
		}
	}
	// element of a local constant table
	if vals, ok := constTable(x); ok && len(vals) > 0 {
		pr.add(geC(a, vals[0]), leC(a, vals[len(vals)-1]))
	}
}

// ---- proving ------------------------------------------------------------------

// Prove tries to establish goal (a conjunction: every Cons must hold) at
// instruction `at` of fn, from the facts that dominate it.  If that fails and
// fn has static call sites in the module, the goal is proved separately in
// the context of every call site (parameters bound to the arguments, plus the
// facts that dominate the call) — the "requires" side of an internal contract
// — recursively up to depth 3.
func (b *Bounds) Prove(fn *ssa.Function, at ssa.Instruction, mk func(s *scope, pr *proof) []Cons) (bool, string) {
	return b.proveCtx(fn, at.Block(), mk, nil, 0, nil)
}

type ctxFrame struct {
	caller *ssa.Function
	call   ssa.CallInstruction
}

// buildScopes creates the scope chain outermost caller → fn and loads the
// facts of every frame.
func (b *Bounds) buildScopes(fn *ssa.Function, blk *ssa.BasicBlock, ctx []ctxFrame, pr *proof) *scope {
	var parent *scope
	for i, fr := range ctx {
		s := b.newScope(fr.caller, fmt.Sprintf("c%d:", i), parent, nil)
		s.onPath = true
		if parent != nil {
			s.call = ctx[i-1].call
		}
		s.blockFacts(pr, fr.call.Block())
		parent = s
	}
	prefix := ""
	if len(ctx) > 0 {
		prefix = "f:"
	}
	s := b.newScope(fn, prefix, parent, nil)
	if parent != nil {
		s.call = ctx[len(ctx)-1].call
	}
	s.depth = 0
	s.onPath = true
	s.blockFacts(pr, blk)
	return s
}

func (b *Bounds) proveCtx(fn *ssa.Function, blk *ssa.BasicBlock, mk func(s *scope, pr *proof) []Cons, ctx []ctxFrame, depth int, hyp func(s *scope, pr *proof)) (bool, string) {
	pr := b.newProof()
	s := b.buildScopes(fn, blk, ctx, pr)
	var goals []Cons
	if mk != nil {
		goals = mk(s, pr)
		if len(goals) == 0 {
			return false, "the goal cannot be expressed (a length or value in it is not modelled)"
		}
	}
	if hyp != nil {
		hyp(s, pr)
	}
	pr.expandAtoms()
	ok := true
	why := ""
	if mk == nil {
		if os.Getenv("OBFSVET_DEBUG") != "" {
			for _, c := range pr.cons {
				fmt.Println("DEBUG cons", c.L, "<= 0")
			}
			for _, sp := range pr.splits {
				fmt.Println("DEBUG split", sp.key, len(sp.cases))
				for _, cs := range sp.cases {
					for _, c := range cs {
						fmt.Println("DEBUG    ", c.L, "<= 0")
					}
					fmt.Println("DEBUG    --")
				}
			}
		}
		var all []int
		for i, sp := range pr.splits {
			if !sp.inner {
				all = append(all, i)
			}
		}
		if !pr.refute(pr.cons, 0, all) {
			ok, why = false, fmt.Sprintf("%d facts are satisfiable", len(pr.cons))
		}
	}
	for _, g := range goals {
		neg := Cons{g.L.Scale(-1).Add(linConst(1))}
		if !pr.refute(append(append([]Cons{}, pr.cons...), neg), 0, relevantSplits(pr, neg)) {
			ok, why = false, fmt.Sprintf("cannot prove %s <= 0 from %d facts, %d case splits", g.L, len(pr.cons), len(pr.splits))
			break
		}
	}
	if ok {
		return true, fmt.Sprintf("%d facts, %d case splits, call-context depth %d", len(pr.cons), len(pr.splits), len(ctx))
	}
	// try in the context of every call site of the outermost function
	outer := fn
	if len(ctx) > 0 {
		outer = ctx[0].caller
	}
	sites := b.p.SitesOf(outer)
	if depth >= 3 || len(sites) == 0 || len(sites) > 24 {
		return false, why
	}
	for _, cs := range sites {
		nctx := append([]ctxFrame{{cs.Caller, cs.Instr}}, ctx...)
		// avoid recursion cycles
		cyc := false
		for _, fr := range ctx {
			if fr.caller == cs.Caller {
				cyc = true
			}
		}
		if cyc || cs.Caller == fn {
			return false, why
		}
		if ok2, why2 := b.proveCtx(fn, blk, mk, nctx, depth+1, hyp); !ok2 {
			return false, fmt.Sprintf("%s; in the context of the call at %s: %s", why, b.p.InstrPos(cs.Instr), why2)
		}
	}
	return true, fmt.Sprintf("holds at all %d call sites of %s", len(sites), b.p.FuncKey(outer))
}

// Unreachable proves that the facts at block blk are contradictory (locally
// or in the context of every call site).
// RefuteWith proves that the facts at blk together with the hypotheses that
// hyp adds are contradictory (locally or in the context of every call site).
func (b *Bounds) RefuteWith(fn *ssa.Function, blk *ssa.BasicBlock, hyp func(s *scope, pr *proof)) (bool, string) {
	return b.proveCtx(fn, blk, nil, nil, 0, hyp)
}

func (b *Bounds) Unreachable(fn *ssa.Function, blk *ssa.BasicBlock) (bool, string) {
	return b.proveCtx(fn, blk, nil, nil, 0, nil)
}

// relevantSplits selects the splits that share atoms (transitively) with the
// negated goal.
func relevantSplits(pr *proof, neg Cons) []int {
	rel := map[string]bool{}
	for k := range neg.L.T {
		rel[k] = true
	}
	changed := true
	for changed {
		changed = false
		touch := func(c Cons) {
			hit := false
			for k := range c.L.T {
				if rel[k] {
					hit = true
				}
			}
			if hit {
				for k := range c.L.T {
					if !rel[k] {
						rel[k] = true
						changed = true
					}
				}
			}
		}
		for _, c := range pr.cons {
			touch(c)
		}
		for _, sp := range pr.splits {
			for _, cs := range sp.cases {
				for _, c := range cs {
					touch(c)
				}
			}
		}
	}
	var out []int
	for i, sp := range pr.splits {
		if sp.inner {
			continue
		}
		hit := false
		for _, cs := range sp.cases {
			for _, c := range cs {
				for k := range c.L.T {
					if rel[k] {
						hit = true
					}
				}
			}
		}
		if hit {
			out = append(out, i)
		}
	}
	return out
}

// refute: cons ∧ (one case of each remaining split) is infeasible for every
// combination.  Splits are applied lazily: first try without them.
func (pr *proof) refute(cons []Cons, depth int, splits []int) bool {
	if infeasible(cons) {
		return true
	}
	if len(splits) == 0 || depth > 12 {
		return false
	}
	// try each remaining split as the next one to apply; prefer the one that closes all its cases directly
	for idx, si := range splits {
		sp := pr.splits[si]
		all := true
		for _, cs := range sp.cases {
			if !infeasible(append(append([]Cons{}, cons...), cs...)) {
				all = false
				break
			}
		}
		if all {
			return true
		}
		_ = idx
	}
	// otherwise commit to the first split and recurse
	si := splits[0]
	rest := splits[1:]
	for ci, cs := range pr.splits[si].cases {
		act := rest
		if ci < len(pr.splits[si].nest) && len(pr.splits[si].nest[ci]) > 0 {
			// what was learnt inside this case applies from here on
			act = append(append([]int{}, pr.splits[si].nest[ci]...), rest...)
		}
		if !pr.refute(append(append([]Cons{}, cons...), cs...), depth+1, act) {
			return false
		}
	}
	return true
}

// ---- intervals of integer fields ------------------------------------------------

// rangeAt computes constant bounds of integer value v at instruction at.
func (b *Bounds) rangeAt(fn *ssa.Function, at ssa.Instruction, v ssa.Value) *ival {
	iv := &ival{}
	if c, ok := intConst(v); ok {
		return &ival{c, c, true, true}
	}
	// candidate bounds: try a ladder of constants taken from the function's integer constants
	cands := map[int64]bool{0: true, 1: true, -1: true}
	var collect func(f *ssa.Function, d int)
	seenFn := map[*ssa.Function]bool{}
	collect = func(f *ssa.Function, d int) {
		if seenFn[f] || d > 2 {
			return
		}
		seenFn[f] = true
		allInstrs(f, func(in ssa.Instruction) {
			for _, op := range in.Operands(nil) {
				if *op != nil {
					if c, ok := intConst(*op); ok && c > -(1<<40) && c < 1<<40 {
						cands[c], cands[c-1], cands[c+1] = true, true, true
					}
				}
			}
			// constants of module callees (a range test moved into a predicate helper)
			if call, ok := in.(ssa.CallInstruction); ok && d < 2 {
				if callee := call.Common().StaticCallee(); callee != nil && b.p.inModule(callee) && callee.Blocks != nil {
					calleeConsts(callee, cands)
				}
			}
		})
		for _, cs := range b.p.SitesOf(f) {
			collect(cs.Caller, d+1)
		}
	}
	collect(fn, 0)
	bits, signed := 64, true
	if isIntType(v.Type()) {
		bits, signed = intWidth(v.Type(), b.word)
	}
	if !signed {
		cands[0] = true
		if bits <= 32 {
			cands[(1<<uint(bits))-1] = true
		}
	}
	var cs []int64
	for c := range cands {
		cs = append(cs, c)
	}
	sort.Slice(cs, func(i, j int) bool { return cs[i] < cs[j] })
	// greatest provable lower bound
	for i := len(cs) - 1; i >= 0; i-- {
		c := cs[i]
		ok, _ := b.Prove(fn, at, func(s *scope, pr *proof) []Cons { return []Cons{geC(s.lin(v, pr), c)} })
		if ok {
			iv.lo, iv.hasLo = c, true
			break
		}
	}
	for _, c := range cs {
		ok, _ := b.Prove(fn, at, func(s *scope, pr *proof) []Cons { return []Cons{leC(s.lin(v, pr), c)} })
		if ok {
			iv.hi, iv.hasHi = c, true
			break
		}
	}
	return iv
}

func (iv *ival) join(o *ival) {
	if !o.hasLo || (iv.hasLo && o.lo < iv.lo) {
		iv.lo, iv.hasLo = o.lo, o.hasLo && iv.hasLo
	}
	if !o.hasHi || (iv.hasHi && o.hi > iv.hi) {
		iv.hi, iv.hasHi = o.hi, o.hasHi && iv.hasHi
	}
}

// fieldInterval: join over all stores to an integer field of the interval of
// the stored value at the store (flow-insensitive invariant).  Fields that
// may be written by reflection (encoding/json targets) are unconstrained.
func (b *Bounds) fieldInterval(k FieldKey) *ival {
	if iv, ok := b.fieldIv[k]; ok {
		return iv
	}
	if b.busyIv[k] {
		return nil
	}
	b.busyIv[k] = true
	defer delete(b.busyIv, k)
	if b.p.reflectWritten(k.Type) {
		b.fieldIv[k] = nil
		return nil
	}
	st := b.p.stores[k]
	if len(st) == 0 {
		b.fieldIv[k] = nil
		return nil
	}
	var acc *ival
	for _, s := range st {
		iv := b.rangeAt(s.Fn, s.Instr, s.Val)
		if acc == nil {
			acc = iv
		} else {
			acc.join(iv)
		}
	}
	// the zero value is always possible before the first store unless every
	// object is built by a composite literal that sets the field
	if !b.p.alwaysInitialised(k) {
		acc.join(&ival{0, 0, true, true})
	}
	if !acc.hasLo && !acc.hasHi {
		acc = nil
	}
	b.fieldIv[k] = acc
	return acc
}

// fieldLenInv: invariant on len() of a slice-typed field.
func (b *Bounds) fieldLenInv(k FieldKey) *ival {
	if iv, ok := b.fieldLen[k]; ok {
		return iv
	}
	b.fieldLen[k] = nil
	if b.p.reflectWritten(k.Type) {
		return nil
	}
	st := b.p.stores[k]
	if os.Getenv("OBFSVET_DEBUG") != "" {
		fmt.Println("DEBUG fieldLenInv", k, len(st), b.p.reflectWritten(k.Type))
	}
	if len(st) == 0 {
		return nil
	}
	var acc *ival
	for _, s := range st {
		if c, ok := s.Val.(*ssa.Const); ok && c.IsNil() {
			continue // nil: guarded by the code's own nil checks (assumption printed by the caller)
		}
		var iv *ival
		ok1, _ := false, ""
		// find constant length via proof of len == c for candidate c's
		exact := []int64{16, 32, 8, 20, 24, 64, 192, 5}
		switch ms := unspill(s.Val).(type) {
		case *ssa.MakeSlice:
			if c, ok := intConst(ms.Len); ok {
				exact = []int64{c}
			}
		case *ssa.Slice:
			// make([]T, const) is compiled to new [const]T + slice
			lo := int64(0)
			okLo := ms.Low == nil
			if ms.Low != nil {
				lo, okLo = intConst(ms.Low)
			}
			if ms.High != nil {
				if hi, ok := intConst(ms.High); ok && okLo {
					exact = []int64{hi - lo}
				}
			} else if n, ok := constLen(ms.X.Type()); ok && okLo {
				exact = []int64{n - lo}
			}
		}
		for _, c := range exact {
			c := c
			ok1, _ = b.Prove(s.Fn, s.Instr, func(sc *scope, pr *proof) []Cons {
				l, ok := sc.lenLin(s.Val, pr)
				if !ok {
					return []Cons{{linConst(1)}}
				}
				return eq(l, linConst(c))
			})
			if ok1 {
				iv = &ival{c, c, true, true}
				break
			}
		}
		if iv == nil {
			// no exact length: look for lower / upper bounds
			iv = &ival{}
			s := s
			lenGoal := func(mk func(l Lin) Cons) bool {
				ok, _ := b.Prove(s.Fn, s.Instr, func(sc *scope, pr *proof) []Cons {
					l, ok := sc.lenLin(s.Val, pr)
					if !ok {
						return []Cons{{linConst(1)}}
					}
					return []Cons{mk(l)}
				})
				return ok
			}
			for _, c := range []int64{192, 64, 32, 24, 20, 16, 8, 5, 2, 1} {
				c := c
				if lenGoal(func(l Lin) Cons { return geC(l, c) }) {
					iv.lo, iv.hasLo = c, true
					break
				}
			}
			for _, c := range []int64{100, 1448, 8192, 65536} {
				c := c
				if lenGoal(func(l Lin) Cons { return leC(l, c) }) {
					iv.hi, iv.hasHi = c, true
					break
				}
			}
			if !iv.hasLo && !iv.hasHi {
				return nil
			}
		}
		if acc == nil {
			acc = iv
		} else {
			acc.join(iv)
		}
	}
	b.fieldLen[k] = acc
	return acc
}

// reflectWritten: is a pointer to this struct type handed to encoding/json?
func (p *Prog) reflectWritten(typ string) bool {
	for _, id := range []string{"encoding/json.Unmarshal", "(*encoding/json.Decoder).Decode"} {
		for _, cs := range p.Sites(id) {
			for _, a := range cs.Instr.Common().Args {
				for _, o := range p.Origins(a) {
					t := o.Type()
					if pt, ok := t.Underlying().(*types.Pointer); ok {
						t = pt.Elem()
					}
					if typeKey(t) == typ {
						return true
					}
				}
				// direct: MakeInterface of *T
				if mi, ok := a.(*ssa.MakeInterface); ok {
					t := mi.X.Type()
					if pt, ok := t.Underlying().(*types.Pointer); ok {
						t = pt.Elem()
					}
					if typeKey(t) == typ {
						return true
					}
				}
			}
		}
	}
	return false
}

// alwaysInitialised: every allocation of the struct type in the module is a
// composite literal / new() immediately followed by a store to the field in
// the same block (so the zero value is never observable), or the type is
// never allocated by the module.
func (p *Prog) alwaysInitialised(k FieldKey) bool {
	ok := true
	found := false
	for _, fn := range p.Funcs {
		allInstrs(fn, func(in ssa.Instruction) {
			a, isA := in.(*ssa.Alloc)
			if !isA {
				return
			}
			t := a.Type().Underlying().(*types.Pointer).Elem()
			if typeKey(t) != k.Type {
				return
			}
			found = true
			stored := false
			for _, r := range *a.Referrers() {
				if fa, isFA := r.(*ssa.FieldAddr); isFA {
					if fk, ok2 := fieldKeyOf(fa.X.Type(), fa.Field); ok2 && fk == k {
						for _, rr := range *fa.Referrers() {
							if st, isSt := rr.(*ssa.Store); isSt && st.Addr == fa && st.Block() == a.Block() {
								stored = true
							}
						}
					}
				}
			}
			if !stored {
				ok = false
			}
		})
	}
	return ok && found
}

// ---- obligations over a function ------------------------------------------------

type BoundObl struct {
	Instr ssa.Instruction
	Kind  string // slice, index, make, panic, conv
	Desc  string
	OK    bool
	Why   string
}

// CheckFunc evaluates every slice/index/make/panic obligation of fn.
func (b *Bounds) CheckFunc(fn *ssa.Function) []BoundObl {
	var out []BoundObl
	allInstrs(fn, func(in ssa.Instruction) {
		switch x := in.(type) {
		case *ssa.Slice:
			o := BoundObl{Instr: in, Kind: "slice"}
			o.Desc = sliceDesc(x)
			if isConstShape(x) {
				return
			}
			o.OK, o.Why = b.Prove(fn, in, func(s *scope, pr *proof) []Cons {
				ln, ok := s.lenLin(x.X, pr)
				if !ok {
					return []Cons{{linConst(1)}}
				}
				lo := linConst(0)
				if x.Low != nil {
					lo = s.lin(x.Low, pr)
				}
				hi := ln
				if x.High != nil {
					hi = s.lin(x.High, pr)
				}
				gs := []Cons{geC(lo, 0), le(lo, hi), le(hi, ln)}
				if x.Max != nil {
					gs = append(gs, le(hi, s.lin(x.Max, pr)))
				}
				return gs
			})
			out = append(out, o)
		case *ssa.IndexAddr:
			if c, ok := intConst(x.Index); ok {
				if l, ok := constLen(x.X.Type()); ok && c >= 0 && c < l {
					return
				}
			}
			o := BoundObl{Instr: in, Kind: "index", Desc: "index " + x.X.Name() + "[" + x.Index.Name() + "]"}
			o.OK, o.Why = b.Prove(fn, in, func(s *scope, pr *proof) []Cons {
				ln, ok := s.lenLin(x.X, pr)
				if !ok {
					return []Cons{{linConst(1)}}
				}
				i := s.lin(x.Index, pr)
				return []Cons{geC(i, 0), lt(i, ln)}
			})
			out = append(out, o)
		case *ssa.Index:
			if c, ok := intConst(x.Index); ok {
				if l, ok := constLen(x.X.Type()); ok && c >= 0 && c < l {
					return
				}
			}
			o := BoundObl{Instr: in, Kind: "index", Desc: "index " + x.X.Name() + "[" + x.Index.Name() + "]"}
			o.OK, o.Why = b.Prove(fn, in, func(s *scope, pr *proof) []Cons {
				ln, ok := s.lenLin(x.X, pr)
				if !ok {
					return []Cons{{linConst(1)}}
				}
				i := s.lin(x.Index, pr)
				return []Cons{geC(i, 0), lt(i, ln)}
			})
			out = append(out, o)
		case *ssa.MakeSlice:
			if _, ok := intConst(x.Len); ok {
				return
			}
			o := BoundObl{Instr: in, Kind: "make", Desc: "make len " + x.Len.Name()}
			// a size that is a small multiple of lengths of slices that already exist (plus a
			// bounded constant) allocates no more than a few times what is held anyway
			if l := b.p.newLin().Of(x.Len); len(l.T) > 0 && l.C >= 0 && l.C <= 1<<20 {
				prop := true
				for name, co := range l.T {
					if !strings.HasPrefix(name, "len(") || co < 1 || co > 4 {
						prop = false
					}
				}
				if prop {
					o.OK, o.Why = true, "proportional to data already held: "+l.String()
					out = append(out, o)
					return
				}
			}
			o.OK, o.Why = b.Prove(fn, in, func(s *scope, pr *proof) []Cons {
				n := s.lin(x.Len, pr)
				return []Cons{geC(n, 0), leC(n, 1<<20)}
			})
			out = append(out, o)
		case *ssa.Call:
			// requires-side of library contracts
			id := b.p.CalleeID(x.Common())
			args := x.Common().Args
			need := int64(0)
			var buf ssa.Value
			switch id {
			case "(encoding/binary.bigEndian).Uint16", "(encoding/binary.littleEndian).Uint16", "(encoding/binary.bigEndian).PutUint16", "(encoding/binary.littleEndian).PutUint16":
				need, buf = 2, args[1]
			case "(encoding/binary.bigEndian).Uint32", "(encoding/binary.littleEndian).Uint32", "(encoding/binary.bigEndian).PutUint32", "(encoding/binary.littleEndian).PutUint32":
				need, buf = 4, args[1]
			case "(encoding/binary.bigEndian).Uint64", "(encoding/binary.littleEndian).Uint64", "(encoding/binary.bigEndian).PutUint64", "(encoding/binary.littleEndian).PutUint64":
				need, buf = 8, args[1]
			}
			if buf != nil {
				if l, ok := constLen(buf.Type()); ok && l >= need {
					return
				}
				if sl, ok := unspill(buf).(*ssa.Slice); ok && isConstShape(sl) {
					l, _ := constLen(sl.X.Type())
					lo := int64(0)
					if sl.Low != nil {
						lo, _ = intConst(sl.Low)
					}
					hi := l
					if sl.High != nil {
						hi, _ = intConst(sl.High)
					}
					if hi-lo >= need {
						return
					}
				}
				o := BoundObl{Instr: in, Kind: "requires", Desc: fmt.Sprintf("%s needs %d bytes", id, need)}
				o.OK, o.Why = b.Prove(fn, in, func(s *scope, pr *proof) []Cons {
					l, ok := s.lenLin(buf, pr)
					if !ok {
						return []Cons{{linConst(1)}}
					}
					return []Cons{geC(l, need)}
				})
				out = append(out, o)
				return
			}
			if id == "(*math/rand.Rand).Intn" || id == "math/rand.Intn" {
				n := args[len(args)-1]
				if c, ok := intConst(n); ok && c > 0 {
					return
				}
				o := BoundObl{Instr: in, Kind: "requires", Desc: "rand.Intn needs n > 0"}
				o.OK, o.Why = b.Prove(fn, in, func(s *scope, pr *proof) []Cons {
					return []Cons{geC(s.lin(n, pr), 1)}
				})
				out = append(out, o)
			}
		case *ssa.Panic:
			o := BoundObl{Instr: in, Kind: "panic", Desc: "explicit panic"}
			o.OK, o.Why = b.Unreachable(fn, in.Block())
			out = append(out, o)
		}
	})
	return out
}

func constLen(t types.Type) (int64, bool) {
	t = t.Underlying()
	if pt, ok := t.(*types.Pointer); ok {
		t = pt.Elem().Underlying()
	}
	if at, ok := t.(*types.Array); ok {
		return at.Len(), true
	}
	return 0, false
}

// isConstShape: slice of a fixed-size array with constant (or absent) bounds
// within range — behaves identically on every execution.
func isConstShape(x *ssa.Slice) bool {
	l, ok := constLen(x.X.Type())
	if !ok {
		return false
	}
	lo, hi := int64(0), l
	if x.Low != nil {
		c, ok := intConst(x.Low)
		if !ok {
			return false
		}
		lo = c
	}
	if x.High != nil {
		c, ok := intConst(x.High)
		if !ok {
			return false
		}
		hi = c
	}
	return 0 <= lo && lo <= hi && hi <= l
}

func sliceDesc(x *ssa.Slice) string {
	n := func(v ssa.Value) string {
		if v == nil {
			return ""
		}
		if c, ok := intConst(v); ok {
			return fmt.Sprint(c)
		}
		return v.Name()
	}
	return fmt.Sprintf("slice %s[%s:%s]", x.X.Name(), n(x.Low), n(x.High))
}

var _ = strings.Join

func calleeConsts(fn *ssa.Function, cands map[int64]bool) {
	allInstrs(fn, func(in ssa.Instruction) {
		for _, op := range in.Operands(nil) {
			if *op != nil {
				if c, ok := intConst(*op); ok && c > -(1<<40) && c < 1<<40 {
					cands[c], cands[c-1], cands[c+1] = true, true, true
				}
			}
		}
	})
}
