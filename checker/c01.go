package main

// C01 — obfs4 delivers the exact byte stream (DESIGN 4, C01): the structural
// clauses R1–R9.

import (
	"fmt"
	"go/token"
	"go/types"
	"sort"
	"strings"

	"golang.org/x/tools/go/ssa"
)

func init() {
	register(&PropInfo{
		ID: "C01", Level: "other", MinObls: 23,
		Explanation: "Static rules over the obfs4 data path: R1 packet layout agreement between makePacket (type@0, BE16(len(data))@1, data@3, zero padding@3+len(data), total 3+len+pad) and readPackets (type@0, BE16@1, payload [3:3+payloadLen]); " +
			"R2 only payload surfaces: the only writer of the application buffer is the payload arm, with exactly that payload slice, under Decode ok and both packet-length checks, and delivery depends on no other condition; R3 frame lock-step of Encoder and Decoder (nonce counter, length mask, all-or-nothing reads); " +
			"R4 Write chops the caller's bytes into packets without gaps and returns their sum; R5 the client keeps the bytes that followed the server handshake (Next(n) with the parser's n, no Reset/Truncate); R6 drain-before-block: the blocking network read of the data phase is skipped while handshake leftovers are pending; " +
			"R7 Read leaves its loop only with data or a fatal error and the decode loop only on empty buffer or error; R8 short-read discipline, and bytes returned together with a read error are still consumed; R9 reader/writer state partition of obfs4Conn.",
		NotCovered: []string{"actual equality and ordering of delivered bytes under every chunking and interleaving (needs execution)", "IAT timing", "behaviour of bytes.Buffer, secretbox and the DRBG themselves"},
		Trusted:    []string{"go/types+go/ssa faithful", "bytes.Buffer and encoding/binary behave as documented"},
		Run:        runC01,
	})
}

const (
	tO4Conn       = "transports/obfs4.obfs4Conn"
	idMakePacket  = "(*$M/transports/obfs4.obfs4Conn).makePacket"
	idReadPackets = "(*$M/transports/obfs4.obfs4Conn).readPackets"
)

func runC01(c *Ctx) {
	if !importing {
		// a connection that panics, spins or is killed by a stale handshake timer delivers nothing: C10's
		// rules for the obfs4 connection code (and the shared distributions) are part of this property
		importObls(c, "C10", runC10, "X10", func(k string) bool { return containsAny(k, "transports/obfs4", "common/probdist") })
		// bytes decoded before a fatal error are handed over before the error is (C05.R5)
		importObls(c, "C05", runC05, "X05", func(k string) bool {
			return containsAny(k, "(*obfs4Conn).Read#error-priority", "(*obfs4Conn).Read#decoded-bytes-first")
		})
	}
	p := c.P
	// a stream whose valid handshake is refused delivers nothing
	c06ParserDecides(c, p, "R10")
	parserVerdictAfterSearch(c, p, "R10")
	freshPerObject(c, p, "R10", "transports/obfs4.obfs4Conn", "readBuffer", "connection")
	noBackgroundConnWrites(c, p, newConnIO(p), "R10", "transports/obfs4")
	// "both directions in use at once from one reader and one writer goroutine": the only state the two
	// goroutines share is the length/delay distributions (the writer samples, the reader re-seeds them)
	if reset, sample := p.Func("common/probdist:(*WeightedDist).Reset"), p.Func("common/probdist:(*WeightedDist).Sample"); reset != nil && sample != nil {
		reach := map[*ssa.Function]bool{}
		for fn := range p.Reachable(reset) {
			if p.inModule(fn) && relPkg(fn.Pkg.Pkg.Path()) == "common/probdist" {
				reach[fn] = true
			}
		}
		c12Locks(c, p, "R9", reset, sample, reach)
	} else {
		c.Obl("R9", "probdist", "WeightedDist.Reset and Sample exist").Undecide("not found")
	}
	c01Layout(c, p)
	c01Surfacing(c, p, "R2")
	if dec := p.Func("transports/obfs4/framing:(*Decoder).Decode"); dec != nil {
		lockstep(c, p, "R3", dec, tDecoder, true)
	} else {
		c.Obl("R3", "decoder", "frame decoder exists").Undecide("Decode not found")
	}
	if enc := p.Func("transports/obfs4/framing:(*Encoder).Encode"); enc != nil {
		lockstep(c, p, "R3", enc, tEncoder, false)
	} else {
		c.Obl("R3", "encoder", "frame encoder exists").Undecide("Encode not found")
	}
	c01WritePath(c, p)
	c01Remainder(c, p)
	c01Loops(c, p)
	cio := newConnIO(p)
	fns := map[*ssa.Function]bool{}
	for _, k := range []string{"transports/obfs4:(*obfs4Conn).readPackets", "transports/obfs4:(*obfs4Conn).clientHandshake", "transports/obfs4:(*obfs4Conn).serverHandshake"} {
		if fn := p.Func(k); fn != nil {
			fns[fn] = true
		}
	}
	n := shortReadRule(c, "R8", p, cio, fns, false)
	ob := c.Obl("R8", "count", "anti-vacuity: the three raw reads of obfs4 are found")
	if n < 3 {
		ob.Undecide("found %d", n)
	} else {
		ob.Hold("%d", n)
	}
	c01ReadWithError(c, p, cio, "R8", "transports/obfs4:(*obfs4Conn).readPackets")
	c01Partition(c, p)
}

// ---- R1 ---------------------------------------------------------------------------

func c01Layout(c *Ctx, p *Prog) {
	mk := p.Func("transports/obfs4:(*obfs4Conn).makePacket")
	rp := p.Func("transports/obfs4:(*obfs4Conn).readPackets")
	ob := c.Obl("R1", "transports/obfs4:(*obfs4Conn).makePacket#layout", "makePacket builds type@0 | BE16(len(data))@1 | data@3 | zero padding@3+len(data) and encodes exactly 3+len(data)+padLen bytes of that array")
	if mk == nil || rp == nil {
		ob.Undecide("makePacket/readPackets not found")
		return
	}
	c.Touch(p.FuncKey(mk))
	c.Touch(p.FuncKey(rp))
	lc := p.newLin()
	bad := ""
	// the packet array: first argument's backing of Encode's payload
	encs := p.CallsIn(mk, idEncode)
	if len(encs) != 1 {
		ob.Violate("%d Encode calls in makePacket", len(encs))
		return
	}
	enc := encs[0]
	pl, ok := unspill(enc.Common().Args[2]).(*ssa.Slice)
	if !ok || pl.Low != nil || pl.High == nil {
		ob.Violate("the encoded payload is not pkt[:pktLen]")
		return
	}
	pkt := bufObjKey(pl)
	var data, padLen, typ *ssa.Parameter
	for _, q := range mk.Params {
		switch {
		case isByteSlice(q.Type()):
			data = q
		case q.Type().String() == "uint16":
			padLen = q
		case q.Type().String() == "uint8":
			typ = q
		}
	}
	if data == nil || padLen == nil || typ == nil {
		ob.Violate("makePacket does not have the (type uint8, data []byte, padLen uint16) parameters")
		return
	}
	dl := Lin{T: map[string]int64{"len(" + data.Name() + ")": 1}}
	// total length
	if !lc.Of(pl.High).Equal(dl.Add(lc.Of(padLen)).Add(linConst(3))) {
		bad = "encoded length is " + lc.Of(pl.High).String() + ", expected 3+len(data)+padLen"
	}
	// type byte
	okType := false
	allInstrs(mk, func(in ssa.Instruction) {
		st, ok := in.(*ssa.Store)
		if !ok {
			return
		}
		if ia, ok := st.Addr.(*ssa.IndexAddr); ok && bufObjKey(ia.X) == pkt {
			if k, ok := intConst(ia.Index); ok && k == 0 && unspill(st.Val) == ssa.Value(typ) {
				okType = true
			}
		}
	})
	if !okType {
		bad = "pkt[0] is not set to the packet type"
	}
	// length field
	puts := p.CallsIn(mk, "(encoding/binary.bigEndian).PutUint16")
	if len(puts) != 1 {
		bad = "the length field is not written with exactly one binary.BigEndian.PutUint16"
	} else {
		a := puts[0].Common().Args
		sl, ok := unspill(a[1]).(*ssa.Slice)
		lo, _ := int64(0), false
		if ok && sl.Low != nil {
			lo, _ = intConst(sl.Low)
		}
		if !ok || bufObjKey(sl) != pkt || lo != 1 {
			bad = "the length field is not written at pkt[1:]"
		}
		if !lc.Of(a[2]).Equal(dl) {
			// uint16(len(data)) is a narrowing conversion: compare the operand
			if cv, ok := unspill(a[2]).(*ssa.Convert); !ok || !lc.Of(cv.X).Equal(dl) {
				bad = "the length field does not carry len(data)"
			}
		}
	}
	// copies
	okData, okPad := false, false
	for _, cp := range p.CallsIn(mk, "builtin:copy") {
		a := cp.Common().Args
		dst, ok := unspill(a[0]).(*ssa.Slice)
		if !ok || bufObjKey(dst) != pkt || dst.Low == nil {
			continue
		}
		if unspill(a[1]) == ssa.Value(data) && lc.Of(dst.Low).Equal(linConst(3)) {
			okData = true
		}
		if src, ok := unspill(a[1]).(*ssa.Slice); ok && lc.Of(dst.Low).Equal(dl.Add(linConst(3))) {
			if g, ok := src.X.(*ssa.Global); ok && strings.Contains(g.Name(), "zero") && src.High != nil && lc.Of(src.High).Equal(lc.Of(padLen)) {
				// the source must never be written
				p.prov()
				if len(p.pi.writes[Loc{Kind: 'g', V: g}]) == 0 {
					okPad = true
				}
			}
		}
	}
	if !okData {
		bad = "data is not copied to pkt[3:]"
	}
	if !okPad {
		// alternative: pkt is a fresh zero-initialised local array and nothing but
		// the type byte, the length field, the data copy and copies of zeros is
		// ever written into it, so whatever follows the data is zero
		if al, isAlloc := unspill(pl.X).(*ssa.Alloc); isAlloc && !al.Heap || isAlloc {
			clean := true
			allInstrs(mk, func(in ssa.Instruction) {
				switch x := in.(type) {
				case *ssa.Store:
					if ia, ok := x.Addr.(*ssa.IndexAddr); ok && bufObjKey(ia.X) == pkt {
						if k, ok := intConst(ia.Index); !ok || k != 0 {
							clean = false
						}
					} else if unspill(x.Addr) == ssa.Value(al) {
						clean = false
					}
				case ssa.CallInstruction:
					id := p.CalleeID(x.Common())
					for i, a := range x.Common().Args {
						sl, ok := unspill(a).(*ssa.Slice)
						if !ok || bufObjKey(sl) != pkt {
							continue
						}
						switch {
						case id == "builtin:copy" && i == 1, id == M(idEncode), id == "builtin:len":
							// reads
						case id == "(encoding/binary.bigEndian).PutUint16" && i == 1:
						case id == "builtin:copy" && i == 0:
							src := unspill(x.Common().Args[1])
							if src == ssa.Value(data) {
								break
							}
							if ss, ok := src.(*ssa.Slice); ok {
								if g, ok := ss.X.(*ssa.Global); ok {
									p.prov()
									// zeros may only land behind the data: offset >= 3+len(data)
									bd := p.NewBounds()
									okOff := false
									if cc, isC := x.(*ssa.Call); isC && sl.Low != nil {
										okOff, _ = bd.Prove(mk, cc, func(s *scope, pr *proof) []Cons {
											dl, _ := s.lenLin(data, pr)
											return []Cons{ge(s.lin(sl.Low, pr), dl.Add(linConst(3)))}
										})
									}
									if len(p.pi.writes[Loc{Kind: 'g', V: g}]) == 0 && okOff {
										break
									}
								}
							}
							clean = false
						default:
							clean = false
						}
					}
				}
			})
			if clean {
				okPad = true
			}
		}
	}
	if !okPad {
		bad = "padding is not padLen bytes of a never-written zero array copied to pkt[3+len(data):]"
	}
	if bad != "" {
		ob.Violate("%s", bad)
	} else {
		ob.HoldNT("pkt[0]=type, PutUint16(pkt[1:], len(data)), copy(pkt[3:], data), copy(pkt[3+len(data):], zero[:padLen]), Encode(pkt[:3+len(data)+padLen])")
	}

	// reader side
	ob = c.Obl("R1", "transports/obfs4:(*obfs4Conn).readPackets#layout", "readPackets reads type@0, BE16 length@1 and surfaces exactly pkt[3:3+length] of the decoded frame")
	info := c01ReaderShape(p, rp)
	if info.err != "" {
		ob.Violate("%s", info.err)
	} else {
		ob.HoldNT("type=pkt[0], length=BigEndian.Uint16(pkt[1:]), payload=pkt[3:3+length], pkt=decoded[0:n] with n from Decode into decoded[:]")
	}
	// accept side: every packet the writer side (or another implementation) may legally produce is taken
	ob = c.Obl("R1", "transports/obfs4:(*obfs4Conn).readPackets#accepts-well-formed", "no well-formed packet is rejected: the two length errors of the reader are unreachable for a decoded frame of 3 <= n <= 1427 bytes whose length field is <= n-3 (this includes the header-only packet n = 3 and a zero-length payload)")
	if info.err != "" || info.dec == nil || info.length == nil {
		ob.Undecide("reader shape not established")
		return
	}
	var decLenV ssa.Value
	for _, r := range *info.dec.Referrers() {
		if ex, ok := r.(*ssa.Extract); ok && ex.Index == 0 {
			decLenV = ex
		}
	}
	if decLenV == nil {
		ob.Undecide("the decoded length is not used")
		return
	}
	bd := p.NewBounds()
	bad = ""
	nErr := 0
	allInstrs(rp, func(in ssa.Instruction) {
		// construction of InvalidPacketLengthError / InvalidPayloadLengthError values
		var t types.Type
		switch x := in.(type) {
		case *ssa.ChangeType:
			t = x.Type()
		case *ssa.Convert:
			t = x.Type()
		case *ssa.MakeInterface:
			t = x.X.Type()
			if _, isC := x.X.(*ssa.Const); !isC {
				return // counted at its conversion
			}
		default:
			return
		}
		nt, ok := t.(*types.Named)
		if !ok || nt.Obj().Pkg() == nil || !strings.HasSuffix(nt.Obj().Pkg().Path(), "transports/obfs4") {
			return
		}
		if nt.Obj().Name() != "InvalidPacketLengthError" && nt.Obj().Name() != "InvalidPayloadLengthError" {
			return
		}
		nErr++
		okR, _ := bd.RefuteWith(rp, in.Block(), func(s *scope, pr *proof) {
			d, l := s.lin(decLenV, pr), s.lin(info.length, pr)
			pr.add(geC(d, 3), leC(d, 1427), geC(l, 0), le(l.Add(linConst(3)), d))
		})
		if !okR {
			bad = "the " + nt.Obj().Name() + " at " + p.InstrPos(in) + " can be raised for a well-formed packet (3 <= n <= 1427, length <= n-3)"
		}
	})
	if nErr == 0 && bad == "" {
		ob.HoldNT("the reader raises no length error of its own in this tree (bounds are decided by the slice obligations)")
		return
	}
	if bad != "" {
		ob.Violate("%s", bad)
	} else {
		ob.HoldNT("%d length-error site(s), each unreachable for well-formed packets", nErr)
	}
}

type readerShape struct {
	dec     *ssa.Call
	pkt     *ssa.Slice
	typ     ssa.Value // load of pkt[0]
	length  *ssa.Call // Uint16 call
	payload *ssa.Slice
	err     string
}

func c01ReaderShape(p *Prog, rp *ssa.Function) readerShape {
	var rs readerShape
	decs := p.CallsIn(rp, idDecode)
	if len(decs) != 1 {
		rs.err = fmt.Sprintf("%d Decode calls in readPackets", len(decs))
		return rs
	}
	rs.dec = decs[0].(*ssa.Call)
	buf := rs.dec.Common().Args[1]
	arr := bufObjKey(buf)
	lc := p.newLin()
	// pkt = decoded[0:n]
	allInstrs(rp, func(in ssa.Instruction) {
		sl, ok := in.(*ssa.Slice)
		if !ok || sl == unspill(buf) {
			return
		}
		if bufObjKey(sl.X) == arr && sl.High != nil {
			if ex, ok := unspill(sl.High).(*ssa.Extract); ok && ex.Tuple == ssa.Value(rs.dec) && ex.Index == 0 {
				if sl.Low == nil || lc.Of(sl.Low).Equal(linConst(0)) {
					rs.pkt = sl
				}
			}
		}
	})
	// the packet is read either through pkt = decoded[0:n] or straight from the decode buffer (whose
	// first n bytes Decode just wrote); in both cases offsets are relative to the start of that buffer
	isBase := func(v ssa.Value) bool {
		v = unspill(v)
		if rs.pkt != nil && v == ssa.Value(rs.pkt) {
			return true
		}
		if v == unspill(buf) {
			return true
		}
		if sl, ok := unspill(buf).(*ssa.Slice); ok && sl.Low == nil && v == unspill(sl.X) {
			return true
		}
		return false
	}
	us := p.CallsIn(rp, "(encoding/binary.bigEndian).Uint16")
	for _, u := range us {
		if sl, ok := unspill(u.Common().Args[1]).(*ssa.Slice); ok && isBase(sl.X) {
			// BE16 reads the first two bytes of its argument: pkt[1:] and pkt[1:h], h >= 3, are the same field
			if k, ok := intConst(sl.Low); ok && k == 1 {
				if sl.High == nil {
					rs.length = u.(*ssa.Call)
				} else if h, ok := intConst(sl.High); ok && h >= 3 {
					rs.length = u.(*ssa.Call)
				}
			}
		}
	}
	if rs.length == nil {
		rs.err = "the payload length is not binary.BigEndian.Uint16(pkt[1:]) of the decoded frame"
		return rs
	}
	allInstrs(rp, func(in ssa.Instruction) {
		switch x := in.(type) {
		case *ssa.UnOp:
			if ia, ok := x.X.(*ssa.IndexAddr); ok && x.Op == token.MUL && isBase(ia.X) {
				if k, ok := intConst(ia.Index); ok && k == 0 {
					rs.typ = x
				}
			}
		case *ssa.Slice:
			if isBase(x.X) && x.Low != nil && x.High != nil && x != rs.pkt {
				lo := lc.Of(x.Low)
				hi := lc.Of(x.High)
				if lo.Equal(linConst(3)) && hi.Sub(lo).Equal(lc.Of(rs.length)) {
					rs.payload = x
				}
			}
		}
	})
	if rs.typ == nil {
		rs.err = "the packet type is not read from pkt[0]"
	} else if rs.payload == nil {
		rs.err = "no slice pkt[3:3+length] is taken: the payload boundaries do not match the writer"
	}
	return rs
}

// ---- R2 ---------------------------------------------------------------------------

// c01Surfacing: who writes the application buffer, with what, under which
// conditions.
func c01Surfacing(c *Ctx, p *Prog, rule string) {
	rp := p.Func("transports/obfs4:(*obfs4Conn).readPackets")
	if rp == nil {
		c.Obl(rule, "readPackets", "readPackets exists").Undecide("not found")
		return
	}
	rs := c01ReaderShape(p, rp)
	// all mutating calls on the object held in obfs4Conn.receiveDecodedBuffer, module-wide
	var writers []ssa.CallInstruction
	for _, fn := range p.Funcs {
		allInstrs(fn, func(in ssa.Instruction) {
			call, ok := in.(ssa.CallInstruction)
			if !ok {
				return
			}
			r, m, _ := recvOf(call)
			if r != nil && isFieldLoad(r, tO4Conn, "receiveDecodedBuffer") && accWriteMethods[m] {
				writers = append(writers, call)
			}
			// the buffer handed to another function
			for _, a := range call.Common().Args {
				if (r == nil || a != r) && isFieldLoad(a, tO4Conn, "receiveDecodedBuffer") {
					writers = append(writers, call)
				}
			}
		})
	}
	ob := c.Obl(rule, tO4Conn+".receiveDecodedBuffer#writers", "the application buffer has exactly one writer, in readPackets")
	if len(writers) != 1 || writers[0].Parent() != rp {
		var ws []string
		for _, w := range writers {
			ws = append(ws, p.InstrPos(w))
		}
		ob.Violate("writers of the application buffer: %v (expected exactly one, in readPackets)", ws)
		return
	}
	W := writers[0]
	ob.HoldNT("single writer at %s", p.InstrPos(W))
	ob = c.Obl(rule, p.FuncKey(rp)+"#surfaces-payload-slice", "what is appended to the application buffer is exactly the payload slice pkt[3:3+length] of the frame Decode just authenticated").At(p.InstrPos(W))
	_, _, wargs := recvOf(W)
	if rs.err != "" {
		ob.Violate("%s", rs.err)
		return
	}
	if len(wargs) != 1 || unspill(wargs[0]) != ssa.Value(rs.payload) {
		ob.Violate("the value written is not pkt[3:3+length] (padding or header bytes would surface, or payload be cut)")
		return
	}
	ob.HoldNT("Write(pkt[3:3+length])")

	// guards
	ff := p.Facts(rp)
	fs := ff.NC(W.Block())
	type need struct {
		name string
		ok   bool
	}
	needs := []*need{{"Decode succeeded (err == nil)", false}, {"decoded length >= 3", false}, {"payload length <= len(pkt)-3", false}, {"packet type == 0 (payload)", false}}
	var unexpected []string
	var decLenV ssa.Value
	for _, r := range *rs.dec.Referrers() {
		if ex, ok := r.(*ssa.Extract); ok && ex.Index == 0 {
			decLenV = ex
		}
	}
	bd := p.NewBounds()
	if decLenV != nil {
		// the two numeric guards, proved from everything known at the write
		ok1, _ := bd.Prove(rp, W, func(s *scope, pr *proof) []Cons { return []Cons{geC(s.lin(decLenV, pr), 3)} })
		ok2, _ := bd.Prove(rp, W, func(s *scope, pr *proof) []Cons {
			return []Cons{le(s.lin(rs.length, pr).Add(linConst(3)), s.lin(decLenV, pr))}
		})
		needs[1].ok, needs[2].ok = ok1, ok2
	}
	if ff.SucceededCalls(W.Block())[rs.dec] {
		needs[0].ok = true
	}
	// H: what a deliverable payload packet satisfies; a condition on the way to
	// the write is harmless iff H implies it
	impliedByH := func(f Fact) bool {
		bo, ok := f.Cond.(*ssa.BinOp)
		if !ok || decLenV == nil || !isIntType(bo.X.Type()) {
			return false
		}
		op := bo.Op
		if f.Pol { // hypothesis is the NEGATION of the fact
			op = negOp(op)
		}
		if op == token.ILLEGAL {
			return false
		}
		okR, _ := bd.RefuteWith(rp, rp.Blocks[0], func(s *scope, pr *proof) {
			d, l := s.lin(decLenV, pr), s.lin(rs.length, pr)
			pr.add(geC(d, 3), leC(d, 1430), geC(l, 1), le(l.Add(linConst(3)), d))
			s.cmpCons(pr, op, bo.X, bo.Y, "c01:neg")
		})
		return okR
	}
	for _, f := range fs {
		switch {
		case func() bool {
			x, isNil, ok := FactNilCmp(f)
			cc, _ := callOf(unspill(x))
			return ok && isNil && cc == rs.dec
		}():
			needs[0].ok = true
		case func() bool {
			call, ok := p.FactCallBool(f, "errors.Is")
			if !ok || f.Pol {
				return false
			}
			cc, _ := callOf(unspill(call.Common().Args[0]))
			return cc == rs.dec
		}():
			// not ErrAgain: implied by err == nil; fine
		case func() bool {
			sib, wantNil, kind := siblingTest(f)
			return sib != nil && kind == "nil" && wantNil && isErrorType(sib.Type())
		}():
			// "the merged error of the parsing steps is nil": its content is the conditions of the
			// individual steps, which are judged one by one
		default:
			b, isBin := f.Cond.(*ssa.BinOp)
			if !isBin {
				unexpected = append(unexpected, p.FactString(f))
				continue
			}
			op := b.Op
			if !f.Pol {
				op = negOp(op)
			}
			switch {
			case op == token.EQL && unspill(b.X) == rs.typ && func() bool { k, ok := intConst(b.Y); return ok && k == 0 }():
				needs[3].ok = true
			case op == token.GTR && isBufLenOf(p, b.X, tO4Conn, "receiveBuffer") && func() bool { k, ok := intConst(b.Y); return ok && k == 0 }():
				// loop condition: input remains
			case impliedByH(f):
				// a consequence of "the frame holds a non-empty payload packet"
			default:
				unexpected = append(unexpected, p.FactString(f))
			}
		}
	}
	ob = c.Obl(rule, p.FuncKey(rp)+"#surfacing-guards", "payload reaches the application only after Decode succeeded, the decoded length covers the header, the length field fits the packet and the type is 'payload'").At(p.InstrPos(W))
	var missing []string
	for _, n := range needs {
		if !n.ok {
			missing = append(missing, n.name)
		}
	}
	if len(missing) > 0 {
		ob.Violate("the write is reachable without: %v", missing)
	} else {
		ob.HoldNT("all four guards dominate the write")
	}
	ob = c.Obl(rule, p.FuncKey(rp)+"#nothing-dropped", "delivery of a valid payload packet depends on nothing else: no further condition can make it be skipped").At(p.InstrPos(W))
	if len(unexpected) > 0 {
		ob.Violate("the payload write additionally depends on %v: some valid payload would be dropped", unexpected)
	} else {
		ob.HoldNT("no condition beyond the guards, payloadLen > 0 and the loop condition")
	}
}

func lenMinus3(lc *linCtx, v ssa.Value, pkt *ssa.Slice) bool {
	b, ok := unspill(v).(*ssa.BinOp)
	if !ok || b.Op != token.SUB {
		return false
	}
	k, okk := intConst(b.Y)
	call, _ := callOf(unspill(b.X))
	return okk && k == 3 && call != nil && len(call.Common().Args) == 1 && unspill(call.Common().Args[0]) == ssa.Value(pkt)
}

func isBufLenOf(p *Prog, v ssa.Value, typ, field string) bool {
	call, _ := callOf(unspill(v))
	return call != nil && p.CalleeID(call.Common()) == "(*bytes.Buffer).Len" && isFieldLoad(call.Common().Args[0], typ, field)
}

// ---- R4 ---------------------------------------------------------------------------

func c01WritePath(c *Ctx, p *Prog) {
	w := p.Func("transports/obfs4:(*obfs4Conn).Write")
	ob := c.Obl("R4", "transports/obfs4:(*obfs4Conn).Write#chop", "Write reads the caller's bytes through one bytes.Buffer over b, hands every chunk payload[:n] (n that Read's count, same array) to makePacket as a payload packet without padding, and returns the sum of the counts")
	if w == nil {
		ob.Undecide("Write not found")
		return
	}
	c.Touch(p.FuncKey(w))
	var b *ssa.Parameter
	for _, q := range w.Params {
		if isByteSlice(q.Type()) {
			b = q
		}
	}
	var chop *ssa.Call
	for _, call := range p.CallsIn(w, "bytes.NewBuffer") {
		if unspill(call.Common().Args[0]) == ssa.Value(b) {
			chop = call.(*ssa.Call)
		}
	}
	var mk ssa.CallInstruction
	var n ssa.Value
	ff := p.Facts(w)
	if chop == nil {
		// idiom B: the caller's slice is consumed prefix by prefix
		var msg string
		mk, n, msg = c01ChopBySlicing(p, w, b)
		if mk == nil {
			var msg2 string
			if mk, n, msg2 = c01ChopByOffset(p, w, b); mk == nil {
				msg += "; nor by the b[off:] / off += len(chunk) idiom: " + msg2
			}
		}
		if mk == nil {
			ob.Violate("the caller's bytes are chopped neither through bytes.NewBuffer(b) nor by the rem[:k] / rem = rem[k:] idiom: %s", msg)
			return
		}
	} else {
		var rd *ssa.Call
		for _, call := range p.CallsIn(w, "(*bytes.Buffer).Read") {
			if unspill(call.Common().Args[0]) == ssa.Value(chop) {
				if rd != nil {
					ob.Violate("more than one read of the chop buffer")
					return
				}
				rd = call.(*ssa.Call)
			}
		}
		if rd == nil {
			ob.Violate("no Read on the chop buffer")
			return
		}
		for _, r := range *rd.Referrers() {
			if ex, ok := r.(*ssa.Extract); ok && ex.Index == 0 {
				n = ex
			}
		}
		arr := bufObjKey(rd.Common().Args[1])
		// the makePacket that takes the chunk
		for _, call := range p.CallsIn(w, idMakePacket) {
			a := call.Common().Args // conn, w, type, data, padLen
			if sl, ok := unspill(a[3]).(*ssa.Slice); ok && bufObjKey(sl) == arr {
				if mk != nil {
					ob.Violate("the chunk array is packetised at more than one site")
					return
				}
				mk = call
				if sl.Low != nil || sl.High == nil || unspill(sl.High) != n {
					ob.Violate("the chunk handed to makePacket at %s is not payload[:n] with n the count just read", p.InstrPos(call))
					return
				}
			}
		}
		if mk == nil {
			ob.Violate("the bytes read from the caller's buffer are not handed to makePacket")
			return
		}
		if !instrDominates(rd, mk) || mk.Block() == nil {
			ob.Violate("makePacket is not dominated by the read of its chunk")
			return
		}
		// every iteration that read bytes packetises them: from rd, every path back to the loop head or to the loop exit passes mk or returns an error
		head := rd.Block()
		for _, pred := range head.Preds {
			if isBackEdge(pred, head) {
				last := pred.Instrs[len(pred.Instrs)-1]
				if canReachWithout(rd, last, map[ssa.Instruction]bool{mk: true}) && pred != head {
					ob.Violate("an iteration can continue without packetising the chunk it read")
					return
				}
			}
		}
		// the loop runs while the chop buffer is non-empty
		okLoop := false
		for _, f := range ff.NC(rd.Block()) {
			if bo, ok := f.Cond.(*ssa.BinOp); ok {
				if call, _ := callOf(unspill(bo.X)); call != nil && p.CalleeID(call.Common()) == "(*bytes.Buffer).Len" && unspill(call.Common().Args[0]) == ssa.Value(chop) {
					okLoop = true
				}
			}
		}
		if !okLoop {
			ob.Violate("the chopping loop is not driven by chopBuf.Len()")
			return
		}
	}
	if a := mk.Common().Args; true {
		if k, ok := intConst(a[2]); !ok || k != 0 {
			ob.Violate("application data is not sent as packet type 0 (payload)")
			return
		}
		if k, ok := intConst(a[4]); !ok || k != 0 {
			ob.Violate("application data packets carry padding (not the deployed behaviour; the reader would still drop it, but sizes change)")
			return
		}
	}
	// returned count
	for _, r := range ff.SuccessReturns() {
		v := unspill(r.Results[0])
		ph, ok := v.(*ssa.Phi)
		okSum := false
		if ok {
			for _, e := range ph.Edges {
				if bo, ok := unspill(e).(*ssa.BinOp); ok && bo.Op == token.ADD {
					if (unspill(bo.X) == ssa.Value(ph) && sameOrSameLen(p, bo.Y, n)) || (unspill(bo.Y) == ssa.Value(ph) && sameOrSameLen(p, bo.X, n)) {
						okSum = true
					}
				} else if k, isK := intConst(e); !isK || k != 0 {
					okSum = okSum && false
				}
			}
		}
		if !okSum {
			ob.Violate("the count returned at %s is not the sum of the chunk sizes", p.InstrPos(r))
			return
		}
	}
	if chop != nil {
		ob.HoldNT("chopBuf=NewBuffer(b); n=chopBuf.Read(payload[:]); makePacket(payload[:n], type 0, pad 0); returns sum n")
	} else {
		ob.HoldNT("rem=b; makePacket(rem[:k], type 0, pad 0); rem=rem[k:] while len(rem)>0, k>=1; returns sum k")
	}

	// all bytes handed to the wire: the final network write covers the whole frame buffer
	ob = c.Obl("R4", "transports/obfs4:(*obfs4Conn).Write#flush", "everything encoded into the frame buffer is written to the connection: the non-IAT path writes frameBuf.Bytes(), the IAT path loops until frameBuf.Len() == 0 writing iatFrame[:n] with n the count read from frameBuf")
	cio := newConnIO(p)
	var cw []*ssa.Call
	allInstrs(w, func(in ssa.Instruction) {
		if call, ok := in.(*ssa.Call); ok && call.Common().IsInvoke() && call.Common().Method.Name() == "Write" && cio.mayBeConn(call.Common().Value) {
			cw = append(cw, call)
		}
	})
	bad := ""
	if len(cw) < 1 {
		bad = "no write to the connection"
	}
	var fb string
	if mkw := mk.Common().Args[1]; true {
		fb = objKey(stripConv(mkw))
	}
	for _, call := range cw {
		a := unspill(call.Common().Args[0])
		if bc, _ := callOf(a); bc != nil && p.CalleeID(bc.Common()) == "(*bytes.Buffer).Bytes" && objKey(bc.Common().Args[0]) == fb {
			continue
		}
		if sl, ok := a.(*ssa.Slice); ok && sl.Low == nil && sl.High != nil {
			// iatFrame[:n], n a phi of counts of frameBuf.Read into the same array
			okN := true
			var check func(v ssa.Value, d int)
			check = func(v ssa.Value, d int) {
				v = unspill(v)
				if ph, ok := v.(*ssa.Phi); ok && d < 4 {
					for _, e := range ph.Edges {
						check(e, d+1)
					}
					return
				}
				if k, ok := intConst(v); ok && k == 0 {
					return // initial value; the zero case panics/returns before the write
				}
				rc, idx := callOf(v)
				if rc == nil || idx != 0 || p.CalleeID(rc.Common()) != "(*bytes.Buffer).Read" || objKey(rc.Common().Args[0]) != fb || bufObjKey(rc.Common().Args[1]) != bufObjKey(sl) {
					okN = false
				}
			}
			check(sl.High, 0)
			if okN {
				continue
			}
		}
		bad = "connection write at " + p.InstrPos(call) + " does not send the frame buffer's content"
	}
	if bad != "" {
		ob.Violate("%s", bad)
	} else {
		ob.HoldNT("%d connection write site(s)", len(cw))
	}
}

// ---- R5/R6 -----------------------------------------------------------------------

func c01Remainder(c *Ctx, p *Prog) {
	remainderRules(c, p, "R5", "R6", "transports/obfs4:(*obfs4Conn).clientHandshake", "transports/obfs4:(*obfs4Conn).readPackets", tO4Conn, "transports/obfs4:(*obfs4Conn).serverHandshake")
}

// remainderRules: what follows the server's handshake response in the client's receive buffer is
// kept (R5) and is decoded before the data phase blocks on the network again (R6).  Shared by the
// obfs4 and the ScrambleSuit client, which are built alike.
func remainderRules(c *Ctx, p *Prog, r5, r6, chKey, rpKey, tConn, shKey string) {
	ch := p.Func(chKey)
	rp := p.Func(rpKey)
	ob := c.Obl(r5, chKey+"#remainder-kept", "after the server response was parsed the client drops exactly the n bytes the parser consumed (receiveBuffer.Next(n), n the parser's count under err==nil) and never resets or truncates the buffer")
	if ch == nil || rp == nil {
		ob.Undecide("clientHandshake/readPackets not found")
		return
	}
	c.Touch(p.FuncKey(ch))
	ff := p.Facts(ch)
	var next *ssa.Call
	bad := ""
	allInstrs(ch, func(in ssa.Instruction) {
		call, ok := in.(*ssa.Call)
		if !ok {
			return
		}
		r, m, args := recvOf(call)
		if r == nil || !isFieldLoad(r, tConn, "receiveBuffer") {
			return
		}
		switch m {
		case "Reset", "Truncate", "Read", "ReadByte", "WriteTo", "Grow":
			bad = m + " of receiveBuffer at " + p.InstrPos(call) + " discards bytes that followed the handshake"
		case "Next":
			next = call
			pc, idx := callOf(unspill(args[0]))
			if pc == nil || idx != 0 || pc.Common().StaticCallee() == nil || !p.inModule(pc.Common().StaticCallee()) {
				bad = "Next() is not given the count returned by the handshake parser"
			} else if !hasFact(ff.NC(call.Block()), func(f Fact) bool { return FactErrNilOfCall(f, pc) }) {
				bad = "Next(n) is reachable although the parser failed"
			}
		}
	})
	if next == nil && bad == "" {
		bad = "the consumed handshake bytes are never removed with Next(n)"
	}
	if bad != "" {
		ob.Violate("%s", bad)
		return
	}
	ob.HoldNT("Next(n) at %s", p.InstrPos(next))

	// R6 drain-before-block
	ob = c.Obl(r6, rpKey+"#drain-before-block", "the data phase never blocks on the network while bytes left over from the handshake are undecoded: the blocking Read is skipped under a flag that the client handshake sets from receiveBuffer.Len() after Next(n), and the decode loop runs in either case")
	cio := newConnIO(p)
	var rd *ssa.Call
	allInstrs(rp, func(in ssa.Instruction) {
		if call, ok := in.(*ssa.Call); ok && call.Common().IsInvoke() && call.Common().Method.Name() == "Read" && cio.mayBeConn(call.Common().Value) {
			rd = call
		}
	})
	if rd == nil {
		ob.Undecide("no raw read in readPackets")
		return
	}
	rff := p.Facts(rp)
	var flag FieldKey
	found := false
	for _, f := range rff.NC(rd.Block()) {
		if k, _, ok := fieldLoad(f.Cond); ok && k.Type == tConn && !f.Pol {
			flag, found = k, true
		}
	}
	if !found {
		ob.Violate("the blocking Read at %s is unconditional: a frame that arrived in the same segment as the handshake response is not delivered until the peer sends more", p.InstrPos(rd))
		return
	}
	// the flag is set in clientHandshake after Next, from receiveBuffer.Len()
	okSet := false
	for _, s := range p.Stores(flag.Type, flag.Field) {
		if s.Fn != ch {
			continue
		}
		if !instrDominates(next, s.Instr) {
			continue
		}
		// the flag is exactly "bytes are left": receiveBuffer.Len() > 0 (or != 0), nothing else
		if bo, isB := unspill(s.Val).(*ssa.BinOp); isB {
			x, y, op := bo.X, bo.Y, bo.Op
			if k, isK := intConst(x); isK && k == 0 { // 0 < Len()
				x, y = y, x
				if op == token.LSS {
					op = token.GTR
				}
			}
			if k, isK := intConst(y); isK && k == 0 && (op == token.GTR || op == token.NEQ) && isBufLenOf(p, x, tConn, "receiveBuffer") {
				if lc, _ := callOf(unspill(x)); lc != nil && instrDominates(next, lc) {
					okSet = true
				}
			}
		}
		// the store must be on the success path
		for _, r := range ff.SuccessReturns() {
			// (success returns that are not reached through the response parser — a handshake form
			// without a response — leave nothing behind)
			if canReachWithout(next, r, map[ssa.Instruction]bool{s.Instr: true}) {
				okSet = false
			}
		}
	}
	if !okSet {
		ob.Violate("the flag %s.%s guarding the Read is not set by clientHandshake from receiveBuffer.Len() after Next(n)", flag.Type, flag.Field)
		return
	}
	// consumed in readPackets: whenever the blocking read is skipped the flag is false again when
	// readPackets returns (otherwise the connection never reads from the network again): no path
	// from the entry to a return avoids both the read and a store of false
	avoid := map[ssa.Instruction]bool{rd: true}
	nclr := 0
	for _, s := range p.Stores(flag.Type, flag.Field) {
		if s.Fn == rp {
			if k, ok := s.Val.(*ssa.Const); ok && k.Value != nil && k.Value.String() == "false" {
				avoid[s.Instr] = true
				nclr++
			}
		}
	}
	okClr := nclr > 0
	for _, r := range returnsOf(rp) {
		if r.Block().Comment == "recover" {
			continue
		}
		if canReachFeasible(rp.Blocks[0], nil, r, avoid) {
			okClr = false
		}
	}
	if !okClr {
		ob.Violate("the pending flag is not cleared on every path that skips the read: the connection would never read from the network again")
		return
	}
	// the decode loop is reached on both arms: the frame decoder call (obfs4) or, where packets are
	// parsed in place (ScrambleSuit), the loop test on receiveBuffer.Len() behind the read
	var decs []ssa.CallInstruction
	decs = append(decs, p.CallsIn(rp, idDecode)...)
	if len(decs) == 0 {
		for _, lc := range p.CallsIn(rp, "(*bytes.Buffer).Len") {
			if isFieldLoad(lc.Common().Args[0], tConn, "receiveBuffer") && blockOnCycle(lc.Block()) && lc.Block().Dominates(lc.Block()) {
				if len(decs) == 0 || lc.Block().Dominates(decs[0].Block()) {
					decs = []ssa.CallInstruction{lc}
				}
			}
		}
	}
	if len(decs) != 1 || hasFact(rff.NC(decs[0].Block()), func(f Fact) bool { k2, _, ok := fieldLoad(f.Cond); return ok && k2 == flag }) {
		ob.Violate("the decode loop does not run on both arms of the pending test")
		return
	}
	ob.HoldNT("Read guarded by !%s; set in clientHandshake from receiveBuffer.Len() after Next(n); cleared on the skipping arm; decode loop on both arms", flag.Field)

	// server side: no leftover (buffer reset) — informational necessary condition
	if sh := p.Func(shKey); shKey != "" && sh != nil {
		ob = c.Obl(r6, shKey+"#no-leftover", "the server either resets receiveBuffer after the client handshake (the client cannot send valid data before the response) or marks leftovers pending")
		okS := false
		allInstrs(sh, func(in ssa.Instruction) {
			if call, ok := in.(*ssa.Call); ok {
				r, m, _ := recvOf(call)
				if r != nil && isFieldLoad(r, tConn, "receiveBuffer") && m == "Reset" {
					okS = true
				}
			}
		})
		for _, s := range p.Stores(flag.Type, flag.Field) {
			if s.Fn == sh {
				okS = true
			}
		}
		if okS {
			ob.Hold("Reset or pending flag")
		} else {
			ob.Violate("serverHandshake leaves receiveBuffer untouched without marking it pending")
		}
	}
}

// ---- R7 ---------------------------------------------------------------------------

func c01Loops(c *Ctx, p *Prog) {
	rdf := p.Func("transports/obfs4:(*obfs4Conn).Read")
	rp := p.Func("transports/obfs4:(*obfs4Conn).readPackets")
	ob := c.Obl("R7", "transports/obfs4:(*obfs4Conn).Read#loop-exits", "Read leaves its receive loop only when decoded data is available or readPackets reported an error other than the retry sentinel")
	if rdf == nil || rp == nil {
		ob.Undecide("Read/readPackets not found")
		return
	}
	c.Touch(p.FuncKey(rdf))
	ff := p.Facts(rdf)
	sent := retrySentinels(p)
	var E *ssa.Call
	for _, call := range p.CallsIn(rdf, idReadPackets) {
		E, _ = call.(*ssa.Call)
	}
	if E == nil {
		ob.Undecide("no readPackets call")
		return
	}
	// the loop containing E
	var loop map[*ssa.BasicBlock]bool
	for _, head := range rdf.Blocks {
		for _, pred := range head.Preds {
			if isBackEdge(pred, head) {
				l := naturalLoop(pred, head)
				if l[E.Block()] {
					if loop == nil {
						loop = l
					} else {
						for b := range l {
							loop[b] = true
						}
					}
				}
			}
		}
	}
	if loop == nil {
		ob.Violate("readPackets is not called in a loop: a frame without payload (padding, seed) would make Read return 0 bytes")
		return
	}
	bad := ""
	nexits := 0
	for b := range loop {
		for _, s := range b.Succs {
			if loop[s] {
				continue
			}
			nexits++
			fs := append([]Fact{}, ff.NC(b)...)
			if ef, ok := edgeFact(b, s); ok {
				fs = append(fs, ef)
			}
			okData := hasFact(fs, func(f Fact) bool {
				bo, ok := f.Cond.(*ssa.BinOp)
				if !ok || !isBufLenOf(p, bo.X, tO4Conn, "receiveDecodedBuffer") {
					return false
				}
				k, isK := intConst(bo.Y)
				op := bo.Op
				if !f.Pol {
					op = negOp(op)
				}
				return isK && k == 0 && (op == token.NEQ || op == token.GTR)
			})
			okErr := hasFact(fs, func(f Fact) bool { x, isNil, ok := FactNilCmp(f); return ok && !isNil && unspill(x) == ssa.Value(E) }) &&
				hasFact(fs, func(f Fact) bool {
					call, ok := p.FactCallBool(f, "errors.Is")
					if !ok || f.Pol || unspill(call.Common().Args[0]) != ssa.Value(E) {
						return false
					}
					g, isG := sentinelGlobal(unspill(call.Common().Args[1]))
					return isG && sent[g]
				})
			if !okData && !okErr {
				// a merged loop condition ("err == nil && nothing decoded"): every way it can be false
				// has data available or a fatal error in hand
				okAlt := true
				alts := ff.Alternatives(fs, 0)
				for _, alt := range alts {
					d := hasFact(alt, func(f Fact) bool {
						bo, ok := f.Cond.(*ssa.BinOp)
						if !ok || !isBufLenOf(p, bo.X, tO4Conn, "receiveDecodedBuffer") {
							return false
						}
						k, isK := intConst(bo.Y)
						op := bo.Op
						if !f.Pol {
							op = negOp(op)
						}
						return isK && k == 0 && (op == token.NEQ || op == token.GTR)
					})
					e := hasFact(alt, func(f Fact) bool {
						x, isNil, ok := FactNilCmp(f)
						if !ok || isNil {
							return false
						}
						_, isPhi := x.(*ssa.Phi)
						return isPhi && fatalWeb(p, ff, x, E, sent, map[*ssa.Phi]bool{})
					})
					if !d && !e {
						okAlt = false
					}
				}
				if !okAlt {
					bad = fmt.Sprintf("the loop can be left on the edge %s -> %s without data and without a fatal error", b.Comment, s.Comment)
				}
			}
		}
	}
	// and the back edges: continue only on ErrAgain or nil with no data (no exit skipping)
	if bad != "" {
		ob.Violate("%s", bad)
	} else {
		ob.HoldNT("%d exit edge(s): data available, or err != nil && !errors.Is(err, ErrAgain)", nexits)
	}
	// data before error
	ob = c.Obl("R7", "transports/obfs4:(*obfs4Conn).Read#data-before-error", "decoded data is handed to the caller whenever the buffer is non-empty, even if an error is pending (intact data that preceded a bad frame is not lost)")
	var brd *ssa.Call
	allInstrs(rdf, func(in ssa.Instruction) {
		if call, ok := in.(*ssa.Call); ok && p.CalleeID(call.Common()) == "(*bytes.Buffer).Read" && isFieldLoad(call.Common().Args[0], tO4Conn, "receiveDecodedBuffer") {
			brd = call
		}
	})
	if brd == nil {
		ob.Violate("Read never reads the application buffer")
	} else {
		var unexpected []string
		for _, f := range ff.NC(brd.Block()) {
			if bo, ok := f.Cond.(*ssa.BinOp); ok && isBufLenOf(p, bo.X, tO4Conn, "receiveDecodedBuffer") {
				continue
			}
			unexpected = append(unexpected, p.FactString(f))
		}
		// the destination is the caller's slice and the count is returned
		okArg := false
		if q, ok := unspill(brd.Common().Args[1]).(*ssa.Parameter); ok && q.Parent() == rdf {
			okArg = true
		}
		if len(unexpected) > 0 {
			ob.Violate("handing over buffered data depends on %v", unexpected)
		} else if !okArg {
			ob.Violate("buffered data is not read into the caller's slice")
		} else {
			ob.HoldNT("receiveDecodedBuffer.Read(b) guarded only by Len() > 0")
		}
	}

	// decode loop of readPackets
	ob = c.Obl("R7", "transports/obfs4:(*obfs4Conn).readPackets#decode-loop-exits", "the decode loop ends only when the receive buffer is empty or with an error in hand (ErrAgain included): never after a successfully dispatched frame while input remains")
	c.Touch(p.FuncKey(rp))
	rff := p.Facts(rp)
	decs := p.CallsIn(rp, idDecode)
	if len(decs) != 1 {
		ob.Undecide("Decode call not found")
		return
	}
	D := decs[0].(*ssa.Call)
	var dloop map[*ssa.BasicBlock]bool
	for _, head := range rp.Blocks {
		for _, pred := range head.Preds {
			if isBackEdge(pred, head) {
				l := naturalLoop(pred, head)
				if l[D.Block()] {
					if dloop == nil {
						dloop = l
					} else {
						for b := range l {
							dloop[b] = true
						}
					}
				}
			}
		}
	}
	if dloop == nil {
		ob.Violate("Decode is not called in a loop: only one frame per network read would be processed")
		return
	}
	bad = ""
	nexits = 0
	// the error variable: phi at the exit target
	for b := range dloop {
		for si, s := range b.Succs {
			if dloop[s] {
				continue
			}
			_ = si
			nexits++
			fs := append([]Fact{}, rff.NC(b)...)
			if ef, ok := edgeFact(b, s); ok {
				fs = append(fs, ef)
			}
			okEmpty := hasFact(fs, func(f Fact) bool {
				bo, ok := f.Cond.(*ssa.BinOp)
				if !ok || !isBufLenOf(p, bo.X, tO4Conn, "receiveBuffer") {
					return false
				}
				op := bo.Op
				if !f.Pol {
					op = negOp(op)
				}
				k, isK := intConst(bo.Y)
				return isK && k == 0 && (op == token.LEQ || op == token.EQL)
			})
			// error in hand: the value flowing into the error phi along this edge is provably non-nil, or errors.Is(decodeErr, X) holds
			okErr := hasFact(fs, func(f Fact) bool {
				call, ok := p.FactCallBool(f, "errors.Is")
				if !ok || !f.Pol {
					return false
				}
				cc, _ := callOf(unspill(call.Common().Args[0]))
				return cc == D
			}) || hasFact(fs, func(f Fact) bool {
				x, isNil, ok := FactNilCmp(f)
				cc, _ := callOf(unspill(x))
				return ok && !isNil && cc == D
			})
			if !okErr {
				// explicit error constructed on this edge (possibly in a small block of its own)
				from, s := b, s
				for len(s.Succs) == 1 && len(s.Preds) == 1 && !dloop[s.Succs[0]] {
					if _, isPhi := s.Instrs[0].(*ssa.Phi); isPhi {
						break
					}
					from, s = s, s.Succs[0]
				}
				b := from
				for _, in := range s.Instrs {
					ph, ok := in.(*ssa.Phi)
					if !ok {
						break
					}
					if !isErrorType(ph.Type()) {
						continue
					}
					for i, pr := range s.Preds {
						if pr == b {
							ev := ph.Edges[i]
							if _, isMI := unspill(ev).(*ssa.MakeInterface); isMI {
								okErr = true
							}
							// the value leaving on this edge is tested non-nil on the way (a merged
							// error of several validation steps)
							if hasFact(fs, func(f Fact) bool {
								x, isNil, ok := FactNilCmp(f)
								return ok && !isNil && (x == ev || unspill(x) == unspill(ev))
							}) || rff.ProvablyNonNil(ev, b, 0) {
								okErr = true
							}
						}
					}
				}
			}
			if !okEmpty && !okErr {
				bad = fmt.Sprintf("the decode loop can be left on the edge %s -> %s with input remaining and no error", b.Comment, s.Comment)
			}
		}
	}
	if bad != "" {
		ob.Violate("%s", bad)
	} else {
		ob.HoldNT("%d exit edge(s): buffer empty, Decode error/ErrAgain, or a packet validation error", nexits)
	}
}

// c01ReadWithError: bytes returned together with a read error are still
// appended (the consuming use of buf[:n] is not guarded by the read's error).
func c01ReadWithError(c *Ctx, p *Prog, cio *connIO, rule, fnKey string) {
	fn := p.Func(fnKey)
	ob := c.Obl(rule, fnKey+"#bytes-with-error-kept", "in the data phase the bytes a Read returned are consumed even when the same Read also returned an error (n > 0 together with EOF is legal for an io.Reader): the error is reported only after they were processed")
	if fn == nil {
		ob.Undecide("%s not found", fnKey)
		return
	}
	ff := p.Facts(fn)
	bad := ""
	n := 0
	allInstrs(fn, func(in ssa.Instruction) {
		rd, ok := in.(*ssa.Call)
		if !ok || !rd.Common().IsInvoke() || rd.Common().Method.Name() != "Read" || !cio.mayBeConn(rd.Common().Value) {
			return
		}
		n++
		var nval, e ssa.Value
		for _, r := range *rd.Referrers() {
			if ex, ok := r.(*ssa.Extract); ok {
				if ex.Index == 0 {
					nval = ex
				} else {
					e = ex
				}
			}
		}
		used := false
		allInstrs(fn, func(in2 ssa.Instruction) {
			sl, ok := in2.(*ssa.Slice)
			if !ok || sl.High == nil || unspill(sl.High) != nval {
				return
			}
			used = true
			for _, f := range ff.NC(sl.Block()) {
				if x, _, ok := FactNilCmp(f); ok && e != nil && carries(unspill(x), e) {
					bad = "the use of the bytes read at " + p.InstrPos(sl) + " is conditional on the read's error"
				}
			}
			// and it must be executed whenever the read was: same block or post-dominating
			if sl.Block() != rd.Block() && !PostDominates(sl.Block(), rd.Block()) {
				bad = "the bytes read at " + p.InstrPos(rd) + " are not consumed on every path"
			}
		})
		if !used {
			bad = "the bytes read are never consumed"
		}
	})
	if n == 0 {
		ob.Undecide("no raw read")
	} else if bad != "" {
		ob.Violate("%s", bad)
	} else {
		ob.HoldNT("buf[:n] is appended unconditionally after the read")
	}
}

// ---- R9 ---------------------------------------------------------------------------

func fieldsTouched(p *Prog, root *ssa.Function, typ string) map[string][]string {
	out := map[string][]string{}
	for fn := range p.ReachableSkip(rawConnInvoke, root) {
		if !p.inModule(fn) {
			continue
		}
		allInstrs(fn, func(in ssa.Instruction) {
			fa, ok := in.(*ssa.FieldAddr)
			if !ok {
				return
			}
			k, ok := fieldKeyOf(fa.X.Type(), fa.Field)
			if ok && k.Type == typ {
				out[k.Field] = append(out[k.Field], p.InstrPos(fa))
			}
		})
	}
	return out
}

func c01Partition(c *Ctx, p *Prog) {
	rd := p.Func("transports/obfs4:(*obfs4Conn).Read")
	wr := p.Func("transports/obfs4:(*obfs4Conn).Write")
	ob := c.Obl("R9", tO4Conn+"#reader-writer-partition", "the fields of obfs4Conn touched on the Read path and on the Write path are disjoint, except immutable configuration, the underlying connection and the lock-protected distributions: one reader and one writer goroutine share no unsynchronised mutable state")
	if rd == nil || wr == nil {
		ob.Undecide("Read/Write not found")
		return
	}
	R, W := fieldsTouched(p, rd, tO4Conn), fieldsTouched(p, wr, tO4Conn)
	var shared, bad []string
	for f := range R {
		if _, ok := W[f]; !ok {
			continue
		}
		shared = append(shared, f)
		k := FieldKey{tO4Conn, f}
		switch {
		case f == "Conn":
		case p.constructionOnly(k) && !isMutableObjectField(p, k):
		case isLockedDist(p, k):
		default:
			bad = append(bad, fmt.Sprintf("%s (Read path %s, Write path %s)", f, R[f][0], W[f][0]))
		}
	}
	sort.Strings(shared)
	sort.Strings(bad)
	if len(bad) > 0 {
		ob.Violate("fields used by both the reader and the writer goroutine without synchronisation: %v", bad)
	} else {
		ob.HoldNT("shared fields %v are immutable, the connection, or mutex-protected distributions", shared)
	}
}

// isMutableObjectField: the field holds a pointer/slice to a mutable object
// (buffer, byte slice): sharing it is sharing state even if the field itself
// never changes.
func isMutableObjectField(p *Prog, k FieldKey) bool {
	tn := p.lookupType(k.Type[:strings.LastIndex(k.Type, ".")], k.Type[strings.LastIndex(k.Type, ".")+1:])
	if tn == nil {
		return true
	}
	st := structOf(tn.Type())
	if st == nil {
		return true
	}
	for i := 0; i < st.NumFields(); i++ {
		if st.Field(i).Name() == k.Field {
			t := st.Field(i).Type()
			if isIntType(t) || t.String() == "bool" {
				return false
			}
			return true
		}
	}
	return true
}

// isLockedDist: a *probdist.WeightedDist field; its methods lock (C11/C12
// style lock discipline is checked in C09.R3/C12).
func isLockedDist(p *Prog, k FieldKey) bool {
	tn := p.lookupType(k.Type[:strings.LastIndex(k.Type, ".")], k.Type[strings.LastIndex(k.Type, ".")+1:])
	if tn == nil {
		return false
	}
	st := structOf(tn.Type())
	for i := 0; st != nil && i < st.NumFields(); i++ {
		if st.Field(i).Name() == k.Field {
			return typeKey(st.Field(i).Type()) == "*common/probdist.WeightedDist"
		}
	}
	return false
}

// c01ChopBySlicing recognises the prefix-consumption idiom
//
//	for rem := b; len(rem) > 0; { k := ...; makePacket(.., rem[:k], ..); rem = rem[k:] }
//
// and returns the makePacket call and k.  The chunks then concatenate to b
// exactly: each iteration sends the first k bytes of what is left and drops
// exactly those, the loop ends only when nothing is left, and k >= 1.
func c01ChopBySlicing(p *Prog, w *ssa.Function, b *ssa.Parameter) (ssa.CallInstruction, ssa.Value, string) {
	ff := p.Facts(w)
	bd := p.NewBounds()
	msg := "no makePacket call takes a prefix of a loop-carried remainder of b"
	for _, call := range p.CallsIn(w, idMakePacket) {
		a := call.Common().Args
		var rem *ssa.Phi
		var k ssa.Value
		var chunk ssa.Value // set when the chunk is "rem, clamped": the advance is then by len(chunk)
		if s1, ok := unspill(a[3]).(*ssa.Slice); ok && s1.Low == nil && s1.High != nil {
			rem, _ = unspill(s1.X).(*ssa.Phi)
			k = unspill(s1.High)
		} else if ch, ok := unspill(a[3]).(*ssa.Phi); ok && len(ch.Edges) == 2 {
			// chunk := rem; if len(chunk) > max { chunk = chunk[:max] } — every alternative is rem itself or a prefix of it
			okAlt := true
			for _, e := range ch.Edges {
				e = unspill(e)
				var base ssa.Value = e
				if s1, ok := e.(*ssa.Slice); ok && s1.Low == nil && s1.High != nil {
					base = unspill(s1.X)
				}
				ph, ok := base.(*ssa.Phi)
				if !ok || (rem != nil && ph != rem) {
					okAlt = false
					break
				}
				rem = ph
			}
			if !okAlt {
				continue
			}
			chunk = ch
		}
		if rem == nil || len(rem.Edges) != 2 {
			continue
		}
		initOK, advOK := false, false
		var backPred *ssa.BasicBlock
		for i, e := range rem.Edges {
			e = unspill(e)
			if e == ssa.Value(b) && !isBackEdge(rem.Block().Preds[i], rem.Block()) {
				initOK = true
				continue
			}
			if s2, ok := e.(*ssa.Slice); ok && chunk != nil && k == nil && s2.Low != nil {
				// the advance is by len(chunk) of exactly this chunk
				if lc, _ := callOf(unspill(s2.Low)); lc != nil && p.CalleeID(lc.Common()) == "builtin:len" && unspill(lc.Common().Args[0]) == chunk {
					k = unspill(s2.Low)
				}
			}
			if s2, ok := e.(*ssa.Slice); ok && k != nil && unspill(s2.X) == ssa.Value(rem) && s2.High == nil && s2.Low != nil && unspill(s2.Low) == k && isBackEdge(rem.Block().Preds[i], rem.Block()) {
				advOK = true
				backPred = rem.Block().Preds[i]
			}
		}
		if !initOK || !advOK {
			msg = "the remainder at " + p.InstrPos(call) + " is not rem = phi(b, rem[k:]) with the k of the chunk rem[:k]"
			continue
		}
		// the iteration that advances also packetised
		if !instrDominates(call, backPred.Instrs[len(backPred.Instrs)-1]) {
			msg = "an iteration can drop rem[:k] without packetising it"
			continue
		}
		// loop driven by len(rem) > 0 at the header
		okLoop := false
		for _, f := range ff.NC(call.Block()) {
			bo, ok := f.Cond.(*ssa.BinOp)
			if !ok {
				continue
			}
			lc, _ := callOf(unspill(bo.X))
			if lc == nil {
				lc, _ = callOf(unspill(bo.Y))
			}
			if lc != nil && p.CalleeID(lc.Common()) == "builtin:len" && unspill(lc.Common().Args[0]) == ssa.Value(rem) && blockIf(rem.Block()) != nil {
				if c, _ := stripNot(blockIf(rem.Block()).Cond, true); c == f.Cond {
					okLoop = true
				}
			}
		}
		if !okLoop {
			msg = "the chopping loop is not driven by len(rem) at its head"
			continue
		}
		// progress: k >= 1
		okp, why := bd.Prove(w, call, func(s *scope, pr *proof) []Cons { return []Cons{geC(s.lin(k, pr), 1)} })
		if !okp {
			msg = "chunk length k >= 1 is not provable (" + why + ")"
			continue
		}
		return call, k, ""
	}
	return nil, nil, msg
}

// c01ChopByOffset recognises the offset-indexed idiom
//
//	for off < len(b) { chunk := b[off:] (optionally clamped chunk[:k]); makePacket(.., chunk, ..); off += len(chunk) }
//
// and returns the makePacket call and the len(chunk) value added to the offset.
// The chunks concatenate to b exactly: each starts at the offset, the offset
// advances by exactly the chunk's length in an iteration that packetised it,
// it starts at 0, the loop is left only when off >= len(b), and the chunk is
// not empty.
func c01ChopByOffset(p *Prog, w *ssa.Function, b *ssa.Parameter) (ssa.CallInstruction, ssa.Value, string) {
	bd := p.NewBounds()
	msg := "no makePacket call takes a slice of b that starts at a loop-carried offset"
	for _, call := range p.CallsIn(w, idMakePacket) {
		payload := unspill(call.Common().Args[3])
		// every alternative of the payload is b[off:...] or a prefix of it, with one and the same off
		var off *ssa.Phi
		okShape := true
		var walk func(v ssa.Value, prefixOnly bool, d int)
		walk = func(v ssa.Value, prefixOnly bool, d int) {
			v = unspill(v)
			if d > 6 {
				okShape = false
				return
			}
			switch x := v.(type) {
			case *ssa.Phi:
				for _, e := range x.Edges {
					walk(e, prefixOnly, d+1)
				}
			case *ssa.Slice:
				if unspill(x.X) == ssa.Value(b) {
					ph, isPhi := unspill(x.Low).(*ssa.Phi)
					if x.Low == nil || !isPhi || (off != nil && off != ph) {
						okShape = false
						return
					}
					off = ph
					return
				}
				if x.Low != nil {
					if k, isK := intConst(x.Low); !isK || k != 0 {
						okShape = false
						return
					}
				}
				walk(x.X, true, d+1)
			default:
				okShape = false
			}
		}
		walk(payload, false, 0)
		if !okShape || off == nil {
			continue
		}
		// off = phi(0, off + len(payload)) at a loop head
		var lenV ssa.Value
		okPhi := true
		var backPreds []*ssa.BasicBlock
		for i, e := range off.Edges {
			pred := off.Block().Preds[i]
			if !isBackEdge(pred, off.Block()) {
				if k, isK := intConst(e); !isK || k != 0 {
					okPhi = false
				}
				continue
			}
			backPreds = append(backPreds, pred)
			bo, isBo := unspill(e).(*ssa.BinOp)
			if !isBo || bo.Op != token.ADD {
				okPhi = false
				continue
			}
			x, y := unspill(bo.X), unspill(bo.Y)
			if y == ssa.Value(off) {
				x, y = y, x
			}
			lc, _ := callOf(y)
			if x != ssa.Value(off) || lc == nil || p.CalleeID(lc.Common()) != "builtin:len" || unspill(lc.Common().Args[0]) != payload {
				okPhi = false
				continue
			}
			if lenV != nil && lenV != y {
				okPhi = false
			}
			lenV = y
		}
		if !okPhi || lenV == nil || len(backPreds) == 0 {
			msg = "the offset at " + p.InstrPos(call) + " is not off = phi(0, off + len(chunk)) with the chunk handed to makePacket"
			continue
		}
		for _, bp := range backPreds {
			if !instrDominates(call, bp.Instrs[len(bp.Instrs)-1]) {
				msg = "an iteration can advance the offset without packetising the chunk"
				okPhi = false
			}
		}
		if !okPhi {
			continue
		}
		// the loop is left towards a success return only with off >= len(b)
		ff := p.Facts(w)
		okExit := true
		for _, r := range ff.SuccessReturns() {
			okp, why := bd.Prove(w, r, func(s *scope, pr *proof) []Cons {
				lb, ok := s.lenLin(b, pr)
				if !ok {
					return nil
				}
				return []Cons{ge(s.lin(off, pr), lb)}
			})
			if !okp {
				msg = "a success return is reachable with bytes of b left (off >= len(b) not provable at " + p.InstrPos(r) + ": " + why + ")"
				okExit = false
			}
		}
		if !okExit {
			continue
		}
		okp, why := bd.Prove(w, call, func(s *scope, pr *proof) []Cons { return []Cons{geC(s.lin(lenV, pr), 1)} })
		if !okp {
			msg = "chunk length >= 1 is not provable (" + why + ")"
			continue
		}
		return call, lenV, ""
	}
	return nil, nil, msg
}

// sameOrSameLen: a and b are one SSA value, or both are len() of one and the same SSA value (go/ssa has
// no common-subexpression elimination: two len(chunk) in the source are two calls; an SSA slice value
// does not change, so they are equal).
func sameOrSameLen(p *Prog, a, b ssa.Value) bool {
	a, b = unspill(a), unspill(b)
	if a == b {
		return true
	}
	ca, _ := callOf(a)
	cb, _ := callOf(b)
	if ca == nil || cb == nil {
		return false
	}
	return p.CalleeID(ca.Common()) == "builtin:len" && p.CalleeID(cb.Common()) == "builtin:len" &&
		unspill(ca.Common().Args[0]) == unspill(cb.Common().Args[0])
}
