package main

// C02 — the obfs4 client completes only with the holder of the bridge
// identity key (DESIGN 4, C02).

import (
	"fmt"
	"strings"

	"golang.org/x/tools/go/ssa"
)

const (
	idClientHS    = "$M/common/ntor.ClientHandshake"
	idServerHS    = "$M/common/ntor.ServerHandshake"
	idCompareAuth = "$M/common/ntor.CompareAuth"
	idKdf         = "$M/common/ntor.Kdf"
	idNewKeypair  = "$M/common/ntor.NewKeypair"
	tClientHS     = "transports/obfs4.clientHandshake"
	tServerHS     = "transports/obfs4.serverHandshake"
	tConn         = "transports/obfs4.obfs4Conn"
)

func init() {
	register(&PropInfo{
		ID: "C02", Level: "other", MinObls: 22,
		Explanation: "Static must-pass-through and provenance rules over the obfs4 client path: R1 Dial succeeds only after hmac.Equal==true on resp[pos+16:pos+32] against HMAC(resp[:pos+16]|hour), ntor.ClientHandshake ok on (own ephemeral keypair, ToPublic(received representative), configured identity key, configured node id), and ntor.CompareAuth==true between that call's AUTH and the AUTH bytes copied from resp[32:64]; the seed returned is that call's KEY_SEED; " +
			"R2 the handshake HMAC is keyed with identity-key|node-id on both roles; R3 the link encoder/decoder are installed only after the parser succeeded, from ntor.Kdf of that parser's seed, and Dial closes the raw connection on failure; R4 the server side requires MAC and ntor success (with C04); R5 CompareAuth is a constant-time comparison of both operands; R6 every connection uses a keypair from a fresh ntor.NewKeypair(true); R7 the ntor status tests each X25519 output for all-zero separately (low-order identity or ephemeral keys are refused); R8 the parsers re-scan for the mark from the fixed protocol offset on every call (no state carried between chunks).",
		NotCovered: []string{"that HMAC-SHA256, X25519 and ntor actually bind what they are fed (cryptography)", "behaviour under concurrent handshakes beyond the absence of shared mutable state other than the replay filter"},
		Trusted:    []string{"go/types+go/ssa faithful", "crypto/hmac.Equal and crypto/subtle are constant-time equality"},
		Run:        runC02,
	})
}

func obfs4Dial(c *Ctx) *ssa.Function {
	p := c.P
	cf := p.ifaceOf("transports/base", "ClientFactory")
	if cf == nil {
		return nil
	}
	d := p.inPkg(p.Implementers(cf, "Dial"), "transports/obfs4")
	if len(d) != 1 {
		return nil
	}
	return d[0]
}

// copySources lists, module-wide, the source operands of copy() calls whose
// destination is the object stored in field typ.field.
func (p *Prog) copySources(typ, field string) []ssa.Value {
	var out []ssa.Value
	for _, cs := range p.Sites("builtin:copy") {
		args := cs.Instr.Common().Args
		for _, l := range p.Backing(args[0]) {
			if l.Kind == 'f' && l.F.Type == typ && l.F.Field == field {
				out = append(out, args[1])
			}
		}
	}
	// the object is filled while it is still a local and stored into the field afterwards
	// (r := new(T); copy(r.Bytes()[:], src); x.field = r)
	for _, st := range p.Stores(typ, field) {
		al, ok := unspill(st.Val).(*ssa.Alloc)
		if !ok {
			continue
		}
		for _, cs := range p.Sites("builtin:copy") {
			if cs.Caller != st.Fn {
				continue
			}
			args := cs.Instr.Common().Args
			for _, l := range p.Backing(args[0]) {
				if (l.Kind == 'v' || l.Kind == 'a') && l.V == ssa.Value(al) {
					out = append(out, args[1])
				}
			}
		}
	}
	// x.field = [N]byte(src): the whole array assigned from a slice
	for _, st := range p.Stores(typ, field) {
		if src := arrayConvSource(st.Val); src != unspill(st.Val) {
			out = append(out, src)
		}
	}
	return out
}

// isSliceOfParam: v is param[lo:hi] with constant bounds (hi<0: open).
func sliceOfParam(v ssa.Value) (*ssa.Parameter, int64, int64, bool) {
	sl, ok := unspill(v).(*ssa.Slice)
	if !ok {
		return nil, 0, 0, false
	}
	par, ok := unspill(sl.X).(*ssa.Parameter)
	if !ok {
		return nil, 0, 0, false
	}
	lo, hi := int64(0), int64(-1)
	if sl.Low != nil {
		k, ok := intConst(sl.Low)
		if !ok {
			return nil, 0, 0, false
		}
		lo = k
	}
	if sl.High != nil {
		k, ok := intConst(sl.High)
		if !ok {
			return nil, 0, 0, false
		}
		hi = k
	}
	return par, lo, hi, true
}

func runC02(c *Ctx) {
	if !importing {
		importObls(c, "C10", runC10, "X10", func(k string) bool {
			return containsAny(k, "(*obfs4Conn).clientHandshake", "parseServerHandshake", "newObfs4ClientConn", "common/ntor")
		})
		importObls(c, "C12", runC12, "X12", func(k string) bool { return containsAny(k, "common/csrand") })
		// the reply the client verifies is bound to the hour the client used (C04.R5): a genuine bridge whose
		// clock is in the adjacent hour must still be accepted
		importObls(c, "C04", runC04, "X04", func(k string) bool { return containsAny(k, "#epochHour-store", "#hour-hashed-last", "#epochHour-use") })
	}
	p := c.P
	sharedDigestRule(c, p, "R7", "transports/obfs4", "common/ntor")
	parserVerdictAfterSearch(c, p, "R8")
	c06ParserDecides(c, p, "R8")
	dialOneHandshakePerArgs(c, p, "R8")
	dialClosesTheDialledConn(c, p, "R8")
	dial := obfs4Dial(c)
	ps := p.funcsCalling("transports/obfs4", idClientHS)
	o := c.Obl("R0", "anchors", "the obfs4 client path (ClientFactory.Dial) and the function completing the ntor client handshake exist")
	if dial == nil || len(ps) == 0 {
		o.Undecide("Dial or the ntor.ClientHandshake caller not found")
		return
	}
	o.Hold("Dial and %d ntor client caller(s)", len(ps))
	im := NewImplier(p)
	lc := p.newLin()
	c.Touch(p.FuncKey(dial))

	// R1a end-to-end
	for _, a := range []Atom{atomMacEqual, atomNtorCli, atomAuthEq} {
		ob := c.Obl("R1", p.FuncKey(dial)+"#success/"+a.Name, "Dial returns a connection without error only if "+a.Name+" held (followed compositionally through newObfs4ClientConn, clientHandshake and the parser)")
		if im.SuccessImplies(dial, a) {
			ob.HoldNT("every success return is guarded")
		} else {
			why := ""
			for k, w := range im.Why {
				if k.atom == a.Name {
					why = p.FuncKey(k.fn) + ": " + w
				}
			}
			ob.Violate("%s", why)
		}
	}

	for _, PS := range ps {
		pk := p.FuncKey(PS)
		c.Touch(pk)
		ff := p.Facts(PS)
		for _, ccall := range p.CallsIn(PS, idClientHS) {
			H := ccall.(*ssa.Call)
			ha := H.Common().Args // clientKeypair, serverPublic, idPublic, id
			// R1b: arguments
			ob := c.Obl("R1", pk+"#ntor-arguments", "ntor.ClientHandshake is given the handshake's own keypair, ToPublic of the received representative, the configured identity key and node id").At(p.InstrPos(H))
			bad := ""
			if !isFieldLoad(ha[0], tClientHS, "keypair") {
				bad = "client keypair is not hs.keypair"
			}
			if tp, _ := callOf(unspill(ha[1])); tp == nil || p.CalleeID(tp.Common()) != M("(*$M/common/ntor.Representative).ToPublic") || !isFieldLoad(tp.Common().Args[0], tClientHS, "serverRepresentative") {
				bad = "server public key is not hs.serverRepresentative.ToPublic()"
			}
			if !isFieldLoad(ha[2], tClientHS, "serverIdentity") {
				bad = "identity key is not hs.serverIdentity"
			}
			if !isFieldLoad(ha[3], tClientHS, "nodeID") {
				bad = "node id is not hs.nodeID"
			}
			if bad != "" {
				ob.Violate("%s", bad)
			} else {
				ob.HoldNT("(hs.keypair, hs.serverRepresentative.ToPublic(), hs.serverIdentity, hs.nodeID)")
			}
			// R1c: AUTH comparison operands
			ob = c.Obl("R1", pk+"#auth-operands", "the AUTH compared is the one computed by this ntor.ClientHandshake call against the 32 AUTH bytes received at resp[32:64]").At(p.InstrPos(H))
			var cmp *ssa.Call
			for _, r := range ff.SuccessReturns() {
				for _, f := range ff.NC(r.Block()) {
					if e, ok := p.FactCallBool(f, idCompareAuth); ok && f.Pol {
						cmp = e
					}
				}
			}
			if cmp == nil {
				ob.Violate("no successful ntor.CompareAuth guards the success return")
			} else {
				a0 := unspill(cmp.Common().Args[0])
				ex, isEx := a0.(*ssa.Extract)
				switch {
				case !isEx || ex.Tuple != ssa.Value(H) || ex.Index != 2:
					ob.Violate("first operand of CompareAuth at %s is not the AUTH result of the ntor.ClientHandshake call", p.InstrPos(cmp))
				default:
					// second operand: bytes of hs.serverAuth, filled from resp[32:]
					sl := p.Slice(cmp.Common().Args[1], SliceOpt{NoMem: true})
					fromField := false
					for v := range sl.Seen {
						if isFieldLoad(v, tClientHS, "serverAuth") {
							fromField = true
						}
					}
					srcs := p.copySources(tClientHS, "serverAuth")
					okSrc := len(srcs) > 0
					for _, s := range srcs {
						par, lo, hi, ok := sliceOfParam(s)
						if !ok || lo != 32 || (hi != -1 && hi != 64) || par.Parent() != PS {
							okSrc = false
						}
					}
					switch {
					case !fromField:
						ob.Violate("second operand of CompareAuth is not hs.serverAuth")
					case !okSrc:
						ob.Violate("hs.serverAuth is not (only) filled from resp[32:64]")
					default:
						ob.HoldNT("CompareAuth(AUTH of this call, hs.serverAuth <- copy(resp[32:]))")
					}
				}
			}
			// representative source
			ob = c.Obl("R1", pk+"#representative-source", "the server representative fed to ntor is the first 32 bytes of the response")
			srcs := p.copySources(tClientHS, "serverRepresentative")
			okSrc := len(srcs) > 0
			for _, s := range srcs {
				par, lo, hi, ok := sliceOfParam(s)
				if !ok || lo != 0 || hi != 32 || par.Parent() != PS {
					okSrc = false
				}
			}
			if okSrc {
				ob.HoldNT("copy(hs.serverRepresentative, resp[0:32])")
			} else {
				ob.Violate("hs.serverRepresentative is not (only) filled from resp[0:32]")
			}
			// R1d: MAC check layout
			ob = c.Obl("R1", pk+"#mac-check", "the response MAC check compares resp[pos+16:pos+32] with the first 16 bytes of HMAC(resp[:pos+16] | remembered hour)")
			var E *ssa.Call
			for _, f := range ff.NC(H.Block()) {
				if e, ok := p.FactCallBool(f, "crypto/hmac.Equal"); ok && f.Pol {
					E = e
				}
			}
			if E == nil {
				ob.Violate("ntor.ClientHandshake at %s is reachable without a successful hmac.Equal", p.InstrPos(H))
			} else {
				ea := E.Common().Args
				sum, rxv := sumPrefix(p, ea[0], 16), ea[1]
				if sum == nil {
					sum, rxv = sumPrefix(p, ea[1], 16), ea[0]
				}
				rx, isSl := unspill(rxv).(*ssa.Slice)
				if sum == nil || !isSl {
					ob.Violate("hmac.Equal operands are not (Sum(nil)[:16], resp[l:h])")
				} else {
					mi := p.macInputOf(sum)
					switch {
					case mi.Err != "":
						ob.Undecide("%s", mi.Err)
					case rx.Low == nil || rx.High == nil || unspill(rx.X) != unspill(mi.Data.X):
						ob.Violate("MAC input and received MAC are not slices of the same buffer")
					case !lc.Of(mi.Data.High).Equal(lc.Of(rx.Low)) || !lc.Of(rx.High).Sub(lc.Of(rx.Low)).Equal(linConst(16)):
						ob.Violate("MAC input ends at %s, received MAC is [%s:%s]", lc.Of(mi.Data.High), lc.Of(rx.Low), lc.Of(rx.High))
					case !isFieldLoad(mi.HourArg, tClientHS, "epochHour"):
						ob.Violate("the hour hashed is not the one remembered from the request (hs.epochHour)")
					default:
						if _, isPar := unspill(rx.X).(*ssa.Parameter); !isPar {
							ob.Violate("received MAC is not a slice of the response parameter")
						} else {
							ob.HoldNT("hmac.Equal(HMAC(resp[:%s]|hs.epochHour)[:16], resp[%s:%s])", lc.Of(mi.Data.High), lc.Of(rx.Low), lc.Of(rx.High))
						}
					}
				}
			}
			// R1e: returned seed is this call's KEY_SEED; consumed length covers the MAC
			ob = c.Obl("R1", pk+"#seed-result", "the key seed returned on success is the KEY_SEED of this ntor.ClientHandshake call")
			bad = ""
			for _, r := range ff.SuccessReturns() {
				found := false
				for _, res := range r.Results {
					if !refLike(res.Type()) {
						continue
					}
					sl := p.Slice(res, SliceOpt{NoMem: true})
					for v := range sl.Seen {
						if ex, ok := v.(*ssa.Extract); ok && ex.Tuple == ssa.Value(H) && ex.Index == 1 {
							found = true
						}
					}
				}
				if !found {
					bad = "success return at " + p.InstrPos(r) + " does not return the KEY_SEED of the ntor call"
				}
			}
			if bad != "" {
				ob.Violate("%s", bad)
			} else {
				ob.HoldNT("seed = KEY_SEED.Bytes()[:]")
			}
		}
	}

	// R2: HMAC key on both roles
	c02MacKey(c, p, tClientHS, "serverIdentity", false)
	c02MacKey(c, p, tServerHS, "serverIdentity", true)

	// R3: key installation
	c02KeyInstall(c, p)

	// R3b: Dial closes the raw connection on failure
	c02DialCloses(c, p, dial)

	// R4: server success requires MAC + ntor (shared with C04.R1)
	if wrap := obfs4WrapConn(c); wrap != nil {
		for _, a := range []Atom{atomMacEqual, atomNtorSrv} {
			ob := c.Obl("R4", p.FuncKey(wrap)+"#success/"+a.Name, "the server side completes only if "+a.Name)
			if im.SuccessImplies(wrap, a) {
				ob.HoldNT("every success return is guarded")
			} else {
				ob.Violate("WrapConn can succeed without %s", a.Name)
			}
		}
	}

	// R7: the ntor status reports a degenerate (all-zero) Diffie-Hellman result for each exponent separately
	if spec, err := loadSpec("ntor.json"); err == nil {
		evalSpecFiltered(c, p, spec, "R7", "R7", "R7", func(kind, name string) bool {
			// status per exponent, and AUTH / KEY_SEED as functions of the secret input (an AUTH that does
			// not depend on the shared secret can be forged from the public bridge line)
			return kind == "term" && strings.HasPrefix(name, "common/ntor:") && !strings.HasPrefix(name, "common/ntor:Kdf")
		})
	}
	// R8: parsing does not depend on how the response was chunked: every call re-scans from the fixed offset
	if spec, err := loadSpec("obfs4_wire.json"); err == nil {
		evalSpecFiltered(c, p, spec, "R8", "R8", "R8", func(kind, name string) bool {
			return kind == "call" && strings.HasSuffix(name, "findMarkMac")
		})
	}

	// R5: CompareAuth
	c02CompareAuth(c, p)

	// R6: fresh ephemerals
	c02Ephemerals(c, p, dial)
	// R9: the configured identity bytes are used as given (a key that differs in any bit is a different key)
	c08Verbatim(c, p, "R9")
}

func c02MacKey(c *Ctx, p *Prog, typ, idField string, viaPublic bool) {
	ob := c.Obl("R2", typ+".mac#key", "the handshake HMAC is hmac.New(sha256.New, identity public key | node id)")
	st := p.Stores(typ, "mac")
	if len(st) != 1 {
		ob.Violate("expected one store to %s.mac, found %d", typ, len(st))
		return
	}
	s := st[0]
	ob.At(p.InstrPos(s.Instr))
	hc, _ := callOf(unspill(s.Val))
	if hc == nil || p.CalleeID(hc.Common()) != "crypto/hmac.New" {
		ob.Violate("mac is not created by hmac.New")
		return
	}
	if f, ok := hc.Common().Args[0].(*ssa.Function); !ok || p.fnID(f) != "crypto/sha256.New" {
		ob.Violate("HMAC hash is not sha256.New")
		return
	}
	ap, _ := callOf(unspill(hc.Common().Args[1]))
	if ap == nil || p.CalleeID(ap.Common()) != "builtin:append" || len(ap.Common().Args) != 2 {
		ob.Violate("HMAC key is not append(identity, nodeID...)")
		return
	}
	first := p.Slice(ap.Common().Args[0], SliceOpt{NoMem: true})
	second := p.Slice(ap.Common().Args[1], SliceOpt{NoMem: true})
	// the field's value, read back from the object or taken straight from the constructor parameter that is
	// stored into that field (composite-literal style)
	fieldParam := map[string]ssa.Value{}
	for _, f := range []string{idField, "nodeID"} {
		for _, fs := range p.Stores(typ, f) {
			if q, isPar := unspill(fs.Val).(*ssa.Parameter); isPar && fs.Fn == s.Fn {
				fieldParam[f] = q
			}
		}
	}
	has := func(r *SliceRes, field string) bool {
		for v := range r.Seen {
			if isFieldLoad(v, typ, field) {
				return true
			}
			if q := fieldParam[field]; q != nil && v == q {
				return true
			}
		}
		return false
	}
	switch {
	case !has(first, idField) || has(first, "nodeID"):
		ob.Violate("first part of the HMAC key is not the identity key")
	case !has(second, "nodeID") || has(second, idField):
		ob.Violate("second part of the HMAC key is not the node id")
	case viaPublic && first.DependsOnCall("(*$M/common/ntor.Keypair).Public") == nil:
		ob.Violate("server HMAC key does not use the identity keypair's public half")
	case first.DependsOnCall("(*$M/common/ntor.Keypair).Private") != nil:
		ob.Violate("HMAC key uses the private key")
	default:
		ob.HoldNT("hmac.New(sha256.New, append(identity, nodeID...)) in %s", p.FuncKey(s.Fn))
	}
	// the fields feeding the key are the constructor's parameters
	for _, f := range []string{idField, "nodeID", "keypair"} {
		ob := c.Obl("R2", typ+"."+f+"#writer", "the handshake's "+f+" is set once, from the constructor's parameter")
		fs := p.Stores(typ, f)
		if len(fs) != 1 {
			ob.Violate("%d stores", len(fs))
			continue
		}
		if _, isPar := unspill(fs[0].Val).(*ssa.Parameter); !isPar || fs[0].Fn != s.Fn {
			ob.Violate("stored value is not a parameter of %s", p.FuncKey(s.Fn))
			continue
		}
		ob.Hold("parameter %s of %s", unspill(fs[0].Val).Name(), p.FuncKey(s.Fn))
	}
}

func c02KeyInstall(c *Ctx, p *Prog) {
	for _, field := range []string{"encoder", "decoder"} {
		st := p.Stores(tConn, field)
		n := 0
		for _, s := range st {
			if cst, ok := s.Val.(*ssa.Const); ok && cst.IsNil() {
				continue // constructor literal
			}
			n++
			ob := c.Obl("R3", p.FuncKey(s.Fn)+"#install-"+field, "the link "+field+" is installed only after the handshake parser succeeded, from ntor.Kdf(seed of that parser call, 144)").At(p.InstrPos(s.Instr))
			ctor := "$M/transports/obfs4/framing.NewEncoder"
			if field == "decoder" {
				ctor = "$M/transports/obfs4/framing.NewDecoder"
			}
			nc, _ := callOf(unspill(s.Val))
			if nc == nil || p.CalleeID(nc.Common()) != M(ctor) {
				ob.Violate("value is not framing.New%s(...)", field)
				continue
			}
			sl := p.Slice(nc.Common().Args[0], SliceOpt{NoMem: true})
			kdf := sl.DependsOnCall(idKdf)
			if kdf == nil {
				ob.Violate("key material does not come from ntor.Kdf")
				continue
			}
			if n, ok := intConst(kdf.Common().Args[1]); !ok || n != 144 {
				ob.Violate("ntor.Kdf is not asked for 144 bytes")
				continue
			}
			// seed: a result of a module parser call whose success guards the store
			seedSl := p.Slice(kdf.Common().Args[0], SliceOpt{NoMem: true})
			var parser *ssa.Call
			for v := range seedSl.Seen {
				if ex, ok := v.(*ssa.Extract); ok {
					if pc, ok := ex.Tuple.(*ssa.Call); ok && pc.Parent() == s.Fn && pc.Common().StaticCallee() != nil && p.inModule(pc.Common().StaticCallee()) {
						if parser == nil || pc.Pos() > parser.Pos() {
							parser = pc
						}
					}
				}
			}
			if parser == nil {
				ob.Violate("the Kdf seed is not a result of a handshake parser call")
				continue
			}
			guard := hasFact(p.Facts(s.Fn).NC(s.Instr.Block()), func(f Fact) bool { return FactErrNilOfCall(f, parser) })
			if !guard {
				ob.Violate("store is reachable although %s at %s failed", p.CalleeID(parser.Common()), p.InstrPos(parser))
				continue
			}
			// the parser's success must imply the ntor success
			im := NewImplier(p)
			pf := parser.Common().StaticCallee()
			if !(im.SuccessImplies(pf, atomNtorCli) || im.SuccessImplies(pf, atomNtorSrv)) {
				ob.Violate("success of %s does not imply a successful ntor handshake", p.FuncKey(pf))
				continue
			}
			ob.HoldNT("framing.New%s(Kdf(seed of %s, 144)[...]) under err==nil", field, p.FuncKey(pf))
		}
		ob := c.Obl("R3", tConn+"."+field+"#installers", "anti-vacuity: the "+field+" is installed by the client and the server handshake")
		if n < 2 {
			ob.Undecide("found %d installing stores, expected 2", n)
		} else {
			ob.Hold("%d", n)
		}
	}
}

func c02DialCloses(c *Ctx, p *Prog, dial *ssa.Function) {
	ob := c.Obl("R3", p.FuncKey(dial)+"#close-on-failure", "when the handshake fails Dial closes the raw connection it opened and returns no connection")
	ff := p.Facts(dial)
	cio := newConnIO(p)
	var hs []ssa.CallInstruction
	allInstrs(dial, func(in ssa.Instruction) {
		if call, ok := in.(ssa.CallInstruction); ok {
			if sc := call.Common().StaticCallee(); sc != nil && p.inModule(sc) {
				r, w := cio.ioSummary(sc)
				if r || w {
					hs = append(hs, call)
				}
			}
		}
	})
	if len(hs) == 0 {
		ob.Undecide("no handshake call in Dial")
		return
	}
	closes := map[ssa.Instruction]bool{}
	allInstrs(dial, func(in ssa.Instruction) {
		if call, ok := in.(ssa.CallInstruction); ok {
			cm := call.Common()
			if cm.IsInvoke() && cm.Method.Name() == "Close" && cio.mayBeConn(cm.Value) {
				closes[in] = true
			}
		}
	})
	succ := map[*ssa.Return]bool{}
	for _, r := range ff.SuccessReturns() {
		succ[r] = true
	}
	for _, r := range returnsOf(dial) {
		if succ[r] {
			continue
		}
		for _, h := range hs {
			if canReachWithout(h, r, nil) && canReachWithout(h, r, closes) {
				ob.Violate("failure return at %s is reachable from the handshake without closing the raw connection", p.InstrPos(r))
				return
			}
			if canReachWithout(h, r, nil) {
				if cst, ok := r.Results[0].(*ssa.Const); !ok || !cst.IsNil() {
					ob.Violate("failure return at %s hands out a connection", p.InstrPos(r))
					return
				}
			}
		}
	}
	ob.HoldNT("every failure return after the handshake passes a Close of the raw connection and returns nil")
}

func c02CompareAuth(c *Ctx, p *Prog) {
	ob := c.Obl("R5", "common/ntor:CompareAuth", "CompareAuth returns the result of a constant-time comparison (hmac.Equal / subtle.ConstantTimeCompare) of exactly its two operands")
	fn := p.Func("common/ntor:CompareAuth")
	if fn == nil {
		ob.Undecide("ntor.CompareAuth not found")
		return
	}
	c.Touch(p.FuncKey(fn))
	for _, r := range returnsOf(fn) {
		v := unspill(r.Results[0])
		call, _ := callOf(v)
		if b, ok := v.(*ssa.BinOp); ok {
			// subtle.ConstantTimeCompare(a,b) == 1
			call, _ = callOf(unspill(b.X))
		}
		if call == nil {
			ob.Violate("return at %s is not a comparison call", p.InstrPos(r))
			return
		}
		id := p.CalleeID(call.Common())
		if id != "crypto/hmac.Equal" && id != "crypto/subtle.ConstantTimeCompare" {
			ob.Violate("CompareAuth compares with %s, not a constant-time comparison", id)
			return
		}
		a, b := p.Slice(call.Common().Args[0], SliceOpt{NoMem: true}), p.Slice(call.Common().Args[1], SliceOpt{NoMem: true})
		p0, p1 := fn.Params[0], fn.Params[1]
		if !((a.DependsOn(p0) && b.DependsOn(p1) && !a.DependsOn(p1) && !b.DependsOn(p0)) || (a.DependsOn(p1) && b.DependsOn(p0) && !a.DependsOn(p0) && !b.DependsOn(p1))) {
			ob.Violate("the comparison at %s does not compare the first operand with the second", p.InstrPos(call))
			return
		}
		// full length: operands must not be truncated by constant slicing
		for _, arg := range call.Common().Args {
			for v := range p.Slice(arg, SliceOpt{NoMem: true}).Seen {
				if sl, ok := v.(*ssa.Slice); ok && (sl.Low != nil || sl.High != nil) {
					ob.Violate("an operand of the comparison is truncated at %s", p.Pos(sl.Pos()))
					return
				}
			}
		}
	}
	ob.HoldNT("hmac.Equal(auth1[:], auth2)")
}

func c02Ephemerals(c *Ctx, p *Prog, dial *ssa.Function) {
	for _, typ := range []string{tClientHS, tServerHS} {
		ob := c.Obl("R6", typ+".keypair#fresh", "the ephemeral keypair of every handshake originates from an ntor.NewKeypair(true) call made per connection")
		st := p.Stores(typ, "keypair")
		if len(st) != 1 {
			ob.Violate("%d stores to keypair", len(st))
			continue
		}
		or := p.Origins(st[0].Val)
		bad := ""
		var from []string
		for _, ov := range or {
			nc, _ := callOf(ov)
			if ex, ok := ov.(*ssa.Extract); ok {
				nc, _ = ex.Tuple.(*ssa.Call)
			}
			if nc == nil || p.CalleeID(nc.Common()) != M(idNewKeypair) {
				bad = "keypair may originate from " + p.valString(ov) + " at " + p.Pos(ov.Pos())
				break
			}
			if k, ok := nc.Common().Args[0].(*ssa.Const); !ok || k.Value == nil || k.Value.String() != "true" {
				bad = "NewKeypair is not asked for an Elligator representative"
			}
			if blockOnCycle(nc.Block()) {
				// inside NewKeypair's own retry loop is fine; here: the call site itself
			}
			from = append(from, p.FuncKey(nc.Parent()))
		}
		if len(or) == 0 {
			bad = "origin of the keypair not found"
		}
		// per connection: on its way from NewKeypair to the handshake the keypair is never parked in
		// an object that outlives the connection (a factory or transport field is shared by all
		// connections, also concurrent ones)
		if bad == "" {
			_, via := p.OriginsVia(st[0].Val)
			for _, k := range via {
				if strings.HasSuffix(k.Type, "ServerFactory") || strings.HasSuffix(k.Type, "ClientFactory") || strings.HasSuffix(k.Type, ".Transport") {
					bad = "the keypair passes through the shared field " + k.Type + "." + k.Field + ": two connections can get the same ephemeral key"
				}
			}
		}
		if bad != "" {
			ob.Violate("%s", bad)
		} else {
			ob.HoldNT("origins: NewKeypair(true) in %v", from)
		}
	}
	// client args: sessionKey single writer; ParseArgs -> Dial once per handler
	ob := c.Obl("R6", "transports/obfs4.obfs4ClientArgs.sessionKey#writer", "obfs4ClientArgs.sessionKey is written only where the args object is built, from NewKeypair(true)")
	st := p.Stores("transports/obfs4.obfs4ClientArgs", "sessionKey")
	if len(st) != 1 {
		ob.Violate("%d stores to sessionKey, expected 1", len(st))
	} else {
		ob.Hold("one store in %s", p.FuncKey(st[0].Fn))
	}
	cf := p.ifaceOf("transports/base", "ClientFactory")
	ob = c.Obl("R6", "obfs4proxy#ParseArgs-per-Dial", "in the proxy, the argument object handed to Dial comes from a ParseArgs call in the same per-connection handler and Dial is not in a loop: one keypair, one connection")
	if cf == nil {
		ob.Undecide("base.ClientFactory not found")
		return
	}
	nd := 0
	bad := ""
	for _, cs := range p.Sites("(" + modulePath + "/transports/base.ClientFactory).Dial") {
		nd++
		args := cs.Instr.Common().Args
		a := unspill(args[len(args)-1])
		ex, _ := a.(*ssa.Extract)
		var pc *ssa.Call
		if ex != nil {
			pc, _ = ex.Tuple.(*ssa.Call)
		}
		if pc == nil || pc.Common().Method == nil || pc.Common().Method.Name() != "ParseArgs" || pc.Parent() != cs.Caller {
			bad = fmt.Sprintf("Dial at %s does not take the result of a ParseArgs call of the same function", p.InstrPos(cs.Instr))
			continue
		}
		if blockOnCycle(cs.Instr.Block()) {
			bad = fmt.Sprintf("Dial at %s is inside a loop: the keypair from one ParseArgs would be reused", p.InstrPos(cs.Instr))
		}
	}
	if nd == 0 {
		ob.Undecide("no ClientFactory.Dial call site in the module")
	} else if bad != "" {
		ob.Violate("%s", bad)
	} else {
		ob.HoldNT("%d Dial site(s), each fed by a ParseArgs of the same handler, none in a loop", nd)
	}
}
