package main

// C03 — obfs4 server is silent to anyone who cannot prove knowledge of the
// bridge line; uniform delayed close (DESIGN 4, C03).

import (
	"fmt"
	"go/constant"
	"go/token"
	"go/types"
	"sort"

	"golang.org/x/tools/go/ssa"
)

func init() {
	register(&PropInfo{
		ID: "C03", Level: "other", MinObls: 14,
		Explanation: "Static must-pass-through, ownership and provenance rules over the SSA of the obfs4 server path (WrapConn and everything reachable): " +
			"R1 every call site that can write to the raw connection is only reachable after the client-handshake validation succeeded (MAC match, replay filter says new, ntor ok), compositional over helpers; " +
			"R2 every failure return of WrapConn after the peer was read passes through the delayed closer and WrapConn does not branch on the kind of handshake error; " +
			"R3 the read deadline set by the delayed closer depends only on the accept time, the per-bridge closeDelay and constants, closeDelay has one writer fed by the DRBG seeded from the bridge seed; " +
			"R4 the constants are 30 s / 60; R5 the only Close of the raw connection on the server path is the deferred one in the delayed closer, whose returns are reached only through deadline-passed, deadline-arm-failed or the discard copy having ended; R6 handshake deadline armed before the first read.",
		NotCovered: []string{"wall-clock behaviour of timers and of the kernel on Close", "that HMAC/ntor are cryptographically sound", "what net.Conn implementations do beyond the interface contract"},
		Trusted:    []string{"go/types+go/ssa (x/tools v0.29.0) model the program faithfully", "net.Conn implementations honour the interface contract", "io.Copy(io.Discard, r) only reads from r and returns on read error/EOF/deadline"},
		Run:        runC03,
	})
}

// obfs4 validation atoms shared by C02/C03/C04.
var (
	atomMacEqual  = AtomCallBool("hmac.Equal==true", true, "crypto/hmac.Equal")
	atomReplayNew = AtomCallBool("ReplayFilter.TestAndSet==false", false, "(*$M/common/replayfilter.ReplayFilter).TestAndSet")
	atomNtorSrv   = AtomCallBool("ntor.ServerHandshake ok", true, "$M/common/ntor.ServerHandshake")
	atomNtorCli   = AtomCallBool("ntor.ClientHandshake ok", true, "$M/common/ntor.ClientHandshake")
	atomAuthEq    = AtomCallBool("ntor.CompareAuth==true", true, "$M/common/ntor.CompareAuth")
)

func obfs4WrapConn(c *Ctx) *ssa.Function {
	p := c.P
	sf := p.ifaceOf("transports/base", "ServerFactory")
	if sf == nil {
		return nil
	}
	w := p.inPkg(p.Implementers(sf, "WrapConn"), "transports/obfs4")
	if len(w) != 1 {
		return nil
	}
	return w[0]
}

func siteKey(p *Prog, in ssa.Instruction, what string, counter map[string]int) string {
	k := p.FuncKey(in.Parent()) + "#" + what
	counter[k]++
	if counter[k] > 1 {
		k += fmt.Sprintf("#%d", counter[k])
	}
	return k
}

func runC03(c *Ctx) {
	sharedDigestRule(c, c.P, "R8", "transports/obfs4")
	serverHandlerReachesWrapConn(c, c.P, "R9")
	wholeInputJudged(c, c.P, "R9", "transports/obfs4:(*serverHandshake).parseClientHandshake")
	if !importing {
		importObls(c, "C10", runC10, "X10", func(k string) bool {
			return containsAny(k, "(*obfs4Conn).serverHandshake", "parseClientHandshake", "WrapConn", "closeAfterDelay", "lock-pairing")
		})
		// "never answers a replay": the replay filter's own rules
		importObls(c, "C11", runC11, "X11", func(k string) bool { return true })
		// ... and the filter is stamped with the clock read at verification, inside the critical section
		importObls(c, "C04", runC04, "X04", func(k string) bool { return containsAny(k, "#stamped-in-filter-order", "#TestAndSet-now") })
		// "valid for this bridge's identity": the status ntor reports for the client's public key (a point of
		// low order makes both products zero and must abort the handshake before anything is written)
		importObls(c, "C08", runC08, "X08", func(k string) bool { return containsAny(k, "term:common/ntor:ServerHandshake") })
	}
	p := c.P
	wrap := obfs4WrapConn(c)
	if wrap == nil {
		c.Obl("R0", "anchor", "the obfs4 implementation of base.ServerFactory.WrapConn is the entry point of the server path").
			Undecide("could not find exactly one WrapConn implementation in transports/obfs4")
		return
	}
	c.Touch(p.FuncKey(wrap))
	reach := p.ReachableSkip(rawConnInvoke, wrap)
	for fn := range reach {
		if p.inModule(fn) {
			c.Touch(p.FuncKey(fn))
		}
	}
	cio := newConnIO(p)
	im := NewImplier(p)
	roots := map[*ssa.Function]bool{wrap: true}
	cnt := map[string]int{}

	// ---- R1: no byte before validation
	sites := cio.WriteSites(reach)
	o := c.Obl("R1", "write-sites", "anti-vacuity: the server path contains at least one raw-connection write site (the handshake response)")
	if len(sites) == 0 {
		o.Undecide("no raw connection write site found on the server path")
	} else {
		o.Hold("%d raw-connection write sites on the server path", len(sites))
	}
	for _, s := range sites {
		key := siteKey(p, s.Instr, s.What, cnt)
		for _, a := range []Atom{atomMacEqual, atomReplayNew, atomNtorSrv} {
			ob := c.Obl("R1", key+"/"+a.Name, "a write to the raw connection on the server path is reachable only after "+a.Name+" (directly or through the success of a helper whose success implies it)").At(p.InstrPos(s.Instr))
			ok, why := im.GuardedBy(s.Instr, a, roots)
			if ok {
				ob.HoldNT("%s", why)
			} else {
				ob.Violate("%s", why)
			}
		}
	}

	// ---- R2: all failures funnel into the delayed closer
	closers := delayedClosers(p, reach)
	o = c.Obl("R2", "delayed-closer", "a delayed closer (a function that discards the peer's input with io.Copy(io.Discard, conn)) exists on the server path")
	if len(closers) == 0 {
		o.Violate("no function reachable from WrapConn copies the connection into io.Discard")
		return
	}
	var cnames []string
	for d := range closers {
		cnames = append(cnames, p.FuncKey(d))
	}
	sort.Strings(cnames)
	o.Hold("delayed closer(s): %v", cnames)

	ff := p.Facts(wrap)
	var hcalls []ssa.CallInstruction
	var dcalls = map[ssa.Instruction]bool{}
	allInstrs(wrap, func(in ssa.Instruction) {
		call, ok := in.(ssa.CallInstruction)
		if !ok {
			return
		}
		sc := call.Common().StaticCallee()
		if sc == nil || !p.inModule(sc) {
			return
		}
		if closers[sc] {
			dcalls[in] = true
			return
		}
		if cio.readsConn(sc) {
			hcalls = append(hcalls, call)
		}
	})
	o = c.Obl("R2", p.FuncKey(wrap)+"#handshake-call", "WrapConn hands the connection to a handshake routine that reads from the peer")
	if len(hcalls) == 0 {
		o.Undecide("no call in WrapConn reaches a read of the raw connection")
	} else {
		o.Hold("%d handshake call(s)", len(hcalls))
	}
	succ := map[*ssa.Return]bool{}
	for _, r := range ff.SuccessReturns() {
		succ[r] = true
	}
	nfail := 0
	for _, r := range returnsOf(wrap) {
		if succ[r] {
			continue
		}
		for _, h := range hcalls {
			if !canReachWithout(h, r, nil) {
				continue
			}
			nfail++
			ob := c.Obl("R2", siteKey(p, r, "failure-return", cnt), "every failure return of WrapConn that is reachable after the handshake routine read from the peer passes through the delayed closer").At(p.InstrPos(r))
			if canReachWithout(h, r, dcalls) {
				ob.Violate("a path from the handshake call at %s to this failure return avoids the delayed closer: the connection is dropped at once instead of at accept+30s+closeDelay", p.InstrPos(h))
			} else {
				ob.HoldNT("all paths from %s pass a call to %v", p.InstrPos(h), cnames)
			}
		}
	}
	o = c.Obl("R2", p.FuncKey(wrap)+"#failure-returns", "anti-vacuity: WrapConn has a failure return after the handshake")
	if nfail == 0 {
		o.Undecide("no failure return reachable from the handshake call")
	} else {
		o.Hold("%d", nfail)
	}
	// R2b: WrapConn branches on the handshake error only through nil tests.
	for _, h := range hcalls {
		hv, ok := h.(*ssa.Call)
		if !ok {
			continue
		}
		ob := c.Obl("R2", siteKey(p, h, "error-kind-blind", cnt), "WrapConn's control flow depends on the handshake error only through comparison with nil: every kind of invalid input is treated alike").At(p.InstrPos(h))
		bad := ""
		for _, b := range wrap.Blocks {
			i := blockIf(b)
			if i == nil {
				continue
			}
			cond, _ := stripNot(i.Cond, true)
			sl := p.Slice(cond, SliceOpt{NoMem: true})
			dep := sl.DependsOn(hv)
			if !dep {
				continue
			}
			if x, _, ok := FactNilCmp(Fact{cond, true}); ok {
				if cc, _ := callOf(unspill(x)); cc == hv {
					continue
				}
			}
			bad = p.InstrPos(i)
		}
		if bad != "" {
			ob.Violate("branch at %s inspects the handshake error beyond a nil test", bad)
		} else {
			ob.HoldNT("only nil tests")
		}
	}

	// ---- R3/R4/R5 inside each delayed closer
	for d := range closers {
		c03Closer(c, p, cio, wrap, d, hcalls, cnt)
	}

	// ---- R3b: closeDelay provenance
	c03CloseDelay(c, p)

	// ---- R5a: Close sites on the server path
	for _, cl := range cio.invokeSites(reach, "Close") {
		ob := c.Obl("R5", siteKey(p, cl, "conn-close", cnt), "on the server path the raw connection is closed only by the deferred Close of the delayed closer").At(p.InstrPos(cl))
		_, isDefer := cl.(*ssa.Defer)
		if closers[cl.Parent()] && isDefer {
			ob.HoldNT("deferred Close in %s", p.FuncKey(cl.Parent()))
		} else {
			ob.Violate("Close of the raw connection in %s (not the deferred Close of the delayed closer): the peer can observe an early close", p.FuncKey(cl.Parent()))
		}
	}

	// ---- R7: a replayed handshake stays rejected for as long as its hour stamp is acceptable
	ob7 := c.Obl("R7", "replay-window", "the replay filter remembers a handshake at least as long as its hour stamp stays MAC-valid ((max offset - min offset + 1) hours): otherwise a replay within the window is answered")
	if offs, ttl, why := replayWindow(p); why != "" {
		ob7.Undecide("%s", why)
	} else if need := (offs[len(offs)-1] - offs[0] + 1) * 3600 * 1e9; ttl < need {
		ob7.Violate("filter TTL %d ns < validity window %d ns (offsets %v)", ttl, need, offs)
	} else {
		ob7.Hold("TTL %d ns >= window %d ns (offsets %v)", ttl, need, offs)
	}

	// ---- R6: handshake deadline armed before first read
	for _, h := range hcalls {
		if sc := h.Common().StaticCallee(); sc != nil {
			deadlineArmRule(c, "R6", sc, cio, 30*1e9)
		}
	}
}

// delayedClosers: module functions in reach that call io.Copy(io.Discard, <conn>).
func delayedClosers(p *Prog, reach map[*ssa.Function]bool) map[*ssa.Function]bool {
	out := map[*ssa.Function]bool{}
	for _, call := range p.callsInSet(reach, "io.Copy", "io.CopyBuffer") {
		if isGlobalLoad(call.Common().Args[0], "io", "Discard") {
			out[call.Parent()] = true
		}
	}
	return out
}

func isGlobalLoad(v ssa.Value, pkg, name string) bool {
	v = stripConv(v)
	u, ok := v.(*ssa.UnOp)
	if !ok || u.Op != token.MUL {
		return false
	}
	g, ok := u.X.(*ssa.Global)
	return ok && g.Pkg != nil && g.Pkg.Pkg.Path() == pkg && g.Name() == name
}

func c03Closer(c *Ctx, p *Prog, cio *connIO, wrap, d *ssa.Function, hcalls []ssa.CallInstruction, cnt map[string]int) {
	dk := p.FuncKey(d)
	ff := p.Facts(d)
	var setRD []ssa.CallInstruction
	var copies []ssa.CallInstruction
	allInstrs(d, func(in ssa.Instruction) {
		call, ok := in.(ssa.CallInstruction)
		if !ok {
			return
		}
		cm := call.Common()
		if cm.IsInvoke() && cm.Method.Name() == "SetReadDeadline" && cio.mayBeConn(cm.Value) {
			setRD = append(setRD, call)
		}
		if (p.CalleeID(cm) == "io.Copy" || p.CalleeID(cm) == "io.CopyBuffer") && isGlobalLoad(cm.Args[0], "io", "Discard") {
			copies = append(copies, call)
		}
	})
	o := c.Obl("R3", dk+"#SetReadDeadline", "the delayed closer arms exactly one read deadline on the raw connection, before the discard copy, and the copy reads that connection")
	if len(setRD) != 1 || len(copies) != 1 {
		o.Undecide("expected one SetReadDeadline and one io.Copy(io.Discard, conn), found %d and %d", len(setRD), len(copies))
		return
	}
	rd, cp := setRD[0], copies[0]
	if !instrDominates(rd, cp) {
		o.Violate("SetReadDeadline at %s does not dominate the discard copy at %s", p.InstrPos(rd), p.InstrPos(cp))
	} else if !cio.argMayBeConn(cp.Common().Args[1]) {
		o.Violate("io.Copy source at %s is not the raw connection", p.InstrPos(cp))
	} else {
		// the copy must run only if arming succeeded
		okArm := hasFact(ff.NC(cp.Block()), func(f Fact) bool { return FactErrNilOfCall(f, rd.(*ssa.Call)) })
		if okArm {
			o.HoldNT("SetReadDeadline at %s dominates io.Copy(io.Discard, conn) at %s, which runs only if arming succeeded", p.InstrPos(rd), p.InstrPos(cp))
		} else {
			o.Violate("io.Copy at %s runs even if SetReadDeadline failed: the connection could be held forever", p.InstrPos(cp))
		}
	}

	// R3: deadline provenance allow-list
	o = c.Obl("R3", dk+"#deadline-provenance", "the close deadline is a function of the accept time, obfs4ServerFactory.closeDelay and constants only (not of the error, the input or the current time)").At(p.InstrPos(rd))
	dl := rd.Common().Args[0]
	var timeNows []*ssa.Call
	var consts []int64
	bad := ""
	sl := p.Slice(dl, SliceOpt{Interproc: true, NoMem: true, Stop: func(v ssa.Value) bool {
		_, _, ok := fieldLoad(v)
		return ok
	}})
	var vals []ssa.Value
	for v := range sl.Seen {
		vals = append(vals, v)
	}
	sort.Slice(vals, func(i, j int) bool { return vals[i].Pos() < vals[j].Pos() })
	usesCloseDelay := false
	for _, v := range vals {
		switch x := v.(type) {
		case *ssa.Const:
			if x.Value != nil && x.Value.Kind() == constant.Int {
				consts = append(consts, x.Int64())
			}
		case *ssa.Parameter:
			// a pointer to a module struct is only a base for field loads, each of which is judged on its own
			isObj := false
			if pt, ok := x.Type().Underlying().(*types.Pointer); ok && namedStruct(pt.Elem()) {
				isObj = true
			}
			if !isObj && !isNamedType(x.Type(), "time", "Time") && !isNamedType(x.Type(), "time", "Duration") {
				bad = fmt.Sprintf("parameter %s of %s", x.Name(), p.FuncKey(x.Parent()))
			}
		case *ssa.BinOp, *ssa.Convert, *ssa.ChangeType, *ssa.Phi:
		case *ssa.UnOp:
			if k, _, ok := fieldLoad(x); ok {
				if k.Type == "transports/obfs4.obfs4ServerFactory" && k.Field == "closeDelay" {
					usesCloseDelay = true
				} else {
					bad = "field " + k.Type + "." + k.Field
				}
			} else if x.Op == token.MUL {
				bad = "memory load at " + p.Pos(x.Pos())
			}
		case *ssa.Call:
			switch p.CalleeID(x.Common()) {
			case "(time.Time).Add":
			case "time.Now":
				timeNows = append(timeNows, x)
			default:
				if !sl.Descended[x] { // a module helper whose body was followed is transparent
					bad = "call to " + p.CalleeID(x.Common()) + " at " + p.Pos(x.Pos())
				}
			}
		default:
			bad = fmt.Sprintf("%T at %s", v, p.Pos(v.Pos()))
		}
	}
	switch {
	case bad != "":
		o.Violate("the deadline depends on %s", bad)
	case !usesCloseDelay:
		o.Violate("the deadline does not depend on obfs4ServerFactory.closeDelay")
	case len(timeNows) != 1:
		o.Violate("the deadline must be anchored at exactly one time.Now() (the accept time); found %d", len(timeNows))
	default:
		// the accept time is taken in WrapConn before the handshake starts
		tn := timeNows[0]
		okDom := tn.Parent() == wrap
		for _, h := range hcalls {
			if !instrDominates(tn, h) {
				okDom = false
			}
		}
		if !okDom {
			o.Violate("the time origin time.Now() at %s is not taken in WrapConn before the handshake call (the delay would depend on how long the peer took)", p.Pos(tn.Pos()))
		} else {
			o.HoldNT("deadline = f(time.Now() at %s before the handshake, closeDelay, constants %v)", p.Pos(tn.Pos()), consts)
		}
	}
	// R4: constants
	o = c.Obl("R4", dk+"#delay-constants", "delay = closeDelay*1s + 30s: the integer constants in the deadline expression are exactly {1e9, 30e9}")
	sort.Slice(consts, func(i, j int) bool { return consts[i] < consts[j] })
	if len(consts) == 2 && consts[0] == 1e9 && consts[1] == 30e9 {
		o.Hold("constants %v", consts)
	} else {
		o.Violate("constants in the deadline expression are %v, expected [1000000000 30000000000]", consts)
	}

	// R5b: returns of the closer
	var afterCalls []*ssa.Call
	allInstrs(d, func(in ssa.Instruction) {
		if call, ok := in.(*ssa.Call); ok && p.CalleeID(call.Common()) == "(time.Time).After" {
			afterCalls = append(afterCalls, call)
		}
	})
	for _, r := range returnsOf(d) {
		if r.Block().Comment == "recover" {
			continue
		}
		ob := c.Obl("R5", siteKey(p, r, "return", cnt), "the delayed closer returns (and thereby closes) only when the deadline has already passed, arming the deadline failed, or the discard copy ended").At(p.InstrPos(r))
		if instrDominates(cp, r) {
			ob.HoldNT("dominated by the discard copy at %s", p.InstrPos(cp))
			continue
		}
		// every path from the entry to this return crosses one of: the edge
		// "time.Now().After(deadline)" true, the edge "SetReadDeadline failed",
		// or the discard copy
		isExitEdge := func(from, to *ssa.BasicBlock) bool {
			f, k := edgeFact(from, to)
			if !k {
				return false
			}
			if call, k := p.FactCallBool(f, "(time.Time).After"); k && f.Pol {
				if rc, _ := callOf(call.Common().Args[0]); rc != nil && p.CalleeID(rc.Common()) == "time.Now" && unspill(call.Common().Args[1]) == unspill(dl) {
					return true
				}
			}
			if x, isNil, k := FactNilCmp(f); k && !isNil {
				if cc, _ := callOf(unspill(x)); cc != nil && cc == rd.(*ssa.Call) {
					return true
				}
			}
			return false
		}
		if reachableAvoiding(d, r.Block(), isExitEdge, func(b *ssa.BasicBlock) bool { return b == cp.Block() }) {
			ob.Violate("this return is reachable without the deadline having passed, arming having failed, or the discard copy having run")
		} else {
			ob.HoldNT("every path to it crosses time.Now().After(deadline), a failed SetReadDeadline, or the discard copy")
		}
	}
	// deferred close exists
	o = c.Obl("R5", dk+"#deferred-close", "the delayed closer defers Close of the raw connection at entry, so every exit closes it")
	found := false
	allInstrs(d, func(in ssa.Instruction) {
		if df, ok := in.(*ssa.Defer); ok {
			cm := df.Common()
			if cm.IsInvoke() && cm.Method.Name() == "Close" && cio.mayBeConn(cm.Value) && df.Block() == d.Blocks[0] {
				found = true
			}
		}
	})
	if found {
		o.Hold("defer Close in the entry block")
	} else {
		o.Violate("no deferred Close of the raw connection in the entry block of %s", dk)
	}
}

// c03CloseDelay: closeDelay has a single writer whose value is
// rand.New(HashDrbg(st.drbgSeed)).Intn(60).
func c03CloseDelay(c *Ctx, p *Prog) {
	o := c.Obl("R3", "obfs4ServerFactory.closeDelay#writer", "closeDelay is written once, at factory construction, with rand.New(drbg.NewHashDrbg(bridge seed)).Intn(60): a per-bridge constant in [0,60)")
	st := p.Stores("transports/obfs4.obfs4ServerFactory", "closeDelay")
	if len(st) != 1 {
		o.Violate("expected exactly one store to closeDelay, found %d", len(st))
		return
	}
	s := st[0]
	o.At(p.InstrPos(s.Instr))
	call, _ := callOf(s.Val)
	if call == nil || p.CalleeID(call.Common()) != "(*math/rand.Rand).Intn" {
		o.Violate("closeDelay is not the result of (*rand.Rand).Intn")
		return
	}
	n, ok := intConst(call.Common().Args[1])
	if !ok || n != 60 {
		o.Violate("Intn bound is not the constant 60 (maxCloseDelay)")
		return
	}
	sl := p.Slice(call.Common().Args[0], SliceOpt{At: call})
	nh := sl.DependsOnCall("$M/common/drbg.NewHashDrbg")
	if nh == nil {
		o.Violate("the generator is not built from drbg.NewHashDrbg")
		return
	}
	seedSl := p.Slice(nh.Common().Args[0], SliceOpt{NoMem: true})
	okSeed := false
	for v := range seedSl.Seen {
		if isFieldLoad(v, "transports/obfs4.obfs4ServerState", "drbgSeed") {
			okSeed = true
		}
	}
	if !okSeed {
		o.Violate("the DRBG behind closeDelay is not seeded from the bridge's persistent drbgSeed")
		return
	}
	if s.Fn.Parent() != nil || !types.Identical(s.Fn.Signature.Results().At(0).Type(), p.lookupType("transports/base", "ServerFactory").Type()) {
		o.Violate("closeDelay is stored outside the factory constructor (%s)", p.FuncKey(s.Fn))
		return
	}
	o.HoldNT("single store in %s from Intn(60) on rand.New(NewHashDrbg(st.drbgSeed))", p.FuncKey(s.Fn))
}

// reachableAvoiding: target is reachable from fn's entry along a path that
// uses no edge for which cutEdge holds and does not leave a block for which
// cutBlock holds.
func reachableAvoiding(fn *ssa.Function, target *ssa.BasicBlock, cutEdge func(from, to *ssa.BasicBlock) bool, cutBlock func(b *ssa.BasicBlock) bool) bool {
	if len(fn.Blocks) == 0 {
		return false
	}
	seen := map[*ssa.BasicBlock]bool{}
	var walk func(b *ssa.BasicBlock) bool
	walk = func(b *ssa.BasicBlock) bool {
		if seen[b] {
			return false
		}
		seen[b] = true
		if cutBlock != nil && cutBlock(b) {
			return false
		}
		if b == target {
			return true
		}
		for _, s := range b.Succs {
			if cutEdge != nil && cutEdge(b, s) {
				continue
			}
			if walk(s) {
				return true
			}
		}
		return false
	}
	return walk(fn.Blocks[0])
}
