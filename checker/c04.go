package main

// C04 — each client handshake accepted once, within ±1 hour (DESIGN 4, C04).

import (
	"fmt"
	"go/token"
	"go/types"
	"sort"
	"strings"

	"golang.org/x/tools/go/ssa"
)

const idTestAndSet = "(*$M/common/replayfilter.ReplayFilter).TestAndSet"

func init() {
	register(&PropInfo{
		ID: "C04", Level: "other", MinObls: 16,
		Explanation: "Static rules over the obfs4 server handshake: R1 success of WrapConn (compositionally, through serverHandshake and the parser) requires hmac.Equal==true AND ReplayFilter.TestAndSet==false on the very slice that was compared, stamped with time.Now(); " +
			"R2 the MAC that is compared is HMAC(resp[:pos+16] | decimal(epochHour()+off)) with off ranging over exactly {0,-1,+1} and epochHour = Unix()/3600, compared against resp[pos+16:pos+32]; " +
			"R3 the filter consulted is the single per-factory filter created by replayfilter.New at factory construction; R4 its TTL covers the 3-hour validity window; " +
			"R5 the hour string stored for the reply is the one hashed in the matching iteration and is what the server's response MAC and the client's verification hash last.",
		NotCovered: []string{"behaviour of the filter over histories and under concurrency (C11 decides its structural part)", "clock monotonicity", "collision resistance of HMAC/SipHash"},
		Trusted:    []string{"go/types+go/ssa faithful", "hmac.Equal, strconv.FormatInt, time.Now behave as documented"},
		Run:        runC04,
	})
}

// epochHourFn checks that fn is `return time.Now().Unix() / 3600`.
func isEpochHourFn(p *Prog, fn *ssa.Function) bool {
	if fn == nil || fn.Blocks == nil {
		return false
	}
	rs := returnsOf(fn)
	if len(rs) != 1 || len(rs[0].Results) != 1 {
		return false
	}
	b, ok := rs[0].Results[0].(*ssa.BinOp)
	if !ok || b.Op != token.QUO {
		return false
	}
	if c, ok := intConst(b.Y); !ok || c != 3600 {
		return false
	}
	u, _ := callOf(b.X)
	if u == nil || p.CalleeID(u.Common()) != "(time.Time).Unix" {
		return false
	}
	n, _ := callOf(u.Common().Args[0])
	return n != nil && p.CalleeID(n.Common()) == "time.Now"
}

// hourExpr analyses the value handed to strconv.FormatInt for the epoch hour:
// epochHour() or epochHour()+off.  Returns the set of constant offsets.
func hourOffsets(p *Prog, v ssa.Value) (offs []int64, why string) {
	v = unspill(v)
	if c, _ := callOf(v); c != nil {
		if sc := c.Common().StaticCallee(); isEpochHourFn(p, sc) {
			return []int64{0}, ""
		}
		return nil, "hour value is not the epoch-hour function"
	}
	b, ok := v.(*ssa.BinOp)
	if !ok || (b.Op != token.ADD && b.Op != token.SUB) {
		return nil, "hour value is neither epochHour() nor epochHour()+off"
	}
	base, off := b.X, b.Y
	if c, _ := callOf(unspill(base)); c == nil || !isEpochHourFn(p, c.Common().StaticCallee()) {
		base, off = b.Y, b.X
		if c, _ := callOf(unspill(base)); c == nil || !isEpochHourFn(p, c.Common().StaticCallee()) || b.Op == token.SUB {
			return nil, "no operand of the hour sum is the epoch-hour function (time.Now().Unix()/3600)"
		}
	}
	sign := int64(1)
	if b.Op == token.SUB {
		sign = -1
	}
	// off: constant, or an element of a constant table
	if k, ok := intConst(off); ok {
		return []int64{sign * k}, ""
	}
	vals, ok := constTable(off)
	if !ok {
		return nil, "offset is not a constant or an element of a constant table"
	}
	for i := range vals {
		vals[i] *= sign
	}
	return vals, ""
}

// constTable: v is a load of an element of a local array that is initialised
// with integer constants only; returns the table.
func constTable(v ssa.Value) ([]int64, bool) {
	// an element of an array VALUE (range over an array literal copies it): t = *alloc; t[i]
	if ix, isIx := unspill(v).(*ssa.Index); isIx {
		if ld, isLd := ix.X.(*ssa.UnOp); isLd && ld.Op == token.MUL {
			if a, isA := ld.X.(*ssa.Alloc); isA {
				var out []int64
				for _, r := range *a.Referrers() {
					switch x := r.(type) {
					case *ssa.IndexAddr:
						for _, rr := range *x.Referrers() {
							st, ok := rr.(*ssa.Store)
							if !ok || st.Addr != ssa.Value(x) || !instrDominates(st, ld) {
								return nil, false
							}
							k, ok := intConst(st.Val)
							if !ok {
								return nil, false
							}
							out = append(out, k)
						}
					case *ssa.UnOp:
					default:
						return nil, false
					}
				}
				if n, ok := constLen(a.Type()); ok && int64(len(out)) < n {
					out = append(out, 0)
				}
				sort.Slice(out, func(i, j int) bool { return out[i] < out[j] })
				return out, len(out) > 0
			}
			if g, isG := ld.X.(*ssa.Global); isG && activeProg != nil {
				return globalConstTable(activeProg, g)
			}
		}
		return nil, false
	}
	u, ok := unspill(v).(*ssa.UnOp)
	if !ok || u.Op != token.MUL {
		// range over a slice literal may also yield the element through Next/Extract; unsupported
		return nil, false
	}
	ia, ok := u.X.(*ssa.IndexAddr)
	if !ok {
		return nil, false
	}
	base := ia.X
	if s, ok := base.(*ssa.Slice); ok {
		base = s.X
	}
	if g, isG := base.(*ssa.Global); isG && activeProg != nil {
		return globalConstTable(activeProg, g)
	}
	a, ok := base.(*ssa.Alloc)
	if !ok {
		return nil, false
	}
	var out []int64
	for _, r := range *a.Referrers() {
		switch x := r.(type) {
		case *ssa.IndexAddr:
			if x == ia {
				continue
			}
			for _, rr := range *x.Referrers() {
				st, ok := rr.(*ssa.Store)
				if !ok || st.Addr != x {
					return nil, false
				}
				k, ok := intConst(st.Val)
				if !ok {
					return nil, false
				}
				out = append(out, k)
			}
		case *ssa.Slice:
		default:
			return nil, false
		}
	}
	sort.Slice(out, func(i, j int) bool { return out[i] < out[j] })
	return out, len(out) > 0
}

// macInput describes HMAC input "X[:H] | decimal(hour)" reconstructed from
// the accumulator sequence of a Sum call.
type macInput struct {
	Sum      *ssa.Call
	Data     *ssa.Slice // X[:H]
	HourArg  ssa.Value  // bytes written last
	HourExpr ssa.Value  // int64 given to FormatInt (nil if HourArg is a field load)
	Err      string
}

func (p *Prog) macInputOf(sum *ssa.Call) macInput {
	mi := macInput{Sum: sum}
	ops, _, why := p.AccumSeq(sum)
	if why != "" {
		mi.Err = why
		return mi
	}
	ws := writesOf(ops)
	if len(ws) != 2 {
		mi.Err = fmt.Sprintf("expected 2 writes (data, epoch hour) into the MAC before Sum, found %d", len(ws))
		return mi
	}
	sl, ok := unspill(ws[0]).(*ssa.Slice)
	if !ok || sl.Low != nil {
		mi.Err = "first MAC input is not a prefix slice x[:h]"
		return mi
	}
	mi.Data = sl
	mi.HourArg = unspill(ws[1])
	if x, base, ok := decimalOf(p, mi.HourArg); ok {
		if base != 10 {
			mi.Err = "epoch hour is not formatted in base 10"
			return mi
		}
		mi.HourExpr = x
	}
	return mi
}

// sumOf: v is sum[:16] of a Sum(nil) call on an accumulator; returns the call.
func sumPrefix(p *Prog, v ssa.Value, n int64) *ssa.Call {
	sl, ok := unspill(v).(*ssa.Slice)
	if !ok || sl.Low != nil || sl.High == nil {
		return nil
	}
	if k, ok := intConst(sl.High); !ok || k != n {
		return nil
	}
	c, _ := callOf(unspill(sl.X))
	if c == nil || !c.Common().IsInvoke() || c.Common().Method.Name() != "Sum" {
		return nil
	}
	return c
}

func runC04(c *Ctx) {
	if !importing {
		// "a replay is treated exactly like an invalid handshake": WrapConn's failure path is kind-blind
		// (C03's rules on WrapConn)
		importObls(c, "C03", runC03, "X03", func(k string) bool { return containsAny(k, "WrapConn") })
		// a handshake path that keeps the stamp lock blocks every later handshake: nothing is accepted any more
		importObls(c, "C10", runC10, "X10", func(k string) bool { return containsAny(k, "lock-pairing") })
	}
	sharedDigestRule(c, c.P, "R6", "transports/obfs4", "common/replayfilter")
	// "accepted at most once" rests on the filter's test-and-set being one atomic step for
	// simultaneous connections: the replay filter's own obligations (C11) are part of this
	// property too, imported under rule names RF0..RF5
	defer func() {
		sub := NewCtx(c.P, c.Prop, c.Tier)
		runC11(sub)
		for _, o := range sub.Obls {
			o.Key = strings.Replace(o.Key, c.Prop+".R", c.Prop+".RF", 1)
			c.Obls = append(c.Obls, o)
		}
		for k := range sub.fnSeen {
			c.fnSeen[k] = true
		}
	}()
	p := c.P
	wrap := obfs4WrapConn(c)
	vs := p.funcsCalling("transports/obfs4", idTestAndSet)
	o := c.Obl("R0", "anchors", "the obfs4 server path (WrapConn) and the function(s) consulting the replay filter exist")
	if wrap == nil || len(vs) == 0 {
		o.Undecide("WrapConn or the TestAndSet caller not found")
		return
	}
	o.Hold("WrapConn and %d replay-filter caller(s)", len(vs))
	im := NewImplier(p)
	lc := p.newLin()
	c.Touch(p.FuncKey(wrap))

	// R1a: end-to-end
	for _, a := range []Atom{atomMacEqual, atomReplayNew, atomNtorSrv} {
		ob := c.Obl("R1", p.FuncKey(wrap)+"#success/"+a.Name, "WrapConn returns a connection without error only if "+a.Name+" held (followed compositionally through the handshake routines)")
		if im.SuccessImplies(wrap, a) {
			ob.HoldNT("every success return is guarded")
		} else {
			why := ""
			for k, w := range im.Why {
				if k.atom == a.Name {
					why = p.FuncKey(k.fn) + ": " + w
				}
			}
			ob.Violate("%s", why)
		}
	}

	minOff, maxOff := int64(0), int64(0)
	haveOffs := false
	for _, V := range vs {
		vk := p.FuncKey(V)
		c.Touch(vk)
		ff := p.Facts(V)
		for _, tcall := range p.CallsIn(V, idTestAndSet) {
			T, ok := tcall.(*ssa.Call)
			if !ok {
				continue
			}
			args := T.Common().Args // recv, now, buf
			// R1b: guarded by hmac.Equal on the same slice
			ob := c.Obl("R1", vk+"#TestAndSet-on-compared-mac", "the replay filter is consulted only after hmac.Equal succeeded, on exactly the received MAC slice that was compared, and the other operand is the first 16 bytes of the HMAC").At(p.InstrPos(T))
			var E *ssa.Call
			for _, f := range ff.NC(T.Block()) {
				if e, ok := p.FactCallBool(f, "crypto/hmac.Equal"); ok && f.Pol {
					E = e
				}
			}
			var sum *ssa.Call
			var macRx ssa.Value
			if E == nil {
				ob.Violate("TestAndSet at %s is reachable without a successful hmac.Equal", p.InstrPos(T))
			} else {
				ea := E.Common().Args
				switch {
				case unspill(ea[0]) == unspill(args[2]):
					macRx, sum = unspill(ea[0]), sumPrefix(p, ea[1], 16)
				case unspill(ea[1]) == unspill(args[2]):
					macRx, sum = unspill(ea[1]), sumPrefix(p, ea[0], 16)
				}
				if macRx == nil {
					ob.Violate("the value given to TestAndSet is not the slice compared by hmac.Equal at %s", p.InstrPos(E))
				} else if sum == nil {
					ob.Violate("the value compared with the received MAC is not Sum(nil)[:16] of the handshake HMAC")
				} else {
					ob.HoldNT("hmac.Equal(Sum[:16], macRx) at %s guards TestAndSet(now, macRx)", p.InstrPos(E))
				}
			}
			// R1d: timestamp
			ob = c.Obl("R1", vk+"#TestAndSet-now", "the replay filter is stamped with the current time (time.Now())").At(p.InstrPos(T))
			if nc, _ := callOf(unspill(args[1])); nc != nil && p.CalleeID(nc.Common()) == "time.Now" {
				ob.Hold("time.Now()")
			} else {
				ob.Violate("the time given to TestAndSet is not time.Now()")
			}
			// R1e: concurrently submitted handshakes are stamped in the order in which the filter sees
			// them.  The filter treats a caller whose time lies before the eldest entry as a clock that
			// jumped backwards and DISCARDS EVERYTHING; two callers that each read the clock and are
			// then served in the opposite order produce exactly that (monotone clock or not).
			ob = c.Obl("R1", vk+"#stamped-in-filter-order", "the clock is read and the filter consulted in one critical section (a mutex shared by all users of the filter is held from before time.Now() until TestAndSet has returned): otherwise two simultaneous handshakes on an empty filter can be served in the opposite order of their time stamps, the filter takes that for a backwards clock step and forgets the first, which can then be replayed").At(p.InstrPos(T))
			func() {
				nc, _ := callOf(unspill(args[1]))
				if nc == nil || p.CalleeID(nc.Common()) != "time.Now" {
					ob.Violate("the time given to TestAndSet is not read at the call")
					return
				}
				held := ""
				allInstrs(T.Parent(), func(in ssa.Instruction) {
					lk, ok := in.(*ssa.Call)
					if !ok || p.CalleeID(lk.Common()) != "(*sync.Mutex).Lock" || !instrDominates(lk, nc) {
						return
					}
					mu := lk.Common().Args[0]
					key := objKey(mu)
					if _, isG := unspill(mu).(*ssa.Global); !isG {
						if _, isFA := unspill(mu).(*ssa.FieldAddr); !isFA {
							return
						}
					}
					// no Unlock of the same mutex can run between the Lock and the filter call
					released := false
					allInstrs(T.Parent(), func(in2 ssa.Instruction) {
						ul, ok := in2.(ssa.CallInstruction)
						if !ok || p.CalleeID(ul.Common()) != "(*sync.Mutex).Unlock" || objKey(ul.Common().Args[0]) != key {
							return
						}
						if _, isDefer := ul.(*ssa.Defer); isDefer {
							return
						}
						if canReachWithout(lk, ul, nil) && canReachWithout(ul, T, nil) && !instrDominates(T, ul) {
							released = true
						}
					})
					if !released {
						held = p.valString(mu)
					}
				})
				if held == "" {
					ob.Violate("time.Now() at %s is read outside any critical section shared with the filter update: the order of time stamps need not be the order in which the filter is updated", p.InstrPos(nc))
				} else {
					ob.HoldNT("clock read and TestAndSet under %s", held)
				}
			}()
			if sum == nil || macRx == nil {
				continue
			}
			// R2: MAC input layout and hour offsets
			mi := p.macInputOf(sum)
			ob = c.Obl("R2", vk+"#mac-input", "the compared MAC is HMAC(resp[:pos+16] | decimal hour) and the received MAC is resp[pos+16:pos+32] of the same buffer").At(p.InstrPos(sum))
			rx, isSl := macRx.(*ssa.Slice)
			switch {
			case mi.Err != "":
				ob.Undecide("%s", mi.Err)
			case !isSl || rx.Low == nil || rx.High == nil:
				ob.Violate("received MAC is not a slice x[l:h]")
			case unspill(rx.X) != unspill(mi.Data.X):
				ob.Violate("MAC input and received MAC are slices of different buffers")
			case !lc.Of(mi.Data.High).Equal(lc.Of(rx.Low)):
				ob.Violate("MAC input ends at %s but the received MAC starts at %s", lc.Of(mi.Data.High), lc.Of(rx.Low))
			case !lc.Of(rx.High).Sub(lc.Of(rx.Low)).Equal(linConst(16)):
				ob.Violate("received MAC length is %s, expected 16", lc.Of(rx.High).Sub(lc.Of(rx.Low)))
			default:
				h := lc.Of(mi.Data.High)
				okPos := h.C == 16 && len(h.T) == 1
				if okPos {
					for name, co := range h.T {
						rep := lc.rep[name]
						pc, _ := callOf(rep)
						if co != 1 || pc == nil || pc.Common().StaticCallee() == nil || !p.inModule(pc.Common().StaticCallee()) {
							okPos = false
						}
					}
				}
				if !okPos {
					ob.Violate("MAC input does not end 16 bytes (the mark) after the mark position: %s", h)
				} else {
					ob.HoldNT("input %s[:%s], received MAC [%s:%s]", lc.refName(mi.Data.X), h, lc.Of(rx.Low), lc.Of(rx.High))
				}
			}
			ob = c.Obl("R2", vk+"#hour-offsets", "the hour hashed is time.Now().Unix()/3600 + off, off ranging over exactly {-1,0,+1}").At(p.InstrPos(sum))
			if mi.Err != "" || mi.HourExpr == nil {
				ob.Undecide("cannot identify the hour written into the MAC (%s)", mi.Err)
			} else {
				offs, why := hourOffsets(p, mi.HourExpr)
				if why != "" {
					ob.Violate("%s", why)
				} else if fmt.Sprint(offs) != "[-1 0 1]" {
					ob.Violate("hour offsets are %v, expected [-1 0 1]", offs)
				} else {
					// every table entry is iterated: the loop bound is len(table)
					ob.HoldNT("offsets %v", offs)
					minOff, maxOff, haveOffs = offs[0], offs[len(offs)-1], true
				}
			}
			// R5a: epochHour stored = hour hashed, under the guards
			st := p.Stores("transports/obfs4.serverHandshake", "epochHour")
			ob = c.Obl("R5", vk+"#epochHour-store", "the hour remembered for the reply is the very value hashed in the iteration whose MAC matched")
			if len(st) == 0 {
				ob.Violate("serverHandshake.epochHour is never stored: the reply cannot be bound to the client's hour")
			} else {
				bad := ""
				for _, s := range st {
					if s.Fn != V {
						bad = "stored outside the parser, in " + p.FuncKey(s.Fn)
						continue
					}
					if unspill(s.Val) != mi.HourArg {
						bad = "stored value at " + p.InstrPos(s.Instr) + " is not the hour string written into the MAC"
					}
					fs := p.Facts(V).NC(s.Instr.Block())
					if !hasFact(fs, func(f Fact) bool { e, ok := p.FactCallBool(f, "crypto/hmac.Equal"); return ok && f.Pol && e == E }) {
						bad = "store at " + p.InstrPos(s.Instr) + " is not guarded by the MAC match of its iteration"
					}
				}
				if bad != "" {
					ob.Violate("%s", bad)
				} else {
					ob.HoldNT("%d store(s), each of the hashed value under hmac.Equal==true", len(st))
				}
			}
			// R3: one filter per bridge
			ob = c.Obl("R3", vk+"#filter-identity", "the filter consulted is the one created once per server factory by replayfilter.New (never per connection)").At(p.InstrPos(T))
			or := p.Origins(args[0])
			reach := p.ReachableSkip(rawConnInvoke, wrap)
			bad := ""
			var newCall *ssa.Call
			for _, ov := range or {
				nc, _ := callOf(ov)
				if nc == nil || p.CalleeID(nc.Common()) != M("$M/common/replayfilter.New") {
					bad = fmt.Sprintf("filter may originate from %s", p.valString(ov))
					break
				}
				if reach[nc.Parent()] {
					bad = "replayfilter.New is called on the per-connection path (" + p.FuncKey(nc.Parent()) + ")"
				}
				newCall = nc
			}
			if len(or) == 0 {
				bad = "cannot determine where the filter comes from"
			}
			nst := p.Stores("transports/obfs4.obfs4ServerFactory", "replayFilter")
			if bad == "" && len(nst) != 1 {
				bad = fmt.Sprintf("obfs4ServerFactory.replayFilter has %d writers, expected 1", len(nst))
			}
			if bad != "" {
				ob.Violate("%s", bad)
			} else {
				ob.HoldNT("origin: replayfilter.New at %s, stored once in %s", p.InstrPos(newCall), p.FuncKey(nst[0].Fn))
			}
			// R4: TTL
			ob = c.Obl("R4", "replayTTL", "the replay filter remembers a handshake for at least as long as its hour stamp stays acceptable (max offset - min offset + 1 hours)")
			if newCall == nil || !haveOffs {
				ob.Undecide("filter constructor or offsets not identified")
			} else if ttl, ok := intConst(newCall.Common().Args[0]); !ok {
				ob.Undecide("TTL is not a constant")
			} else if need := (maxOff - minOff + 1) * 3600 * 1e9; ttl < need {
				ob.Violate("TTL %d ns < validity window %d ns: a handshake can be replayed after the filter forgot it", ttl, need)
			} else {
				ob.Hold("TTL %d ns >= %d ns", ttl, need)
			}
		}
	}

	// R2c: epoch-hour function
	// (checked inside hourOffsets through isEpochHourFn)

	// R5b/R5c: reply MAC and client verification hash the stored hour last
	c04HourUse(c, p, "transports/obfs4.serverHandshake", "server reply MAC")
	c04HourUse(c, p, "transports/obfs4.clientHandshake", "client request/verification MAC")
}

// c04HourUse: in every function (other than the storing parser) that loads
// <typ>.epochHour, the load is the last write into the handshake HMAC before a
// Sum; and for the client the stored value is decimal(epochHour()).
func c04HourUse(c *Ctx, p *Prog, typ, what string) {
	st := p.Stores(typ, "epochHour")
	storeFns := map[*ssa.Function]bool{}
	for _, s := range st {
		storeFns[s.Fn] = true
	}
	n := 0
	for _, fn := range p.Funcs {
		if fn.Signature.Recv() == nil || typeKey(fn.Signature.Recv().Type()) != "*"+typ {
			continue
		}
		var loads []ssa.Value
		allInstrs(fn, func(in ssa.Instruction) {
			if v, ok := in.(ssa.Value); ok && isFieldLoad(v, typ, "epochHour") {
				if _, isUn := in.(*ssa.UnOp); isUn {
					loads = append(loads, v)
				}
			}
		})
		if len(loads) == 0 {
			continue
		}
		n++
		fk := p.FuncKey(fn)
		c.Touch(fk)
		ob := c.Obl("R5", fk+"#hour-hashed-last", what+": the remembered epoch hour is written into the handshake HMAC as the last input before Sum").At(p.Pos(loads[0].Pos()))
		okUse := false
		why := "no Sum whose last input is the remembered hour"
		allInstrs(fn, func(in ssa.Instruction) {
			call, ok := in.(*ssa.Call)
			if !ok || !call.Common().IsInvoke() || call.Common().Method.Name() != "Sum" {
				return
			}
			ops, _, bad := p.AccumSeq(call)
			if bad != "" {
				return
			}
			ws := writesOf(ops)
			if len(ws) >= 2 && isFieldLoad(ws[len(ws)-1], typ, "epochHour") {
				okUse = true
			}
		})
		if okUse {
			ob.HoldNT("Sum preceded by Write(<data>), Write(hs.epochHour)")
		} else {
			ob.Violate("%s", why)
		}
	}
	ob := c.Obl("R5", typ+".epochHour#used", "anti-vacuity: "+what+" uses the remembered hour")
	if n == 0 {
		ob.Violate("no method of %s reads epochHour: the %s is not bound to the hour", typ, what)
	} else {
		ob.Hold("%d reader(s)", n)
	}
	if typ == "transports/obfs4.clientHandshake" {
		ob := c.Obl("R5", typ+".epochHour#client-store", "the client remembers decimal(time.Now().Unix()/3600), the value it hashed into its request")
		bad := ""
		if len(st) == 0 {
			bad = "never stored"
		}
		for _, s := range st {
			hx, base, ok := decimalOf(p, s.Val)
			if !ok {
				bad = "stored value is not the decimal text of the hour ([]byte(strconv.FormatInt(h, 10)) or equivalent)"
				continue
			}
			offs, why := hourOffsets(p, hx)
			if why != "" || len(offs) != 1 || offs[0] != 0 {
				bad = "client hour is not time.Now().Unix()/3600: " + why
			}
			if base != 10 {
				bad = "client hour is not formatted in base 10"
			}
		}
		if bad != "" {
			ob.Violate("%s", bad)
		} else {
			ob.HoldNT("%d store(s) of decimal(epochHour())", len(st))
		}
	}
	_ = types.Typ
}

// replayWindow extracts, from the parser that consults the replay filter, the
// set of accepted hour offsets and the TTL of the filter it consults.
func replayWindow(p *Prog) (offs []int64, ttl int64, why string) {
	vs := p.funcsCalling("transports/obfs4", idTestAndSet)
	if len(vs) == 0 {
		return nil, 0, "no caller of ReplayFilter.TestAndSet in transports/obfs4"
	}
	for _, V := range vs {
		ff := p.Facts(V)
		for _, tcall := range p.CallsIn(V, idTestAndSet) {
			T, ok := tcall.(*ssa.Call)
			if !ok {
				continue
			}
			var E *ssa.Call
			for _, f := range ff.NC(T.Block()) {
				if e, ok := p.FactCallBool(f, "crypto/hmac.Equal"); ok && f.Pol {
					E = e
				}
			}
			if E == nil {
				return nil, 0, "TestAndSet is not guarded by hmac.Equal"
			}
			sum := sumPrefix(p, E.Common().Args[0], 16)
			if sum == nil {
				sum = sumPrefix(p, E.Common().Args[1], 16)
			}
			if sum == nil {
				return nil, 0, "compared value is not Sum(nil)[:16]"
			}
			mi := p.macInputOf(sum)
			if mi.Err != "" || mi.HourExpr == nil {
				return nil, 0, "cannot identify the hour hashed: " + mi.Err
			}
			o, w := hourOffsets(p, mi.HourExpr)
			if w != "" {
				return nil, 0, w
			}
			offs = o
			for _, ov := range p.Origins(T.Common().Args[0]) {
				nc, _ := callOf(ov)
				if nc == nil || p.CalleeID(nc.Common()) != M("$M/common/replayfilter.New") {
					return nil, 0, "filter does not originate from replayfilter.New"
				}
				k, ok := intConst(nc.Common().Args[0])
				if !ok {
					return nil, 0, "TTL is not a constant"
				}
				if ttl == 0 || k < ttl {
					ttl = k
				}
			}
		}
	}
	if len(offs) == 0 || ttl == 0 {
		return nil, 0, "offsets or TTL not found"
	}
	return offs, ttl, ""
}

// globalConstTable: a package-level array whose elements are constants stored
// by the package initialiser and never written anywhere else.
func globalConstTable(p *Prog, g *ssa.Global) ([]int64, bool) {
	if g.Pkg == nil || !isModulePkg(g.Pkg.Pkg) {
		return nil, false
	}
	p.prov()
	for _, w := range p.pi.writes[Loc{Kind: 'g', V: g}] {
		if w.Fn == nil || w.Fn.Synthetic != "package initializer" {
			return nil, false
		}
	}
	initFn := g.Pkg.Func("init")
	if initFn == nil {
		return nil, false
	}
	var out []int64
	ok := true
	for _, b := range initFn.Blocks {
		for _, in := range b.Instrs {
			st, isSt := in.(*ssa.Store)
			if !isSt {
				continue
			}
			ia, isIA := st.Addr.(*ssa.IndexAddr)
			if !isIA || ia.X != ssa.Value(g) {
				if st.Addr == ssa.Value(g) {
					ok = false // whole-array store: not followed
				}
				continue
			}
			k, isK := intConst(st.Val)
			if !isK {
				ok = false
				continue
			}
			out = append(out, k)
		}
	}
	// elements not stored explicitly are zero
	if n, isArr := constLen(g.Type()); isArr && int64(len(out)) < n {
		out = append(out, 0)
	}
	sort.Slice(out, func(i, j int) bool { return out[i] < out[j] })
	return out, ok && len(out) > 0
}

// decimalOf: v is the decimal text of an integer as bytes:
// []byte(strconv.FormatInt(x, 10)), []byte(strconv.Itoa(x)) or
// strconv.AppendInt(nil / empty, x, 10).  Returns x and the base.
func decimalOf(p *Prog, v ssa.Value) (ssa.Value, int64, bool) {
	v = unspill(v)
	if cv, ok := v.(*ssa.Convert); ok {
		if fc, _ := callOf(unspill(cv.X)); fc != nil {
			switch p.CalleeID(fc.Common()) {
			case "strconv.FormatInt":
				b, _ := intConst(fc.Common().Args[1])
				return fc.Common().Args[0], b, true
			case "strconv.Itoa":
				return fc.Common().Args[0], 10, true
			}
		}
		return nil, 0, false
	}
	if ac, _ := callOf(v); ac != nil && p.CalleeID(ac.Common()) == "strconv.AppendInt" {
		dst := unspill(ac.Common().Args[0])
		empty := isNilConst(dst)
		if sl, ok := dst.(*ssa.Slice); ok && sl.High != nil {
			if k, ok := intConst(sl.High); ok && k == 0 {
				empty = true
			}
		}
		if empty {
			b, _ := intConst(ac.Common().Args[2])
			return ac.Common().Args[1], b, true
		}
	}
	return nil, 0, false
}
