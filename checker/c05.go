package main

// C05 — tampering never yields foreign bytes (DESIGN 4, C05) and the frame
// lock-step rules it shares with C01.R3.

import (
	"fmt"
	"go/token"
	"sort"
	"strings"

	"golang.org/x/tools/go/ssa"
)

const (
	idOpen      = "golang.org/x/crypto/nacl/secretbox.Open"
	idSeal      = "golang.org/x/crypto/nacl/secretbox.Seal"
	idNextBlock = "(*$M/common/drbg.HashDrbg).NextBlock"
	tDecoder    = "transports/obfs4/framing.Decoder"
	tEncoder    = "transports/obfs4/framing.Encoder"
	tNonce      = "transports/obfs4/framing.boxNonce"
	idDecode    = "(*$M/transports/obfs4/framing.Decoder).Decode"
	idEncode    = "(*$M/transports/obfs4/framing.Encoder).Encode"
)

var atomOpenOk = AtomCallBool("secretbox.Open ok", true, idOpen)

func init() {
	register(&PropInfo{
		ID: "C05", Level: "other", MinObls: 30,
		Explanation: "Static rules over the obfs4 frame decoder, packet layer and Read: R1 Decode returns success only if secretbox.Open reported ok AND the sticky invalid-length flag is clear, returns the length of Open's output, and opens with the decoder's own nextNonce/key whose only writers are nonce.bytes in Decode and NewDecoder; " +
			"R2 nonce sequencing: the counter and nextLength=0 are stored (through the decoder, not a copy) exactly once, in the block of the success return, NextBlock and nonce.bytes run once per frame and only when no length is pending, and a non-zero in-range nextLength is stored on every continuing path after NextBlock; " +
			"R3 the invalid-length flag is only ever set to true, is set whenever the random replacement length is used, and only lengths in [16,1446] reach nextLength (bounds engine); R4 only authenticated, length-validated payload reaches the application buffer (with C01.R2); " +
			"R5 Read returns the fatal error of readPackets unless it is nil or ErrAgain (phi-web analysis), readPackets never replaces a read error (C10.R8); R6 all slice/index/precondition obligations of the decoder and packet parser hold (bounds engine); R7 the two directions are keyed with different halves of the KDF output and each side decodes with the half its peer encodes with (no reflection).",
		NotCovered: []string{"security of XSalsa20-Poly1305 itself", "that the relay drops the connection after the error (C19.R1 decides the relay's part)", "the prefix property across several Read calls after an error"},
		Trusted:    []string{"go/types+go/ssa faithful", "secretbox.Open returns ok only for an authentic box under (nonce,key)", "library contracts of checker/contracts.go"},
		Run:        runC05,
	})
}

// addrRoot follows FieldAddr/IndexAddr bases to the root value of an address.
func addrRoot(v ssa.Value) ssa.Value {
	for {
		switch x := v.(type) {
		case *ssa.FieldAddr:
			v = x.X
		case *ssa.IndexAddr:
			v = x.X
		default:
			return v
		}
	}
}

// throughPointer: the address is reached through a pointer value (parameter,
// loaded pointer), not a function-local copy of a struct.
func throughPointer(addr ssa.Value) bool {
	r := addrRoot(addr)
	if a, ok := r.(*ssa.Alloc); ok {
		// a heap/local allocation of the struct itself: a copy unless it is the object under construction
		_ = a
		return false
	}
	return true
}

// storesIn lists the Store instructions of fn (and of module callees that
// receive a pointer, one level) to the given field.
func storesToField(p *Prog, typ, field string) []*StoreSite { return p.Stores(typ, field) }

func runC05(c *Ctx) {
	if !importing {
		// the link keys must be a function of the ntor secret (a KEY_SEED computable from public values lets
		// a middlebox forge frames): C08's ntor terms
		importObls(c, "C08", runC08, "X08", func(k string) bool { return containsAny(k, "term:common/ntor") })
	}
	p := c.P
	sharedDigestRule(c, p, "R7", "transports/obfs4", "transports/obfs4/framing")
	// nonce sequencing ("a frame cannot be replayed, reordered or duplicated") rests on the nonce being
	// prefix | the full 64-bit counter: the framing rules of C06.R3 (key-block layout, counter start,
	// nonce layout, wrap refusal, length-field mask) are part of this property too, imported as RN3
	defer func() {
		sub := NewCtx(c.P, c.Prop, c.Tier)
		c06Framing(sub, c.P)
		for _, o := range sub.Obls {
			o.Key = strings.Replace(o.Key, c.Prop+".R", c.Prop+".RN", 1)
			c.Obls = append(c.Obls, o)
		}
		for k := range sub.fnSeen {
			c.fnSeen[k] = true
		}
	}()
	dec := p.Func("transports/obfs4/framing:(*Decoder).Decode")
	o := c.Obl("R0", "anchors", "the frame decoder (the function calling secretbox.Open) exists")
	if dec == nil {
		fs := p.funcsCalling("transports/obfs4/framing", idOpen)
		if len(fs) == 1 {
			dec = fs[0]
		}
	}
	if dec == nil {
		o.Undecide("decoder not found")
		return
	}
	o.Hold("%s", p.FuncKey(dec))
	c05Decoder(c, p, dec, "R1", "R2", "R3")
	c05ReadErr(c, p, "R5")
	// R4: surfacing guard (shared with C01.R2)
	c01Surfacing(c, p, "R4")
	// R5b: readPackets fault rule instance
	cio := newConnIO(p)
	if fn := p.Func("transports/obfs4:(*obfs4Conn).readPackets"); fn != nil {
		faultRule(c, "R5", p, cio, map[*ssa.Function]bool{fn: true, p.Func("transports/obfs4:(*obfs4Conn).clientHandshake"): true, p.Func("transports/obfs4:(*obfs4Conn).serverHandshake"): true,
			p.Func("transports/obfs3:(*obfs3Conn).findPeerMagic"): true, p.Func("transports/scramblesuit:(*ssConn).readPackets"): true, p.Func("transports/scramblesuit:(*ssConn).clientHandshake"): true}, 3)
	}
	// R7: direction separation (ciphertext of one direction must not open in the other)
	keySplitRule(c, p, "R7", false)
	// R6: bounds of the decoder and the packet layer
	fns := map[*ssa.Function]bool{}
	for _, k := range []string{"transports/obfs4/framing:(*Decoder).Decode", "transports/obfs4:(*obfs4Conn).readPackets", "transports/obfs4/framing:NewDecoder", "transports/obfs4/framing:(*boxNonce).init", "transports/obfs4/framing:(boxNonce).bytes"} {
		if fn := p.Func(k); fn != nil {
			fns[fn] = true
		}
	}
	n := boundsRule(c, fns, "R6", "R6", nil)
	ob := c.Obl("R6", "count", "anti-vacuity: the decoder's and packet parser's obligations are found")
	if n < 12 {
		ob.Undecide("only %d obligations discharged", n)
	} else {
		ob.Hold("%d", n)
	}
}

func c05Decoder(c *Ctx, p *Prog, dec *ssa.Function, r1, r2, r3 string) {
	dk := p.FuncKey(dec)
	c.Touch(dk)
	ff := p.Facts(dec)
	im := NewImplier(p)
	opens := p.CallsIn(dec, idOpen)
	ob := c.Obl(r1, dk+"#open-once", "the decoder opens each frame with exactly one secretbox.Open")
	if len(opens) != 1 {
		ob.Violate("%d calls to secretbox.Open", len(opens))
		return
	}
	open := opens[0].(*ssa.Call)
	ob.Hold("one call at %s", p.InstrPos(open))

	// R1a success requires Open ok and the invalid flag clear
	ob = c.Obl(r1, dk+"#success-requires-open", "Decode returns success only if secretbox.Open reported ok").At(p.InstrPos(open))
	if im.SuccessImplies(dec, atomOpenOk) {
		ob.HoldNT("every success return is guarded by Open ok")
	} else {
		ob.Violate("%s", im.Why[impliesKey{dec, atomOpenOk.Name}])
	}
	ob = c.Obl(r1, dk+"#success-requires-valid-length", "Decode returns success only if the sticky nextLengthInvalid flag is clear (a frame whose length field was out of range must fail even if the box opened)")
	succ := ff.SuccessReturns()
	bad := ""
	for _, r := range succ {
		if !hasFact(ff.NC(r.Block()), func(f Fact) bool { return !f.Pol && isFieldLoad(f.Cond, tDecoder, "nextLengthInvalid") }) {
			bad = "success return at " + p.InstrPos(r) + " does not test nextLengthInvalid"
		}
	}
	if len(succ) == 0 {
		bad = "no success return"
	}
	if bad != "" {
		ob.Violate("%s", bad)
	} else {
		ob.HoldNT("%d success return(s) under !nextLengthInvalid", len(succ))
	}
	// R1b result is len(out)
	ob = c.Obl(r1, dk+"#result-length", "the length returned is the length of Open's output")
	bad = ""
	for _, r := range succ {
		lc, _ := callOf(unspill(r.Results[0]))
		okLen := false
		if lc != nil && p.CalleeID(lc.Common()) == "builtin:len" {
			if ex, ok := unspill(lc.Common().Args[0]).(*ssa.Extract); ok && ex.Tuple == ssa.Value(open) && ex.Index == 0 {
				okLen = true
			}
		}
		if !okLen {
			bad = "return at " + p.InstrPos(r) + " does not return len(out) of the Open call"
		}
	}
	if bad != "" {
		ob.Violate("%s", bad)
	} else {
		ob.HoldNT("len(out)")
	}
	// R1c Open's operands
	ob = c.Obl(r1, dk+"#open-operands", "Open is given the decoder's own nextNonce and key, writes into the caller's buffer from offset 0, and the box is what was just read from the frame buffer").At(p.InstrPos(open))
	oa := open.Common().Args // out, box, nonce, key
	nk, ok1 := fieldAddrKey(oa[2])
	kk, ok2 := fieldAddrKey(oa[3])
	switch {
	case !ok1 || nk.Type != tDecoder || nk.Field != "nextNonce" || !throughPointer(oa[2]):
		bad = "nonce operand is not &decoder.nextNonce"
	case !ok2 || kk.Type != tDecoder || kk.Field != "key" || !throughPointer(oa[3]):
		bad = "key operand is not &decoder.key"
	default:
		bad = ""
		if sl, ok := unspill(oa[0]).(*ssa.Slice); !ok || sl.High == nil {
			bad = "output operand is not data[:0]"
		} else if k, ok := intConst(sl.High); !ok || k != 0 {
			bad = "output operand is not data[:0]"
		} else if _, isPar := unspill(sl.X).(*ssa.Parameter); !isPar {
			bad = "output buffer is not the caller's"
		}
		// box = local[:n], n from io.ReadFull on the same local
		if bad == "" {
			bs, ok := unspill(oa[1]).(*ssa.Slice)
			// (b) the very slice a successful exact-length read has just filled
			sameAsRead := false
			for _, rf := range p.ReadFullsIn(dec) {
				rb := unspill(rf.Common().Args[1])
				same := rb == unspill(oa[1])
				if rs, isS := rb.(*ssa.Slice); isS && ok && bufObjKey(rs) == bufObjKey(bs) && rs.Low == nil && bs.Low == nil && rs.High != nil && bs.High != nil && unspill(rs.High) == unspill(bs.High) {
					same = true
				}
				if rc, isC := rf.(*ssa.Call); isC && same && instrDominates(rf, open) && p.Facts(dec).SucceededCalls(open.Block())[rc] {
					sameAsRead = true
				}
			}
			// (c) frames.Next(n) with n the pending frame length and at least n bytes buffered
			if nx, _ := callOf(unspill(oa[1])); nx != nil && p.CalleeID(nx.Common()) == "(*bytes.Buffer).Next" {
				if _, isParam := unspill(nx.Common().Args[0]).(*ssa.Parameter); isParam {
					bd := p.NewBounds()
					okN, _ := bd.Prove(dec, open, func(s *scope, pr *proof) []Cons {
						l, _ := s.lenLin(nx, pr)
						return eq(l, s.lin(nx.Common().Args[1], pr))
					})
					if okN {
						sameAsRead = true
					}
				}
			}
			if sameAsRead {
				// holds
			} else if !ok || bs.High == nil || bs.Low != nil {
				bad = "box operand is not box[:n]"
			} else {
				rc, idx := callOf(unspill(bs.High))
				if rc == nil || !p.isReadFull(rc) || idx != 0 || bufObjKey(rc.Common().Args[1]) != bufObjKey(bs) {
					bad = "box length is not the count io.ReadFull returned for the same buffer"
				}
			}
		}
	}
	if bad != "" {
		ob.Violate("%s", bad)
	} else {
		ob.HoldNT("Open(data[:0], box[:n], &decoder.nextNonce, &decoder.key)")
	}
	// R1d writers of nextNonce and key
	c05Writers(c, p, r1, tDecoder, "nextNonce", dec, "(boxNonce).bytes")
	c05Writers(c, p, r1, tDecoder, "key", nil, "")

	// ---- R2 sequencing
	lockstep(c, p, r2, dec, tDecoder, true)

	// ---- R3 invalid flag
	ob = c.Obl(r3, tDecoder+".nextLengthInvalid#sticky", "nextLengthInvalid is only ever stored true (it can never be cleared)")
	st := p.Stores(tDecoder, "nextLengthInvalid")
	bad = ""
	for _, s := range st {
		if k, ok := s.Val.(*ssa.Const); !ok || k.Value == nil || k.Value.String() != "true" {
			bad = "store of a value other than true at " + p.InstrPos(s.Instr)
		}
	}
	if len(st) == 0 {
		bad = "the flag is never set: out-of-range lengths are not remembered"
	}
	if bad != "" {
		ob.Violate("%s", bad)
	} else {
		ob.Hold("%d store(s), all true", len(st))
	}
	// the random replacement length implies the flag
	ob = c.Obl(r3, dk+"#random-length-sets-flag", "whenever the deobfuscated length is replaced by a random one, the invalid flag is set on that path")
	irs := p.CallsIn(dec, "$M/common/csrand.IntRange")
	if len(irs) == 0 {
		ob.Hold("no random replacement length (out-of-range lengths must then be rejected outright; see the stored range)")
	} else {
		bad = ""
		for _, ir := range irs {
			okFlag := false
			for _, s := range st {
				if s.Fn == dec && (instrDominates(s.Instr, ir) || (s.Instr.Block() == ir.Block())) {
					okFlag = true
				}
			}
			if !okFlag {
				bad = "csrand.IntRange at " + p.InstrPos(ir) + " is reachable without setting nextLengthInvalid"
			}
		}
		if bad != "" {
			ob.Violate("%s", bad)
		} else {
			ob.HoldNT("%d replacement site(s), each with the flag set in the same path", len(irs))
		}
	}
	// range of stored nextLength
	ob = c.Obl(r3, tDecoder+".nextLength#range", "only 0 or a length in [16,1446] (minFrameLength..maxFrameLength) is ever stored into nextLength: an out-of-range deobfuscated length never reaches it")
	b := p.NewBounds()
	bad = ""
	nst := 0
	for _, s := range p.Stores(tDecoder, "nextLength") {
		if k, ok := intConst(s.Val); ok && k == 0 {
			continue
		}
		nst++
		s := s
		okr, why := b.Prove(s.Fn, s.Instr, func(sc *scope, pr *proof) []Cons {
			v := sc.lin(s.Val, pr)
			return []Cons{geC(v, 16), leC(v, 1446)}
		})
		if !okr {
			bad = "store at " + p.InstrPos(s.Instr) + ": " + why
		}
	}
	if nst == 0 {
		bad = "no non-zero store to nextLength"
	}
	if bad != "" {
		ob.Violate("%s", bad)
	} else {
		ob.HoldNT("%d non-zero store(s), each proved in [16,1446]", nst)
	}
}

// c05Writers: the only module writes into field typ.field are in `allowedFn`
// through a call to allowedCallee (or, when allowedFn is nil, in constructor
// functions that allocate the object).
func c05Writers(c *Ctx, p *Prog, rule, typ, field string, allowedFn *ssa.Function, allowedCallee string) {
	ob := c.Obl(rule, typ+"."+field+"#writers", "the "+field+" used to open frames has no writer other than its initialiser")
	p.prov()
	loc := Loc{Kind: 'f', F: FieldKey{typ, field}}
	var bad []string
	n := 0
	for _, w := range p.pi.writes[loc] {
		n++
		if allowedFn != nil {
			if w.Fn == allowedFn && w.Call {
				if call, ok := w.Instr.(ssa.CallInstruction); ok {
					id := p.CalleeID(call.Common())
					if id == M("$M/transports/obfs4/framing."+allowedCallee) || id == M("("+modulePath+"/transports/obfs4/framing.boxNonce).bytes") {
						continue
					}
				}
			}
		} else {
			// constructor: the object is allocated in the writing function
			okCtor := false
			allInstrs(w.Fn, func(in ssa.Instruction) {
				if a, ok := in.(*ssa.Alloc); ok && typeKey(a.Type()) == "*"+typ {
					okCtor = true
				}
			})
			if okCtor {
				continue
			}
		}
		bad = append(bad, p.FuncKey(w.Fn)+" at "+p.InstrPos(w.Instr))
	}
	sort.Strings(bad)
	if n == 0 {
		ob.Violate("no writer found for %s.%s", typ, field)
	} else if len(bad) > 0 {
		ob.Violate("unexpected writer(s): %v", bad)
	} else {
		ob.HoldNT("%d write site(s), all in the initialiser", n)
	}
}

// lockstep: R2/C01.R3 for the decoder (isDecoder) or the encoder.
func lockstep(c *Ctx, p *Prog, rule string, fn *ssa.Function, typ string, isDecoder bool) {
	fk := p.FuncKey(fn)
	ff := p.Facts(fn)
	// counter stores reachable from fn (fn itself or pointer-receiver helpers it calls)
	reach := p.Reachable(fn)
	var ctr []*StoreSite
	for _, s := range p.Stores(tNonce, "counter") {
		if reach[s.Fn] && s.Fn.Name() != "init" {
			ctr = append(ctr, s)
		}
	}
	ob := c.Obl(rule, fk+"#counter-advance", "the nonce counter is advanced exactly once per successful frame, through the "+typ+" itself (not a copy), by +1")
	var incr ssa.Instruction
	bad := ""
	if len(ctr) != 1 {
		bad = fmt.Sprintf("%d stores to the nonce counter reachable from %s, expected 1", len(ctr), fk)
	} else {
		s := ctr[0]
		st := s.Instr.(*ssa.Store)
		if !throughPointer(st.Addr) {
			bad = "the counter is incremented on a local copy of the nonce at " + p.InstrPos(st) + ": the stored counter never advances"
		} else if b, ok := unspill(st.Val).(*ssa.BinOp); !ok || b.Op != token.ADD {
			bad = "the counter store is not an increment"
		} else if k, ok := intConst(b.Y); !ok || k != 1 {
			bad = "the counter is not advanced by exactly 1"
		} else if ld, ok := unspill(b.X).(*ssa.UnOp); !ok || objKey(ld) != objKey(&ssa.UnOp{Op: token.MUL, X: st.Addr}) {
			// compare address expressions by key
			if k1, ok1 := fieldAddrKey(st.Addr); !ok1 || !isFieldLoad(b.X, k1.Type, k1.Field) {
				bad = "the counter increment does not read the counter it writes"
			}
		}
		if bad == "" {
			if s.Fn == fn {
				incr = s.Instr
			} else {
				// helper: the call in fn that reaches it
				for _, call := range p.CallsIn(fn, p.fnID(s.Fn)) {
					incr = call
				}
				if incr == nil {
					bad = "cannot locate the call that advances the counter"
				}
			}
		}
	}
	if bad != "" {
		ob.Violate("%s", bad)
		return
	}
	ob.HoldNT("one increment at %s", p.InstrPos(incr))

	succ := ff.SuccessReturns()
	nb := p.CallsIn(fn, idNextBlock)
	ncalls := p.CallsIn(fn, "("+modulePath+"/transports/obfs4/framing.boxNonce).bytes")
	if isDecoder {
		ob = c.Obl(rule, fk+"#advance-only-on-success", "the counter advance and nextLength=0 happen only after Open succeeded, in the block of the success return (control-equivalent): a failed frame never advances the sequence")
		bad = ""
		for _, r := range succ {
			if incr.Block() != r.Block() {
				bad = "counter advance at " + p.InstrPos(incr) + " is not control-equivalent with the success return at " + p.InstrPos(r)
			}
		}
		zero := false
		for _, s := range p.Stores(typ, "nextLength") {
			if k, ok := intConst(s.Val); ok && k == 0 && s.Fn == fn {
				for _, r := range succ {
					if s.Instr.Block() == r.Block() {
						zero = true
					}
				}
				if len(succ) > 0 && s.Instr.Block() != succ[0].Block() {
					bad = "nextLength is cleared at " + p.InstrPos(s.Instr) + " outside the success block"
				}
			}
		}
		if !zero && bad == "" {
			bad = "nextLength is not cleared on success: the next frame would reuse the stale length"
		}
		if !hasFact(ff.NC(incr.Block()), func(f Fact) bool { _, ok := p.FactCallBool(f, idOpen); return ok && f.Pol }) && bad == "" {
			bad = "the counter advances although Open may have failed"
		}
		if bad != "" {
			ob.Violate("%s", bad)
		} else {
			ob.HoldNT("both in the success block under Open ok")
		}
		ob = c.Obl(rule, fk+"#length-once-per-frame", "the length mask (NextBlock) and the frame nonce (nonce.bytes) are derived exactly once per frame, only while no length is pending (nextLength == 0)")
		bad = ""
		if len(nb) != 1 || len(ncalls) != 1 {
			bad = fmt.Sprintf("%d NextBlock and %d nonce.bytes calls, expected 1 and 1", len(nb), len(ncalls))
		} else {
			for _, call := range []ssa.CallInstruction{nb[0], ncalls[0]} {
				if blockOnCycle(call.Block()) {
					bad = "call at " + p.InstrPos(call) + " is in a loop"
				}
				if !hasFact(ff.NC(call.Block()), func(f Fact) bool {
					b, ok := f.Cond.(*ssa.BinOp)
					if !ok || b.Op != token.EQL || !f.Pol {
						return false
					}
					k, isK := intConst(b.Y)
					return isK && k == 0 && isFieldLoad(b.X, typ, "nextLength")
				}) {
					bad = "call at " + p.InstrPos(call) + " is not guarded by nextLength == 0"
				}
			}
		}
		if bad != "" {
			ob.Violate("%s", bad)
		} else {
			ob.HoldNT("NextBlock at %s and nonce.bytes at %s under nextLength == 0", p.InstrPos(nb[0]), p.InstrPos(ncalls[0]))
		}
		ob = c.Obl(rule, fk+"#length-remembered", "after the mask was consumed, every path that continues (does not return an error) stores the frame length into nextLength, so a partially received frame is resumed with the same length and nonce")
		bad = ""
		if len(nb) == 1 {
			via := map[ssa.Instruction]bool{}
			for _, s := range p.Stores(typ, "nextLength") {
				if k, ok := intConst(s.Val); ok && k == 0 {
					continue
				}
				if s.Fn == fn {
					via[s.Instr] = true
				}
			}
			for _, r := range returnsOf(fn) {
				if !canReachWithout(nb[0], r, nil) {
					continue
				}
				if canReachWithout(nb[0], r, via) {
					// allowed only for returns of a provably fatal (non-sentinel) error
					v := unspill(r.Results[errResultIndex(fn)])
					if g, isG := sentinelGlobal(v); isG && g.Name() == "ErrAgain" || !ff.ProvablyNonNil(v, r.Block(), 0) {
						bad = "return at " + p.InstrPos(r) + " is reachable from NextBlock without storing nextLength"
					}
				}
			}
			if len(via) == 0 {
				bad = "nextLength is never stored with a non-zero value"
			}
		}
		if bad != "" {
			ob.Violate("%s", bad)
		} else {
			ob.HoldNT("all continuing paths store nextLength")
		}
		// all-or-nothing reads from the frame buffer
		for i, rf := range p.ReadFullsIn(fn) {
			ob := c.Obl(rule, fmt.Sprintf("%s#all-or-nothing-read#%d", fk, i+1), "bytes are taken from the frame buffer only when the whole field is available (Len() was compared with the amount to read): a partial field is never consumed").At(p.InstrPos(rf))
			okG := false
			for _, f := range ff.NC(rf.Block()) {
				b, ok := f.Cond.(*ssa.BinOp)
				if !ok {
					continue
				}
				op := b.Op
				if !f.Pol {
					op = negOp(op)
				}
				// amount <= Len  (i.e. !(amount > Len))
				var amt, ln ssa.Value
				switch op {
				case token.LEQ:
					amt, ln = b.X, b.Y
				case token.GEQ:
					amt, ln = b.Y, b.X
				default:
					continue
				}
				lcall, _ := callOf(unspill(ln))
				if lcall == nil || p.CalleeID(lcall.Common()) != "(*bytes.Buffer).Len" {
					continue
				}
				if objKey(lcall.Common().Args[0]) != readerObjKey(rf.Common().Args[0]) {
					continue
				}
				// amount equals len of the buffer read into
				lc := p.newLin()
				want, okw := lenOfSliceExpr(lc, rf.Common().Args[1])
				same := okw && lc.Of(amt).Equal(want)
				if !same {
					// the amount and the slice bound are two loads of the same field with no store in between
					if sl, ok := unspill(rf.Common().Args[1]).(*ssa.Slice); ok && sl.Low == nil && sl.High != nil {
						a, b := stripIntConv(amt), stripIntConv(sl.High)
						ka, _, oka := fieldLoad(a)
						kb, _, okb := fieldLoad(b)
						if oka && okb && ka == kb && objKey(a) == objKey(b) && !storeBetween(p, lcall, rf, ka) {
							same = true
						}
					}
				}
				if same {
					// no consumption of the buffer between the Len() and the read
					okG = !mutatesBetween(p, lcall, rf, lcall.Common().Args[0])
				}
			}
			if okG {
				ob.HoldNT("guarded by amount <= Len()")
			} else {
				ob.Violate("io.ReadFull at %s is not guarded by a comparison of Len() with exactly the number of bytes it reads: on short input it consumes part of the field and loses frame alignment", p.InstrPos(rf))
			}
		}
	} else {
		ob = c.Obl(rule, fk+"#encode-once", "every successful Encode takes one nonce (after the wrap check), advances the counter once, consumes one length mask and seals once")
		seals := p.CallsIn(fn, idSeal)
		bad = ""
		switch {
		case len(nb) != 1 || len(ncalls) != 1 || len(seals) != 1:
			bad = fmt.Sprintf("%d NextBlock, %d nonce.bytes, %d Seal calls; expected 1 each", len(nb), len(ncalls), len(seals))
		default:
			nc := ncalls[0].(*ssa.Call)
			for _, r := range succ {
				for _, in := range []ssa.Instruction{incr, nb[0], seals[0], nc} {
					if !instrDominates(in, r) {
						bad = "instruction at " + p.InstrPos(in) + " does not dominate the success return"
					}
				}
			}
			if !instrDominates(nc, incr) || !hasFact(ff.NC(incr.Block()), func(f Fact) bool { return FactErrNilOfCall(f, nc) }) {
				bad = "the counter is advanced without the wrap check (nonce.bytes) having succeeded"
			}
			for _, in := range []ssa.Instruction{incr, nb[0], seals[0]} {
				if blockOnCycle(in.Block()) {
					bad = "instruction at " + p.InstrPos(in) + " is in a loop"
				}
			}
			// no failure return after the sequence started (state would be advanced without output)
			for _, r := range returnsOf(fn) {
				isSucc := false
				for _, s := range succ {
					if s == r {
						isSucc = true
					}
				}
				if !isSucc && canReachWithout(incr, r, nil) {
					bad = "failure return at " + p.InstrPos(r) + " after the counter was advanced"
				}
			}
		}
		if bad != "" {
			ob.Violate("%s", bad)
		} else {
			ob.HoldNT("nonce.bytes ok -> counter+1 -> Seal -> NextBlock, all dominating the success return")
		}
	}
}

func readerObjKey(v ssa.Value) string {
	v = stripConv(v)
	return objKey(v)
}

// lenOfSliceExpr: len of x[l:h] / array slices in linear form.
func lenOfSliceExpr(lc *linCtx, v ssa.Value) (Lin, bool) {
	sl, ok := unspill(v).(*ssa.Slice)
	if !ok {
		return Lin{}, false
	}
	lo := linConst(0)
	if sl.Low != nil {
		lo = lc.Of(sl.Low)
	}
	if sl.High != nil {
		return lc.Of(sl.High).Sub(lo), true
	}
	if l, ok := constLen(sl.X.Type()); ok {
		return linConst(l).Sub(lo), true
	}
	return Lin{}, false
}

// mutatesBetween: some call between a and b may consume/modify object obj.
func mutatesBetween(p *Prog, a, b ssa.Instruction, obj ssa.Value) bool {
	key := objKey(obj)
	found := false
	allInstrs(a.Parent(), func(in ssa.Instruction) {
		call, ok := in.(ssa.CallInstruction)
		if !ok || in == a || in == b {
			return
		}
		touches := false
		r, m, _ := recvOf(call)
		if r != nil && objKey(r) == key && !accReadMethods[m] {
			touches = true
		}
		for _, arg := range call.Common().Args {
			if objKey(stripConv(arg)) == key && (r == nil || objKey(r) != key) {
				touches = true
			}
		}
		if !touches {
			return
		}
		if canReachWithout(a, in, map[ssa.Instruction]bool{b: true}) && canReachWithout(in, b, map[ssa.Instruction]bool{a: true}) {
			found = true
		}
	})
	return found
}

// c05ReadErr: R5 — phi-web analysis of the error returned by obfs4Conn.Read.
func c05ReadErr(c *Ctx, p *Prog, rule string) {
	readErrPriority(c, p, rule, "transports/obfs4:(*obfs4Conn).Read", "(*$M/transports/obfs4.obfs4Conn).readPackets")
}

// readErrPriority: the phi-web analysis for any Read built as "loop on readPackets, then serve
// from the decoded buffer" (obfs4, ScrambleSuit).
func readErrPriority(c *Ctx, p *Prog, rule, fnKey, rpID string) {
	fn := p.Func(fnKey)
	ob := c.Obl(rule, fnKey+"#error-priority", "Read returns the error of the last readPackets call unless that error is nil or the retry sentinel: every other value (nil, the buffer's own error) can enter the returned error only where the pending error is known to be nil or ErrAgain")
	if fn == nil {
		ob.Undecide("%s not found", fnKey)
		return
	}
	c.Touch(p.FuncKey(fn))
	ff := p.Facts(fn)
	var E *ssa.Call
	for _, call := range p.CallsIn(fn, M(rpID)) {
		if cv, ok := call.(*ssa.Call); ok {
			E = cv
		}
	}
	if E == nil {
		ob.Undecide("no readPackets call in Read")
		return
	}
	// the other half of "data before the error": after readPackets has run, Read does not return before it
	// has looked at the decoded buffer again (what was decoded by the very call that failed is handed over
	// first)
	ob2 := c.Obl(rule, fnKey+"#decoded-bytes-first", "no return of Read is reachable from the readPackets call without first consulting the decoded buffer (Len or Read on it): bytes decoded by the call that reported the error are delivered before the error")
	{
		via := map[ssa.Instruction]bool{}
		allInstrs(fn, func(in ssa.Instruction) {
			ci, ok := in.(ssa.CallInstruction)
			if !ok {
				return
			}
			id := p.CalleeID(ci.Common())
			if (id == "(*bytes.Buffer).Len" || id == "(*bytes.Buffer).Read") && len(ci.Common().Args) > 0 {
				if k, _, ok := fieldLoad(unspill(ci.Common().Args[0])); ok && strings.Contains(strings.ToLower(k.Field), "decoded") {
					via[in] = true
				}
			}
		})
		bad2 := ""
		for _, r := range returnsOf(fn) {
			if canReachWithout(E, r, via) {
				bad2 = "the return at " + p.InstrPos(r) + " is reachable from the readPackets call without looking at the decoded buffer"
			}
		}
		switch {
		case len(via) == 0:
			ob2.Undecide("no use of the decoded buffer found in Read")
		case bad2 != "":
			ob2.Violate("%s", bad2)
		default:
			ob2.HoldNT("every path from readPackets to a return consults the decoded buffer")
		}
	}
	sent := retrySentinels(p)
	ei := errResultIndex(fn)
	web := map[ssa.Value]bool{}
	type leaf struct {
		v        ssa.Value
		from, to *ssa.BasicBlock
	}
	var leaves []leaf
	var walk func(v ssa.Value)
	walk = func(v ssa.Value) {
		ph, ok := v.(*ssa.Phi)
		if !ok || web[v] {
			return
		}
		web[v] = true
		for i, e := range ph.Edges {
			e = unspill(e)
			if _, isPhi := e.(*ssa.Phi); isPhi {
				walk(e)
				continue
			}
			leaves = append(leaves, leaf{e, ph.Block().Preds[i], ph.Block()})
		}
	}
	bad := ""
	for _, r := range returnsOf(fn) {
		v := unspill(r.Results[ei])
		if v == ssa.Value(E) {
			continue
		}
		if _, isPhi := v.(*ssa.Phi); !isPhi {
			// another value returned directly: judged like a value entering the error variable here
			leaves = append(leaves, leaf{v, r.Block(), nil})
			continue
		}
		walk(v)
	}
	defReach := reachableFrom(E.Block(), nil)
	for _, l := range leaves {
		if l.v == ssa.Value(E) {
			continue
		}
		if !defReach[l.from] {
			continue // before the first readPackets call
		}
		fs := append([]Fact{}, ff.NC(l.from)...)
		if l.to != nil {
			if ef, ok := edgeFact(l.from, l.to); ok {
				fs = append(fs, ef)
			}
		}
		ok := false
		for _, f := range fs {
			if x, isNil, k := FactNilCmp(f); k && isNil && (web[x] || web[unspill(x)] || unspill(x) == ssa.Value(E)) {
				ok = true
			}
			if call, k := p.FactCallBool(f, "errors.Is"); k && f.Pol && unspill(call.Common().Args[0]) == ssa.Value(E) {
				if g, isG := sentinelGlobal(unspill(call.Common().Args[1])); isG && sent[g] {
					ok = true
				}
			}
		}
		if !ok {
			to := "return"
			if l.to != nil {
				to = l.to.Comment
			}
			bad = fmt.Sprintf("the value %s replaces the pending error on the edge %s -> %s without the pending error being known nil or ErrAgain: a fatal frame error can be lost", p.valString(l.v), l.from.Comment, to)
		}
	}
	// the loop may only go round again while the pending error is nil or the sentinel (otherwise the next readPackets overwrites it)
	for _, head := range fn.Blocks {
		for _, pred := range head.Preds {
			if !isBackEdge(pred, head) || !naturalLoop(pred, head)[E.Block()] || !defReach[pred] {
				continue
			}
			fs := append([]Fact{}, ff.NC(pred)...)
			if ef, ok := edgeFact(pred, head); ok {
				fs = append(fs, ef)
			}
			ok := false
			// the loop is re-entered under "carried error == nil" where the carried error can only be
			// nil or a non-sentinel error of readPackets: a fatal error stops it
			for _, f := range ff.NC(E.Block()) {
				if x, isNil, k := FactNilCmp(f); k && isNil {
					if _, isPhi := x.(*ssa.Phi); isPhi && fatalWeb(p, ff, x, E, sent, map[*ssa.Phi]bool{}) {
						ok = true
					}
				}
			}
			for _, f := range fs {
				if x, isNil, k := FactNilCmp(f); k && isNil && unspill(x) == ssa.Value(E) {
					ok = true
				}
				if call, k := p.FactCallBool(f, "errors.Is"); k && f.Pol && unspill(call.Common().Args[0]) == ssa.Value(E) {
					if g, isG := sentinelGlobal(unspill(call.Common().Args[1])); isG && sent[g] {
						ok = true
					}
				}
			}
			if !ok {
				bad = fmt.Sprintf("the receive loop iterates again on the edge %s -> %s although readPackets may have reported a fatal error: the error is overwritten and lost", pred.Comment, head.Comment)
			}
		}
	}
	if bad != "" {
		ob.Violate("%s", bad)
	} else {
		ob.HoldNT("%d phi nodes, %d leaves; every non-readPackets leaf enters under err==nil or errors.Is(err, ErrAgain); the loop re-iterates only on nil/ErrAgain", len(web), len(leaves))
	}
}

func stripIntConv(v ssa.Value) ssa.Value {
	for {
		v = unspill(v)
		cv, ok := v.(*ssa.Convert)
		if !ok || !isIntType(cv.Type()) || !isIntType(cv.X.Type()) {
			return v
		}
		v = cv.X
	}
}

// storeBetween: a store to field k (or a call into the module that may store
// it) can execute between a and b.
func storeBetween(p *Prog, a, b ssa.Instruction, k FieldKey) bool {
	found := false
	allInstrs(a.Parent(), func(in ssa.Instruction) {
		if in == a || in == b {
			return
		}
		writes := false
		switch x := in.(type) {
		case *ssa.Store:
			if fk, ok := fieldAddrKey(x.Addr); ok && fk == k {
				writes = true
			}
		case ssa.CallInstruction:
			for _, callee := range p.Callees(x) {
				if !p.inModule(callee) {
					continue
				}
				for fn := range p.Reachable(callee) {
					for _, s := range p.stores[k] {
						if s.Fn == fn {
							writes = true
						}
					}
				}
			}
		}
		if writes && canReachWithout(a, in, map[ssa.Instruction]bool{b: true}) && canReachWithout(in, b, map[ssa.Instruction]bool{a: true}) {
			found = true
		}
	})
	return found
}

// fatalWeb: the merged error w can only be nil or the error e of the
// readPackets call on a path where e is known not to be a retry sentinel:
// "w != nil" then means a fatal error is in hand, "w == nil" that none is.
func fatalWeb(p *Prog, ff *FuncFacts, w ssa.Value, e ssa.Value, sent map[*ssa.Global]bool, seen map[*ssa.Phi]bool) bool {
	phi, ok := w.(*ssa.Phi)
	if !ok || seen[phi] {
		return ok
	}
	seen[phi] = true
	for i, ed := range phi.Edges {
		if isNilConst(ed) {
			continue
		}
		if sub, isPhi := ed.(*ssa.Phi); isPhi {
			if !fatalWeb(p, ff, sub, e, sent, seen) {
				return false
			}
			continue
		}
		if unspill(ed) != e {
			return false
		}
		pred := phi.Block().Preds[i]
		fs := append([]Fact{}, ff.NC(pred)...)
		if ef, ok := edgeFact(pred, phi.Block()); ok {
			fs = append(fs, ef)
		}
		notSentinel := hasFact(fs, func(f Fact) bool {
			call, ok := p.FactCallBool(f, "errors.Is")
			if !ok || f.Pol || unspill(call.Common().Args[0]) != e {
				return false
			}
			g, isG := sentinelGlobal(unspill(call.Common().Args[1]))
			return isG && sent[g]
		})
		if !notSentinel {
			return false
		}
	}
	return true
}
