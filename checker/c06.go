package main

// C06 — obfs4 wire format (DESIGN 4, C06): constants, offsets, order, labels,
// endianness, key-split direction, DRBG shape, inline seed frame, cert layout.
// Also the generic spec-table evaluator used by C08/C13/C14.

import (
	"embed"
	"encoding/json"
	"fmt"
	"go/constant"
	"go/token"
	"go/types"
	"strings"

	"golang.org/x/tools/go/ssa"
)

//go:embed spec/*.json
var specFS embed.FS

type specConst struct {
	Pkg    string  `json:"pkg"`
	Name   string  `json:"name"`
	Value  *int64  `json:"value"`
	String *string `json:"string"`
	Why    string  `json:"why"`
}

type specCall struct {
	Func   string `json:"func"`
	Callee string `json:"callee"`
	Args   []any  `json:"args"`
	Why    string `json:"why"`
}

type specTerm struct {
	Func   string `json:"func"`
	Result int    `json:"result"`
	Term   string `json:"term"`
	Why    string `json:"why"`
}

type specFile struct {
	Consts   []specConst `json:"consts"`
	CallArgs []specCall  `json:"call_args"`
	Terms    []specTerm  `json:"terms"`
}

func loadSpec(name string) (*specFile, error) {
	b, err := specFS.ReadFile("spec/" + name)
	if err != nil {
		return nil, err
	}
	var s specFile
	if err := json.Unmarshal(b, &s); err != nil {
		return nil, fmt.Errorf("spec/%s: %w", name, err)
	}
	return &s, nil
}

func init() {
	register(&PropInfo{
		ID: "C06", Level: "other", MinObls: 60,
		Explanation: "Conformance of every constant, offset, order, label and direction the obfs4 wire format consists of, decided statically: R1 constant values and the constants at their use sites against a spec table transcribed from doc/obfs4-spec.txt and the deployed format; " +
			"R2 key schedule: ntor.Kdf(seed,144) as HKDF-SHA256(salt=t_key, info=m_expand) and the crosswise direction split (client encoder = okm[0:72] = server decoder, client decoder = okm[72:144] = server encoder); R3 framing: key/nonce-prefix/DRBG-seed at 0/32/48 of the 72-byte block, nonce = prefix | BE64 counter starting at 1, length = BE16(len(box)-2) XOR BE16(mask) in Encode and the mirror in Decode; " +
			"R4 DRBG shape: SipHash keyed with seed[0:16], OFB register seed[16:24], NextBlock = Write(register); register := Sum; return a copy; no Reset of the running hash; R5 handshake layouts and R6 ntor transcript reconstructed as expression trees (E7) from the def-use chains and compared with spec terms; R7 packet layout (C01.R1) and the unpadded PRNG-seed frame right behind the server response in one write; R8 bridge-line cert: base64(nodeID[20]|publicKey[32]) minus '==', writer and reader agree, both bridge-line formats accepted.",
		NotCovered: []string{"the primitives' implementations (x/crypto, siphash, Elligator: C07)", "actual interoperation with a deployed peer (needs execution)"},
		Trusted:    []string{"go/types+go/ssa faithful", "the spec tables under checker/spec/ transcribe the protocol documents correctly"},
		Run:        runC06,
	})
}

// evalSpec evaluates the generic parts of a spec file.
func evalSpec(c *Ctx, p *Prog, s *specFile, rConst, rCall, rTerm string) {
	evalSpecFiltered(c, p, s, rConst, rCall, rTerm, nil)
}

// evalSpecFiltered evaluates only the entries for which keep returns true
// (kind is "const", "call" or "term"; name the constant / function key).
func evalSpecFiltered(c *Ctx, p *Prog, s *specFile, rConst, rCall, rTerm string, keep func(kind, name string) bool) {
	for _, k := range s.Consts {
		if keep != nil && !keep("const", k.Pkg+"."+k.Name) {
			continue
		}
		ob := c.Obl(rConst, "const:"+k.Pkg+"."+k.Name, "protocol constant has the value the wire format prescribes ("+k.Why+")")
		sp := p.SPkgs[k.Pkg]
		if sp == nil {
			ob.Undecide("package %s not found", k.Pkg)
			continue
		}
		cst, ok := sp.Pkg.Scope().Lookup(k.Name).(*types.Const)
		if !ok {
			ob.Undecide("constant %s.%s not found", k.Pkg, k.Name)
			continue
		}
		if k.String != nil {
			if cst.Val().Kind() != constant.String || constant.StringVal(cst.Val()) != *k.String {
				ob.Violate("%s.%s = %s, the wire format prescribes %q", k.Pkg, k.Name, cst.Val(), *k.String)
			} else {
				ob.Hold("%q", *k.String)
			}
			continue
		}
		v, exact := constant.Int64Val(constant.ToInt(cst.Val()))
		if !exact || k.Value == nil || v != *k.Value {
			ob.Violate("%s.%s = %s, the wire format prescribes %d", k.Pkg, k.Name, cst.Val(), *k.Value)
		} else {
			ob.Hold("%d", v)
		}
	}
	for _, k := range s.CallArgs {
		if keep != nil && !keep("call", k.Func+"#"+k.Callee) {
			continue
		}
		ob := c.Obl(rCall, "args:"+k.Func+"#"+strings.TrimPrefix(k.Callee, "$M/"), "the constants at this use site are the ones the wire format prescribes ("+k.Why+")")
		fn := p.Func(k.Func)
		if fn == nil {
			ob.Undecide("function %s not found", k.Func)
			continue
		}
		c.Touch(k.Func)
		calls := p.CallsIn(fn, k.Callee)
		if len(calls) != 1 {
			ob.Undecide("%d calls to %s in %s", len(calls), k.Callee, k.Func)
			continue
		}
		args := calls[0].Common().Args
		bad := ""
		for i, want := range k.Args {
			if want == nil {
				continue
			}
			if i >= len(args) {
				bad = "too few arguments"
				break
			}
			switch w := want.(type) {
			case float64:
				if got, ok := intConst(args[i]); !ok || got != int64(w) {
					bad = fmt.Sprintf("argument %d is %s, expected %d", i, p.valString(args[i]), int64(w))
				}
			case bool:
				cst, ok := args[i].(*ssa.Const)
				if !ok || cst.Value == nil || cst.Value.String() != fmt.Sprint(w) {
					bad = fmt.Sprintf("argument %d is %s, expected %v", i, p.valString(args[i]), w)
				}
			}
		}
		if bad != "" {
			ob.At(p.InstrPos(calls[0])).Violate("%s", bad)
		} else {
			ob.At(p.InstrPos(calls[0])).Hold("%v", k.Args)
		}
	}
	// helpers whose result is a pure function of their parameters: their applications are
	// expanded on both sides of the comparison (a helper inlined by hand compares equal)
	sums := map[string]map[int]string{}
	for _, k := range s.Terms {
		if strings.Contains(k.Term, "<") || strings.Contains(k.Func, ").") {
			continue
		}
		name := k.Func[strings.LastIndex(k.Func, ":")+1:]
		if sums[name] == nil {
			sums[name] = map[int]string{}
		}
		sums[name][k.Result] = k.Term
	}
	for _, k := range s.Terms {
		if keep != nil && !keep("term", fmt.Sprintf("%s#%d", k.Func, k.Result)) {
			continue
		}
		ob := c.Obl(rTerm, fmt.Sprintf("term:%s#%d", k.Func, k.Result), "the value built here has the layout the wire format prescribes ("+k.Why+"); reconstructed from the def-use chains as an expression tree and compared with the spec term")
		fn := p.Func(k.Func)
		if fn == nil {
			name := k.Func[strings.LastIndex(k.Func, ":")+1:]
			var users []string
			for _, o := range s.Terms {
				if o.Func != k.Func && strings.Contains(o.Term, name+"(") {
					users = append(users, o.Func)
				}
			}
			if _, isSum := sums[name][k.Result]; isSum && len(users) > 0 {
				ob.HoldNT("helper %s does not exist in this tree; the values it contributed to (%s) are compared with its prescribed result %s expanded in place", k.Func, strings.Join(users, ", "), k.Term)
				continue
			}
			ob.Undecide("function %s not found", k.Func)
			continue
		}
		c.Touch(k.Func)
		succ := p.Facts(fn).SuccessReturns()
		if len(succ) != 1 {
			ob.Undecide("%d success returns in %s", len(succ), k.Func)
			continue
		}
		t := p.newTermer()
		got := t.Term(succ[0].Results[k.Result])
		switch {
		case len(t.errs) > 0:
			ob.At(p.InstrPos(succ[0])).Undecide("cannot reconstruct the layout: %s", strings.Join(t.errs, "; "))
		case !termEq(expandSummaries(got, sums, 0), expandSummaries(k.Term, sums, 0)):
			ob.At(p.InstrPos(succ[0])).Violate("layout differs from the wire format:\n      got:  %s\n      spec: %s", got, k.Term)
		default:
			ob.At(p.InstrPos(succ[0])).HoldNT("%s", got)
		}
	}
}

// kdfRange resolves a []byte value to a constant sub-range [lo,hi) of the
// output of an ntor.Kdf call, following module helper functions.
func (p *Prog) kdfRange(v ssa.Value, depth int) (lo, hi int64, kdf *ssa.Call, ok bool) {
	if depth > 5 {
		return
	}
	v = unspill(v)
	switch x := v.(type) {
	case *ssa.Slice:
		l, h, k, ok2 := p.kdfRange(x.X, depth+1)
		if !ok2 {
			return
		}
		nl, nh := l, h
		if x.Low != nil {
			c, isC := intConst(x.Low)
			if !isC {
				return
			}
			nl = l + c
		}
		if x.High != nil {
			c, isC := intConst(x.High)
			if !isC {
				return
			}
			nh = l + c
		}
		return nl, nh, k, true
	case *ssa.Call:
		if p.CalleeID(x.Common()) == M(idKdf) {
			n, isC := intConst(x.Common().Args[1])
			if !isC {
				return
			}
			return 0, n, x, true
		}
		return p.kdfRangeOfResult(x, 0, depth)
	case *ssa.Extract:
		if c, isCall := x.Tuple.(*ssa.Call); isCall {
			return p.kdfRangeOfResult(c, x.Index, depth)
		}
	}
	return
}

func (p *Prog) kdfRangeOfResult(c *ssa.Call, idx int, depth int) (lo, hi int64, kdf *ssa.Call, ok bool) {
	sc := c.Common().StaticCallee()
	if sc == nil || !p.inModule(sc) {
		return
	}
	first := true
	for _, r := range returnsOf(sc) {
		if idx >= len(r.Results) {
			return 0, 0, nil, false
		}
		l, h, k, ok2 := p.kdfRange(r.Results[idx], depth+1)
		if !ok2 {
			return 0, 0, nil, false
		}
		if !first && (l != lo || h != hi) {
			return 0, 0, nil, false
		}
		lo, hi, kdf, first = l, h, k, false
	}
	return lo, hi, kdf, !first
}

// keySplitRule: R2 direction split (also used by C05 as direction separation).
func keySplitRule(c *Ctx, p *Prog, rule string, checkDirection bool) {
	type inst struct{ lo, hi int64 }
	got := map[string]inst{}
	for _, role := range []struct{ fn, name string }{{"transports/obfs4:(*obfs4Conn).clientHandshake", "client"}, {"transports/obfs4:(*obfs4Conn).serverHandshake", "server"}} {
		fn := p.Func(role.fn)
		if fn == nil {
			c.Obl(rule, role.name+"#key-split", "link keys are installed").Undecide("%s not found", role.fn)
			return
		}
		for _, field := range []string{"encoder", "decoder"} {
			ob := c.Obl(rule, role.name+"#"+field+"-keys", "the "+role.name+"'s "+field+" is keyed with a constant 72-byte half of the 144-byte ntor.Kdf output")
			var st *StoreSite
			for _, s := range p.Stores(tConn, field) {
				if s.Fn == fn || p.Reachable(fn)[s.Fn] {
					if cst, isC := s.Val.(*ssa.Const); isC && cst.IsNil() {
						continue
					}
					st = s
				}
			}
			if st == nil {
				ob.Violate("%s never installs the %s", role.fn, field)
				continue
			}
			nc, _ := callOf(unspill(st.Val))
			if nc == nil || len(nc.Common().Args) != 1 {
				ob.Violate("the %s is not built by framing.New%s(key)", field, field)
				continue
			}
			lo, hi, kdf, ok := p.kdfRange(nc.Common().Args[0], 0)
			if !ok {
				ob.At(p.InstrPos(nc)).Violate("the key material is not a constant range of an ntor.Kdf output")
				continue
			}
			if n, _ := intConst(kdf.Common().Args[1]); n != 144 || hi-lo != 72 || (lo != 0 && lo != 72) {
				ob.At(p.InstrPos(nc)).Violate("key material is okm[%d:%d] of a %d-byte Kdf output; expected one 72-byte half of 144", lo, hi, n)
				continue
			}
			got[role.name+"."+field] = inst{lo, hi}
			ob.At(p.InstrPos(nc)).HoldNT("okm[%d:%d]", lo, hi)
		}
	}
	if len(got) != 4 {
		return
	}
	ob := c.Obl(rule, "direction-separation", "the two directions of a connection use different halves of the key material, and each side decodes with the half its peer encodes with")
	ce, cd, se, sd := got["client.encoder"], got["client.decoder"], got["server.encoder"], got["server.decoder"]
	switch {
	case ce == cd || se == sd:
		ob.Violate("one endpoint encodes and decodes with the same key block: ciphertext of one direction is valid in the other (reflection)")
	case ce != sd || cd != se:
		ob.Violate("the client's encoder block okm[%d:%d] is not the server's decoder block okm[%d:%d] (or vice versa)", ce.lo, ce.hi, sd.lo, sd.hi)
	default:
		ob.HoldNT("client enc = server dec = okm[%d:%d]; client dec = server enc = okm[%d:%d]", ce.lo, ce.hi, cd.lo, cd.hi)
	}
	if checkDirection {
		ob = c.Obl(rule, "deployed-direction", "deployed split: the client-to-server block is okm[0:72], the server-to-client block okm[72:144]")
		if ce.lo == 0 && cd.lo == 72 {
			ob.Hold("client encodes with okm[0:72]")
		} else {
			ob.Violate("the client encodes with okm[%d:%d]: both ends of this implementation agree, but no deployed peer does", ce.lo, ce.hi)
		}
	}
}

func runC06(c *Ctx) {
	if !importing {
		// what an endpoint accepts: a decoder that loses or re-reads bytes at a segment boundary rejects a
		// conforming stream (C01's Decode rules); the padding lengths are drawn by csrand (C12's range rules)
		importObls(c, "C01", runC01, "X01", func(k string) bool { return containsAny(k, "transports/obfs4/framing") })
		importObls(c, "C12", runC12, "X12", func(k string) bool { return containsAny(k, "common/csrand") })
	}
	// "mark/MAC with epoch hour": which hour the server's reply and the client's verification are bound
	// to is decided by C04's hour rules (R2 offsets, R5 store/use), which are part of the wire format
	// too; imported as RH2/RH5
	defer func() {
		sub := NewCtx(c.P, c.Prop, c.Tier)
		runC04(sub)
		for _, o := range sub.Obls {
			if !strings.HasPrefix(o.Key, c.Prop+".R5@") && !strings.HasPrefix(o.Key, c.Prop+".R2@") {
				continue
			}
			o.Key = strings.Replace(o.Key, c.Prop+".R", c.Prop+".RH", 1)
			c.Obls = append(c.Obls, o)
		}
	}()
	p := c.P
	spec, err := loadSpec("obfs4_wire.json")
	if err != nil {
		c.Obl("R0", "spec", "spec table loads").Undecide("%v", err)
		return
	}
	evalSpec(c, p, spec, "R1", "R1", "R5")
	keySplitRule(c, p, "R2", true)
	c06Framing(c, p)
	c06Drbg(c, p, "R4")
	// R5b: parsers agree with the generators on offsets (client copies Y' from [0:32], AUTH from [32:64]; server copies X' from [0:32])
	c06ParserOffsets(c, p)
	// R7
	c01Layout(c, p)
	c06SeedFrame(c, p)
	c06Cert(c, p)
	c06ParserDecides(c, p, "R7")
	parserVerdictAfterSearch(c, p, "R7")
}

// ---- R3 ---------------------------------------------------------------------------

func c06Framing(c *Ctx, p *Prog) {
	for _, name := range []string{"NewEncoder", "NewDecoder"} {
		fn := p.Func("transports/obfs4/framing:" + name)
		ob := c.Obl("R3", "transports/obfs4/framing:"+name+"#key-block-layout", "the 72-byte key block is split as secretbox key [0:32] | nonce prefix [32:48] | DRBG seed [48:72]")
		if fn == nil {
			ob.Undecide("not found")
			continue
		}
		c.Touch(p.FuncKey(fn))
		key := fn.Params[0]
		typ := tEncoder
		if name == "NewDecoder" {
			typ = tDecoder
		}
		bad := ""
		// copy(x.key[:], key[0:32])
		srcs := p.copySources(typ, "key")
		okKey := false
		for _, s := range srcs {
			if par, lo, hi, ok := sliceOfParam(s); ok && par == key && lo == 0 && hi == 32 {
				okKey = true
			}
		}
		if !okKey {
			bad = "the secretbox key is not key[0:32]"
		}
		// nonce.init(key[32:48])
		okPrefix := false
		for _, call := range p.CallsIn(fn, "(*"+modulePath+"/transports/obfs4/framing.boxNonce).init") {
			if par, lo, hi, ok := sliceOfParam(call.Common().Args[1]); ok && par == key && lo == 32 && hi == 48 {
				okPrefix = true
			}
		}
		if !okPrefix {
			bad = "the nonce prefix is not key[32:48]"
		}
		okSeed := false
		for _, call := range p.CallsIn(fn, "$M/common/drbg.SeedFromBytes") {
			if par, lo, hi, ok := sliceOfParam(call.Common().Args[0]); ok && par == key && lo == 48 && (hi == -1 || hi == 72) {
				okSeed = true
			}
		}
		if !okSeed {
			bad = "the DRBG seed is not key[48:72]"
		}
		// the DRBG is built from that seed
		okDrbg := false
		for _, s := range p.Stores(typ, "drbg") {
			if s.Fn != fn {
				continue
			}
			sl := p.Slice(s.Val, SliceOpt{NoMem: true})
			if nh := sl.DependsOnCall("$M/common/drbg.NewHashDrbg"); nh != nil {
				if p.Slice(nh.Common().Args[0], SliceOpt{NoMem: true}).DependsOnCall("$M/common/drbg.SeedFromBytes") != nil {
					okDrbg = true
				}
			}
		}
		if !okDrbg {
			bad = "the length-mask DRBG is not NewHashDrbg(SeedFromBytes(key[48:]))"
		}
		if bad != "" {
			ob.Violate("%s", bad)
		} else {
			ob.HoldNT("key[0:32] -> key, key[32:48] -> nonce prefix, key[48:] -> DRBG seed")
		}
	}
	// nonce layout and counter start
	ob := c.Obl("R3", "transports/obfs4/framing:(*boxNonce).init#counter-start", "the frame counter starts at 1 (0 is reserved to detect wrap-around) and the prefix is copied from the key block")
	bad := ""
	n1 := 0
	for _, s := range p.Stores(tNonce, "counter") {
		if k, ok := intConst(s.Val); ok {
			n1++
			if k != 1 {
				bad = fmt.Sprintf("the counter is initialised to %d", k)
			}
			if len(s.Fn.Params) != 2 {
				bad = "the counter is initialised outside boxNonce.init"
			}
		}
	}
	if n1 != 1 && bad == "" {
		bad = fmt.Sprintf("%d constant stores to the counter, expected 1", n1)
	}
	if bad != "" {
		ob.Violate("%s", bad)
	} else {
		ob.Hold("counter = 1 in init")
	}
	ob = c.Obl("R3", "transports/obfs4/framing:(boxNonce).bytes#nonce-layout", "nonce = prefix[16] | big-endian uint64 counter at offset 16, and a zero counter (wrapped) is refused")
	nb := p.Func("transports/obfs4/framing:(boxNonce).bytes")
	if nb == nil {
		ob.Undecide("boxNonce.bytes not found")
	} else {
		c.Touch(p.FuncKey(nb))
		bad = ""
		puts := p.CallsIn(nb, "(encoding/binary.bigEndian).PutUint64")
		if len(puts) != 1 {
			bad = "the counter is not written with binary.BigEndian.PutUint64"
		} else {
			a := puts[0].Common().Args
			sl, ok := unspill(a[1]).(*ssa.Slice)
			lo := int64(-1)
			if ok && sl.Low != nil {
				lo, _ = intConst(sl.Low)
			}
			if !ok || lo != 16 || unspill(sl.X) != ssa.Value(nb.Params[1]) {
				bad = "the counter is not written at out[16:]"
			}
			if !isFieldLoadOrField(a[2], tNonce, "counter") {
				bad = "the value written is not the nonce counter"
			}
		}
		okCopy := false
		for _, cp := range p.CallsIn(nb, "builtin:copy") {
			a := cp.Common().Args
			if sl, ok := unspill(a[0]).(*ssa.Slice); ok && sl.Low == nil && unspill(sl.X) == ssa.Value(nb.Params[1]) {
				if k, ok := fieldAddrKey(a[1]); ok && k.Type == tNonce && k.Field == "prefix" {
					okCopy = true
				}
			}
		}
		if !okCopy {
			bad = "the prefix is not copied to out[0:]"
		}
		// zero counter refused
		ff := p.Facts(nb)
		for _, r := range ff.SuccessReturns() {
			if !hasFact(ff.NC(r.Block()), func(f Fact) bool {
				b, ok := f.Cond.(*ssa.BinOp)
				if !ok {
					return false
				}
				k, isK := intConst(b.Y)
				op := b.Op
				if !f.Pol {
					op = negOp(op)
				}
				return isK && k == 0 && op == token.NEQ && isFieldLoadOrField(b.X, tNonce, "counter")
			}) {
				bad = "a wrapped (zero) counter is not refused"
			}
		}
		if bad != "" {
			ob.Violate("%s", bad)
		} else {
			ob.HoldNT("copy(out[:], prefix); BigEndian.PutUint64(out[16:], counter); counter != 0")
		}
	}
	// length obfuscation in Encode/Decode
	c06Length(c, p)
}

func isFieldLoadOrField(v ssa.Value, typ, field string) bool {
	v = unspill(v)
	if isFieldLoad(v, typ, field) {
		return true
	}
	if f, ok := v.(*ssa.Field); ok {
		k, ok := fieldKeyOf(f.X.Type(), f.Field)
		return ok && k.Type == typ && k.Field == field
	}
	// value receiver spilled to a local: load of FieldAddr(alloc)
	if u, ok := v.(*ssa.UnOp); ok && u.Op == token.MUL {
		if fa, ok := u.X.(*ssa.FieldAddr); ok {
			k, ok := fieldKeyOf(fa.X.Type(), fa.Field)
			return ok && k.Type == typ && k.Field == field
		}
	}
	return false
}

func c06Length(c *Ctx, p *Prog) {
	enc := p.Func("transports/obfs4/framing:(*Encoder).Encode")
	dec := p.Func("transports/obfs4/framing:(*Decoder).Decode")
	ob := c.Obl("R3", "transports/obfs4/framing:(*Encoder).Encode#length-field", "the frame starts with BE16(len(box)-2) XOR BE16(first two bytes of DRBG.NextBlock()), written big-endian at frame[0:2]; the box is sealed right behind it (frame[:2] as Seal's prefix) with the frame nonce and the encoder key")
	if enc == nil || dec == nil {
		ob.Undecide("Encode/Decode not found")
		return
	}
	bad := ""
	puts := p.CallsIn(enc, "(encoding/binary.bigEndian).PutUint16")
	seals := p.CallsIn(enc, idSeal)
	if len(puts) != 1 || len(seals) != 1 {
		bad = "Encode does not contain exactly one BigEndian.PutUint16 and one secretbox.Seal"
	} else {
		seal := seals[0].(*ssa.Call)
		sa := seal.Common().Args // out, message, nonce, key
		frame := enc.Params[1]
		if par, lo, hi, ok := sliceOfParam(sa[0]); !ok || par != frame || lo != 0 || hi != 2 {
			bad = "the box is not sealed right behind the 2-byte length field (Seal(frame[:2], ...))"
		}
		if unspill(sa[1]) != ssa.Value(enc.Params[2]) {
			bad = "the sealed message is not the payload"
		}
		if k, ok := fieldAddrKey(sa[3]); !ok || k.Type != tEncoder || k.Field != "key" {
			bad = "Seal is not keyed with &encoder.key"
		}
		a := puts[0].Common().Args
		if par, lo, hi, ok := sliceOfParam(a[1]); !ok || par != frame || lo != 0 || hi != 2 {
			bad = "the obfuscated length is not written at frame[0:2]"
		}
		x, ok := unspill(a[2]).(*ssa.BinOp)
		if !ok || x.Op != token.XOR {
			bad = "the length is not XORed with the mask"
		} else {
			var lenSide, maskSide ssa.Value = x.X, x.Y
			mc, _ := callOf(unspill(maskSide))
			if mc == nil || p.CalleeID(mc.Common()) != "(encoding/binary.bigEndian).Uint16" {
				lenSide, maskSide = x.Y, x.X
				mc, _ = callOf(unspill(maskSide))
			}
			if mc == nil || p.CalleeID(mc.Common()) != "(encoding/binary.bigEndian).Uint16" {
				bad = "the mask is not BigEndian.Uint16(...)"
			} else if nbc, _ := callOf(unspill(mc.Common().Args[1])); nbc == nil || p.CalleeID(nbc.Common()) != M(idNextBlock) {
				bad = "the mask is not taken from DRBG.NextBlock()"
			}
			// length side: uint16(len(box) - 2)
			// (proved with the bounds engine: any expression equal to len(box)-2, the box being
			// Seal's result of length 2+len(payload)+16)
			bd := p.NewBounds()
			cv, okc := unspill(lenSide).(*ssa.Convert)
			if !okc {
				bad = "the length is not uint16(len(box)-2)"
			} else if pc, isCall := puts[0].(*ssa.Call); isCall {
				okL, why := bd.Prove(enc, pc, func(s *scope, pr *proof) []Cons {
					bl, _ := s.lenLin(seal, pr)
					return eq(s.lin(cv.X, pr), bl.Sub(linConst(2)))
				})
				if !okL {
					bad = "the length written is not provably len(box)-2 (" + why + ")"
				}
			}
		}
		// returns len(box)
		for _, r := range p.Facts(enc).SuccessReturns() {
			r := r
			bd := p.NewBounds()
			okR, why := bd.Prove(enc, r, func(s *scope, pr *proof) []Cons {
				bl, _ := s.lenLin(seal, pr)
				return eq(s.lin(r.Results[0], pr), bl)
			})
			if !okR {
				bad = "Encode does not return len(box) (" + why + ")"
			}
		}
	}
	if bad != "" {
		ob.Violate("%s", bad)
	} else {
		ob.HoldNT("box = Seal(frame[:2], payload, nonce, &key); frame[0:2] = BE16(uint16(len(box)-2) ^ BE16(NextBlock()))")
	}
	ob = c.Obl("R3", "transports/obfs4/framing:(*Decoder).Decode#length-field", "the decoder reads 2 bytes, interprets them big-endian and XORs them with BE16 of the first two bytes of DRBG.NextBlock() — the mirror image of Encode")
	bad = ""
	var xor *ssa.BinOp
	allInstrs(dec, func(in ssa.Instruction) {
		if b, ok := in.(*ssa.BinOp); ok && b.Op == token.XOR {
			xor = b
		}
	})
	if xor == nil {
		bad = "no XOR in Decode"
	} else {
		var sides [2]*ssa.Call
		for i, s := range []ssa.Value{xor.X, xor.Y} {
			sides[i], _ = callOf(unspill(s))
			if sides[i] == nil || p.CalleeID(sides[i].Common()) != "(encoding/binary.bigEndian).Uint16" {
				bad = "an operand of the XOR is not BigEndian.Uint16(...)"
			}
		}
		if bad == "" {
			fromBuf, fromDrbg := false, false
			for _, s := range sides {
				a := unspill(s.Common().Args[1])
				if nbc, _ := callOf(a); nbc != nil && p.CalleeID(nbc.Common()) == M(idNextBlock) {
					fromDrbg = true
				}
				// frames.Next(2) / ReadAtLeast / ReadFull: two bytes taken off the frame buffer parameter
				if nx, _ := callOf(a); nx != nil && p.CalleeID(nx.Common()) == "(*bytes.Buffer).Next" {
					if k, ok := intConst(nx.Common().Args[1]); ok && k == 2 {
						if _, isParam := unspill(nx.Common().Args[0]).(*ssa.Parameter); isParam {
							fromBuf = true
						}
					}
				}
				// x[:] of a slice is the slice: look through whole re-slices (an argument bound by a helper)
				for hop := 0; hop < 4; hop++ {
					s2, ok := a.(*ssa.Slice)
					if !ok || s2.Low != nil || s2.High != nil {
						break
					}
					if _, isSl := s2.X.Type().Underlying().(*types.Slice); !isSl {
						break
					}
					a = unspill(s2.X)
				}
				if sl, ok := a.(*ssa.Slice); ok {
					if l, ok := constLen(sl.X.Type()); ok && l == 2 {
						for _, rf := range p.CallsIn(dec, "io.ReadAtLeast") {
							if k, ok := intConst(rf.Common().Args[2]); ok && k == 2 && bufObjKey(rf.Common().Args[1]) == bufObjKey(sl) {
								fromBuf = true
							}
						}
						// the 2-byte array filled by io.ReadFull from the frame buffer
						for _, rf := range p.ReadFullsIn(dec) {
							if bufObjKey(rf.Common().Args[1]) == bufObjKey(sl) {
								fromBuf = true
							}
						}
					}
				}
			}
			if !fromBuf || !fromDrbg {
				bad = "the XOR does not combine the 2 bytes read from the stream with DRBG.NextBlock()"
			}
		}
	}
	if bad != "" {
		ob.Violate("%s", bad)
	} else {
		ob.HoldNT("length = BE16(obfsLen) ^ BE16(NextBlock())")
	}
}

// ---- R4 ---------------------------------------------------------------------------

func c06Drbg(c *Ctx, p *Prog, rule string) {
	drbgGivenSeedUsed(c, p, rule)
	resultIsOwnAlloc(c, p, rule, "common/drbg:SeedFromBytes", "a seed that aliased the caller's buffer would change when that buffer is reused")
	nh := p.Func("common/drbg:NewHashDrbg")
	nbk := p.Func("common/drbg:(*HashDrbg).NextBlock")
	ob := c.Obl(rule, "common/drbg:NewHashDrbg#seed-layout", "SipHash-2-4 is keyed with seed[0:16] and the OFB register starts as seed[16:24]")
	if nh == nil || nbk == nil {
		ob.Undecide("drbg functions not found")
		return
	}
	c.Touch(p.FuncKey(nh))
	c.Touch(p.FuncKey(nbk))
	const tDrbg = "common/drbg.HashDrbg"
	bad := ""
	okSip := false
	for _, s := range p.Stores(tDrbg, "sip") {
		if s.Fn != nh {
			bad = "the hash is replaced outside the constructor (" + p.FuncKey(s.Fn) + ")"
			continue
		}
		sc, _ := callOf(unspill(s.Val))
		if sc == nil || p.CalleeID(sc.Common()) != "github.com/dchest/siphash.New" {
			bad = "the hash is not siphash.New(...)"
			continue
		}
		if sl, ok := unspill(sc.Common().Args[0]).(*ssa.Slice); ok && sl.Low == nil && sl.High != nil {
			if k, _ := intConst(sl.High); k == 16 {
				okSip = true
			}
		}
	}
	if !okSip && bad == "" {
		bad = "SipHash is not keyed with seed[:16]"
	}
	okOfb := false
	for _, s := range p.copySources(tDrbg, "ofb") {
		if sl, ok := unspill(s).(*ssa.Slice); ok && sl.Low != nil {
			if k, _ := intConst(sl.Low); k == 16 {
				okOfb = true
			}
		}
	}
	if !okOfb && bad == "" {
		bad = "the OFB register is not initialised from seed[16:]"
	}
	if bad != "" {
		ob.Violate("%s", bad)
	} else {
		ob.HoldNT("sip = siphash.New(seed[:16]); copy(ofb[:], seed[16:])")
	}

	ob = c.Obl(rule, "common/drbg:(*HashDrbg).NextBlock#ofb-step", "NextBlock feeds the register into the running hash, replaces the register by the digest and returns a copy of it: exactly one Write(ofb) then one Sum(nil), copy(ofb, digest), return Clone(ofb)")
	bad = ""
	var ops []string
	var sum *ssa.Call
	var wr *ssa.Call
	allInstrs(nbk, func(in ssa.Instruction) {
		call, ok := in.(*ssa.Call)
		if !ok {
			return
		}
		r, m, args := recvOf(call)
		if r == nil || !isFieldLoad(r, tDrbg, "sip") {
			return
		}
		ops = append(ops, m)
		switch m {
		case "Write":
			wr = call
			if k, ok := fieldAddrKey(unspill(args[0])); !ok || k.Type != tDrbg || k.Field != "ofb" {
				if sl, ok := unspill(args[0]).(*ssa.Slice); !ok {
					bad = "the hash is not fed the OFB register"
				} else if k, ok := fieldAddrKey(sl.X); !ok || k.Field != "ofb" {
					bad = "the hash is not fed the OFB register"
				}
			}
		case "Sum", "Sum64":
			sum = call
		}
	})
	isOfb := func(v ssa.Value) bool {
		k, ok := fieldAddrKey(sliceBase(v))
		return ok && k.Type == tDrbg && k.Field == "ofb"
	}
	if j := strings.Join(ops, ","); j != "Write,Sum" && j != "Write,Sum64" {
		bad = fmt.Sprintf("operations on the running hash in NextBlock are [%s], expected [Write,Sum]", strings.Join(ops, ","))
	} else if !instrDominates(wr, sum) || blockOnCycle(wr.Block()) {
		bad = "Write does not precede Sum exactly once"
	} else {
		// the register is replaced by the digest: copy(ofb, Sum(nil)), or — SipHash's Sum being the
		// little-endian serialisation of Sum64 — LittleEndian.PutUint64(ofb, Sum64())
		var upd ssa.Instruction
		for _, cp := range p.CallsIn(nbk, "builtin:copy") {
			a := cp.Common().Args
			if isOfb(a[0]) && unspill(a[1]) == ssa.Value(sum) && instrDominates(sum, cp) {
				upd = cp
			}
		}
		for _, pu := range p.CallsIn(nbk, "(encoding/binary.littleEndian).PutUint64") {
			a := pu.Common().Args
			if isOfb(a[1]) && unspill(a[2]) == ssa.Value(sum) && sum.Common().Method != nil && sum.Common().Method.Name() == "Sum64" {
				upd = pu
			}
		}
		if upd == nil {
			bad = "the register is not replaced by the digest"
		}
		for _, r := range returnsOf(nbk) {
			v := unspill(r.Results[0])
			okRet := false
			why := "NextBlock does not return a copy of the new register: callers would alias the generator's state, or get something else"
			if cl, _ := callOf(v); cl != nil {
				switch {
				case p.CalleeID(cl.Common()) == "bytes.Clone" && isOfb(cl.Common().Args[0]) && upd != nil && instrDominates(upd, cl):
					okRet = true
				case cl == sum && sum.Common().Method != nil && sum.Common().Method.Name() == "Sum" && isNilConst(sum.Common().Args[0]):
					okRet = true // the fresh digest slice itself: same bytes as the new register, not aliased
				case p.CalleeID(cl.Common()) == "builtin:append" && len(cl.Common().Args) == 2 && isOfb(cl.Common().Args[1]) && upd != nil && instrDominates(upd, cl):
					if b0 := unspill(cl.Common().Args[0]); isNilConst(b0) {
						okRet = true
					} else if sl, ok := b0.(*ssa.Slice); ok {
						if _, fresh := unspill(sl.X).(*ssa.Alloc); fresh {
							okRet = true
						}
					}
				}
			}
			// a fresh buffer filled from the register after the update
			fresh := false
			switch x := v.(type) {
			case *ssa.MakeSlice:
				fresh = true
			case *ssa.Slice:
				_, fresh = unspill(x.X).(*ssa.Alloc)
			}
			if fresh && upd != nil {
				for _, cp := range p.CallsIn(nbk, "builtin:copy") {
					a := cp.Common().Args
					if unspill(a[0]) == v && isOfb(a[1]) && instrDominates(upd, cp) && instrDominates(cp, r) {
						okRet = true
					}
				}
			}
			if !okRet {
				bad = why
			}
		}
	}
	if bad != "" {
		ob.Violate("%s", bad)
	} else {
		ob.HoldNT("sip.Write(ofb[:]); copy(ofb[:], sip.Sum(nil)); return bytes.Clone(ofb[:])")
	}

	ob = c.Obl(rule, "common/drbg.HashDrbg.sip#never-reset", "the running SipHash state is never reset or rewritten between blocks (the deployed generator keeps hashing; resetting per block is the classic symmetric deviation)")
	bad = ""
	for _, fn := range p.Funcs {
		if relPkg(fn.Pkg.Pkg.Path()) != "common/drbg" {
			continue
		}
		allInstrs(fn, func(in ssa.Instruction) {
			call, ok := in.(ssa.CallInstruction)
			if !ok {
				return
			}
			r, m, _ := recvOf(call)
			if r != nil && isFieldLoad(r, tDrbg, "sip") && m != "Write" && m != "Sum" && m != "Sum64" && m != "Size" && m != "BlockSize" {
				bad = m + " on the running hash at " + p.InstrPos(call)
			}
			if r != nil && isFieldLoad(r, tDrbg, "sip") && fn != nbk {
				bad = m + " on the running hash outside NextBlock at " + p.InstrPos(call)
			}
		})
	}
	if bad != "" {
		ob.Violate("%s", bad)
	} else {
		ob.HoldNT("only Write and Sum, only in NextBlock")
	}

	ob = c.Obl(rule, "common/drbg:(*HashDrbg).Int63#shape", "Int63 is the big-endian uint64 of the next block with the top bit cleared")
	i63 := p.Func("common/drbg:(*HashDrbg).Int63")
	if i63 == nil {
		ob.Undecide("Int63 not found")
		return
	}
	bad = "Int63 is not int64(BigEndian.Uint64(NextBlock()) & (1<<63-1))"
	for _, r := range returnsOf(i63) {
		cv, ok := unspill(r.Results[0]).(*ssa.Convert)
		if !ok {
			continue
		}
		and, ok := unspill(cv.X).(*ssa.BinOp)
		if !ok || !clearsTopBit64(and) {
			continue
		}
		uc, _ := callOf(unspill(and.X))
		if uc == nil || p.CalleeID(uc.Common()) != "(encoding/binary.bigEndian).Uint64" {
			continue
		}
		if nbc, _ := callOf(unspill(uc.Common().Args[1])); nbc != nil && p.CalleeID(nbc.Common()) == M(idNextBlock) {
			bad = ""
		}
	}
	if bad != "" {
		ob.Violate("%s", bad)
	} else {
		ob.HoldNT("int64(BE64(NextBlock()) & (1<<63-1))")
	}
}

func sliceBase(v ssa.Value) ssa.Value {
	v = unspill(v)
	if sl, ok := v.(*ssa.Slice); ok {
		return sl.X
	}
	return v
}

// ---- R5b --------------------------------------------------------------------------

func c06ParserOffsets(c *Ctx, p *Prog) {
	for _, k := range []struct {
		typ, field string
		lo, hi     int64
		what       string
	}{
		{tClientHS, "serverRepresentative", 0, 32, "Y' is the first 32 bytes of the server response"},
		{tClientHS, "serverAuth", 32, -1, "AUTH follows Y' at offset 32"},
		{tServerHS, "clientRepresentative", 0, 32, "X' is the first 32 bytes of the client request"},
	} {
		ob := c.Obl("R5", k.typ+"."+k.field+"#offset", k.what)
		srcs := p.copySources(k.typ, k.field)
		ok := len(srcs) > 0
		for _, s := range srcs {
			_, lo, hi, isS := sliceOfParam(s)
			if !isS || lo != k.lo || (hi != k.hi && !(k.hi == -1 && hi == 64)) {
				ok = false
			}
		}
		if ok {
			ob.Hold("copied from resp[%d:%d]", k.lo, k.hi)
		} else {
			ob.Violate("%s.%s is not (only) copied from the response at [%d:%d]", k.typ, k.field, k.lo, k.hi)
		}
	}
}

// ---- R7 ---------------------------------------------------------------------------

func c06SeedFrame(c *Ctx, p *Prog) {
	sh := p.Func("transports/obfs4:(*obfs4Conn).serverHandshake")
	ob := c.Obl("R7", "transports/obfs4:(*obfs4Conn).serverHandshake#inline-seed-frame", "the server sends, in one write, its handshake response immediately followed by one unpadded PRNG-seed packet (type 1) carrying the bridge's length seed")
	if sh == nil {
		ob.Undecide("serverHandshake not found")
		return
	}
	cio := newConnIO(p)
	var cw []*ssa.Call
	allInstrs(sh, func(in ssa.Instruction) {
		if call, ok := in.(*ssa.Call); ok && call.Common().IsInvoke() && call.Common().Method.Name() == "Write" && cio.mayBeConn(call.Common().Value) {
			cw = append(cw, call)
		}
	})
	if len(cw) != 1 {
		ob.Violate("%d writes to the connection in serverHandshake, expected exactly 1", len(cw))
		return
	}
	bc, _ := callOf(unspill(cw[0].Common().Args[0]))
	if bc == nil || p.CalleeID(bc.Common()) != "(*bytes.Buffer).Bytes" {
		ob.Violate("the connection write does not send a buffer's contents")
		return
	}
	ops, _, why := p.AccumSeq(bc)
	if why != "" && !strings.HasPrefix(why, "the accumulator is handed to") {
		ob.Undecide("%s", why)
		return
	}
	// expected: Write(blob of generateHandshake), then escape to makePacket(type 1, lenSeed, pad 0)
	bad := ""
	if len(ops) < 2 {
		bad = "the frame buffer receives fewer than two writes"
	} else {
		if ops[0].Method != "Write" && ops[0].Method != "Init" {
			bad = "the response blob is not written first"
		} else if gc, _ := callOf(unspill(ops[0].Args[0])); gc == nil || gc.Common().StaticCallee() == nil || gc.Common().StaticCallee().Name() != "generateHandshake" {
			bad = "the first write is not the generated server handshake"
		}
		n := 0
		for _, op := range ops[1:] {
			if !strings.HasPrefix(op.Method, "escape:") {
				bad = "unexpected " + op.Method + " on the frame buffer"
				continue
			}
			call := op.Call
			if p.CalleeID(call.Common()) != M(idMakePacket) {
				bad = "the frame buffer is handed to " + p.CalleeID(call.Common())
				continue
			}
			n++
			a := call.Common().Args
			if k, ok := intConst(a[2]); !ok || k != 1 {
				bad = "the inline packet is not of type 1 (PRNG seed)"
			}
			if k, ok := intConst(a[4]); !ok || k != 0 {
				bad = "the inline seed packet is padded"
			}
			t := p.newTermer()
			if got := t.Term(a[3]); got != "<obfs4ServerFactory>.lenSeed" && got != "$1.lenSeed" {
				bad = "the inline packet does not carry the factory's length seed (got " + got + ")"
			}
		}
		if n != 1 && bad == "" {
			bad = fmt.Sprintf("%d packets follow the response, expected exactly the seed packet", n)
		}
	}
	if bad != "" {
		ob.Violate("%s", bad)
	} else {
		ob.HoldNT("frameBuf = response | makePacket(type 1, sf.lenSeed, pad 0); one Conn.Write(frameBuf.Bytes())")
	}
}

// ---- R8 ---------------------------------------------------------------------------

func c06Cert(c *Ctx, p *Prog) {
	ob := c.Obl("R8", "transports/obfs4:obfs4ServerCert#layout", "cert = base64(nodeID[20] | publicKey[32]) without the trailing '==': the writer builds raw in that order and strips the suffix, the reader re-adds the same suffix, checks 52 bytes and splits at 20")
	str := p.Func("transports/obfs4:(*obfs4ServerCert).String")
	from := p.Func("transports/obfs4:serverCertFromString")
	unp := p.Func("transports/obfs4:(*obfs4ServerCert).unpack")
	st := p.Func("transports/obfs4:serverCertFromState")
	if str == nil || from == nil || unp == nil || st == nil {
		ob.Undecide("cert functions not found")
		return
	}
	for _, f := range []*ssa.Function{str, from, unp, st} {
		c.Touch(p.FuncKey(f))
	}
	bad := ""
	// writer
	ts := p.CallsIn(str, "strings.TrimSuffix")
	if len(ts) != 1 {
		bad = "String() does not strip the base64 padding with strings.TrimSuffix"
	} else {
		a := ts[0].Common().Args
		if s, ok := constString(a[1]); !ok || s != "==" {
			bad = "String() strips a suffix other than \"==\""
		}
		ec, _ := callOf(unspill(a[0]))
		if ec == nil || p.CalleeID(ec.Common()) != "(*encoding/base64.Encoding).EncodeToString" || !isGlobalLoad(ec.Common().Args[0], "encoding/base64", "StdEncoding") {
			bad = "String() does not use base64.StdEncoding"
		} else if !isFieldLoad(ec.Common().Args[1], "transports/obfs4.obfs4ServerCert", "raw") {
			bad = "String() does not encode cert.raw"
		}
	}
	// reader
	dc := p.CallsIn(from, "(*encoding/base64.Encoding).DecodeString")
	if len(dc) != 1 {
		bad = "serverCertFromString does not decode with base64"
	} else {
		a := dc[0].Common().Args
		if !isGlobalLoad(a[0], "encoding/base64", "StdEncoding") {
			bad = "the reader does not use base64.StdEncoding"
		}
		cat, ok := unspill(a[1]).(*ssa.BinOp)
		if !ok || cat.Op != token.ADD {
			bad = "the reader does not re-append the padding"
		} else if s, ok := constString(cat.Y); !ok || s != "==" || unspill(cat.X) != ssa.Value(from.Params[0]) {
			bad = "the reader does not append \"==\" to the encoded cert"
		}
		// length check 52 guards success
		ff := p.Facts(from)
		for _, r := range ff.SuccessReturns() {
			if !hasFact(ff.NC(r.Block()), func(f Fact) bool {
				b, ok := f.Cond.(*ssa.BinOp)
				if !ok {
					return false
				}
				k, isK := intConst(b.Y)
				op := b.Op
				if !f.Pol {
					op = negOp(op)
				}
				return isK && k == 52 && op == token.EQL
			}) {
				bad = "the reader accepts certs whose decoded length is not 52"
			}
		}
	}
	// unpack split
	okN, okP := false, false
	for _, call := range p.CallsIn(unp, "$M/common/ntor.NewNodeID") {
		if sl, ok := unspill(call.Common().Args[0]).(*ssa.Slice); ok && sl.Low == nil {
			if k, _ := intConst(sl.High); k == 20 {
				okN = true
			}
		}
	}
	for _, call := range p.CallsIn(unp, "$M/common/ntor.NewPublicKey") {
		if sl, ok := unspill(call.Common().Args[0]).(*ssa.Slice); ok && sl.High == nil {
			if k, _ := intConst(sl.Low); k == 20 {
				okP = true
			}
		}
	}
	if !okN || !okP {
		bad = "unpack does not split raw into nodeID = raw[:20], publicKey = raw[20:]"
	}
	// the results are returned in that order
	for _, r := range returnsOf(unp) {
		n0, _ := callOf(unspill(r.Results[0]))
		n1, _ := callOf(unspill(r.Results[1]))
		if n0 == nil || n1 == nil || p.CalleeID(n0.Common()) != M("$M/common/ntor.NewNodeID") || p.CalleeID(n1.Common()) != M("$M/common/ntor.NewPublicKey") {
			bad = "unpack does not return (nodeID, publicKey)"
		}
	}
	// fromState order: Clone(nodeID) then append(publicKey)
	var stores []*StoreSite
	for _, s := range p.Stores("transports/obfs4.obfs4ServerCert", "raw") {
		if s.Fn == st {
			stores = append(stores, s)
		}
	}
	t := p.newTermer()
	var last *StoreSite
	for _, s := range stores {
		if last == nil || instrDominates(last.Instr, s.Instr) {
			last = s
		}
	}
	if last == nil {
		bad = "serverCertFromState never stores raw"
	} else {
		t.at = last.Instr
		got := t.Term(last.Val)
		if !termEq(got, "cat($0.nodeID,$0.identityKey.public)") {
			bad = "serverCertFromState builds raw as " + got + ", expected nodeID | identityKey.public"
		}
	}
	if bad != "" {
		ob.Violate("%s", bad)
	} else {
		ob.HoldNT("writer: TrimSuffix(StdEncoding(raw), \"==\"), raw = nodeID | identityKey.public; reader: Decode(s+\"==\"), len 52, [:20] | [20:]")
	}

	// both bridge line formats
	ob = c.Obl("R8", "transports/obfs4:(*obfs4ClientFactory).ParseArgs#both-formats", "ParseArgs accepts the cert form and the legacy node-id + public-key form, and both feed the same two outputs")
	pa := p.Func("transports/obfs4:(*obfs4ClientFactory).ParseArgs")
	if pa == nil {
		ob.Undecide("ParseArgs not found")
		return
	}
	c.Touch(p.FuncKey(pa))
	var keys []string
	for _, call := range p.CallsIn(pa, "("+"gitlab.torproject.org/tpo/anti-censorship/pluggable-transports/goptlib.Args).Get") {
		if s, ok := constString(call.Common().Args[1]); ok {
			keys = append(keys, s)
		}
	}
	need := map[string]bool{"cert": false, "node-id": false, "public-key": false, "iat-mode": false}
	for _, k := range keys {
		if _, ok := need[k]; ok {
			need[k] = true
		}
	}
	bad = ""
	for k, ok := range need {
		if !ok {
			bad = "argument '" + k + "' is never looked up"
		}
	}
	if len(p.CallsIn(pa, "(*$M/transports/obfs4.obfs4ServerCert).unpack")) != 1 || len(p.CallsIn(pa, "$M/common/ntor.NodeIDFromHex")) != 1 || len(p.CallsIn(pa, "$M/common/ntor.PublicKeyFromHex")) != 1 {
		bad = "one of the two bridge-line formats is not parsed (cert.unpack / NodeIDFromHex + PublicKeyFromHex)"
	}
	// the args object receives phi(cert arm, legacy arm) for both
	for _, f := range []string{"nodeID", "publicKey"} {
		for _, s := range p.Stores("transports/obfs4.obfs4ClientArgs", f) {
			ph, ok := unspill(s.Val).(*ssa.Phi)
			if !ok || len(ph.Edges) != 2 {
				bad = "obfs4ClientArgs." + f + " does not merge the two formats"
			}
		}
	}
	// iat-mode range 0..2
	if bad != "" {
		ob.Violate("%s", bad)
	} else {
		ob.HoldNT("cert arm: serverCertFromString+unpack; legacy arm: NodeIDFromHex+PublicKeyFromHex; both merged into obfs4ClientArgs")
	}
	ob = c.Obl("R8", "transports/obfs4:(*obfs4ClientFactory).ParseArgs#iat-range", "the client accepts exactly the iat-mode values the server can advertise (0,1,2)")
	b := p.NewBounds()
	bad = ""
	for _, s := range p.Stores("transports/obfs4.obfs4ClientArgs", "iatMode") {
		iv := b.rangeAt(s.Fn, s.Instr, s.Val)
		if !iv.hasLo || !iv.hasHi || iv.lo != 0 || iv.hi != 2 {
			bad = fmt.Sprintf("accepted iat-mode range is [%s], expected [0,2]", iv)
		}
	}
	// exactness: each of 0,1,2 must be accepted: the range proof gives the hull; the rejection test must not exclude interior points: checked by the comparison constants
	if bad != "" {
		ob.Violate("%s", bad)
	} else {
		ob.HoldNT("iatMode in [0,2]")
	}
	ob = c.Obl("R8", "transports/obfs4:(*obfs4ClientFactory).ParseArgs#iat-accepts-all", "each of the iat-mode values 0, 1 and 2 passes the client's range check (a too-tight bound would reject bridges a server can advertise)")
	bad = c06AcceptsAll(p, pa, []int64{0, 1, 2})
	if bad != "" {
		ob.Violate("%s", bad)
	} else {
		ob.HoldNT("0, 1 and 2 are accepted")
	}
}

// c06AcceptsAll: the integer comparisons against constants that guard the
// success return of fn on the value produced by strconv.Atoi are satisfied by
// every value in vals.
func c06AcceptsAll(p *Prog, fn *ssa.Function, vals []int64) string {
	ff := p.Facts(fn)
	var atoi ssa.Value
	for _, call := range p.CallsIn(fn, "strconv.Atoi") {
		for _, r := range *call.(*ssa.Call).Referrers() {
			if ex, ok := r.(*ssa.Extract); ok && ex.Index == 0 {
				atoi = ex
			}
		}
	}
	if atoi == nil {
		return "no strconv.Atoi result to check"
	}
	for _, r := range ff.SuccessReturns() {
		for _, f := range ff.NC(r.Block()) {
			b, ok := f.Cond.(*ssa.BinOp)
			if !ok || unspill(b.X) != atoi {
				continue
			}
			k, isK := intConst(b.Y)
			if !isK {
				continue
			}
			op := b.Op
			if !f.Pol {
				op = negOp(op)
			}
			for _, v := range vals {
				okv := true
				switch op {
				case token.LSS:
					okv = v < k
				case token.LEQ:
					okv = v <= k
				case token.GTR:
					okv = v > k
				case token.GEQ:
					okv = v >= k
				case token.EQL:
					okv = v == k
				case token.NEQ:
					okv = v != k
				}
				if !okv {
					return fmt.Sprintf("value %d is rejected by the test '%s %s %d' at %s", v, "iatMode", op, k, p.Pos(b.Pos()))
				}
			}
		}
	}
	return ""
}

// clearsTopBit64: x & (1<<63-1)  or  x &^ (1<<63).
func clearsTopBit64(b *ssa.BinOp) bool {
	k, ok := b.Y.(*ssa.Const)
	if !ok || k.Value == nil {
		return false
	}
	switch b.Op {
	case token.AND:
		return k.Value.ExactString() == "9223372036854775807"
	case token.AND_NOT:
		return k.Value.ExactString() == "9223372036854775808"
	}
	return false
}

// c06ParserDecides: once bytes were read from the peer, only the read error or the parser's verdict may end
// the client handshake. The response is legitimately followed at once by the seed frame and the first data
// frames, so no fixed bound on what has been buffered is a reason to reject (the parser bounds the search for
// the mark itself).
func c06ParserDecides(c *Ctx, p *Prog, rule string) {
	const key = "transports/obfs4:(*obfs4Conn).clientHandshake"
	ob := c.Obl(rule, key+"#parser-decides", "after the first read from the peer every failure return of the client handshake carries an error some call reported (the read's, the parser's); no fresh or sentinel error is returned beside the parser")
	fn := p.Func(key)
	if fn == nil {
		ob.Undecide("%s not found", key)
		return
	}
	c.Touch(key)
	var reads []*ssa.Call
	allInstrs(fn, func(in ssa.Instruction) {
		if cl, ok := in.(*ssa.Call); ok && cl.Common().IsInvoke() && cl.Common().Method.Name() == "Read" {
			reads = append(reads, cl)
		}
	})
	if len(reads) == 0 {
		ob.Undecide("no network read in %s", key)
		return
	}
	after := map[*ssa.BasicBlock]bool{}
	for _, r := range reads {
		for b := range reachableFrom(r.Block(), nil) {
			after[b] = true
		}
	}
	ei := errResultIndex(fn)
	if ei < 0 {
		ob.Undecide("%s has no error result", key)
		return
	}
	var fromCall func(v ssa.Value, seen map[ssa.Value]bool) bool
	fromCall = func(v ssa.Value, seen map[ssa.Value]bool) bool {
		v = unspill(v)
		if seen[v] {
			return true
		}
		seen[v] = true
		switch x := v.(type) {
		case *ssa.Const:
			return x.IsNil()
		case *ssa.Phi:
			for _, e := range x.Edges {
				if !fromCall(e, seen) {
					return false
				}
			}
			return true
		case *ssa.Extract:
			_, isCall := x.Tuple.(*ssa.Call)
			return isCall
		case *ssa.Call:
			id := p.CalleeID(x.Common())
			if id == "errors.New" || id == "fmt.Errorf" {
				// a wrapper is as good as what it wraps
				for _, a := range x.Common().Args {
					if sl, ok := a.(*ssa.Slice); ok {
						// variadic: look for an error stored into the backing array
						if al, ok := sl.X.(*ssa.Alloc); ok {
							for _, ref := range *al.Referrers() {
								ia, ok := ref.(*ssa.IndexAddr)
								if !ok {
									continue
								}
								for _, r2 := range *ia.Referrers() {
									if st, ok := r2.(*ssa.Store); ok {
										w := st.Val
										switch mi := w.(type) {
										case *ssa.MakeInterface:
											w = mi.X
										case *ssa.ChangeInterface:
											w = mi.X
										}
										if isErrorType(w.Type()) && !isNilConst(w) && fromCall(w, map[ssa.Value]bool{}) {
											if _, isC := unspill(w).(*ssa.Const); !isC {
												return true
											}
										}
									}
								}
							}
						}
					}
				}
				return false
			}
			return true
		case *ssa.MakeInterface, *ssa.ChangeInterface:
			return false
		case *ssa.UnOp:
			return false // a load of a package-level sentinel
		}
		return false
	}
	n := 0
	for _, r := range returnsOf(fn) {
		if !after[r.Block()] || ei >= len(r.Results) {
			continue
		}
		n++
		if !fromCall(r.Results[ei], map[ssa.Value]bool{}) {
			ob.At(p.InstrPos(r)).Violate("this return hands back an error no call reported, after data was read from the peer: a response the parser would accept (or still wait for) is rejected here")
			return
		}
	}
	if n == 0 {
		ob.Undecide("no return after the read")
		return
	}
	ob.HoldNT("%d returns after the read, all carry nil or a call's error", n)
}
