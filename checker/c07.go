package main

// C07 — Elligator 2 key generation/decoding (DESIGN 4, C07; narrow).  The
// map itself, DH agreement and coset coverage are field arithmetic over 2^256
// inputs and are not decided.

import (
	"fmt"
	"go/token"
	"sort"
	"strings"

	"golang.org/x/tools/go/ssa"
)

const feT = "filippo.io/edwards25519/field.Element"

func init() {
	register(&PropInfo{
		ID: "C07", Level: "other", MinObls: 8,
		Explanation: "The Elligator 2 map, its inverse, DH agreement and coset coverage are field arithmetic over 2^256 inputs: not decidable by a static rule and NOT decided. Decided are the structural clauses around the arithmetic, each a necessary condition of the stated behaviour: R1 top-bit handling — encoding ORs exactly tweak&0xc0 into byte 31 of the serialised representative; decoding loads the field element exactly once, from a private copy of the caller's 32 bytes whose byte 31 was masked with 0x3f before any field operation (so the two top bits are ignored for all 2^256 strings, not reduced mod p first), and the two masks are complementary; R2 one u — the public key and the representative returned by ScalarBaseMult come from the same scalarBaseMultDirty result, which uToRepresentative does not modify, and publicKey is written only when a representative exists; R3 the dirty multiply adds a low-order point selected by the three low bits of privateKey[0] before converting to Montgomery u; R4 NewKeypair(true) retries with a fresh key until ScalarBaseMult reports success, with private key = digest[0:32] and tweak = digest[63] of one SHA-512 of CSPRNG output; Representative.ToPublic passes (new public key, representative) in that order; R5 re-entrancy — package-level field elements are read-only operands outside init (key generation runs concurrently on a bridge).",
		NotCovered:  []string{"that RepresentativeToPublicKey equals the Elligator 2 map, round trip, DH agreement with X25519, coset coverage, the constants' values (field arithmetic; needs execution or a proof assistant)", "constant-time behaviour"},
		Trusted:     []string{"go/types+go/ssa faithful", "filippo.io/edwards25519/field: every method writes only its receiver", "edwards25519-extra/elligator2.MontgomeryFlavor implements the map"},
		Run:         runC07,
	})
}

// feObj resolves a *field.Element value to the object it designates: methods
// return their receiver.
func feObj(p *Prog, v ssa.Value) ssa.Value {
	for i := 0; i < 32; i++ {
		v = unspill(v)
		switch x := v.(type) {
		case *ssa.Extract:
			if c, ok := x.Tuple.(*ssa.Call); ok && x.Index == 0 && isFeMethod(p, c) {
				v = c.Common().Args[0]
				continue
			}
		case *ssa.Call:
			if isFeMethod(p, x) && strings.HasSuffix(x.Type().String(), feT) {
				v = x.Common().Args[0]
				continue
			}
		}
		return v
	}
	return v
}

func isFeMethod(p *Prog, c *ssa.Call) bool {
	return strings.HasPrefix(p.CalleeID(c.Common()), "(*"+feT+").")
}

var feReadOnly = map[string]bool{"Bytes": true, "Equal": true, "IsNegative": true}

type arrEff struct {
	In   ssa.Instruction
	Kind string // store | copy-into | read-by:<callee> | passed:<callee>
	Idx  int64
	Val  ssa.Value
	Src  ssa.Value
}

// arrayEffects lists what fn does to the byte array that obj points to, in
// block/instruction order.
func arrayEffects(p *Prog, fn *ssa.Function, obj ssa.Value) []arrEff {
	views := map[ssa.Value]bool{obj: true}
	idx := map[ssa.Value]int64{}
	var out []arrEff
	rpo := rpoIndex(fn)
	blocks := append([]*ssa.BasicBlock(nil), fn.Blocks...)
	sort.Slice(blocks, func(i, j int) bool { return rpo[blocks[i]] < rpo[blocks[j]] })
	for _, blk := range blocks {
		for _, in := range blk.Instrs {
			switch x := in.(type) {
			case *ssa.Slice:
				if views[unspill(x.X)] {
					views[x] = true
				}
			case *ssa.IndexAddr:
				if views[unspill(x.X)] {
					if k, ok := intConst(x.Index); ok {
						idx[x] = k
					} else {
						idx[x] = -1
					}
				}
			case *ssa.Store:
				if k, ok := idx[x.Addr]; ok {
					out = append(out, arrEff{In: x, Kind: "store", Idx: k, Val: x.Val})
				} else if views[unspill(x.Addr)] {
					out = append(out, arrEff{In: x, Kind: "store-whole", Val: x.Val})
				}
			case ssa.CallInstruction:
				id := p.CalleeID(x.Common())
				for ai, a := range x.Common().Args {
					if !views[unspill(a)] {
						continue
					}
					switch {
					case id == "builtin:copy" && ai == 0:
						out = append(out, arrEff{In: x, Kind: "copy-into", Src: x.Common().Args[1]})
					case id == "builtin:copy" && ai == 1:
						out = append(out, arrEff{In: x, Kind: "read-by:copy"})
					case id == "(*"+feT+").SetBytes" && ai == 1, id == "(*filippo.io/edwards25519.Scalar).SetBytesWithClamping" && ai == 1, id == "builtin:len":
						out = append(out, arrEff{In: x, Kind: "read-by:" + id})
					default:
						out = append(out, arrEff{In: x, Kind: "passed:" + id})
					}
				}
			}
		}
	}
	return out
}

func effKinds(es []arrEff) string {
	var s []string
	for _, e := range es {
		k := e.Kind
		if e.Kind == "store" {
			k = fmt.Sprintf("store[%d]", e.Idx)
		}
		s = append(s, k)
	}
	return strings.Join(s, "; ")
}

// maskedUpdate matches  a[i] = a[i] <op> m  and returns op and the other operand.
func maskedUpdate(e arrEff) (token.Token, ssa.Value, bool) {
	bo, ok := unspill(e.Val).(*ssa.BinOp)
	if !ok {
		return 0, nil, false
	}
	isSelf := func(v ssa.Value) bool {
		u, ok := unspill(v).(*ssa.UnOp)
		if !ok || u.Op != token.MUL {
			return false
		}
		ia, ok := u.X.(*ssa.IndexAddr)
		st := e.In.(*ssa.Store)
		ib, ok2 := st.Addr.(*ssa.IndexAddr)
		if !ok || !ok2 {
			return false
		}
		ka, oka := intConst(ia.Index)
		kb, okb := intConst(ib.Index)
		return oka && okb && ka == kb && unspill(ia.X) == unspill(ib.X)
	}
	switch {
	case isSelf(bo.X):
		return bo.Op, bo.Y, true
	case isSelf(bo.Y) && (bo.Op == token.AND || bo.Op == token.OR):
		return bo.Op, bo.X, true
	}
	return 0, nil, false
}

func runC07(c *Ctx) {
	p := c.P
	dec := p.Func("internal/x25519ell2:RepresentativeToPublicKey")
	enc := p.Func("internal/x25519ell2:uToRepresentative")
	sbm := p.Func("internal/x25519ell2:ScalarBaseMult")
	dirty := p.Func("internal/x25519ell2:scalarBaseMultDirty")
	selLop := p.Func("internal/x25519ell2:selectLowOrderPoint")
	newKp := p.Func("common/ntor:NewKeypair")
	toPub := p.Func("common/ntor:(*Representative).ToPublic")
	ob := c.Obl("R0", "anchors", "the Elligator entry points exist")
	for _, fn := range []*ssa.Function{dec, enc, sbm, dirty, selLop, newKp, toPub} {
		if fn == nil {
			ob.Undecide("an anchor function is missing")
			return
		}
		c.Touch(p.FuncKey(fn))
	}
	ob.Hold("7 functions")

	// ---------------- R1 decode
	decMask := int64(-1)
	ob = c.Obl("R1", "internal/x25519ell2:RepresentativeToPublicKey#mask-then-load", "decoding loads the field element exactly once, from a private copy of the caller's 32 bytes whose byte 31 was ANDed with 0x3f before the load; the caller's array is not written; the element goes unchanged to elligator2.MontgomeryFlavor and its first result is the public key")
	bad := ""
	func() {
		mfs := p.CallsIn(dec, "gitlab.com/yawning/edwards25519-extra/elligator2.MontgomeryFlavor")
		if len(mfs) != 1 {
			bad = fmt.Sprintf("%d calls of elligator2.MontgomeryFlavor", len(mfs))
			return
		}
		mf := mfs[0].(*ssa.Call)
		fe := feObj(p, mf.Common().Args[0])
		if _, isA := fe.(*ssa.Alloc); !isA {
			bad = "the element handed to MontgomeryFlavor is not a local"
			return
		}
		// every operation with fe as receiver before the map: exactly one SetBytes
		var sets []*ssa.Call
		allInstrs(dec, func(in ssa.Instruction) {
			call, ok := in.(*ssa.Call)
			if !ok || call == mf || !isFeMethod(p, call) {
				return
			}
			if feObj(p, call.Common().Args[0]) != fe {
				return
			}
			name := call.Common().StaticCallee().Name()
			if feReadOnly[name] {
				if !instrDominates(mf, call) {
					bad = "the element is serialised (" + name + ") before the map is applied at " + p.InstrPos(call) + ": the input is reduced mod p before masking"
				}
				return
			}
			if name == "SetBytes" {
				sets = append(sets, call)
			} else {
				bad = "field operation " + name + " on the decoded element at " + p.InstrPos(call)
			}
		})
		if bad != "" {
			return
		}
		if len(sets) != 1 || !instrDominates(sets[0], mf) {
			bad = fmt.Sprintf("the element is loaded %d times (expected once, before the map)", len(sets))
			return
		}
		// the SetBytes must have succeeded (error checked) on the way to the map
		src := unspill(sets[0].Common().Args[1])
		sl, ok := src.(*ssa.Slice)
		if !ok || sl.Low != nil || sl.High != nil {
			bad = "SetBytes does not read a whole array"
			return
		}
		buf, isA := unspill(sl.X).(*ssa.Alloc)
		if !isA {
			bad = "SetBytes reads the caller's array directly (no masked private copy)"
			return
		}
		var before []arrEff
		for _, e := range arrayEffects(p, dec, buf) {
			if e.In == ssa.Instruction(sets[0]) {
				break
			}
			before = append(before, e)
		}
		// the masked copy may have been prepared in another local array and assigned as a whole (a helper
		// returning the array by value, inlined back): follow whole-array assignments between locals
		for hop := 0; hop < 3 && len(before) == 1 && before[0].Kind == "store-whole"; hop++ {
			ld, ok := unspill(before[0].Val).(*ssa.UnOp)
			if !ok || ld.Op != token.MUL {
				break
			}
			b2, ok := ld.X.(*ssa.Alloc)
			if !ok {
				break
			}
			var pre []arrEff
			for _, e := range arrayEffects(p, dec, b2) {
				if e.In == ssa.Instruction(ld) || (e.In != nil && !instrDominates(e.In, ld)) {
					break
				}
				pre = append(pre, e)
			}
			// the load itself shows up as a read: drop trailing reads
			for len(pre) > 0 && strings.HasPrefix(pre[len(pre)-1].Kind, "read") {
				pre = pre[:len(pre)-1]
			}
			before = pre
		}
		if len(before) != 2 || (before[0].Kind != "copy-into" && before[0].Kind != "store-whole") || before[1].Kind != "store" || before[1].Idx != 31 {
			bad = "the buffer is prepared by [" + effKinds(before) + "], expected copy of the input then an update of byte 31"
			return
		}
		// copy source = the representative parameter, whole
		if before[0].Kind == "store-whole" {
			ld, ok := unspill(before[0].Val).(*ssa.UnOp)
			if !ok || ld.Op != token.MUL || unspill(ld.X) != ssa.Value(dec.Params[1]) {
				bad = "the private copy is not a copy of the whole representative"
				return
			}
		} else {
			cs, ok := unspill(before[0].Src).(*ssa.Slice)
			if !ok || unspill(cs.X) != ssa.Value(dec.Params[1]) || cs.Low != nil || cs.High != nil {
				bad = "the private copy is not a copy of the whole representative"
				return
			}
		}
		op, m, ok := maskedUpdate(before[1])
		k, okk := intConst(m)
		switch {
		case !ok || !okk:
			bad = "byte 31 is not updated with a constant mask"
			return
		case op == token.AND:
			decMask = k & 0xff
		case op == token.AND_NOT:
			decMask = ^k & 0xff
		default:
			bad = "byte 31 is updated with " + op.String()
			return
		}
		if decMask != 0x3f {
			bad = fmt.Sprintf("byte 31 is masked with %#x: decoding must ignore exactly the two top bits (0x3f)", decMask)
			return
		}
		// after the load nothing else reads stale state: effects after SetBytes on buf are irrelevant.
		// the caller's representative is never written
		for _, e := range arrayEffects(p, dec, dec.Params[1]) {
			if !strings.HasPrefix(e.Kind, "read-by:") {
				bad = "the caller's representative is modified (" + e.Kind + ")"
				return
			}
		}
		// output = first result of the map
		outs := arrayEffects(p, dec, dec.Params[0])
		if len(outs) != 1 || (outs[0].Kind != "copy-into" && outs[0].Kind != "store-whole") {
			bad = "publicKey is written by [" + effKinds(outs) + "]"
			return
		}
		outSrc := outs[0].Src
		if outs[0].Kind == "store-whole" {
			// *publicKey = [32]byte(u.Bytes())
			outSrc = arrayConvSource(outs[0].Val)
		}
		bc, _ := callOf(unspill(outSrc))
		if bc == nil || p.CalleeID(bc.Common()) != "(*"+feT+").Bytes" {
			bad = "publicKey is not the serialisation of a field element"
			return
		}
		ex, ok := unspill(bc.Common().Args[0]).(*ssa.Extract)
		if !ok || ex.Tuple != ssa.Value(mf) || ex.Index != 0 {
			bad = "publicKey is not the u-coordinate (first result) of MontgomeryFlavor"
		}
	}()
	if bad != "" {
		ob.Violate("%s", bad)
	} else {
		ob.HoldNT("copy; clamped[31] &= 0x3f; one SetBytes; MontgomeryFlavor; publicKey = u.Bytes()")
	}

	// ---------------- R1 encode
	encMask := int64(-1)
	ob = c.Obl("R1", "internal/x25519ell2:uToRepresentative#pad-bits", "encoding writes the serialised field element into the representative and then ORs exactly tweak & 0xc0 into byte 31 (both unused top bits come from the tweak); the sign selection uses a different tweak bit")
	bad = ""
	func() {
		es := arrayEffects(p, enc, enc.Params[0])
		if len(es) != 2 || es[0].Kind != "copy-into" || es[1].Kind != "store" || es[1].Idx != 31 {
			bad = "the representative is produced by [" + effKinds(es) + "], expected copy of the element bytes then an update of byte 31"
			return
		}
		bc, _ := callOf(unspill(es[0].Src))
		if bc == nil || p.CalleeID(bc.Common()) != "(*"+feT+").Bytes" {
			bad = "the representative is not the canonical serialisation of a field element"
			return
		}
		op, m, ok := maskedUpdate(es[1])
		if !ok || op != token.OR {
			bad = "byte 31 is not OR-ed with pad bits"
			return
		}
		and, ok := unspill(m).(*ssa.BinOp)
		if !ok || (and.Op != token.AND && and.Op != token.AND_NOT) {
			bad = "the pad bits are not tweak & mask"
			return
		}
		x, y := and.X, and.Y
		if _, isC := x.(*ssa.Const); isC && and.Op == token.AND {
			x, y = y, x
		}
		k, okk := intConst(y)
		if !okk || unspill(x) != ssa.Value(enc.Params[2]) {
			bad = "the pad bits are not taken from the tweak parameter"
			return
		}
		encMask = k & 0xff
		if and.Op == token.AND_NOT {
			encMask = ^k & 0xff // tweak &^ keep-mask
		}
		if encMask != 0xc0 {
			bad = fmt.Sprintf("only tweak & %#x is padded in: both unused top bits (0xc0) must be random", encMask)
			return
		}
		// both happen on the success arm: returns after them are `true`
		for _, r := range returnsOf(enc) {
			k, isC := r.Results[0].(*ssa.Const)
			if !isC {
				bad = "non-constant status"
				return
			}
			wrote := instrDominates(es[1].In, r)
			if (k.Value.ExactString() == "true") != wrote {
				bad = "the status does not tell whether the representative was written"
			}
		}
		// other uses of the tweak: masks disjoint from the pad mask
		for _, ref := range *enc.Params[2].Referrers() {
			bo, ok := ref.(*ssa.BinOp)
			if !ok || (bo.Op != token.AND && bo.Op != token.AND_NOT) {
				bad = "the tweak is used other than through a bit mask at " + p.InstrPos(ref)
				return
			}
			kk, okc := intConst(bo.Y)
			if !okc && bo.Op == token.AND {
				kk, okc = intConst(bo.X)
			}
			if okc && bo.Op == token.AND_NOT {
				kk = ^kk & 0xff
			}
			if !okc || (kk != encMask && kk&encMask != 0) {
				bad = "a tweak bit is used both for padding and for selection"
			}
		}
	}()
	if bad != "" {
		ob.Violate("%s", bad)
	} else {
		ob.HoldNT("copy(representative, fe.Bytes()); representative[31] |= tweak & 0xc0; selection uses tweak & 1")
	}
	ob = c.Obl("R1", "internal/x25519ell2#masks-complementary", "the bits encoding fills from the tweak are exactly the bits decoding clears: pad mask | keep mask = 0xff and pad mask & keep mask = 0")
	if encMask < 0 || decMask < 0 {
		ob.Violate("masks not established (encode %#x, decode %#x)", encMask, decMask)
	} else if encMask|decMask != 0xff || encMask&decMask != 0 {
		ob.Violate("encode pads %#x, decode keeps %#x", encMask, decMask)
	} else {
		ob.HoldNT("0xc0 / 0x3f")
	}

	// ---------------- R2 one u
	ob = c.Obl("R2", "internal/x25519ell2:ScalarBaseMult#one-u", "the public key and the representative derive from the same scalarBaseMultDirty(privateKey) result; uToRepresentative gets the caller's representative and tweak and does not modify u; publicKey is written (as u.Bytes()) only when a representative exists, and the status says so")
	bad = ""
	func() {
		ds := p.CallsIn(sbm, M("$M/internal/x25519ell2.scalarBaseMultDirty"))
		us := p.CallsIn(sbm, M("$M/internal/x25519ell2.uToRepresentative"))
		if len(ds) != 1 || len(us) != 1 {
			bad = fmt.Sprintf("%d dirty multiplies, %d inverse maps", len(ds), len(us))
			return
		}
		d, u := ds[0].(*ssa.Call), us[0].(*ssa.Call)
		if unspill(d.Common().Args[0]) != ssa.Value(sbm.Params[2]) {
			bad = "the dirty multiply does not use privateKey"
			return
		}
		ua := u.Common().Args
		if unspill(ua[0]) != ssa.Value(sbm.Params[1]) || feObj(p, ua[1]) != ssa.Value(d) || unspill(ua[2]) != ssa.Value(sbm.Params[3]) {
			bad = "uToRepresentative is not called with (representative, u, tweak)"
			return
		}
		outs := arrayEffects(p, sbm, sbm.Params[0])
		if len(outs) != 1 || outs[0].Kind != "copy-into" {
			bad = "publicKey is written by [" + effKinds(outs) + "]"
			return
		}
		bc, _ := callOf(unspill(outs[0].Src))
		if bc == nil || p.CalleeID(bc.Common()) != "(*"+feT+").Bytes" || feObj(p, bc.Common().Args[0]) != ssa.Value(d) {
			bad = "publicKey is not the serialisation of the same u"
			return
		}
		ff := p.Facts(sbm)
		okGuard := false
		for _, f := range ff.NC(outs[0].In.Block()) {
			if unspill(f.Cond) == ssa.Value(u) && f.Pol {
				okGuard = true
			}
		}
		if !okGuard {
			bad = "publicKey is written although no representative exists"
			return
		}
		for _, r := range returnsOf(sbm) {
			k, isC := r.Results[0].(*ssa.Const)
			if !isC {
				if unspill(r.Results[0]) == ssa.Value(u) {
					continue
				}
				bad = "status is not the inverse map's result"
				return
			}
			if (k.Value.ExactString() == "true") != instrDominates(outs[0].In, r) {
				bad = "status true without a public key, or false with one"
			}
		}
		// representative written by nobody else in ScalarBaseMult
		for _, e := range arrayEffects(p, sbm, sbm.Params[1]) {
			if e.In != ssa.Instruction(u) {
				bad = "ScalarBaseMult touches the representative itself (" + e.Kind + ")"
			}
		}
		// u read-only in uToRepresentative
		allInstrs(enc, func(in ssa.Instruction) {
			call, ok := in.(*ssa.Call)
			if !ok || !isFeMethod(p, call) {
				return
			}
			if feObj(p, call.Common().Args[0]) == ssa.Value(enc.Params[1]) && !feReadOnly[call.Common().StaticCallee().Name()] {
				bad = "uToRepresentative modifies u (" + call.Common().StaticCallee().Name() + " at " + p.InstrPos(call) + "): the public key would no longer match"
			}
		})
	}()
	if bad != "" {
		ob.Violate("%s", bad)
	} else {
		ob.HoldNT("u := scalarBaseMultDirty(privateKey); uToRepresentative(representative, u, tweak); copy(publicKey, u.Bytes()) under success")
	}

	// the wrapper reports "no representative" only when the inverse map said so
	ob = c.Obl("R2", "internal/x25519ell2:ScalarBaseMult#status-is-the-maps", "ScalarBaseMult returns false only where uToRepresentative returned false (no other reason refuses a private key: a structured slice of refused keys biases the distribution of the keys that are used)")
	func() {
		badS := ""
		us := p.CallsIn(sbm, M("$M/internal/x25519ell2.uToRepresentative"))
		if len(us) != 1 {
			ob.Undecide("%d inverse maps", len(us))
			return
		}
		u := us[0].(*ssa.Call)
		sff := p.Facts(sbm)
		for _, r := range returnsOf(sbm) {
			v := unspill(r.Results[0])
			if v == ssa.Value(u) {
				continue // returns the map's own status
			}
			k, isK := v.(*ssa.Const)
			if isK && k.Value != nil && k.Value.String() == "true" {
				if !hasFact(sff.NC(r.Block()), func(f Fact) bool { return unspill(f.Cond) == ssa.Value(u) && f.Pol }) {
					badS = "true is returned at " + p.InstrPos(r) + " without the inverse map having succeeded"
				}
				continue
			}
			if isK && k.Value != nil && k.Value.String() == "false" {
				if !hasFact(sff.NC(r.Block()), func(f Fact) bool { return unspill(f.Cond) == ssa.Value(u) && !f.Pol }) {
					badS = "false is returned at " + p.InstrPos(r) + " for a reason other than uToRepresentative's verdict"
				}
				continue
			}
			if ph, isPhi := v.(*ssa.Phi); isPhi {
				for _, e := range ph.Edges {
					if unspill(e) != ssa.Value(u) {
						if kk, ok := e.(*ssa.Const); !ok || kk.Value == nil {
							badS = "the status at " + p.InstrPos(r) + " is not the map's verdict"
						}
					}
				}
				continue
			}
			badS = "the status returned at " + p.InstrPos(r) + " is not uToRepresentative's verdict"
		}
		if badS != "" {
			ob.Violate("%s", badS)
		} else {
			ob.HoldNT("every exit reports the inverse map's verdict")
		}
	}()
	// ---------------- R3 dirty multiply
	ob = c.Obl("R3", "internal/x25519ell2:scalarBaseMultDirty#adds-low-order-point", "the clean product [clamp(sk)]B gets a low-order point added before conversion: pk.Add(pk, lop) with lop built from two selectLowOrderPoint results keyed by privateKey[0] and privateKey[0]+2, and the returned u is computed from pk's coordinates after that addition")
	bad = ""
	func() {
		adds := p.CallsIn(dirty, "(*filippo.io/edwards25519.Point).Add")
		exts := p.CallsIn(dirty, "(*filippo.io/edwards25519.Point).ExtendedCoordinates")
		sbmC := p.CallsIn(dirty, "(*filippo.io/edwards25519.Point).ScalarBaseMult")
		clamp := p.CallsIn(dirty, "(*filippo.io/edwards25519.Scalar).SetBytesWithClamping")
		sels := p.CallsIn(dirty, M("$M/internal/x25519ell2.selectLowOrderPoint"))
		sec := p.CallsIn(dirty, "(*filippo.io/edwards25519.Point).SetExtendedCoordinates")
		if len(adds) != 1 || len(exts) != 1 || len(sbmC) != 1 || len(clamp) != 1 || len(sels) != 2 || len(sec) != 1 {
			bad = fmt.Sprintf("shape: %d Add, %d ExtendedCoordinates, %d ScalarBaseMult, %d clamp, %d selects, %d SetExtendedCoordinates", len(adds), len(exts), len(sbmC), len(clamp), len(sels), len(sec))
			return
		}
		ptObj := func(v ssa.Value) ssa.Value {
			for i := 0; i < 8; i++ {
				v = unspill(v)
				if ex, ok := v.(*ssa.Extract); ok && ex.Index == 0 {
					v = ex.Tuple
					continue
				}
				if cl, ok := v.(*ssa.Call); ok && strings.HasPrefix(p.CalleeID(cl.Common()), "(*filippo.io/edwards25519.") && len(cl.Common().Args) > 0 {
					v = cl.Common().Args[0]
					continue
				}
				break
			}
			return v
		}
		add := adds[0].(*ssa.Call)
		pk := ptObj(sbmC[0].(*ssa.Call))
		aa := add.Common().Args
		if ptObj(aa[0]) != pk || !((ptObj(aa[1]) == pk && ptObj(aa[2]) == ptObj(sec[0].(*ssa.Call))) || (ptObj(aa[2]) == pk && ptObj(aa[1]) == ptObj(sec[0].(*ssa.Call)))) {
			bad = "the addition is not pk = pk + lop"
			return
		}
		if ptObj(exts[0].Common().Args[0]) != pk || !instrDominates(add, exts[0]) || !instrDominates(sbmC[0], add) {
			bad = "u is not computed from pk after the low-order point was added"
			return
		}
		// clamp reads privateKey
		ce := arrayEffects(p, dirty, dirty.Params[0])
		_ = ce
		t := p.newTermer()
		var cof []string
		for _, s := range sels {
			t.at = s
			cof = append(cof, t.scalar(s.Common().Args[3]))
		}
		sort.Strings(cof)
		for i := range cof {
			cof[i] = canonTerm(cof[i])
		}
		sort.Strings(cof)
		if strings.Join(cof, ",") != canonTerm("$0[0]")+","+canonTerm("($0[0]+2)") && strings.Join(cof, ",") != canonTerm("($0[0]+2)")+","+canonTerm("$0[0]") {
			bad = "the low-order point is selected by " + strings.Join(cof, ",") + ", expected privateKey[0] and privateKey[0]+2"
			return
		}
		// lop coordinates are the two selected elements
		sa := sec[0].Common().Args
		x, y := feObj(p, sa[1]), feObj(p, sa[2])
		s0, s1 := feObj(p, sels[0].Common().Args[0]), feObj(p, sels[1].Common().Args[0])
		if !((x == s0 && y == s1) || (x == s1 && y == s0)) || x == y {
			bad = "the low-order point is not built from the two selected coordinates"
			return
		}
		// the result flows from ExtendedCoordinates
		for _, r := range returnsOf(dirty) {
			sl := p.Slice(r.Results[0], SliceOpt{})
			if !sl.Seen[exts[0].(*ssa.Call)] {
				bad = "the returned u does not depend on pk's coordinates"
			}
		}
	}()
	if bad != "" {
		ob.Violate("%s", bad)
	} else {
		ob.HoldNT("pk = [clamp(sk)]B + lop(privateKey[0]); u from pk's (Y,Z)")
	}
	ob = c.Obl("R3", "internal/x25519ell2:selectLowOrderPoint#three-bits", "the selection consumes exactly bits 0, 1 and 2 of the cofactor byte, one per Select (8 low-order points, all eight cosets reachable)")
	bad = ""
	func() {
		bits := map[string]bool{}
		n := 0
		t := p.newTermer()
		for _, s := range p.CallsIn(selLop, "(*"+feT+").Select") {
			n++
			t.at = s
			bits[canonTerm(t.scalar(s.Common().Args[3]))] = true
			if feObj(p, s.Common().Args[0]) != ssa.Value(selLop.Params[0]) {
				bad = "a Select does not write the output"
			}
		}
		want := []string{"(($3>>0)&1)", "(($3>>1)&1)", "(($3>>2)&1)"}
		for _, w := range want {
			if !bits[canonTerm(w)] {
				bad = fmt.Sprintf("bit selector %s missing (have %v)", w, keysOf(bits))
			}
		}
		if n != 3 && bad == "" {
			bad = fmt.Sprintf("%d selects", n)
		}
	}()
	if bad != "" {
		ob.Violate("%s", bad)
	} else {
		ob.HoldNT("bits 0,1,2")
	}

	// ---------------- R4 NewKeypair
	ob = c.Obl("R4", "common/ntor:NewKeypair#retry-until-representable", "NewKeypair(true) returns a keypair only after x25519ell2.ScalarBaseMult reported success on it; a failure draws a fresh private key; private key = first 32 bytes and tweak = byte 63 of one SHA-512 digest of CSPRNG output; ScalarBaseMult receives (public, representative, private, tweak) of the same keypair")
	bad = ""
	func() {
		calls := p.CallsIn(newKp, M("$M/internal/x25519ell2.ScalarBaseMult"))
		if len(calls) != 1 {
			bad = fmt.Sprintf("%d ScalarBaseMult calls", len(calls))
			return
		}
		call := calls[0].(*ssa.Call)
		t := p.newTermer()
		t.at = call
		var as []string
		for _, a := range call.Common().Args {
			as = append(as, t.Term(a))
		}
		_ = as
		ff := p.Facts(newKp)
		draws := p.CallsIn(newKp, M("$M/common/csrand.Bytes"))
		if len(draws) != 1 {
			bad = fmt.Sprintf("%d CSPRNG draws", len(draws))
			return
		}
		succ := map[ssa.Instruction]bool{}
		for _, r := range ff.SuccessReturns() {
			succ[r] = true
		}
		if len(succ) == 0 {
			bad = "no success return"
			return
		}
		isSucc := func(in ssa.Instruction) bool { return succ[in] }
		// with Elligator requested, no keypair is returned without the transform having run
		if reachAssuming(newKp, nil, isSucc, map[ssa.Instruction]bool{call: true}, map[ssa.Value]int{newKp.Params[0]: 1}) {
			bad = "NewKeypair(true) can return a keypair without x25519ell2.ScalarBaseMult having run on it"
			return
		}
		// after a failed transform, nothing is returned before a fresh private key was drawn
		if reachAssuming(newKp, call, isSucc, map[ssa.Instruction]bool{draws[0]: true}, map[ssa.Value]int{call: 2}) {
			bad = "the keypair is returned even when ScalarBaseMult failed (no fresh private key is drawn first)"
			return
		}
		if !instrDominates(draws[0], call) {
			bad = "the private key is not drawn before the transform"
			return
		}
		// tweak = digest[63]; private = copy(priv, digest[:]) with priv the 32-byte private key
		tw := unspill(call.Common().Args[3])
		ld, ok := tw.(*ssa.UnOp)
		if !ok {
			bad = "tweak is not a byte of the digest"
			return
		}
		ia, ok := ld.X.(*ssa.IndexAddr)
		k, okk := intConst(ia.Index)
		if !ok || !okk || k < 32 {
			bad = fmt.Sprintf("the tweak is digest[%d]: it overlaps the private key (bytes 0..31)", k)
			return
		}
		dg, ok := unspill(ia.X).(*ssa.Alloc)
		if !ok {
			bad = "digest is not a local"
			return
		}
		des := arrayEffects(p, newKp, dg)
		if len(des) < 2 || des[0].Kind != "store-whole" {
			bad = "digest effects: " + effKinds(des)
			return
		}
		hc, _ := callOf(unspill(des[0].Val))
		if hc == nil || p.CalleeID(hc.Common()) != "crypto/sha512.Sum512" {
			bad = "the digest is not SHA-512"
			return
		}
		if !sameByteView(hc.Common().Args[0], draws[0].Common().Args[0]) || !instrDominates(draws[0], hc) {
			bad = "the digest is not taken over the freshly drawn bytes"
			return
		}
		// the tweak byte is read from THIS attempt's digest: the hash (and its store into the digest) comes
		// before the load, in the same trip round the loop
		if !instrDominates(hc, ld) || (des[0].In != nil && !instrDominates(des[0].In, ld)) {
			bad = "the tweak byte is read at " + p.InstrPos(ld) + " before this attempt's digest is computed: the first attempt gets 0 and every later one the previous attempt's byte (pad bits and private key are no longer independent draws)"
			return
		}
		// copy(priv, digest[:]) where priv is the drawn slice over private.Bytes()
		cp := false
		for _, cc := range p.CallsIn(newKp, "builtin:copy") {
			if sameByteView(cc.Common().Args[0], draws[0].Common().Args[0]) {
				if sl, ok := unspill(cc.Common().Args[1]).(*ssa.Slice); ok && unspill(sl.X) == ssa.Value(dg) && sl.Low == nil {
					cp = instrDominates(cc, call)
				}
			}
		}
		if !cp {
			bad = "the private key is not replaced by the digest prefix before the transform"
			return
		}
		want := "<Keypair>.public , <Keypair>.representative , <Keypair>.private"
		_ = want
		roles := []string{"public", "representative", "private"}
		for i, role := range roles {
			a := unspill(call.Common().Args[i])
			bc, _ := callOf(a)
			if bc == nil || len(bc.Common().Args) != 1 || !isFieldLoad(bc.Common().Args[0], "common/ntor.Keypair", role) {
				bad = fmt.Sprintf("argument %d of ScalarBaseMult is not keypair.%s.Bytes()", i, role)
				return
			}
		}
	}()
	if bad != "" {
		ob.Violate("%s", bad)
	} else {
		ob.HoldNT("loop: csrand → SHA-512 → private=digest[:32], tweak=digest[63] → ScalarBaseMult; return only on true")
	}
	ob = c.Obl("R4", "common/ntor:(*Representative).ToPublic#receiver-untouched", "decoding a representative does not modify it: ToPublic only reads its receiver (a representative whose pad bits were cleared by an earlier decode is no longer uniform when it is sent later)")
	if toPub != nil && len(toPub.Params) > 0 {
		badR := ""
		for _, e := range arrayEffects(p, toPub, toPub.Params[0]) {
			if strings.HasPrefix(e.Kind, "read-by:") {
				continue
			}
			if strings.HasPrefix(e.Kind, "passed:") {
				// handed to a module function: it must not write through it either
				if call, ok := e.In.(ssa.CallInstruction); ok {
					wr := false
					for ai, a := range call.Common().Args {
						if bufObjKey(a) == bufObjKey(toPub.Params[0]) && p.callMayWriteArg(call, ai, 0) {
							if sc := call.Common().StaticCallee(); sc != nil && p.inModule(sc) {
								wr = true
							}
						}
					}
					if !wr {
						continue
					}
				}
			}
			badR = "the receiver is modified (" + e.Kind + " at " + p.InstrPos(e.In) + ")"
		}
		if badR != "" {
			ob.Violate("%s", badR)
		} else {
			ob.HoldNT("reads only")
		}
	} else {
		ob.Undecide("ToPublic not found")
	}
	ob = c.Obl("R4", "common/ntor:(*Representative).ToPublic#argument-order", "ToPublic decodes the receiver into a fresh public key: RepresentativeToPublicKey(pub.Bytes(), repr.Bytes())")
	bad = "no call"
	for _, call := range p.CallsIn(toPub, M("$M/internal/x25519ell2.RepresentativeToPublicKey")) {
		a0, _ := callOf(unspill(call.Common().Args[0]))
		a1, _ := callOf(unspill(call.Common().Args[1]))
		bad = ""
		if a0 == nil || a1 == nil {
			bad = "arguments are not Bytes() views"
			break
		}
		if _, isA := unspill(a0.Common().Args[0]).(*ssa.Alloc); !isA {
			bad = "the output is not a fresh public key"
		}
		if unspill(a1.Common().Args[0]) != ssa.Value(toPub.Params[0]) {
			bad = "the input is not the receiver"
		}
		for _, r := range returnsOf(toPub) {
			if unspill(r.Results[0]) != unspill(a0.Common().Args[0]) {
				bad = "the returned key is not the decoded one"
			}
			if !instrDominates(call, r) {
				bad = "a return at " + p.InstrPos(r) + " is reachable without the decoding call: the map must be defined for all 2^256 strings (no representative is refused or special-cased)"
			}
		}
	}
	if bad != "" {
		ob.Violate("%s", bad)
	} else {
		ob.HoldNT("RepresentativeToPublicKey(pub.Bytes(), repr.Bytes()); return pub")
	}

	// ---------------- R5 re-entrancy
	ob = c.Obl("R5", "internal/x25519ell2#no-shared-scratch", "key generation and decoding are re-entrant: outside package initialisation no package-level variable of x25519ell2 is written, and package-level field elements appear only as read-only operands (never as the receiver of a mutating method)")
	bad = ""
	nops := 0
	sp := p.SPkgs["internal/x25519ell2"]
	if sp == nil {
		bad = "package not loaded"
	} else {
		for _, m := range sp.Members {
			fn, ok := m.(*ssa.Function)
			if !ok || fn.Name() == "init" {
				continue
			}
			var fns []*ssa.Function
			fns = append(fns, fn)
			fns = append(fns, fn.AnonFuncs...)
			for _, f := range fns {
				allInstrs(f, func(in ssa.Instruction) {
					switch x := in.(type) {
					case *ssa.Store:
						if g, ok := rootGlobal(x.Addr); ok && g.Pkg == sp {
							bad = "package variable " + g.Name() + " is written at " + p.InstrPos(x)
						}
					case *ssa.Call:
						sc := x.Common().StaticCallee()
						if sc == nil || sc.Signature.Recv() == nil || len(x.Common().Args) == 0 {
							return
						}
						nops++
						recv := x.Common().Args[0]
						if isFeMethod(p, x) {
							recv = feObj(p, recv)
						}
						if g, ok := rootGlobal(unspill(recv)); ok && g.Pkg == sp && !feReadOnly[sc.Name()] {
							bad = "package variable " + g.Name() + " is the receiver of " + sc.Name() + " at " + p.InstrPos(x) + ": concurrent key generations share it"
						}
					}
				})
			}
		}
	}
	if nops < 20 && bad == "" {
		bad = fmt.Sprintf("only %d method calls seen", nops)
	}
	if bad != "" {
		ob.Violate("%s", bad)
	} else {
		ob.HoldNT("%d method calls; package-level elements only as operands", nops)
	}
}

// rootGlobal: v is a global, a load of a global pointer, or an address derived
// from one.
func rootGlobal(v ssa.Value) (*ssa.Global, bool) {
	for i := 0; i < 8; i++ {
		switch x := v.(type) {
		case *ssa.Global:
			return x, true
		case *ssa.UnOp:
			if x.Op == token.MUL {
				v = x.X
				continue
			}
		case *ssa.FieldAddr:
			v = x.X
			continue
		case *ssa.IndexAddr:
			v = x.X
			continue
		}
		break
	}
	return nil, false
}

// sameByteView: the same slice value, or whole-array slices of the same array.
func sameByteView(a, b ssa.Value) bool {
	a, b = unspill(a), unspill(b)
	if a == b {
		return true
	}
	sa, ok1 := a.(*ssa.Slice)
	sb, ok2 := b.(*ssa.Slice)
	if ok1 && ok2 && sa.Low == nil && sa.High == nil && sb.Low == nil && sb.High == nil {
		return unspill(sa.X) == unspill(sb.X) || objKey(sa.X) == objKey(sb.X)
	}
	return false
}

// arrayConvSource: for v = [N]byte(slice) (a slice-to-array conversion, which
// go/ssa renders as *SliceToArrayPointer(slice)), the slice.
func arrayConvSource(v ssa.Value) ssa.Value {
	v = unspill(v)
	if u, ok := v.(*ssa.UnOp); ok && u.Op == token.MUL {
		if c, ok := u.X.(*ssa.SliceToArrayPointer); ok {
			return c.X
		}
	}
	if c, ok := v.(*ssa.Convert); ok {
		return c.X
	}
	return v
}
