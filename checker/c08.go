package main

// C08 — ntor: agreement, transcript binding, degenerate keys (DESIGN 4, C08).

import (
	"fmt"
	"go/token"

	"golang.org/x/tools/go/ssa"
)

func init() {
	register(&PropInfo{
		ID: "C08", Level: "other", MinObls: 18,
		Explanation: "The ntor computations reconstructed as expression trees (E7) from the SSA def-use chains and compared with spec terms: R1 the status of ServerHandshake/ClientHandshake is ((0|isZero(EXP1))|isZero(EXP2))==0 with each X25519 output tested before its buffer is overwritten, and constantTimeIsZero ORs every byte; " +
			"R2 KEY_SEED and AUTH hash all five inputs in the deployed order with the deployed labels; R3 role agreement: server (b,x,y)=(idKeypair.public, clientPublic, serverKeypair.public) with EXP(X,y)|EXP(X,b), client (idPublic, clientKeypair.public, serverPublic) with EXP(Y,x)|EXP(B,x); " +
			"R4 Kdf is one HKDF-SHA256 stream independent of the requested length, read for exactly okmLen bytes, and neither Kdf nor the key constructors modify or mangle their input (imported keys are copied verbatim, exactly once).",
		NotCovered: []string{"equality with an independent computation (needs execution)", "X25519, HMAC and HKDF themselves"},
		Trusted:    []string{"go/types+go/ssa faithful", "checker/spec/ntor.json transcribes the deployed ntor variant"},
		Run:        runC08,
	})
}

func runC08(c *Ctx) {
	p := c.P
	sharedDigestRule(c, p, "R2", "common/ntor")
	spec, err := loadSpec("ntor.json")
	if err != nil {
		c.Obl("R0", "spec", "spec table loads").Undecide("%v", err)
		return
	}
	evalSpec(c, p, spec, "R2", "R2", "R2")

	// R1b: constantTimeIsZero
	ob := c.Obl("R1", "common/ntor:constantTimeIsZero#shape", "constantTimeIsZero ORs every byte of its argument and returns subtle.ConstantTimeByteEq(acc, 0)")
	fn := p.Func("common/ntor:constantTimeIsZero")
	if fn == nil {
		ob.Undecide("not found")
	} else {
		c.Touch(p.FuncKey(fn))
		bad := ""
		for _, r := range returnsOf(fn) {
			call, _ := callOf(unspill(r.Results[0]))
			if call == nil || p.CalleeID(call.Common()) != "crypto/subtle.ConstantTimeByteEq" {
				bad = "the result is not subtle.ConstantTimeByteEq(...)"
				continue
			}
			if k, ok := intConst(call.Common().Args[1]); !ok || k != 0 {
				bad = "the accumulated value is not compared with 0"
			}
			// acc: loop phi [0, acc | x[i]] over a range of the whole parameter
			ph, ok := unspill(call.Common().Args[0]).(*ssa.Phi)
			if !ok {
				bad = "the accumulator is not a loop variable"
				continue
			}
			okOr := false
			for _, e := range ph.Edges {
				if b, ok := unspill(e).(*ssa.BinOp); ok && b.Op == token.OR {
					var elem ssa.Value
					if unspill(b.X) == ssa.Value(ph) {
						elem = b.Y
					} else if unspill(b.Y) == ssa.Value(ph) {
						elem = b.X
					}
					if u, ok := unspill(elem).(*ssa.UnOp); ok {
						if ia, ok := u.X.(*ssa.IndexAddr); ok && unspill(ia.X) == ssa.Value(fn.Params[0]) {
							// index runs over the whole slice: loop bound is len(x)
							okOr = rangesWhole(ia.Index, fn.Params[0])
						}
					}
				} else if k, ok := intConst(e); !ok || k != 0 {
					bad = "the accumulator does not start at 0"
				}
			}
			if !okOr && bad == "" {
				bad = "not every byte of the argument is ORed into the accumulator"
			}
		}
		if bad != "" {
			ob.Violate("%s", bad)
		} else {
			ob.HoldNT("acc |= x[i] for i in [0,len(x)); ConstantTimeByteEq(acc, 0)")
		}
	}

	// R4b: inputs are not modified
	for _, k := range []string{"common/ntor:Kdf", "common/ntor:CompareAuth", "common/ntor:ntorCommon", "common/ntor:ServerHandshake", "common/ntor:ClientHandshake"} {
		fn := p.Func(k)
		ob := c.Obl("R4", k+"#inputs-untouched", "the function does not write through its key/seed parameters (a KDF or handshake that destroys its input is not deterministic for the caller)")
		if fn == nil {
			ob.Undecide("not found")
			continue
		}
		p.prov()
		bad := ""
		for _, q := range fn.Params {
			if !refLike(q.Type()) {
				continue
			}
			for _, w := range p.pi.writes[Loc{Kind: 'v', V: q}] {
				if w.Fn != fn {
					continue
				}
				if call, ok := w.Instr.(ssa.CallInstruction); ok {
					id := p.CalleeID(call.Common())
					// reads of the parameter by library functions that do not modify it
					if id == "golang.org/x/crypto/hkdf.New" || id == "golang.org/x/crypto/curve25519.ScalarMult" && call.Common().Args[0] != ssa.Value(q) ||
						id == "(*bytes.Buffer).Write" || id == "bytes.NewBuffer" || id == M("$M/common/ntor.ntorCommon") ||
						id == "builtin:append" { // append never changes the bytes visible through its first argument

						continue
					}
					if sc := call.Common().StaticCallee(); sc != nil && p.inModule(sc) && p.aliasParam(sc) >= 0 {
						continue
					}
					if call.Common().IsInvoke() && call.Common().Method.Name() == "Write" {
						continue // io.Writer: "Write must not modify the slice data, even temporarily"
					}
				}
				bad = fmt.Sprintf("parameter %s is written at %s", q.Name(), p.InstrPos(w.Instr))
			}
			// writes through views of the parameter (x.Bytes()[:] etc.)
			allInstrs(fn, func(in ssa.Instruction) {
				var dst ssa.Value
				switch x := in.(type) {
				case *ssa.Store:
					dst = x.Addr
				case *ssa.Call:
					if p.CalleeID(x.Common()) == "builtin:copy" {
						dst = x.Common().Args[0]
					}
				}
				if dst == nil {
					return
				}
				for _, l := range p.Backing(dst) {
					if l.Kind == 'v' && l.V == ssa.Value(q) {
						bad = fmt.Sprintf("parameter %s is overwritten at %s", q.Name(), p.InstrPos(in))
					}
				}
			})
		}
		if bad == "" {
			bad = closureWritesParam(p, fn)
		}
		if bad != "" {
			ob.Violate("%s", bad)
		} else {
			ob.HoldNT("no write through any parameter")
		}
	}
	keypairComplete(c, p, "R4")
	// R4c: imported keys are copied verbatim
	c08Verbatim(c, p, "R4")
}

// c08Verbatim: imported keys / node ids are the caller's bytes (shared by C02:
// a client configured with a different key must fail, so the configured bytes
// themselves must reach the transcript and the MAC key).
func c08Verbatim(c *Ctx, p *Prog, rule string) {
	p.prov()
	for _, k := range []string{"common/ntor:NewPublicKey", "common/ntor:NewNodeID"} {
		fn := p.Func(k)
		ob := c.Obl(rule, k+"#verbatim", "an imported key / node id is the caller's bytes, copied verbatim exactly once (the transcript must hash the bytes that were supplied)")
		if fn == nil {
			ob.Undecide("not found")
			continue
		}
		c.Touch(p.FuncKey(fn))
		bad := ""
		for _, r := range p.Facts(fn).SuccessReturns() {
			a, ok := unspill(r.Results[0]).(*ssa.Alloc)
			if !ok {
				bad = "the result is not a freshly allocated object"
				continue
			}
			ws := p.pi.writes[Loc{Kind: 'a', V: a}]
			n := 0
			for _, w := range ws {
				call, isCall := w.Instr.(*ssa.Call)
				if isCall && p.CalleeID(call.Common()) == "builtin:copy" && unspill(call.Common().Args[1]) == ssa.Value(fn.Params[0]) {
					n++
					continue
				}
				bad = fmt.Sprintf("the new object is also written at %s", p.InstrPos(w.Instr))
			}
			if n != 1 && bad == "" {
				bad = fmt.Sprintf("%d copies of the raw bytes, expected 1", n)
			}
		}
		if bad != "" {
			ob.Violate("%s", bad)
		} else {
			ob.HoldNT("copy(obj[:], raw) is the only write")
		}
	}
}

// rangesWhole: idx is the index variable of a `for i := range x` loop over the
// whole slice x: phi[-1, idx] + 1 compared with len(x).
func rangesWhole(idx ssa.Value, x ssa.Value) bool {
	// the index loop: i = phi(0, i+1), guarded by i < len(x)
	if ph, ok := unspill(idx).(*ssa.Phi); ok {
		okInit, okStep := false, false
		for _, e := range ph.Edges {
			if k, ok := intConst(e); ok && k == 0 {
				okInit = true
			} else if b, ok := unspill(e).(*ssa.BinOp); ok && b.Op == token.ADD && unspill(b.X) == ssa.Value(ph) {
				if k, ok := intConst(b.Y); ok && k == 1 {
					okStep = true
				}
			}
		}
		if okInit && okStep && len(ph.Edges) == 2 {
			for _, r := range *ph.Referrers() {
				if cmp, ok := r.(*ssa.BinOp); ok && cmp.Op == token.LSS && cmp.X == ssa.Value(ph) {
					if lc, _ := callOf(unspill(cmp.Y)); lc != nil && len(lc.Common().Args) == 1 && unspill(lc.Common().Args[0]) == x {
						if bi, isB := lc.Common().Value.(*ssa.Builtin); isB && bi.Name() == "len" {
							return true
						}
					}
				}
			}
		}
		return false
	}
	b, ok := unspill(idx).(*ssa.BinOp)
	if !ok || b.Op != token.ADD {
		return false
	}
	if k, ok := intConst(b.Y); !ok || k != 1 {
		return false
	}
	ph, ok := unspill(b.X).(*ssa.Phi)
	if !ok {
		return false
	}
	okInit := false
	for _, e := range ph.Edges {
		if k, ok := intConst(e); ok && k == -1 {
			okInit = true
		}
	}
	if !okInit {
		return false
	}
	// the loop condition idx < len(x)
	for _, r := range *b.Referrers() {
		if cmp, ok := r.(*ssa.BinOp); ok && cmp.Op == token.LSS && cmp.X == ssa.Value(b) {
			if lc, _ := callOf(unspill(cmp.Y)); lc != nil && len(lc.Common().Args) == 1 && unspill(lc.Common().Args[0]) == x {
				return true
			}
		}
	}
	return false
}

// closureWritesParam: a function literal inside fn (a deferred scrubber, a helper closure) stores through a
// reference-like parameter of fn that it captured.
func closureWritesParam(p *Prog, fn *ssa.Function) string {
	bad := ""
	var visit func(af *ssa.Function, depth int)
	visit = func(af *ssa.Function, depth int) {
		if depth > 3 {
			return
		}
		// how the closure was made: free variable index -> binding in the parent
		var mk *ssa.MakeClosure
		allInstrs(af.Parent(), func(in ssa.Instruction) {
			if m, ok := in.(*ssa.MakeClosure); ok && m.Fn == ssa.Value(af) {
				mk = m
			}
		})
		capturedParam := func(fv *ssa.FreeVar) *ssa.Parameter {
			if mk == nil {
				return nil
			}
			for i, f := range af.FreeVars {
				if f != fv || i >= len(mk.Bindings) {
					continue
				}
				switch b := mk.Bindings[i].(type) {
				case *ssa.Parameter:
					return b
				case *ssa.Alloc:
					for _, r := range *b.Referrers() {
						if st, ok := r.(*ssa.Store); ok && st.Addr == ssa.Value(b) {
							if q, ok := st.Val.(*ssa.Parameter); ok && refLike(q.Type()) {
								return q
							}
						}
					}
				}
			}
			return nil
		}
		root := func(v ssa.Value) ssa.Value {
			for i := 0; i < 12; i++ {
				switch x := v.(type) {
				case *ssa.IndexAddr:
					v = x.X
				case *ssa.FieldAddr:
					v = x.X
				case *ssa.Slice:
					v = x.X
				case *ssa.UnOp:
					if fv, ok := x.X.(*ssa.FreeVar); ok {
						return fv
					}
					return v
				default:
					return v
				}
			}
			return v
		}
		allInstrs(af, func(in ssa.Instruction) {
			var dst ssa.Value
			switch x := in.(type) {
			case *ssa.Store:
				if _, isAlloc := x.Addr.(*ssa.Alloc); !isAlloc {
					if _, isFV := x.Addr.(*ssa.FreeVar); !isFV { // re-binding the captured variable itself writes no byte
						dst = x.Addr
					}
				}
			case *ssa.Call:
				if p.CalleeID(x.Common()) == "builtin:copy" {
					dst = x.Common().Args[0]
				}
			}
			if dst == nil {
				return
			}
			if fv, ok := root(dst).(*ssa.FreeVar); ok {
				if q := capturedParam(fv); q != nil && q.Parent() == fn {
					bad = fmt.Sprintf("parameter %s is overwritten inside a function literal at %s", q.Name(), p.InstrPos(in))
				}
			}
		})
		for _, g := range af.AnonFuncs {
			visit(g, depth+1)
		}
	}
	for _, af := range fn.AnonFuncs {
		visit(af, 0)
	}
	return bad
}
