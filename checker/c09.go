package main

// C09 — obfs4 traffic shaping follows the seeded distributions (DESIGN 4, C09).

import (
	"fmt"
	"go/constant"
	"go/token"
	"go/types"
	"sort"
	"strings"

	"golang.org/x/tools/go/ssa"
)

const tO4 = "transports/obfs4.obfs4Conn"

func init() {
	register(&PropInfo{
		ID: "C09", Level: "other", MinObls: 20,
		Explanation: "Decided from the code's shape and its linear arithmetic, not by running it: R1 every frame and every IAT-mode write is provably at most 1448 bytes long (bounds engine); R2 burst targets, paranoid write lengths and IAT delays are samples of the connection's own distributions; R3 seed adoption: the client (and only the client, and only for a 24-byte payload) resets lenDist from the received seed and iatDist from SHA-256 of it, the server sends the seed its own distribution is built from, and the three construction sites agree on bounds, bias flag and IAT-seed derivation; R4 (bounds engine) makePacket's precondition at every call site and unreachability of the panics on the Write path; R5 burst arithmetic: makePacket appends exactly 21+len(data)+padLen bytes, and on every success path of padBurst (tail + appended - target) is 0 or 1448 (ends on the target) or 1469 / 2917 (target plus one header, only when the needed padding is at most a header) — proved by Fourier-Motzkin refutation per path, for all (tail,target) pairs; R6 paranoid mode: the buffered length is at least the sampled length on every edge into the write.",
		NotCovered:  []string{"termination of the paranoid loop beyond the structural variant of R6b (finding F10)", "timing (sleep durations are checked only as the expression iatDist.Sample()*100 microseconds)", "that values in the length table are themselves within [0,1448] is C12's Sample/IntRange rule plus an assumed contract"},
		Trusted:     []string{"go/types+go/ssa faithful", "library contracts of checker/contracts.go (bytes.Buffer, secretbox.Seal, WeightedDist.Sample in [minValue,maxValue])"},
		Run:         runC09,
	})
}

func runC09(c *Ctx) {
	if !importing {
		importObls(c, "C12", runC12, "X12", func(k string) bool { return containsAny(k, "common/probdist", "common/drbg") })
		// the IAT mode a bridge runs with is the one its operator configured (C18.R3: the override reaches the state)
		importObls(c, "C18", runC18, "X18", func(k string) bool { return containsAny(k, "serverStateFromArgs#override-persisted") })
	}
	p := c.P
	write := p.Func("transports/obfs4:(*obfs4Conn).Write")
	padBurst := p.Func("transports/obfs4:(*obfs4Conn).padBurst")
	makePacket := p.Func("transports/obfs4:(*obfs4Conn).makePacket")
	readPackets := p.Func("transports/obfs4:(*obfs4Conn).readPackets")
	ob := c.Obl("R0", "anchors", "Write, padBurst, makePacket, readPackets exist")
	if write == nil || padBurst == nil || makePacket == nil || readPackets == nil {
		ob.Undecide("missing")
		return
	}
	ob.Hold("found")
	for _, fn := range []*ssa.Function{write, padBurst, makePacket, readPackets} {
		c.Touch(p.FuncKey(fn))
	}
	msl, okc := p.constInt("transports/obfs4/framing", "MaximumSegmentLength")
	hdr, okh := p.constInt("transports/obfs4", "headerLength")
	ob = c.Obl("R1", "transports/obfs4/framing.MaximumSegmentLength", "the segment bound is 1500-(40+12) = 1448 and the per-packet overhead is 21")
	if !okc || !okh || msl != 1448 || hdr != 21 {
		ob.Violate("MaximumSegmentLength=%d headerLength=%d", msl, hdr)
	} else {
		ob.HoldNT("1448, 21")
	}

	// ---- R1 bound of writes (value-level: proved with the bounds engine)
	bd := p.NewBounds()
	ob = c.Obl("R1", "transports/obfs4:(*obfs4Conn).makePacket#frame-bound", "every frame leaves makePacket through exactly one w.Write whose argument is provably at most MaximumSegmentLength bytes long")
	bad := ""
	var mpWrite ssa.CallInstruction
	nw := 0
	allInstrs(makePacket, func(in ssa.Instruction) {
		call, ok := in.(ssa.CallInstruction)
		if !ok || !call.Common().IsInvoke() || call.Common().Method.Name() != "Write" {
			return
		}
		if unspill(call.Common().Value) != ssa.Value(makePacket.Params[1]) {
			return
		}
		nw++
		mpWrite = call
		okp, why := bd.Prove(makePacket, call, func(s *scope, pr *proof) []Cons {
			l, _ := s.lenLin(call.Common().Args[0], pr)
			return []Cons{leC(l, msl)}
		})
		if !okp {
			bad = "the frame written at " + p.InstrPos(call) + " is not provably <= MaximumSegmentLength: " + why
		}
	})
	if nw != 1 && bad == "" {
		bad = fmt.Sprintf("%d writes to w", nw)
	}
	if bad != "" {
		ob.Violate("%s", bad)
	} else {
		ob.HoldNT("len(w.Write argument) <= 1448")
	}
	ob = c.Obl("R1", "transports/obfs4:(*obfs4Conn).Write#iat-writes", "in the IAT modes every write to the network is provably at most MaximumSegmentLength bytes long; only the non-IAT mode writes the whole burst at once")
	bad = ""
	ff := p.Facts(write)
	nNet := 0
	for _, call := range p.ConnWritesIn(write) {
		nNet++
		arg := call.Common().Args[0]
		// whole-burst write: only when iatMode == iatNone
		okNone := false
		for _, f := range ff.NC(call.Block()) {
			if v, cst, isEq, ok := factFieldConst(f); ok && v.Type == tO4 && v.Field == "iatMode" && cst == 0 && isEq {
				okNone = true
			}
		}
		if okNone {
			continue
		}
		okp, why := bd.Prove(write, call, func(s *scope, pr *proof) []Cons {
			l, _ := s.lenLin(arg, pr)
			return []Cons{leC(l, msl)}
		})
		if !okp {
			bad = "the write at " + p.InstrPos(call) + " is reachable in an IAT mode and not provably <= MaximumSegmentLength: " + why
		}
	}
	if nNet < 2 && bad == "" {
		bad = fmt.Sprintf("only %d network writes found in Write", nNet)
	}
	if bad != "" {
		ob.Violate("%s", bad)
	} else {
		ob.HoldNT("%d network writes", nNet)
	}

	// ---- R2 targets are samples
	isSampleOf := func(v ssa.Value, field string) bool {
		os := p.Origins(v)
		if len(os) == 0 {
			return false
		}
		for _, o := range os {
			call, _ := callOf(o)
			if call == nil || p.CalleeID(call.Common()) != M("(*$M/common/probdist.WeightedDist).Sample") {
				return false
			}
			if !isFieldLoad(call.Common().Args[0], tO4, field) {
				return false
			}
		}
		return true
	}
	ob = c.Obl("R2", "transports/obfs4:(*obfs4Conn).padBurst#target-is-sample", "every burst target handed to padBurst is the result of conn.lenDist.Sample() (never the application's write size or a constant)")
	bad = ""
	sites := p.SitesOf(padBurst)
	for _, cs := range sites {
		if !isSampleOf(cs.Instr.Common().Args[2], "lenDist") {
			bad = "the target at " + p.InstrPos(cs.Instr) + " is not conn.lenDist.Sample()"
		}
	}
	if len(sites) < 2 && bad == "" {
		bad = fmt.Sprintf("%d call sites", len(sites))
	}
	// non-paranoid modes pad once per burst: a padBurst call with NC iatMode != paranoid only, after the chop loop, dominating the network writes
	padOnce := false
	for _, cs := range sites {
		if cs.Caller != write {
			continue
		}
		nc := ff.NC(cs.Instr.Block())
		guard, other := false, false
		for _, f := range nc {
			if v, cst, isEq, ok := factFieldConst(f); ok && v.Type == tO4 && v.Field == "iatMode" && cst == 2 && !isEq {
				guard = true
			} else if !isLoopExitFact(write, f) {
				other = true
			}
		}
		if guard && !other {
			all := true
			for _, w := range p.ConnWritesIn(write) {
				if !cs.Instr.Block().Dominates(w.Block()) && !pathAvoidsOnlyIf(cs.Instr.Block(), w.Block()) {
					all = false
				}
			}
			if all {
				padOnce = true
			}
		}
	}
	if !padOnce && bad == "" {
		bad = "no unconditional per-burst padBurst call for the non-paranoid modes"
	}
	if bad != "" {
		ob.Violate("%s", bad)
	} else {
		ob.HoldNT("%d call sites; the non-paranoid call is guarded only by iatMode != iatParanoid", len(sites))
	}
	ob = c.Obl("R2", "transports/obfs4:(*obfs4Conn).Write#iat-delay", "the delay after every IAT-mode write is iatDist.Sample()*100 microseconds")
	bad = "no time.Sleep in Write"
	for _, call := range p.CallsIn(write, "time.Sleep") {
		t := p.newTermer()
		t.at = call
		got := t.Term(call.Common().Args[0])
		if termEq(got, "((Sample(<obfs4Conn>.iatDist)*100)*1000)") {
			bad = ""
		} else {
			bad = "the delay is " + got
		}
	}
	if bad != "" {
		ob.Violate("%s", bad)
	} else {
		ob.HoldNT("time.Sleep(Duration(iatDist.Sample()*100) * time.Microsecond)")
	}

	c09Paranoid(c, p, write, padBurst, isSampleOf)
	c09ParanoidProgress(c, p, write, padBurst)
	c09Seed(c, p, readPackets)
	c09Arith(c, p, makePacket, padBurst, mpWrite, msl, hdr)

	// ---- R7 the distributions are sampled by the writer goroutine while the reader goroutine may
	// re-seed them (seed adoption): Reset and Sample must each be one critical section
	if reset, sample := p.Func("common/probdist:(*WeightedDist).Reset"), p.Func("common/probdist:(*WeightedDist).Sample"); reset != nil && sample != nil {
		reach := map[*ssa.Function]bool{}
		for fn := range p.Reachable(reset) {
			if p.inModule(fn) && relPkg(fn.Pkg.Pkg.Path()) == "common/probdist" {
				reach[fn] = true
			}
		}
		c12Locks(c, p, "R7", reset, sample, reach)
	}

	// ---- R4 bounds / panics
	set := map[*ssa.Function]bool{write: true, padBurst: true, makePacket: true}
	n := boundsRule(c, set, "R4", "R4", nil)
	ob = c.Obl("R4", "count", "anti-vacuity: bounds obligations on the Write path")
	if n < 8 {
		ob.Undecide("only %d proved", n)
	} else {
		ob.Hold("%d", n)
	}
}

// sliceOfArrayLen: v is a slice expression over (a pointer to) an array; returns its length.
func sliceOfArrayLen(v ssa.Value) (int64, bool) {
	sl, ok := unspill(v).(*ssa.Slice)
	if !ok {
		return 0, false
	}
	t := sl.X.Type().Underlying()
	if pt, ok := t.(*types.Pointer); ok {
		if at, ok := pt.Elem().Underlying().(*types.Array); ok {
			return at.Len(), true
		}
	}
	return 0, false
}

// factFieldConst matches facts `x.f == c` / `x.f != c`.
func factFieldConst(f Fact) (FieldKey, int64, bool, bool) {
	b, ok := f.Cond.(*ssa.BinOp)
	if !ok || (b.Op != token.EQL && b.Op != token.NEQ) {
		return FieldKey{}, 0, false, false
	}
	x, y := b.X, b.Y
	if _, isC := x.(*ssa.Const); isC {
		x, y = y, x
	}
	cst, okc := intConst(y)
	k, _, okf := fieldLoad(x)
	if !okc || !okf {
		return FieldKey{}, 0, false, false
	}
	return k, cst, (b.Op == token.EQL) == f.Pol, true
}

// pathAvoidsOnlyIf: every path to `to` either passes `from` or leaves the
// block that guards `from` on its other arm (if-without-else): from's
// immediate dominator dominates `to`.
func pathAvoidsOnlyIf(from, to *ssa.BasicBlock) bool {
	id := from.Idom()
	return id != nil && id.Dominates(to)
}

func (p *Prog) constInt(pkg, name string) (int64, bool) {
	o := p.lookupObj(pkg, name)
	cst, ok := o.(*types.Const)
	if !ok {
		return 0, false
	}
	v, exact := constant.Int64Val(constant.ToInt(cst.Val()))
	return v, exact
}

// c09Paranoid — R6.
func c09Paranoid(c *Ctx, p *Prog, write, padBurst *ssa.Function, isSampleOf func(ssa.Value, string) bool) {
	ob := c.Obl("R6", "transports/obfs4:(*obfs4Conn).Write#paranoid-exact-length", "in paranoid mode each write is frameBuf.Read(iatFrame[:targetLen]) with targetLen = lenDist.Sample(), and on every edge into that read the buffer holds at least targetLen bytes: either its last change is a successful padBurst(&frameBuf, targetLen) (R5: it then ends on the target or beyond), or a frameBuf.Len() check with no later change implies Len() >= targetLen; the write is exactly the sampled length")
	b := p.NewBounds()
	bad := ""
	found := 0
	allInstrs(write, func(in ssa.Instruction) {
		call, ok := in.(*ssa.Call)
		if !ok || p.CalleeID(call.Common()) != "(*bytes.Buffer).Read" {
			return
		}
		sl, ok := unspill(call.Common().Args[1]).(*ssa.Slice)
		if !ok || sl.High == nil {
			return
		}
		if _, isC := sl.High.(*ssa.Const); isC {
			return
		}
		// a Read into a slice with a computed high bound: must be the paranoid one
		found++
		target := unspill(sl.High)
		if !isSampleOf(target, "lenDist") {
			bad = "the length of the read at " + p.InstrPos(call) + " is not a lenDist sample"
			return
		}
		buf := unspill(call.Common().Args[0])
		blk := call.Block()
		// instructions before the read in its own block must not touch the buffer
		for _, pred := range blk.Preds {
			pred := pred
			// (a) the last change of the buffer on this edge is a successful padBurst(buf, targetLen):
			// by R5 the buffer then holds target (+ k*1448 [+21]) bytes, at least targetLen
			if pc := lastMutatorOnEdge(p, pred, buf); pc != nil && pc.Common().StaticCallee() == padBurst &&
				unspill(pc.Common().Args[2]) == target && p.Facts(write).SucceededCalls(pred)[pc] {
				continue
			}
			// (b) a length check on this edge implies Len() >= targetLen
			lenCall := lastLenOnEdge(p, pred, buf)
			if lenCall == nil {
				bad = "neither a successful padBurst(&frameBuf, targetLen) nor a frameBuf.Len() check on the edge from block " + fmt.Sprint(pred.Index) + " into the read at " + p.InstrPos(call)
				return
			}
			ok2, why := b.RefuteWith(write, pred, func(s *scope, pr *proof) {
				if ef, ok := edgeFact(pred, blk); ok {
					s.factCons(pr, ef)
				}
				pr.add(lt(s.lin(lenCall, pr), s.lin(target, pr)))
			})
			if !ok2 {
				bad = fmt.Sprintf("on the edge from the check at %s into the read at %s, frameBuf.Len() >= targetLen is not implied (%s) and no padBurst to targetLen precedes: the write can be shorter than the sampled length", p.InstrPos(lenCall), p.InstrPos(call), why)
			}
		}
	})
	if found != 1 && bad == "" {
		bad = fmt.Sprintf("%d sampled-length reads found", found)
	}
	if bad != "" {
		ob.Violate("%s", bad)
	} else {
		ob.HoldNT("every edge into the read has a padBurst to targetLen or a check implying Len() >= targetLen")
	}
}

// lastLenOnEdge: walking backwards from the end of blk along single-predecessor
// chains, the last (*bytes.Buffer).Len(buf) call with no later call that
// receives buf (a mutation).
func lastLenOnEdge(p *Prog, blk *ssa.BasicBlock, buf ssa.Value) *ssa.Call {
	for steps := 0; blk != nil && steps < 16; steps++ {
		for i := len(blk.Instrs) - 1; i >= 0; i-- {
			call, ok := blk.Instrs[i].(*ssa.Call)
			if !ok {
				continue
			}
			uses := false
			for _, a := range call.Common().Args {
				if unspill(a) == buf {
					uses = true
				}
				if mi, ok := unspill(a).(*ssa.MakeInterface); ok && unspill(mi.X) == buf {
					uses = true
				}
			}
			if !uses {
				continue
			}
			if p.CalleeID(call.Common()) == "(*bytes.Buffer).Len" {
				return call
			}
			return nil // the buffer changed after the last length check
		}
		if len(blk.Preds) != 1 {
			return nil
		}
		blk = blk.Preds[0]
	}
	return nil
}

// c09ParanoidProgress — R6b: a structural variant for the IAT loop.  The loop runs while frameBuf is
// not empty; it terminates for every table if every trip round it that ADDS to the buffer (padding)
// also drains it (the padded write takes the whole buffer).  A trip that pads and goes round again
// without writing can replenish the buffer for ever.
func c09ParanoidProgress(c *Ctx, p *Prog, write, padBurst *ssa.Function) {
	ob := c.Obl("R6", "transports/obfs4:(*obfs4Conn).Write#paranoid-progress", "Write terminates for every length table: no trip round the IAT loop appends padding to the frame buffer and then goes round again without having written from it (such a trip can replenish the buffer for ever when all table values are small)")
	var pads []ssa.CallInstruction
	for _, call := range p.CallsIn(write, "(*$M/transports/obfs4.obfs4Conn).padBurst") {
		if blockOnCycle(call.Block()) {
			pads = append(pads, call)
		}
	}
	if len(pads) == 0 {
		ob.HoldNT("no padding inside a loop of Write")
		return
	}
	bad := ""
	for _, pad := range pads {
		fbKey := objKey(stripConv(pad.Common().Args[1]))
		drains := map[ssa.Instruction]bool{}
		for _, rd := range p.CallsIn(write, "(*bytes.Buffer).Read") {
			if objKey(stripConv(rd.Common().Args[0])) == fbKey {
				drains[rd] = true
			}
		}
		for _, head := range write.Blocks {
			for _, pred := range head.Preds {
				if !isBackEdge(pred, head) || !naturalLoop(pred, head)[pad.Block()] || len(pred.Instrs) == 0 {
					continue
				}
				last := pred.Instrs[len(pred.Instrs)-1]
				if canReachWithout(pad, last, drains) {
					bad = fmt.Sprintf("after padBurst at %s the loop can go round again (edge %s -> %s) without any Read from the frame buffer: padding is added but nothing is written on that trip", p.InstrPos(pad), pred.Comment, head.Comment)
				}
			}
		}
	}
	if bad != "" {
		ob.Violate("%s", bad)
	} else {
		ob.HoldNT("%d padding site(s) in the loop, each followed by a write from the buffer before the next trip", len(pads))
	}
}

// c09Seed — R3.
func c09Seed(c *Ctx, p *Prog, readPackets *ssa.Function) {
	ff := p.Facts(readPackets)
	resetID := M("(*$M/common/probdist.WeightedDist).Reset")
	ob := c.Obl("R3", "transports/obfs4:(*obfs4Conn).readPackets#adopt-guard", "the distributions are re-seeded only when this endpoint is the client and the PRNG-seed payload is exactly 24 bytes; nowhere else in the transport")
	bad := ""
	nReset := 0
	for _, cs := range p.SitesOf(p.Func("common/probdist:(*WeightedDist).Reset")) {
		if relPkg(cs.Caller.Pkg.Pkg.Path()) != "transports/obfs4" {
			continue
		}
		if cs.Caller != readPackets {
			bad = "Reset is also called from " + p.FuncKey(cs.Caller)
			continue
		}
		nReset++
		client, len24 := false, false
		for _, f := range ff.NC(cs.Instr.Block()) {
			if k, _, ok := fieldLoad(f.Cond); ok && k.Type == tO4 && k.Field == "isServer" && !f.Pol {
				client = true
			}
			if bo, ok := f.Cond.(*ssa.BinOp); ok && bo.Op == token.EQL && f.Pol {
				x, y := bo.X, bo.Y
				if _, isC := x.(*ssa.Const); isC {
					x, y = y, x
				}
				if cst, ok := intConst(y); ok && cst == 24 {
					if lc, _ := callOf(unspill(x)); lc != nil && p.CalleeID(lc.Common()) == "builtin:len" {
						len24 = true
					}
				}
			}
		}
		if !client || !len24 {
			bad = fmt.Sprintf("the Reset at %s is not guarded by !isServer (%v) and len(payload) == 24 (%v)", p.InstrPos(cs.Instr), client, len24)
		}
	}
	_ = resetID
	if nReset != 2 && bad == "" {
		bad = fmt.Sprintf("%d Reset calls in readPackets, expected lenDist and iatDist", nReset)
	}
	if bad != "" {
		ob.Violate("%s", bad)
	} else {
		ob.HoldNT("2 Reset calls, both under !isServer && len(payload) == 24")
	}

	// every seed packet a client receives is adopted: besides the role test, nothing the connection remembers
	// (a flag, a counter, "was it inline with the handshake") decides whether the Reset is reached — how the
	// network segments the server's response must not matter
	ob = c.Obl("R3", "transports/obfs4:(*obfs4Conn).readPackets#adopt-always", "no condition on the way to the Reset calls tests connection state other than the role (isServer): a well-formed seed packet is adopted whenever it arrives, whatever read it arrives in")
	badA, nA := "", 0
	for _, cs := range p.SitesOf(p.Func("common/probdist:(*WeightedDist).Reset")) {
		if cs.Caller != readPackets {
			continue
		}
		nA++
		for _, f := range ff.NC(cs.Instr.Block()) {
			var walk func(v ssa.Value, d int)
			seen := map[ssa.Value]bool{}
			walk = func(v ssa.Value, d int) {
				if v == nil || d > 8 || seen[v] {
					return
				}
				seen[v] = true
				if k, _, ok := fieldLoad(v); ok {
					if k.Type == tO4 && k.Field != "isServer" {
						if _, basic := v.Type().Underlying().(*types.Basic); basic {
							badA = fmt.Sprintf("the Reset at %s is reached only under a test of conn.%s", p.InstrPos(cs.Instr), k.Field)
						}
					}
					return
				}
				switch x := v.(type) {
				case *ssa.BinOp:
					walk(x.X, d+1)
					walk(x.Y, d+1)
				case *ssa.UnOp:
					walk(x.X, d+1)
				case *ssa.Phi:
					for _, e := range x.Edges {
						walk(e, d+1)
					}
				case *ssa.Convert:
					walk(x.X, d+1)
				}
			}
			walk(f.Cond, 0)
		}
	}
	// ... and in the iteration that decoded it: a Reset placed after the decode loop is reached only on some
	// of the loop's exits (a partial frame behind the seed packet leaves the loop with ErrAgain / an error)
	if decs := p.CallsIn(readPackets, idDecode); len(decs) == 1 && badA == "" {
		db := decs[0].Block()
		for _, cs := range p.SitesOf(p.Func("common/probdist:(*WeightedDist).Reset")) {
			if cs.Caller != readPackets {
				continue
			}
			if rb := cs.Instr.Block(); !blockReachesBlock(rb, db) {
				badA = fmt.Sprintf("the Reset at %s is outside the decode loop (the frame decoder is not reachable from it): a seed packet followed by a partial frame in the same read is dropped or adopted depending on how the loop is left", p.InstrPos(cs.Instr))
			}
		}
	}
	switch {
	case nA == 0:
		ob.Undecide("no Reset call in readPackets")
	case badA != "":
		ob.Violate("%s", badA)
	default:
		ob.HoldNT("%d Reset sites; their path conditions test no remembered connection state", nA)
	}

	// the mode a connection shapes its traffic with is the configured one: both constructors install it
	ob = c.Obl("R3", "transports/obfs4.obfs4Conn.iatMode#installed", "every obfs4Conn is created with its iatMode set from the configuration it belongs to: the server's from obfs4ServerFactory.iatMode (WrapConn), the client's from obfs4ClientArgs.iatMode (newObfs4ClientConn); the field is written nowhere else")
	{
		want := map[string]string{"transports/obfs4:(*obfs4ServerFactory).WrapConn": "transports/obfs4.obfs4ServerFactory", "transports/obfs4:newObfs4ClientConn": "transports/obfs4.obfs4ClientArgs"}
		got := map[string]bool{}
		badM := ""
		for _, s := range p.Stores(tO4, "iatMode") {
			fk := p.FuncKey(s.Fn)
			src, ok := want[fk]
			if !ok {
				badM = "obfs4Conn.iatMode is written in " + fk
				continue
			}
			if !isFieldLoad(unspill(s.Val), src, "iatMode") {
				badM = "the iatMode installed at " + p.InstrPos(s.Instr) + " is not " + src + ".iatMode"
				continue
			}
			got[fk] = true
		}
		for fk := range want {
			if !got[fk] && badM == "" {
				badM = fk + " creates the connection without setting iatMode: it runs in mode 0 whatever was configured"
			}
		}
		if badM != "" {
			ob.Violate("%s", badM)
		} else {
			ob.HoldNT("set in both constructors from their configuration")
		}
	}

	ob = c.Obl("R3", "transports/obfs4:(*obfs4Conn).readPackets#adopt-terms", "lenDist is reset with SeedFromBytes(payload) of the PRNG-seed packet and iatDist (when present) with SeedFromBytes(SHA-256(seed bytes)); a failed derivation resets nothing further")
	bad = ""
	terms := map[string]string{}
	for _, cs := range p.SitesOf(p.Func("common/probdist:(*WeightedDist).Reset")) {
		if cs.Caller != readPackets {
			continue
		}
		k, _, okf := fieldLoad(cs.Instr.Common().Args[0])
		if !okf || k.Type != tO4 {
			bad = "Reset on something that is not a distribution of the connection at " + p.InstrPos(cs.Instr)
			continue
		}
		t := p.newTermer()
		t.at = cs.Instr
		terms[k.Field] = t.Term(cs.Instr.Common().Args[1])
		// the seed call succeeded
		sc, _ := callOf(unspill(cs.Instr.Common().Args[1]))
		if sc == nil || !ff.SucceededCalls(cs.Instr.Block())[sc] {
			bad = "the seed used at " + p.InstrPos(cs.Instr) + " may come from a failed SeedFromBytes"
		}
	}
	wantLen := "SeedFromBytes(payload)"
	wantIat := "SeedFromBytes(sha256{SeedFromBytes(payload)})"
	gl := payloadNorm(terms["lenDist"])
	gi := payloadNorm(terms["iatDist"])
	if bad == "" && (gl != wantLen || gi != wantIat) {
		bad = fmt.Sprintf("lenDist.Reset(%s), iatDist.Reset(%s)", terms["lenDist"], terms["iatDist"])
	}
	if bad != "" {
		ob.Violate("%s", bad)
	} else {
		ob.HoldNT("lenDist.Reset(%s); iatDist.Reset(%s)", gl, gi)
	}

	// construction sites
	ob = c.Obl("R3", "transports/obfs4#construction-agreement", "client and server build lenDist as New(seed, 0, MaximumSegmentLength, biased) and iatDist as New(SeedFromBytes(SHA-256(seed)), 0, maxIATDelay, biased) with the same seed relation as the adoption path; the server sends the very seed (sf.lenSeed) its own lenDist is built from")
	bad = ""
	newFn := p.Func("common/probdist:New")
	type site struct{ seed, min, max, bias, where string }
	var lens, iats []site
	for _, cs := range p.SitesOf(newFn) {
		if relPkg(cs.Caller.Pkg.Pkg.Path()) != "transports/obfs4" {
			continue
		}
		t := p.newTermer()
		t.at = cs.Instr
		a := cs.Instr.Common().Args
		s := site{t.Term(a[0]), t.scalar(a[1]), t.scalar(a[2]), t.Term(a[3]), p.InstrPos(cs.Instr)}
		// which field does the result land in?
		dst := ""
		for _, fld := range []string{"lenDist", "iatDist"} {
			for _, st := range p.Stores(tO4, fld) {
				for _, o := range p.Origins(st.Val) {
					if o == ssa.Value(cs.Instr.(*ssa.Call)) {
						dst = fld
					}
				}
			}
		}
		switch dst {
		case "lenDist":
			lens = append(lens, s)
		case "iatDist":
			iats = append(iats, s)
		default:
			bad = "the distribution built at " + s.where + " is not stored in lenDist/iatDist"
		}
	}
	if len(lens) != 2 || len(iats) != 2 {
		bad = fmt.Sprintf("%d lenDist and %d iatDist construction sites", len(lens), len(iats))
	}
	for _, s := range lens {
		if s.min != "0" || s.max != "1448" || s.bias != lens[0].bias {
			bad = fmt.Sprintf("lenDist at %s is New(%s, %s, %s, %s)", s.where, s.seed, s.min, s.max, s.bias)
		}
	}
	for _, s := range iats {
		if s.min != "0" || s.max != "100" || s.bias != lens[0].bias {
			bad = fmt.Sprintf("iatDist at %s is New(%s, %s, %s, %s)", s.where, s.seed, s.min, s.max, s.bias)
		}
	}
	// seed relation at each site: iat seed = SeedFromBytes(sha256(<len seed>.Bytes()[:])[:])
	if bad == "" {
		pairs := 0
		for _, l := range lens {
			for _, i := range iats {
				if i.seed == "SeedFromBytes(sha256{"+l.seed+"})" {
					pairs++
				}
			}
		}
		// the server keeps both seeds in factory fields: resolve through the factory's stores
		sfLen, sfIat := "", ""
		for _, st := range p.Stores("transports/obfs4.obfs4ServerFactory", "lenSeed") {
			t := p.newTermer()
			t.at = st.Instr
			sfLen = t.Term(st.Val)
		}
		for _, st := range p.Stores("transports/obfs4.obfs4ServerFactory", "iatSeed") {
			t := p.newTermer()
			t.at = st.Instr
			sfIat = t.Term(st.Val)
		}
		want := "SeedFromBytes(sha256{" + sfLen + "})"
		if sfLen != "" && (sfIat == "phi(\"\"|"+want+")" || sfIat == "phi("+want+"|\"\")" || sfIat == want) {
			for _, l := range lens {
				for _, i := range iats {
					if l.seed == "<obfs4ServerFactory>.lenSeed" && i.seed == "<obfs4ServerFactory>.iatSeed" {
						pairs++
					}
				}
			}
		}
		if pairs != 2 {
			bad = fmt.Sprintf("IAT seed is not derived as SeedFromBytes(SHA-256(length seed)) at every site (client/server len seeds %q, iat seeds %q; factory lenSeed=%s iatSeed=%s)", []string{lens[0].seed, lens[1].seed}, []string{iats[0].seed, iats[1].seed}, sfLen, sfIat)
		}
	}
	// the server sends sf.lenSeed
	if bad == "" {
		sent := false
		for _, cs := range p.SitesOf(p.Func("transports/obfs4:(*obfs4Conn).makePacket")) {
			a := cs.Instr.Common().Args
			if k, ok := intConst(a[2]); ok && k == 1 { // packetTypePrngSeed
				t := p.newTermer()
				t.at = cs.Instr
				got := t.Term(a[3])
				okT := got == "<obfs4ServerFactory>.lenSeed"
				var pi int
				if n, _ := fmt.Sscanf(got, "$%d.lenSeed", &pi); n == 1 && got == fmt.Sprintf("$%d.lenSeed", pi) && pi < len(cs.Caller.Params) {
					okT = strings.HasSuffix(cs.Caller.Params[pi].Type().String(), "obfs4.obfs4ServerFactory")
				}
				if okT {
					sent = true
				} else {
					bad = "the PRNG-seed packet carries " + got
				}
			}
		}
		usesLenSeed := false
		for _, l := range lens {
			if l.seed == "<obfs4ServerFactory>.lenSeed" {
				usesLenSeed = true
			}
		}
		if bad == "" && (!sent || !usesLenSeed) {
			bad = fmt.Sprintf("server seed packet sent=%v, server lenDist from sf.lenSeed=%v", sent, usesLenSeed)
		}
	}
	if bad != "" {
		ob.Violate("%s", bad)
	} else {
		ob.HoldNT("2+2 construction sites agree; server sends sf.lenSeed")
	}
}

// payloadNorm replaces the term of the packet payload slice by "payload".
func payloadNorm(t string) string {
	i := strings.Index(t, "SeedFromBytes(")
	if i != 0 {
		return t
	}
	// innermost SeedFromBytes(<payload term>)
	j := strings.LastIndex(t, "SeedFromBytes(")
	depth, k := 0, j+len("SeedFromBytes(")
	start := k
	for ; k < len(t); k++ {
		if t[k] == '(' || t[k] == '[' {
			depth++
		}
		if t[k] == ')' || t[k] == ']' {
			if depth == 0 {
				break
			}
			depth--
		}
	}
	inner := t[start:k]
	if !strings.Contains(inner, "[3:") {
		return t
	}
	return strings.ReplaceAll(t, inner, "payload")
}

// c09Arith — R5.
func c09Arith(c *Ctx, p *Prog, makePacket, padBurst *ssa.Function, mpWrite ssa.CallInstruction, msl, hdr int64) {
	b := p.NewBounds()
	ob := c.Obl("R5", "transports/obfs4:(*obfs4Conn).makePacket#appends-exactly", "a successful makePacket appends exactly headerLength + len(data) + padLen bytes to w: the single w.Write argument has that length (frame.Encode returns len(payload)+FrameOverhead by secretbox.Seal's contract) and a short write is an error")
	bad := ""
	if mpWrite == nil {
		bad = "no write to w"
	} else {
		okp, why := b.Prove(makePacket, mpWrite, func(s *scope, pr *proof) []Cons {
			l, _ := s.lenLin(mpWrite.Common().Args[0], pr)
			d, _ := s.lenLin(makePacket.Params[3], pr)
			want := d.Add(s.lin(makePacket.Params[4], pr)).Add(linConst(hdr))
			return eq(l, want)
		})
		if !okp {
			bad = why
		}
		// short writes fail: every success return has NC !(wrLen < frameLen) or wrLen == frameLen
		ff := p.Facts(makePacket)
		for _, r := range ff.SuccessReturns() {
			if !ff.SucceededCalls(r.Block())[asCall(mpWrite)] {
				bad = "a success return of makePacket does not require the write to w to have succeeded"
			}
		}
	}
	if bad != "" {
		ob.Violate("%s", bad)
	} else {
		ob.HoldNT("len(frame[:frameLen]) == 21 + len(data) + padLen")
	}

	ob = c.Obl("R5", "transports/obfs4:(*obfs4Conn).padBurst#lands-on-target", "for every buffered tail length and every target: on each success path of padBurst, tail + appended - target is 0 or 1448 (the burst ends on the target modulo the segment size), or 1469 / 2917 (target plus one 21-byte header) and then only when the needed padding is at most one header")
	bad = ""
	// anchors: L = burst.Len() in the entry block, tail = L % MaximumSegmentLength
	var tail *ssa.BinOp
	allInstrs(padBurst, func(in ssa.Instruction) {
		bo, ok := in.(*ssa.BinOp)
		if !ok || bo.Op != token.REM {
			return
		}
		if k, ok := intConst(bo.Y); !ok || k != msl {
			return
		}
		if lc, _ := callOf(unspill(bo.X)); lc != nil && p.CalleeID(lc.Common()) == "(*bytes.Buffer).Len" && unspill(lc.Common().Args[0]) == ssa.Value(padBurst.Params[1]) {
			tail = bo
		}
	})
	if tail == nil {
		ob.Undecide("padBurst does not compute burst.Len() %% MaximumSegmentLength")
		return
	}
	target := padBurst.Params[2]
	paths := successPaths(p, padBurst, 256)
	if len(paths) == 0 {
		ob.Undecide("no success path through padBurst (or too many)")
		return
	}
	np := 0
	for _, path := range paths {
		// makePacket calls on the path writing to burst
		var calls []*ssa.Call
		stray := false
		for _, blk := range path {
			for _, in := range blk.Instrs {
				call, ok := in.(*ssa.Call)
				if !ok {
					continue
				}
				if call.Common().StaticCallee() == makePacket {
					calls = append(calls, call)
					continue
				}
				// any other call that receives the buffer (except Len) would change it
				for _, a := range call.Common().Args {
					if unspill(a) == ssa.Value(padBurst.Params[1]) && p.CalleeID(call.Common()) != "(*bytes.Buffer).Len" {
						stray = true
					}
				}
			}
		}
		if stray {
			bad = "padBurst changes the burst buffer other than through makePacket"
			break
		}
		// tail computed before the first makePacket
		for _, mc := range calls {
			if !instrDominates(tail, mc) {
				bad = "the tail length is computed after a frame was appended"
			}
		}
		np++
		path := path
		hypPath := func(s *scope, pr *proof) Lin {
			for i := 0; i+1 < len(path); i++ {
				if ef, ok := edgeFact(path[i], path[i+1]); ok {
					s.factCons(pr, ef)
				}
				for _, in := range path[i+1].Instrs {
					phi, ok := in.(*ssa.Phi)
					if !ok {
						break
					}
					if !isIntType(phi.Type()) {
						continue
					}
					for pi, pred := range path[i+1].Preds {
						if pred == path[i] {
							pr.add(eq(s.lin(phi, pr), s.lin(phi.Edges[pi], pr))...)
						}
					}
				}
			}
			added := linConst(0)
			for _, mc := range calls {
				a := mc.Common().Args
				d, _ := s.lenLin(a[3], pr)
				added = added.Add(d).Add(s.lin(a[4], pr)).Add(linConst(hdr))
			}
			// D = tail + added - target
			return s.lin(tail, pr).Add(added).Sub(s.lin(target, pr))
		}
		notIn := func(D Lin, set []int64) [][]Cons {
			sort.Slice(set, func(i, j int) bool { return set[i] < set[j] })
			var cases [][]Cons
			cases = append(cases, []Cons{leC(D, set[0]-1)})
			for i := 0; i+1 < len(set); i++ {
				if set[i]+1 <= set[i+1]-1 {
					cases = append(cases, []Cons{geC(D, set[i]+1), leC(D, set[i+1]-1)})
				}
			}
			cases = append(cases, []Cons{geC(D, set[len(set)-1]+1)})
			return cases
		}
		full := []int64{0, msl, msl + hdr, 2*msl + hdr}
		ok1, why1 := b.RefuteWith(padBurst, padBurst.Blocks[0], func(s *scope, pr *proof) {
			D := hypPath(s, pr)
			pr.addSplit("c09:notin", notIn(D, full))
		})
		if !ok1 {
			bad = fmt.Sprintf("on the success path %s (%d frames) the burst does not end on the target or the target plus a header: tail+appended-target is not confined to %v (%s)", pathString(path), len(calls), full, why1)
			break
		}
		// overshoot only when needed padding <= header: needed = target - tail (+1448 if negative)
		ok2, why2 := b.RefuteWith(padBurst, padBurst.Blocks[0], func(s *scope, pr *proof) {
			D := hypPath(s, pr)
			pr.addSplit("c09:notin", notIn(D, []int64{0, msl}))
			need := s.lin(target, pr).Sub(s.lin(tail, pr))
			pr.addSplit("c09:need", [][]Cons{
				{geC(need, hdr+1)},
				{leC(need, -1), geC(need.Add(linConst(msl)), hdr+1)},
			})
		})
		if !ok2 {
			bad = fmt.Sprintf("on the success path %s the burst overshoots the target although more than a header of padding was needed (%s)", pathString(path), why2)
			break
		}
		// and a burst that needs padding gets it: needed > 0 ⇒ at least one frame (D != tail-target unless need == 0) is implied by D ∈ set.
	}
	if np < 3 && bad == "" {
		bad = fmt.Sprintf("only %d success paths", np)
	}
	if bad != "" {
		ob.Violate("%s", bad)
	} else {
		ob.HoldNT("%d success paths; each confined to {0,1448} or, with needed padding <= 21, {1469,2917}", np)
	}
}

func asCall(ci ssa.CallInstruction) *ssa.Call {
	c, _ := ci.(*ssa.Call)
	return c
}

func pathString(path []*ssa.BasicBlock) string {
	var s []string
	for _, b := range path {
		s = append(s, fmt.Sprint(b.Index))
	}
	return "blocks " + strings.Join(s, ">")
}

// successPaths enumerates the acyclic entry→return paths of a loop-free
// function whose return value may be a nil error.
func successPaths(p *Prog, fn *ssa.Function, max int) [][]*ssa.BasicBlock {
	var out [][]*ssa.BasicBlock
	over := false
	var walk func(path []*ssa.BasicBlock, on map[*ssa.BasicBlock]bool)
	walk = func(path []*ssa.BasicBlock, on map[*ssa.BasicBlock]bool) {
		if over {
			return
		}
		blk := path[len(path)-1]
		if r, ok := blk.Instrs[len(blk.Instrs)-1].(*ssa.Return); ok {
			res := r.Results[len(r.Results)-1]
			// skip paths that return an error proved non-nil on this path
			nonNil := false
			for i := 0; i+1 < len(path); i++ {
				if ef, ok := edgeFact(path[i], path[i+1]); ok {
					if x, isNil, ok := FactNilCmp(ef); ok && !isNil && unspill(x) == unspill(res) {
						nonNil = true
					}
				}
			}
			if !nonNil {
				out = append(out, append([]*ssa.BasicBlock(nil), path...))
				if len(out) > max {
					over = true
				}
			}
			return
		}
		for _, s := range blk.Succs {
			if on[s] {
				over = true // loop
				return
			}
			on[s] = true
			walk(append(path, s), on)
			delete(on, s)
		}
	}
	if len(fn.Blocks) == 0 {
		return nil
	}
	walk([]*ssa.BasicBlock{fn.Blocks[0]}, map[*ssa.BasicBlock]bool{fn.Blocks[0]: true})
	if over {
		return nil
	}
	return out
}

// ConnWritesIn: interface Write calls in fn on a value of static type net.Conn.
func (p *Prog) ConnWritesIn(fn *ssa.Function) []ssa.CallInstruction {
	var out []ssa.CallInstruction
	allInstrs(fn, func(in ssa.Instruction) {
		call, ok := in.(ssa.CallInstruction)
		if ok && rawConnInvoke(call) && call.Common().Method.Name() == "Write" {
			out = append(out, call)
		}
	})
	return out
}

func (p *Prog) lookupObj(rel, name string) types.Object {
	sp := p.SPkgs[rel]
	if sp == nil {
		return nil
	}
	return sp.Pkg.Scope().Lookup(name)
}

// isLoopExitFact: f is the exit condition of a loop header in fn.
func isLoopExitFact(fn *ssa.Function, f Fact) bool {
	for _, blk := range fn.Blocks {
		i := blockIf(blk)
		if i == nil {
			continue
		}
		if c, _ := stripNot(i.Cond, true); c != f.Cond {
			continue
		}
		for _, pr := range blk.Preds {
			if blk.Dominates(pr) {
				return true
			}
		}
	}
	return false
}

// lastMutatorOnEdge: walking backwards from the end of blk along
// single-predecessor chains, the last call that receives buf other than Len.
func lastMutatorOnEdge(p *Prog, blk *ssa.BasicBlock, buf ssa.Value) *ssa.Call {
	for steps := 0; blk != nil && steps < 16; steps++ {
		for i := len(blk.Instrs) - 1; i >= 0; i-- {
			call, ok := blk.Instrs[i].(*ssa.Call)
			if !ok {
				continue
			}
			uses := false
			for _, a := range call.Common().Args {
				if unspill(a) == buf {
					uses = true
				}
				if mi, ok := unspill(a).(*ssa.MakeInterface); ok && unspill(mi.X) == buf {
					uses = true
				}
			}
			if uses && p.CalleeID(call.Common()) != "(*bytes.Buffer).Len" {
				return call
			}
		}
		if len(blk.Preds) != 1 {
			return nil
		}
		blk = blk.Preds[0]
	}
	return nil
}

// blockReachesBlock: b is reachable from a along CFG edges (a != b required to take at least one edge).
func blockReachesBlock(a, b *ssa.BasicBlock) bool {
	seen := map[*ssa.BasicBlock]bool{}
	work := append([]*ssa.BasicBlock(nil), a.Succs...)
	for len(work) > 0 {
		x := work[len(work)-1]
		work = work[:len(work)-1]
		if x == b {
			return true
		}
		if seen[x] {
			continue
		}
		seen[x] = true
		work = append(work, x.Succs...)
	}
	return false
}
