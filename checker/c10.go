package main

// C10 — no peer input or network fault can crash, wedge or bloat an endpoint
// (DESIGN 4, C10).

import (
	"fmt"
	"go/token"
	"go/types"
	"sort"
	"strings"

	"golang.org/x/tools/go/ssa"
)

func init() {
	register(&PropInfo{
		ID: "C10", Level: "other", MinObls: 150,
		Explanation: "Static rules over every function reachable from the network entry points (Dial, WrapConn, conn Read/Write/Close, socks5.Handshake/Reply; discovered through the interfaces): " +
			"R1 handshake-deadline typestate at every arming site (8 scopes): SetDeadline(time.Now().Add(c>0)) exactly once, not in a loop, dominating and guarding all handshake I/O, removed on every success path, no handshake read after removal; " +
			"R2 every loop that reads the raw connection and accumulates can only iterate again while the accumulated size is provably below a constant (directly, or at every return of the 'need more data' sentinel of the parser it calls); R3 every iteration of such a loop performs the blocking read (no spinning); " +
			"R4 every slice, index and make expression in network-facing code is within bounds on every path, and R5 every explicit panic is unreachable — both discharged by the relational bounds engine (dominating branch facts + SSA definitions + library contracts + callee summaries + call-site contexts, Fourier-Motzkin entailment), with a short table of named exclusions; " +
			"R6 sends on channels that another goroutine closes sit under a deferred recover, closes happen once (sync.Once or single worker exit); R7 every raw Read's buffer is only used as buf[:n] with that read's count.",
		NotCovered: []string{"liveness in general and memory bounds of the data phase (need loop invariants)", "nil dereferences (nilaway cross-reference found none relevant)", "behaviour of dependencies beyond the contract table", "integer overflow of sums of bounded quantities", "the excluded obligations listed under 'excluded'"},
		Trusted:    []string{"go/types+go/ssa faithful", "library contracts of checker/contracts.go (io.Reader n<=len(p), io.ReadFull, bytes.Buffer, bytes.Index, rand.Intn, secretbox lengths, hash sizes)", "net.Conn implementations honour deadlines"},
		Run:        runC10,
	})
}

// networkFuncs: module functions reachable from the network entry points.
func networkFuncs(p *Prog) (map[*ssa.Function]bool, []string) {
	var roots []*ssa.Function
	var names []string
	if cf := p.ifaceOf("transports/base", "ClientFactory"); cf != nil {
		roots = append(roots, p.Implementers(cf, "Dial")...)
	}
	if sf := p.ifaceOf("transports/base", "ServerFactory"); sf != nil {
		roots = append(roots, p.Implementers(sf, "WrapConn")...)
	}
	if nc := p.stdIface("net", "Conn"); nc != nil {
		for _, m := range []string{"Read", "Write", "Close"} {
			roots = append(roots, p.Implementers(nc, m)...)
		}
	}
	for _, k := range []string{"common/socks5:Handshake", "common/socks5:(*Request).Reply"} {
		if fn := p.Func(k); fn != nil {
			roots = append(roots, fn)
		}
	}
	for _, r := range roots {
		names = append(names, p.FuncKey(r))
	}
	sort.Strings(names)
	return p.ReachableSkip(rawConnInvoke, roots...), names
}

// describeVal gives a position-free description of an operand.
func describeVal(p *Prog, v ssa.Value) string {
	if v == nil {
		return ""
	}
	v = unspill(v)
	if c, ok := intConst(v); ok {
		return fmt.Sprint(c)
	}
	if k, _, ok := fieldLoad(v); ok {
		return k.Type + "." + k.Field
	}
	switch x := v.(type) {
	case *ssa.Parameter:
		return "param:" + x.Name()
	case *ssa.Alloc:
		if x.Comment != "" {
			return "local:" + x.Comment
		}
		return "local"
	case *ssa.Slice:
		return describeVal(p, x.X) + "[:]"
	case *ssa.Phi:
		if x.Comment != "" {
			return "var:" + x.Comment
		}
		return "phi"
	case *ssa.Convert:
		return describeVal(p, x.X)
	case *ssa.BinOp:
		return "(" + describeVal(p, x.X) + x.Op.String() + describeVal(p, x.Y) + ")"
	case *ssa.FieldAddr:
		if k, ok := fieldKeyOf(x.X.Type(), x.Field); ok {
			return "&" + k.Type + "." + k.Field
		}
	case *ssa.Global:
		return x.Name()
	}
	if c, idx := callOf(v); c != nil {
		if idx >= 0 {
			return fmt.Sprintf("%s#%d", p.CalleeID(c.Common()), idx)
		}
		return p.CalleeID(c.Common())
	}
	return "val"
}

func boundDescriptor(p *Prog, o BoundObl) string {
	switch x := o.Instr.(type) {
	case *ssa.Slice:
		return fmt.Sprintf("slice %s[%s:%s]", describeVal(p, x.X), describeVal(p, x.Low), describeVal(p, x.High))
	case *ssa.IndexAddr:
		return fmt.Sprintf("index %s[%s]", describeVal(p, x.X), describeVal(p, x.Index))
	case *ssa.Index:
		return fmt.Sprintf("index %s[%s]", describeVal(p, x.X), describeVal(p, x.Index))
	case *ssa.MakeSlice:
		return fmt.Sprintf("make(%s)", describeVal(p, x.Len))
	case *ssa.Call:
		d := "requires " + p.CalleeID(x.Common()) + "("
		for i, a := range x.Common().Args {
			if i > 0 {
				d += ","
			}
			d += describeVal(p, a)
		}
		return d + ")"
	case *ssa.Panic:
		msg := "panic"
		v := x.X
		if mi, ok := v.(*ssa.MakeInterface); ok {
			v = mi.X
		}
		if s, ok := constString(v); ok {
			msg = "panic(" + s + ")"
		} else if c, _ := callOf(v); c != nil {
			// fmt.Sprintf("literal...", ...)
			if len(c.Common().Args) > 0 {
				if s, ok := constString(c.Common().Args[0]); ok {
					msg = "panic(" + s + ")"
				}
			}
			if msg == "panic" {
				msg = "panic(" + p.CalleeID(c.Common()) + ")"
			}
		} else if b, ok := v.(*ssa.BinOp); ok {
			if s, ok := constString(b.X); ok {
				msg = "panic(" + s + "...)"
			}
		}
		return msg
	}
	return o.Desc
}

type boundExclusion struct {
	Func   string // function key ("*" suffix = prefix match)
	Match  string // substring of the descriptor, "" = any
	Reason string
}

// boundExclusions: obligations the engine cannot decide because they need a
// relational heap invariant, or that guard environmental (not peer
// controlled) failures.  One line of reason each; all are printed in the
// evidence under "excluded".
var boundExclusions = []boundExclusion{
	{"common/probdist:(*WeightedDist).Sample", "index", "prob/alias/values are sibling slices of equal length by construction (relational heap invariant across fields); C12.R2 decides the provenance of the result"},
	{"common/probdist:(*WeightedDist).gen*", "", "table construction indexes sibling slices of equal length n created in the same function; seeded, not peer-controlled, sizes <= 100 (C12.R4)"},
	{"common/probdist:(*WeightedDist).String", "", "debug dump, not on a network path"},
	{"common/csrand:(csRandSource).Int63", "panic", "deliberate fatal on CSPRNG failure (environmental, not peer-controlled)"},
	{"common/ntor:Kdf", "panic", "HKDF read fails only beyond 255*32 bytes; the module requests the constant 144 (C06.R2)"},
	{"internal/x25519ell2:*", "panic", "deserialisation of fixed 32-byte values cannot fail; guards are library-invariant assertions"},
	{"common/uniformdh:init$1", "panic", "package initialisation of a constant"},
	{"transports/meeklite:(*meekConn).Read", "panic(empty read buffer)", "needs the heap invariant rdBuf != nil => rdBuf.Len() > 0, which is decided separately by C10.R5/C16.R7 rdBuf#nil-or-nonempty"},
	{"transports/scramblesuit:(*ssConn).readPackets", "slice transports/scramblesuit.ssRxState", "data[:payloadLen] needs payloadLen <= totalLen, a relational invariant between two struct fields that is checked when they are stored"},
	{"transports/scramblesuit:(*ssConn).readPackets", "[:transports/scramblesuit.ssRxState.payloadLen]", "data[:payloadLen] needs payloadLen <= totalLen, a relational invariant between two struct fields that is checked when they are stored"},
	{"transports/obfs4:(*obfs4ServerCert).unpack", "panic", "cert.raw temporarily holds the 20-byte node id during construction (flow-sensitive heap fact); both finished certificates are 52 bytes (C06.R8/C18.R4)"},
}

func excludedBound(fk, desc string) (string, bool) {
	for _, e := range boundExclusions {
		okF := e.Func == fk
		if strings.HasSuffix(e.Func, "*") && strings.HasPrefix(fk, strings.TrimSuffix(e.Func, "*")) {
			okF = true
		}
		if okF && (e.Match == "" || strings.Contains(desc, e.Match)) {
			return e.Reason, true
		}
	}
	return "", false
}

// boundsRule evaluates R4/R5 over the given functions; pkgFilter restricts to
// module-relative package prefixes ("" = all).
func boundsRule(c *Ctx, fns map[*ssa.Function]bool, ruleSlice, rulePanic string, pkgFilter []string) (nProved int) {
	p := c.P
	b := p.NewBounds()
	var keys []*ssa.Function
	for fn := range fns {
		if !p.inModule(fn) {
			continue
		}
		rel := relPkg(fn.Pkg.Pkg.Path())
		ok := len(pkgFilter) == 0
		for _, pf := range pkgFilter {
			if strings.HasPrefix(rel, pf) {
				ok = true
			}
		}
		if ok {
			keys = append(keys, fn)
		}
	}
	sort.Slice(keys, func(i, j int) bool { return p.FuncKey(keys[i]) < p.FuncKey(keys[j]) })
	cnt := map[string]int{}
	for _, fn := range keys {
		fk := p.FuncKey(fn)
		c.Touch(fk)
		for _, o := range b.CheckFunc(fn) {
			if o.Kind == "panic" && !o.Instr.Pos().IsValid() {
				if pn, ok := o.Instr.(*ssa.Panic); !ok || !pn.X.Pos().IsValid() {
					continue // synthetic (blocking select fall-through)
				}
			}
			desc := boundDescriptor(p, o)
			rule := ruleSlice
			text := "the " + o.Kind + " expression is within bounds on every path: 0 <= low <= high <= len (len, not cap: bytes between len and cap were never received)"
			if o.Kind == "panic" {
				rule = rulePanic
				text = "the explicit panic is unreachable: the facts that dominate it are contradictory (locally, or in the context of every call site)"
			}
			if o.Kind == "make" {
				text = "the allocation size is non-negative and at most 1 MiB on every path"
			}
			if o.Kind == "requires" {
				text = "the precondition of the library call holds on every path (" + o.Desc + "): otherwise it panics"
			}
			k := fk + "#" + desc
			cnt[k]++
			if cnt[k] > 1 {
				k += fmt.Sprintf("#%d", cnt[k])
			}
			if reason, ex := excludedBound(fk, desc); ex {
				if !o.OK {
					c.Exclude(k + " — " + reason)
					continue
				}
			}
			ob := c.Obl(rule, k, text).At(p.InstrPos(o.Instr))
			if o.OK {
				ob.HoldNT("%s", o.Why)
				nProved++
			} else {
				ob.Violate("%s", o.Why)
			}
		}
	}
	for a := range b.Assumed {
		c.Assume(a)
	}
	return
}

func runC10(c *Ctx) {
	if !importing {
		// obfs3's hand-over from the handshake buffer to the connection (C13.R4): a reader left on a nil
		// or exhausted buffer crashes or ends the stream
		importObls(c, "C13", runC13, "X13", func(k string) bool { return containsAny(k, "(*obfs3Conn).Read#handover") })
	}
	// "spin without consuming input": the obfs4 data phase skips its blocking read under the
	// handshake-leftover flag; that this flag is cleared whenever the read is skipped is decided by
	// C01's remainder rules, which are part of this property too (imported as RS5/RS6)
	defer func() {
		sub := NewCtx(c.P, c.Prop, c.Tier)
		c01Remainder(sub, c.P)
		for _, o := range sub.Obls {
			o.Key = strings.Replace(o.Key, c.Prop+".R", c.Prop+".RS", 1)
			c.Obls = append(c.Obls, o)
		}
		for k := range sub.fnSeen {
			c.fnSeen[k] = true
		}
	}()
	p := c.P
	// a panic under a schedule: the writer samples the length/delay distributions while the reader
	// re-seeds them on a peer-sent seed packet — Reset and Sample must each be one critical section
	// (C12's lock rule, imported as R9)
	if reset, sample := p.Func("common/probdist:(*WeightedDist).Reset"), p.Func("common/probdist:(*WeightedDist).Sample"); reset != nil && sample != nil {
		reach := map[*ssa.Function]bool{}
		for fn := range p.Reachable(reset) {
			if p.inModule(fn) && relPkg(fn.Pkg.Pkg.Path()) == "common/probdist" {
				reach[fn] = true
			}
		}
		c12Locks(c, p, "R9", reset, sample, reach)
	}
	cio := newConnIO(p)
	net, roots := networkFuncs(p)
	o := c.Obl("R0", "entry-points", "anti-vacuity: the transports' factories and conn types are discovered through base.ClientFactory/ServerFactory and net.Conn")
	nd, nw, nr := 0, 0, 0
	for _, r := range roots {
		switch {
		case strings.HasSuffix(r, ".Dial"):
			nd++
		case strings.HasSuffix(r, ".WrapConn"):
			nw++
		case strings.HasSuffix(r, ".Read"):
			nr++
		}
	}
	if nd < 5 || nw < 3 || nr < 5 {
		o.Undecide("found %d Dial, %d WrapConn, %d conn Read implementations; expected >=5, >=3, >=5", nd, nw, nr)
		return
	}
	o.Hold("%d Dial, %d WrapConn, %d conn Read; %d reachable module functions", nd, nw, nr, len(net))

	// ---- R1 deadline typestate
	scopes := deadlineScopes(p, cio)
	o = c.Obl("R1", "scopes", "anti-vacuity: every transport handshake and the SOCKS5 front end arm a deadline (8 scopes on the reference tree)")
	if len(scopes) < 8 {
		o.Violate("only %d functions arm a handshake deadline, expected at least 8: a handshake runs without a deadline", len(scopes))
	} else {
		o.Hold("%d scopes", len(scopes))
	}
	for _, s := range scopes {
		deadlineArmRule(c, "R1", s, cio, 0)
	}
	// every handshake routine that reads the raw connection runs inside an armed scope
	c10Unarmed(c, p, cio, scopes)

	// ---- R2/R3 accumulating read loops
	c10Loops(c, p, cio, net)
	noRetryOnTemporary(c, p, cio, "R3")
	nilableLibraryFields(c, p, "R4")
	lockPairing(c, p, "R9")

	// ---- R4/R5 bounds and panics
	n := boundsRule(c, net, "R4", "R5", nil)
	// the one assertion excluded from the bounds rule for needing a heap invariant: decided structurally
	meekRdBufInvariant(c, p, "R5")
	meekResponseRules(c, p, "R3")
	o = c.Obl("R4", "count", "anti-vacuity: the bounds engine discharged at least the obligations confirmed on the reference tree")
	if n < 100 {
		o.Undecide("only %d bounds obligations discharged", n)
	} else {
		o.Hold("%d discharged", n)
	}

	// ---- R6 closable channels
	c10Channels(c, p)

	// ---- R7 short-read discipline
	shortReadRule(c, "R7", p, cio, net, false)

	// ---- R8 read faults are fatal
	faultRule(c, "R8", p, cio, net)
}

// temporaryErrors is the frozen table of package-level errors that mean "need
// more data, try again" (confirmed by reading the three producers); every
// other error is fatal.  A loop that retries on anything else is reported.
var temporaryErrors = map[string]string{
	"transports/obfs4/framing.ErrAgain":          "Decoder.Decode: the frame buffer does not hold a complete frame yet",
	"transports/obfs4.ErrMarkNotFoundYet":        "obfs4 handshake parsers: mark/MAC not received yet, input still below the maximum handshake length",
	"transports/scramblesuit.errMarkNotFoundYet": "ScrambleSuit response parser: mark/MAC not received yet",
}

func globalKey(g *ssa.Global) string {
	if g.Pkg == nil {
		return g.Name()
	}
	return relPkg(g.Pkg.Pkg.Path()) + "." + g.Name()
}

// retrySentinels: the temporary errors of the table above that exist in the
// program.
func retrySentinels(p *Prog) map[*ssa.Global]bool {
	out := map[*ssa.Global]bool{}
	for _, sp := range p.SPkgs {
		for _, m := range sp.Members {
			if g, ok := m.(*ssa.Global); ok {
				if _, ok := temporaryErrors[globalKey(g)]; ok {
					out[g] = true
				}
			}
		}
	}
	return out
}

// retriedErrors: package-level errors that some loop actually retries on
// (errors.Is(err, S) whose true branch leads back into the loop).
func retriedErrors(p *Prog) map[*ssa.Global]ssa.Instruction {
	out := map[*ssa.Global]ssa.Instruction{}
	for _, cs := range p.Sites("errors.Is") {
		call, ok := cs.Instr.(*ssa.Call)
		if !ok {
			continue
		}
		g, ok := sentinelGlobal(unspill(call.Common().Args[1]))
		if !ok {
			continue
		}
		blk := call.Block()
		i := blockIf(blk)
		if i == nil {
			continue
		}
		cond, pol := stripNot(i.Cond, true)
		if cond != ssa.Value(call) {
			continue
		}
		t := blk.Succs[0]
		if !pol {
			t = blk.Succs[1]
		}
		if reachableFrom(t, nil)[blk] {
			out[g] = call
		}
	}
	return out
}

// carries: x is e, or a non-loop phi whose edges are e and nil constants (the
// variable that holds the read's error when the read was executed).
func carries(x, e ssa.Value) bool {
	if x == e {
		return true
	}
	ph, ok := x.(*ssa.Phi)
	if !ok {
		return false
	}
	has := false
	for i, ed := range ph.Edges {
		if isBackEdge(ph.Block().Preds[i], ph.Block()) {
			return false
		}
		switch {
		case unspill(ed) == e:
			has = true
		case isNilConst(ed):
		default:
			return false
		}
	}
	return has
}

// faultRule: when a raw Read reports an error, the enclosing function returns
// a fatal error: on every return reachable from the read, either the read is
// known to have succeeded, or the value returned is the read's error itself,
// or it is provably non-nil and not a retry sentinel.  (Replacing a read
// error by "need more data" makes the caller spin on a dead connection.)
func faultRule(c *Ctx, rule string, p *Prog, cio *connIO, fns map[*ssa.Function]bool, minReads ...int) {
	min := 6
	if len(minReads) > 0 {
		min = minReads[0]
	}
	sent := retrySentinels(p)
	var keys []*ssa.Function
	for fn := range fns {
		if p.inModule(fn) {
			keys = append(keys, fn)
		}
	}
	sort.Slice(keys, func(i, j int) bool { return p.FuncKey(keys[i]) < p.FuncKey(keys[j]) })
	n := 0
	for _, fn := range keys {
		ei := errResultIndex(fn)
		if ei < 0 {
			continue
		}
		ff := p.Facts(fn)
		k := 0
		allInstrs(fn, func(in ssa.Instruction) {
			rd, ok := in.(*ssa.Call)
			if !ok || !rd.Common().IsInvoke() || rd.Common().Method.Name() != "Read" || !cio.mayBeConn(rd.Common().Value) || len(rd.Common().Args) != 1 {
				return
			}
			if _, isPar := unspill(rd.Common().Args[0]).(*ssa.Parameter); isPar {
				return
			}
			var e ssa.Value
			for _, r := range *rd.Referrers() {
				if ex, ok := r.(*ssa.Extract); ok && ex.Index == 1 {
					e = ex
				}
			}
			k++
			n++
			ob := c.Obl(rule, fmt.Sprintf("%s#Read#%d", p.FuncKey(fn), k), "when a raw Read fails, every return reachable from it reports a fatal error: the read's own error, or a non-nil error that no loop retries on (never nil, never a 'need more data' sentinel)").At(p.InstrPos(rd))
			if e == nil {
				ob.Violate("the error returned by Read is discarded")
				return
			}
			bad := ""
			// judge the value v that leaves the function at `where`, given the facts known there
			var judge func(v ssa.Value, blk *ssa.BasicBlock, fs []Fact, where string, depth int)
			judge = func(v ssa.Value, blk *ssa.BasicBlock, fs []Fact, where string, depth int) {
				if hasFact(fs, func(f Fact) bool { x, isNil, ok := FactNilCmp(f); return ok && isNil && carries(unspill(x), e) }) {
					return // the read is known to have succeeded on this path
				}
				v = unspill(v)
				if carries(v, e) {
					return
				}
				if g, ok := sentinelGlobal(v); ok && sent[g] {
					bad = fmt.Sprintf("return at %s reports the retry sentinel %s although the read may have failed", where, g.Name())
					return
				}
				// a value merged from several exits (e.g. of an inlined helper): judge each incoming
				// edge that can be reached after the read, with what is known on that edge
				if ph, ok := v.(*ssa.Phi); ok && depth < 4 {
					nonNilKnown := hasFact(fs, func(f Fact) bool {
						x, isNil, ok := FactNilCmp(f)
						return ok && !isNil && (x == ssa.Value(ph) || unspill(x) == v)
					})
					for i, ed := range ph.Edges {
						pred := ph.Block().Preds[i]
						if len(pred.Instrs) == 0 || ff.EdgeInfeasible(pred, ph.Block()) {
							continue
						}
						if unspill(ed) == ssa.Value(ph) {
							continue // carried round a loop unchanged: nothing new enters here
						}
						if nonNilKnown {
							// the merged value is known non-nil here: nil-carrying edges are not the
							// ones taken, the others are non-nil; only a retry sentinel could be wrong
							if ff.edgeNilState(ph, i) == 1 {
								continue
							}
							if g, ok := sentinelGlobal(unspill(ed)); ok && sent[g] {
								bad = fmt.Sprintf("return at %s may report the retry sentinel %s although the read failed", where, g.Name())
							}
							if _, isPhi := unspill(ed).(*ssa.Phi); !isPhi {
								continue
							}
						}
						last := pred.Instrs[len(pred.Instrs)-1]
						if pred != rd.Block() && !canReachWithout(rd, last, nil) {
							continue
						}
						efs := append([]Fact{}, ff.NC(pred)...)
						if ef, ok := edgeFact(pred, ph.Block()); ok {
							efs = append(efs, ef)
						}
						judge(ed, pred, efs, where, depth+1)
					}
					return
				}
				if ff.ProvablyNonNil(v, blk, 0) {
					return
				}
				for _, f := range fs {
					if x, isNil, ok := FactNilCmp(f); ok && !isNil && unspill(x) == v {
						return
					}
				}
				bad = fmt.Sprintf("return at %s is reachable after a failed read and returns a value that may be nil or a retry sentinel instead of the read error", where)
			}
			for _, r := range returnsOf(fn) {
				if !canReachWithout(rd, r, nil) {
					continue
				}
				judge(r.Results[ei], r.Block(), ff.NC(r.Block()), p.InstrPos(r), 0)
			}
			if bad != "" {
				ob.Violate("%s", bad)
			} else {
				ob.HoldNT("every return after the read either knows err==nil, returns the read error, or returns a non-nil non-sentinel error")
			}
		})
	}
	o := c.Obl(rule, "count", "anti-vacuity: the raw reads of the transports are found")
	if n < min {
		o.Undecide("found %d raw reads, expected at least %d", n, min)
	} else {
		o.Hold("%d raw reads; retry sentinels: %d", n, len(sent))
	}
}

// c10Unarmed: a factory entry point (Dial/WrapConn) whose reachable code reads
// the raw connection must pass through a deadline scope before the read.
func c10Unarmed(c *Ctx, p *Prog, cio *connIO, scopes []*ssa.Function) {
	inScope := map[*ssa.Function]bool{}
	for _, s := range scopes {
		inScope[s] = true
	}
	var entries []*ssa.Function
	if cf := p.ifaceOf("transports/base", "ClientFactory"); cf != nil {
		entries = append(entries, p.Implementers(cf, "Dial")...)
	}
	if sf := p.ifaceOf("transports/base", "ServerFactory"); sf != nil {
		entries = append(entries, p.Implementers(sf, "WrapConn")...)
	}
	if fn := p.Func("common/socks5:Handshake"); fn != nil {
		entries = append(entries, fn)
	}
	for _, e := range entries {
		r, _ := cio.ioSummary(e)
		if !r {
			continue // e.g. meek_lite: no handshake on a raw connection
		}
		ob := c.Obl("R1", p.FuncKey(e)+"#runs-under-deadline", "every factory entry point that reads from the raw connection does so inside a scope that armed the handshake deadline")
		// walk the static call graph from e, not descending into scopes; any read found is unarmed
		seen := map[*ssa.Function]bool{}
		bad := ""
		var walk func(fn *ssa.Function)
		walk = func(fn *ssa.Function) {
			if seen[fn] || inScope[fn] || !p.inModule(fn) {
				return
			}
			seen[fn] = true
			allInstrs(fn, func(in ssa.Instruction) {
				call, ok := in.(ssa.CallInstruction)
				if !ok {
					return
				}
				if cio.ioKind(call) == "read" && !readUnderDeadline(p, cio, call) {
					bad = p.InstrPos(call)
				}
				if rawConnInvoke(call) {
					return
				}
				for _, cal := range p.Callees(call) {
					walk(cal)
				}
			})
		}
		walk(e)
		if bad != "" {
			ob.Violate("read of the raw connection at %s is reachable from %s without passing a function that arms a deadline", bad, p.FuncKey(e))
		} else {
			ob.HoldNT("all reads are inside armed scopes")
		}
	}
}

// readUnderDeadline: the read is dominated, in its own function, by a
// successful Set(Read)Deadline with a non-zero time on a raw connection (the
// delayed closer's discard copy).
func readUnderDeadline(p *Prog, cio *connIO, rd ssa.CallInstruction) bool {
	fn := rd.Parent()
	ff := p.Facts(fn)
	ok := false
	allInstrs(fn, func(in ssa.Instruction) {
		call, isCall := in.(*ssa.Call)
		if !isCall || !call.Common().IsInvoke() {
			return
		}
		m := call.Common().Method.Name()
		if (m != "SetReadDeadline" && m != "SetDeadline") || !cio.mayBeConn(call.Common().Value) || isZeroTime(call.Common().Args[0]) {
			return
		}
		if instrDominates(call, rd) && hasFact(ff.NC(rd.Block()), func(f Fact) bool { return FactErrNilOfCall(f, call) }) {
			ok = true
		}
	})
	return ok
}

// loopOf returns the blocks of the natural loop of back edge pred→head.
func naturalLoop(pred, head *ssa.BasicBlock) map[*ssa.BasicBlock]bool {
	loop := map[*ssa.BasicBlock]bool{head: true}
	var stack []*ssa.BasicBlock
	if !loop[pred] {
		loop[pred] = true
		stack = append(stack, pred)
	}
	for len(stack) > 0 {
		b := stack[len(stack)-1]
		stack = stack[:len(stack)-1]
		for _, q := range b.Preds {
			if !loop[q] {
				loop[q] = true
				stack = append(stack, q)
			}
		}
	}
	return loop
}

func c10Loops(c *Ctx, p *Prog, cio *connIO, net map[*ssa.Function]bool) {
	b := p.NewBounds()
	n := 0
	var keys []*ssa.Function
	for fn := range net {
		if p.inModule(fn) {
			keys = append(keys, fn)
		}
	}
	sort.Slice(keys, func(i, j int) bool { return p.FuncKey(keys[i]) < p.FuncKey(keys[j]) })
	for _, fn := range keys {
		fk := p.FuncKey(fn)
		ff := p.Facts(fn)
		// raw reads directly in fn
		var reads []ssa.CallInstruction
		allInstrs(fn, func(in ssa.Instruction) {
			if call, ok := in.(ssa.CallInstruction); ok && call.Common().IsInvoke() && call.Common().Method.Name() == "Read" && cio.mayBeConn(call.Common().Value) {
				reads = append(reads, call)
			}
		})
		for _, rd := range reads {
			// back edges of loops containing the read
			for _, head := range fn.Blocks {
				for _, pred := range head.Preds {
					if !isBackEdge(pred, head) {
						continue
					}
					loop := naturalLoop(pred, head)
					if !loop[rd.Block()] {
						continue
					}
					n++
					key := fmt.Sprintf("%s#loop@%s", fk, describeBackEdge(p, pred, head))
					// R3: the read is on every cycle
					ob := c.Obl("R3", key, "every iteration of a loop that waits for more handshake data performs the blocking read (no spinning on a sentinel)").At(p.InstrPos(rd))
					spin := false
					if rd.Block() != head {
						r := reachableFrom(head, map[*ssa.BasicBlock]bool{rd.Block(): true})
						if r[pred] {
							spin = true
						}
					}
					if spin {
						ob.Violate("the loop can iterate from its head back to %s without executing the read at %s", p.InstrPos(pred.Instrs[len(pred.Instrs)-1]), p.InstrPos(rd))
					} else {
						ob.HoldNT("the read is on every cycle")
					}
					// R2: bounded accumulation on the back edge
					ob = c.Obl("R2", key, "the loop can iterate again only while the data accumulated so far is provably below a constant (<= 64 KiB): directly on the back edge, or at every return of the parser's 'need more data' sentinel").At(p.InstrPos(pred.Instrs[len(pred.Instrs)-1]))
					fs := append([]Fact{}, ff.NC(pred)...)
					if ef, ok := edgeFact(pred, head); ok {
						fs = append(fs, ef)
					}
					ok, why := c10BackEdgeBounded(p, b, fn, fs)
					if ok {
						ob.HoldNT("%s", why)
					} else {
						ob.Violate("%s", why)
					}
				}
			}
		}
	}
	// loops may only retry on temporary errors
	for g, at := range retriedErrors(p) {
		ob := c.Obl("R3", "retry-on#"+globalKey(g), "a loop retries only on an error that means 'need more data' (frozen table of temporary errors); retrying on a fatal error loses it and spins or desynchronises").At(p.InstrPos(at))
		if why, ok := temporaryErrors[globalKey(g)]; ok {
			ob.Hold("%s", why)
		} else {
			ob.Violate("the loop at %s continues when the error is %s, which is not a temporary condition", p.InstrPos(at), globalKey(g))
		}
	}
	o := c.Obl("R2", "count", "anti-vacuity: the handshake read loops of obfs4 (client, server), ScrambleSuit and obfs3 are found")
	if n < 4 {
		o.Undecide("found %d accumulating read loops, expected at least 4", n)
	} else {
		o.Hold("%d loops", n)
	}
}

func describeBackEdge(p *Prog, pred, head *ssa.BasicBlock) string {
	return head.Comment + "<-" + pred.Comment
}

// c10BackEdgeBounded: do the facts on a back edge bound the accumulated size?
func c10BackEdgeBounded(p *Prog, b *Bounds, fn *ssa.Function, fs []Fact) (bool, string) {
	const limit = 65536
	// (i) direct: X < C / X <= C with X = Buffer.Len() or len(...)
	for _, f := range fs {
		bo, ok := f.Cond.(*ssa.BinOp)
		if !ok {
			continue
		}
		op := bo.Op
		if !f.Pol {
			op = negOp(op)
		}
		var x ssa.Value
		var cst int64
		if k, ok := intConst(bo.Y); ok && (op == token.LSS || op == token.LEQ) {
			x, cst = bo.X, k
		} else if k, ok := intConst(bo.X); ok && (op == token.GTR || op == token.GEQ) {
			x, cst = bo.Y, k
		} else {
			continue
		}
		if cst > limit {
			continue
		}
		if call, _ := callOf(unspill(x)); call != nil {
			id := p.CalleeID(call.Common())
			if id == "(*bytes.Buffer).Len" || id == "builtin:len" {
				bound := cst
				if op == token.LEQ || op == token.GEQ {
					bound = cst + 1
				}
				return true, fmt.Sprintf("back edge taken only while %s < %d", id, bound)
			}
		}
	}
	// (ii) via sentinel: errors.Is(err, S) true / err == S, err from module callee G
	for _, f := range fs {
		call, ok := p.FactCallBool(f, "errors.Is")
		if !ok || !f.Pol {
			continue
		}
		errv, sent := unspill(call.Common().Args[0]), unspill(call.Common().Args[1])
		g, ok := sentinelGlobal(sent)
		if !ok {
			continue
		}
		pc, _ := callOf(errv)
		if pc == nil || pc.Common().StaticCallee() == nil || !p.inModule(pc.Common().StaticCallee()) {
			continue
		}
		G := pc.Common().StaticCallee()
		nret, fail := c10SentinelReturns(p, b, G, g, limit, 0, map[*ssa.Function]bool{})
		if fail != "" {
			return false, fail
		}
		if nret == 0 {
			return false, fmt.Sprintf("%s never returns the sentinel %s the loop retries on", p.FuncKey(G), g.Name())
		}
		return true, fmt.Sprintf("retry only on %s, which %s returns at %d sites, each with len(input) <= %d provable", g.Name(), p.FuncKey(G), nret, limit)
	}
	return false, "no bound on the accumulated data is known on the back edge"
}

// c10SentinelReturns counts the returns of G (and of the module callees whose error G hands through) that yield
// the retry sentinel g, and requires a provable bound on a []byte parameter at each.
func c10SentinelReturns(p *Prog, b *Bounds, G *ssa.Function, g *ssa.Global, limit int64, depth int, seen map[*ssa.Function]bool) (int, string) {
	if seen[G] || depth > 3 {
		return 0, ""
	}
	seen[G] = true
	ei := errResultIndex(G)
	if ei < 0 {
		return 0, ""
	}
	nret := 0
	for _, r := range returnsOf(G) {
		var leaves []ssa.Value
		var walk func(v ssa.Value, d int)
		seenV := map[ssa.Value]bool{}
		walk = func(v ssa.Value, d int) {
			v = unspill(v)
			if seenV[v] || d > 8 {
				return
			}
			seenV[v] = true
			if phi, ok := v.(*ssa.Phi); ok {
				for _, e := range phi.Edges {
					walk(e, d+1)
				}
				return
			}
			leaves = append(leaves, v)
		}
		walk(r.Results[ei], 0)
		direct := false
		for _, lf := range leaves {
			if gg, ok := sentinelGlobal(lf); ok && gg == g {
				direct = true
				continue
			}
			// the error of an inner module call handed through
			if ic, _ := callOf(lf); ic != nil {
				if sc := ic.Common().StaticCallee(); sc != nil && p.inModule(sc) && sc != G {
					n, fail := c10SentinelReturns(p, b, sc, g, limit, depth+1, seen)
					if fail != "" {
						return 0, fail
					}
					nret += n
				}
			}
		}
		if !direct {
			continue
		}
		nret++
		// some []byte parameter of G is bounded at this return
		bounded := false
		for _, par := range G.Params {
			if !isByteSlice(par.Type()) {
				continue
			}
			par := par
			okp, _ := b.Prove(G, r, func(s *scope, pr *proof) []Cons {
				l, ok := s.lenLin(par, pr)
				if !ok {
					return []Cons{{linConst(1)}}
				}
				return []Cons{leC(l, limit)}
			})
			if okp {
				bounded = true
			}
		}
		if !bounded {
			return 0, fmt.Sprintf("%s returns the retry sentinel %s at %s without a provable bound on its input length: a peer can make the buffer grow without limit", p.FuncKey(G), g.Name(), p.InstrPos(r))
		}
	}
	return nret, ""
}

func sentinelGlobal(v ssa.Value) (*ssa.Global, bool) {
	u, ok := v.(*ssa.UnOp)
	if !ok || u.Op != token.MUL {
		return nil, false
	}
	g, ok := u.X.(*ssa.Global)
	return g, ok
}

// c10Channels: R6.
func c10Channels(c *Ctx, p *Prog) {
	type chanUse struct {
		closes []ssa.CallInstruction
		sends  []*ssa.Send
	}
	uses := map[FieldKey]*chanUse{}
	get := func(k FieldKey) *chanUse {
		if uses[k] == nil {
			uses[k] = &chanUse{}
		}
		return uses[k]
	}
	for _, fn := range p.Funcs {
		allInstrs(fn, func(in ssa.Instruction) {
			switch x := in.(type) {
			case *ssa.Send:
				if k, _, ok := fieldLoad(x.Chan); ok {
					get(k).sends = append(get(k).sends, x)
				}
			case ssa.CallInstruction:
				if bi, ok := x.Common().Value.(*ssa.Builtin); ok && bi.Name() == "close" {
					if k, _, ok := fieldLoad(x.Common().Args[0]); ok {
						get(k).closes = append(get(k).closes, x)
					}
				}
			}
		})
	}
	var keys []FieldKey
	for k, u := range uses {
		if len(u.closes) > 0 {
			keys = append(keys, k)
		}
	}
	sort.Slice(keys, func(i, j int) bool { return keys[i].Type+keys[i].Field < keys[j].Type+keys[j].Field })
	o := c.Obl("R6", "count", "anti-vacuity: the closable channels of meek_lite are found")
	if len(keys) < 3 {
		o.Undecide("found %d closable channel fields, expected 3", len(keys))
	} else {
		o.Hold("%d closable channel fields", len(keys))
	}
	for _, k := range keys {
		u := uses[k]
		name := k.Type + "." + k.Field
		// closes: once
		ob := c.Obl("R6", name+"#closed-once", "a channel is closed at most once: inside sync.Once.Do, or at the exit of the single worker goroutine (started by exactly one go statement outside any loop)")
		bad := ""
		for _, cl := range u.closes {
			fn := cl.Parent()
			if onceClosure(p, fn) {
				continue
			}
			if blockOnCycle(cl.Block()) {
				bad = "close at " + p.InstrPos(cl) + " is inside a loop"
				continue
			}
			if !singleWorker(p, fn) {
				bad = "close at " + p.InstrPos(cl) + " is neither in a sync.Once closure nor in a function started by exactly one go statement"
			}
		}
		if bad != "" {
			ob.Violate("%s", bad)
		} else {
			ob.HoldNT("%d close site(s)", len(u.closes))
		}
		for i, sd := range u.sends {
			ob := c.Obl("R6", fmt.Sprintf("%s#send@%s#%d", name, p.FuncKey(sd.Parent()), i+1), "a send on a channel that may be closed concurrently either happens in the goroutine that performs the close, or in a function with a deferred recover()").At(p.InstrPos(sd))
			sameAsClose := false
			for _, cl := range u.closes {
				if cl.Parent() == sd.Parent() {
					sameAsClose = true
				}
			}
			if sameAsClose || hasDeferredRecover(sd.Parent()) {
				ob.HoldNT("protected")
			} else {
				ob.Violate("send at %s can panic with 'send on closed channel': the channel is closed by another goroutine and %s has no deferred recover", p.InstrPos(sd), p.FuncKey(sd.Parent()))
			}
		}
	}
}

func onceClosure(p *Prog, fn *ssa.Function) bool {
	if fn.Parent() == nil {
		return false
	}
	for _, mc := range p.prov().closure[fn] {
		for _, r := range *mc.Referrers() {
			if call, ok := r.(ssa.CallInstruction); ok && p.CalleeID(call.Common()) == "(*sync.Once).Do" {
				return true
			}
		}
	}
	return false
}

// singleWorker: fn is the target of exactly one `go` statement in the module,
// not inside a loop, and has no other callers.
func singleWorker(p *Prog, fn *ssa.Function) bool {
	sites := p.SitesOf(fn)
	if len(sites) != 1 {
		return false
	}
	g, ok := sites[0].Instr.(*ssa.Go)
	return ok && !blockOnCycle(g.Block())
}

func hasDeferredRecover(fn *ssa.Function) bool {
	found := false
	allInstrs(fn, func(in ssa.Instruction) {
		df, ok := in.(*ssa.Defer)
		if !ok {
			return
		}
		var cl *ssa.Function
		switch v := df.Call.Value.(type) {
		case *ssa.MakeClosure:
			cl = v.Fn.(*ssa.Function)
		case *ssa.Function:
			cl = v
		}
		if cl == nil {
			return
		}
		allInstrs(cl, func(in2 ssa.Instruction) {
			if call, ok := in2.(ssa.CallInstruction); ok {
				if bi, ok := call.Common().Value.(*ssa.Builtin); ok && bi.Name() == "recover" {
					found = true
				}
			}
		})
	})
	return found
}

// shortReadRule (C01.R8 / C10.R7): for every raw Read(buf), buf's contents are
// only used through buf[:n] with n that read's count.  dataPhase additionally
// demands that the bytes are consumed even when the read also returned an
// error.
func shortReadRule(c *Ctx, rule string, p *Prog, cio *connIO, fns map[*ssa.Function]bool, dataPhaseOnly bool) int {
	var keys []*ssa.Function
	for fn := range fns {
		if p.inModule(fn) {
			keys = append(keys, fn)
		}
	}
	sort.Slice(keys, func(i, j int) bool { return p.FuncKey(keys[i]) < p.FuncKey(keys[j]) })
	n := 0
	for _, fn := range keys {
		var reads []*ssa.Call
		allInstrs(fn, func(in ssa.Instruction) {
			if call, ok := in.(*ssa.Call); ok && call.Common().IsInvoke() && call.Common().Method.Name() == "Read" && cio.mayBeConn(call.Common().Value) && len(call.Common().Args) == 1 {
				if _, isPar := unspill(call.Common().Args[0]).(*ssa.Parameter); isPar {
					return // a conn type forwarding its caller's buffer to the layer below
				}
				reads = append(reads, call)
			}
		})
		for i, rd := range reads {
			n++
			key := fmt.Sprintf("%s#Read#%d", p.FuncKey(fn), i+1)
			ob := c.Obl(rule, key, "the buffer handed to a raw Read is afterwards only used as buf[:n] where n is the count that Read returned (a short read must never expose stale bytes or drop received ones)").At(p.InstrPos(rd))
			buf := rd.Common().Args[0]
			bk := bufObjKey(buf)
			var nval ssa.Value
			for _, r := range *rd.Referrers() {
				if ex, ok := r.(*ssa.Extract); ok && ex.Index == 0 {
					nval = ex
				}
			}
			if nval == nil {
				ob.Violate("the byte count returned by Read is discarded")
				continue
			}
			bad := ""
			used := false
			allInstrs(fn, func(in ssa.Instruction) {
				sl, ok := in.(*ssa.Slice)
				if !ok || bufObjKey(sl) != bk {
					return
				}
				// slices that are arguments of (some) Read on this buffer are fine
				isArg := false
				for _, r := range *sl.Referrers() {
					if call, ok := r.(*ssa.Call); ok {
						for _, o := range reads {
							if call == o {
								isArg = true
							}
						}
					}
				}
				if isArg && sl.High == nil && sl.Low == nil {
					return
				}
				if !instrDominates(rd, sl) {
					return // belongs to another read
				}
				if sl.Low != nil {
					if k, ok := intConst(sl.Low); !ok || k != 0 {
						bad = "buffer sliced from a non-zero offset at " + p.InstrPos(sl)
						return
					}
				}
				if sl.High == nil || unspill(sl.High) != nval {
					bad = "buffer used as " + boundDescriptor(p, BoundObl{Instr: sl}) + " at " + p.InstrPos(sl) + ": the upper bound is not the count returned by the Read at " + p.InstrPos(rd)
					return
				}
				used = true
			})
			// field-held buffers may also be used without slicing
			if bad == "" && !used {
				bad = "the bytes read are never consumed as buf[:n]"
			}
			if bad != "" {
				ob.Violate("%s", bad)
			} else {
				ob.HoldNT("only use: buf[:n]")
			}
		}
	}
	return n
}

// bufObjKey identifies the buffer object behind a slice value.
func bufObjKey(v ssa.Value) string {
	for {
		switch x := v.(type) {
		case *ssa.Slice:
			v = x.X
			continue
		}
		break
	}
	return objKey(v)
}

var _ = types.Typ
