package main

// C11 — replay filter as a bounded expiring set (DESIGN 4, C11): lock
// discipline, single critical section, compaction before lookup, map/fifo
// pairing.  Histories and linearizability as such are not decided.

import (
	"fmt"
	"go/token"
	"sort"
	"strings"

	"golang.org/x/tools/go/ssa"
)

const tRF = "common/replayfilter.ReplayFilter"

func init() {
	register(&PropInfo{
		ID: "C11", Level: "other", MinObls: 8,
		Explanation: "Histories, TTL arithmetic over time and linearizability are not decidable statically; decided are structural necessary conditions: R1 lock discipline (E5): every access to the map and the list happens under the filter's mutex — in a function that locks once with a deferred unlock and never unlocks in between, or in an unexported helper called only from such a region, or in the constructor — so lookup and insert of TestAndSet form ONE critical section; " +
			"R2 compaction (with the caller's timestamp) dominates the lookup; R3 bijection upkeep (E6): the only mutations of map and list in the package are the control-equivalent pairs insert/PushBack, delete/Remove of the same entry, and the wholesale replacement of both; R4 the digest key is 16 CSPRNG bytes written only by the constructor; " +
			"R5 eviction conditions: an entry is removed only from the front, only when the filter is full (Len() >= 102400, re-evaluated on every iteration), TTL is disabled, or now-firstSeen >= ttl; a negative age resets both structures.",
		NotCovered: []string{"behaviour over operation histories (needs execution against a model)", "linearizability under concurrency beyond 'one critical section'", "SipHash collision probability"},
		Trusted:    []string{"go/types+go/ssa faithful", "sync.Mutex and container/list behave as documented"},
		Run:        runC11,
	})
}

func runC11(c *Ctx) {
	if !importing {
		// "while the clock is monotone": the one caller stamps with the wall clock, read inside the
		// critical section that also updates the filter (C04.R1)
		importObls(c, "C04", runC04, "X04", func(k string) bool {
			return containsAny(k, "#stamped-in-filter-order", "#TestAndSet-now")
		})
	}
	p := c.P
	storedIsParam(c, p, "R2", "common/replayfilter.entry", "firstSeen", "common/replayfilter:(*ReplayFilter).TestAndSet", "now", "the time-to-live is measured from the instant the caller named, to the nanosecond")
	mapValuesOwnAlloc(c, p, "R3", "common/replayfilter:(*ReplayFilter).TestAndSet", "filter entry")
	storesOnlyIntoOwnAlloc(c, p, "R2", "common/replayfilter.entry", "firstSeen", "common/replayfilter:(*ReplayFilter).TestAndSet", "a hit must not refresh the time stamp (the entry would outlive its time-to-live and, staying at its place in the FIFO, shield younger expired entries from the purge)")
	tas := p.Func("common/replayfilter:(*ReplayFilter).TestAndSet")
	ob := c.Obl("R0", "anchors", "ReplayFilter.TestAndSet exists")
	if tas == nil {
		ob.Undecide("not found")
		return
	}
	ob.Hold("found")
	var pkgFns []*ssa.Function
	for _, fn := range p.Funcs {
		if relPkg(fn.Pkg.Pkg.Path()) == "common/replayfilter" && fn.Synthetic == "" {
			pkgFns = append(pkgFns, fn)
			c.Touch(p.FuncKey(fn))
		}
	}
	sort.Slice(pkgFns, func(i, j int) bool { return p.FuncKey(pkgFns[i]) < p.FuncKey(pkgFns[j]) })

	// ---- R1 lock regions
	type region struct {
		lock    *ssa.Call
		unlock  *ssa.Defer
		unlocks map[ssa.Instruction]bool // direct unlocks (single-exit style), nil with a deferred unlock
	}
	// held: instruction in executes with the mutex held in a region function
	held := func(r *region, in ssa.Instruction) bool {
		if !instrDominates(r.lock, in) {
			return false
		}
		for u := range r.unlocks {
			if canReachWithout(u, in, nil) {
				return false
			}
		}
		return true
	}
	regions := map[*ssa.Function]*region{}
	lockedFns := map[*ssa.Function]string{} // why the function's accesses are protected
	for _, fn := range pkgFns {
		var locks []*ssa.Call
		var dunlocks []*ssa.Defer
		var unlocks []ssa.CallInstruction
		allInstrs(fn, func(in ssa.Instruction) {
			call, ok := in.(ssa.CallInstruction)
			if !ok {
				return
			}
			id := p.CalleeID(call.Common())
			recvOK := len(call.Common().Args) > 0 && isMutexOf(call.Common().Args[0], tRF)
			switch {
			case id == "(*sync.Mutex).Lock" && recvOK:
				if cv, ok := call.(*ssa.Call); ok {
					locks = append(locks, cv)
				}
			case id == "(*sync.Mutex).Unlock" && recvOK:
				if d, ok := call.(*ssa.Defer); ok {
					dunlocks = append(dunlocks, d)
				} else {
					unlocks = append(unlocks, call)
				}
			}
		})
		if len(locks) == 0 && len(dunlocks) == 0 && len(unlocks) == 0 {
			continue
		}
		ob := c.Obl("R1", p.FuncKey(fn)+"#single-critical-section", "the function takes the filter's mutex exactly once, defers the unlock right away and never unlocks in between: everything it does to the filter is one critical section (of several simultaneous submissions of one value exactly one can be told 'new')")
		switch {
		case len(locks) == 1 && len(dunlocks) == 0 && len(unlocks) >= 1 && !blockOnCycle(locks[0].Block()):
			// explicit unlocks: still one critical section if every unlock follows the lock, every
			// return after the lock has passed an unlock, and nothing touches the filter after one
			// (the accesses are judged below with the same 'held' predicate)
			us := map[ssa.Instruction]bool{}
			bad := ""
			for _, u := range unlocks {
				us[u] = true
				if !instrDominates(locks[0], u) {
					bad = "Unlock at " + p.InstrPos(u) + " is not preceded by the Lock"
				}
				if blockOnCycle(u.Block()) {
					bad = "Unlock at " + p.InstrPos(u) + " is in a loop"
				}
			}
			for _, r := range returnsOf(fn) {
				if instrDominates(locks[0], r) && canReachWithout(locks[0], r, us) {
					bad = "the return at " + p.InstrPos(r) + " is reachable with the mutex still held"
				}
				if !instrDominates(locks[0], r) && canReachWithout(locks[0], r, nil) {
					bad = "the return at " + p.InstrPos(r) + " may or may not hold the mutex"
				}
			}
			if bad != "" {
				ob.Violate("%s", bad)
			} else {
				regions[fn] = &region{lock: locks[0], unlocks: us}
				lockedFns[fn] = "locks"
				ob.HoldNT("Lock at %s; %d explicit Unlock(s), each on the way out", p.InstrPos(locks[0]), len(unlocks))
			}
		case len(locks) != 1 || len(dunlocks) != 1 || len(unlocks) != 0:
			ob.Violate("%d Lock, %d deferred Unlock and %d direct Unlock calls; expected 1, 1, 0 (a lock released and re-taken between lookup and insert lets two callers both see 'new')", len(locks), len(dunlocks), len(unlocks))
		case !instrDominates(locks[0], dunlocks[0]) || blockOnCycle(locks[0].Block()):
			ob.Violate("the unlock is not deferred right after the lock")
		default:
			regions[fn] = &region{lock: locks[0], unlock: dunlocks[0]}
			lockedFns[fn] = "locks"
			ob.HoldNT("Lock at %s; defer Unlock", p.InstrPos(locks[0]))
		}
	}
	// helpers called only from regions (after the lock), fixpoint
	for changed := true; changed; {
		changed = false
		for _, fn := range pkgFns {
			if lockedFns[fn] != "" || fn.Object() == nil || fn.Object().Exported() || fn.Signature.Recv() == nil {
				continue
			}
			sites := p.SitesOf(fn)
			if len(sites) == 0 {
				continue
			}
			ok := true
			for _, cs := range sites {
				r := regions[cs.Caller]
				switch {
				case r != nil && held(r, cs.Instr):
				case lockedFns[cs.Caller] == "helper":
				case len(cs.Instr.Common().Args) > 0 && isFreshLocal(cs.Instr.Common().Args[0]):
					// called on an object the caller has just allocated and not yet published (the constructor)
				default:
					ok = false
				}
			}
			if ok {
				lockedFns[fn] = "helper"
				changed = true
			}
		}
	}
	for _, field := range []string{"filter", "fifo"} {
		ob := c.Obl("R1", tRF+"."+field+"#guarded", "every access to the field happens with the mutex held (after the Lock of a single-critical-section function, in a helper only called from such regions, or on the not yet shared object in the constructor)")
		bad := ""
		n := 0
		for _, fn := range p.Funcs {
			allInstrs(fn, func(in ssa.Instruction) {
				fa, ok := in.(*ssa.FieldAddr)
				if !ok {
					return
				}
				k, ok := fieldKeyOf(fa.X.Type(), fa.Field)
				if !ok || k.Type != tRF || k.Field != field {
					return
				}
				n++
				switch {
				case regions[fn] != nil:
					if !held(regions[fn], fa) {
						bad = "access at " + p.InstrPos(fa) + " is outside the critical section (before the Lock or after an Unlock)"
					}
				case lockedFns[fn] == "helper":
				default:
					if _, isAlloc := fa.X.(*ssa.Alloc); isAlloc {
						return // constructor: object not shared yet
					}
					bad = "access at " + p.InstrPos(fa) + " in " + p.FuncKey(fn) + " is not under the mutex"
				}
			})
		}
		if bad != "" {
			ob.Violate("%s", bad)
		} else {
			ob.HoldNT("%d accesses, all protected", n)
		}
	}

	// ---- R2 compaction before lookup
	ob = c.Obl("R2", p.FuncKey(tas)+"#compact-before-lookup", "expired and surplus entries are purged, with the caller's timestamp, before the lookup (otherwise an entry older than the TTL still answers 'seen')")
	var lookup *ssa.Lookup
	var upd *ssa.MapUpdate
	allInstrs(tas, func(in ssa.Instruction) {
		switch x := in.(type) {
		case *ssa.Lookup:
			if isFieldLoad(x.X, tRF, "filter") {
				lookup = x
			}
		case *ssa.MapUpdate:
			if isFieldLoad(x.Map, tRF, "filter") {
				upd = x
			}
		}
	})
	comp := p.CallsIn(tas, "(*$M/common/replayfilter.ReplayFilter).compactFilter")
	switch {
	case lookup == nil || upd == nil:
		ob.Violate("TestAndSet does not look up and insert into the filter map")
	case len(comp) != 1 || !instrDominates(comp[0], lookup):
		ob.Violate("compactFilter does not dominate the lookup at %s", p.InstrPos(lookup))
	case unspill(comp[0].Common().Args[1]) != ssa.Value(tas.Params[1]):
		ob.Violate("compactFilter is not given the caller's timestamp")
	default:
		ob.HoldNT("compactFilter(now) at %s dominates the lookup", p.InstrPos(comp[0]))
	}
	// result polarity and key agreement
	ob = c.Obl("R2", p.FuncKey(tas)+"#lookup-insert-same-key", "lookup and insert use the same digest (SipHash of the whole buffer under the filter's key); a hit returns true without inserting, a miss inserts and returns false")
	bad := ""
	if lookup != nil && upd != nil {
		if unspill(lookup.Index) != unspill(upd.Key) {
			bad = "lookup and insert use different keys"
		}
		hc, _ := callOf(unspill(lookup.Index))
		if hc == nil || p.CalleeID(hc.Common()) != "github.com/dchest/siphash.Hash" || unspill(hc.Common().Args[2]) != ssa.Value(tas.Params[2]) {
			bad = "the digest is not siphash.Hash(k0, k1, buf) of the whole buffer"
		}
		ff := p.Facts(tas)
		// hit/miss knowledge of a fact: e != nil / e == nil of the looked-up
		// value, or the ok result of a comma-ok lookup
		isHitFlag := func(v ssa.Value) bool {
			ex, ok := unspill(v).(*ssa.Extract)
			return ok && ex.Tuple == ssa.Value(lookup) && ex.Index == 1
		}
		isEntry := func(v ssa.Value) bool {
			v = unspill(v)
			if v == ssa.Value(lookup) {
				return true
			}
			ex, ok := v.(*ssa.Extract)
			return ok && ex.Tuple == ssa.Value(lookup) && ex.Index == 0
		}
		state := func(fs []Fact) int { // 1 miss, 2 hit, 0 unknown
			for _, f := range fs {
				if x, isNil, ok := FactNilCmp(f); ok && isEntry(x) {
					if isNil {
						return 1
					}
					return 2
				}
				if isHitFlag(f.Cond) {
					if f.Pol {
						return 2
					}
					return 1
				}
			}
			return 0
		}
		// the insert happens only on a miss
		if state(ff.NC(upd.Block())) != 1 {
			bad = "the insert is not restricted to the miss case"
		}
		for _, r := range returnsOf(tas) {
			v := unspill(r.Results[0])
			k, isC := v.(*ssa.Const)
			if !isC || k.Value == nil {
				// returning the hit flag itself (after the conditional insert)
				if isHitFlag(v) {
					continue
				}
				if bo, ok := v.(*ssa.BinOp); ok && bo.Op == token.NEQ && isEntry(bo.X) && isNilConst(bo.Y) {
					continue
				}
				bad = "TestAndSet returns neither a constant per arm nor the hit flag"
				continue
			}
			st := state(ff.NC(r.Block()))
			if (k.Value.String() == "true") != (st == 2) || st == 0 {
				bad = "the result polarity is inverted at " + p.InstrPos(r)
			}
		}
	}
	if bad != "" {
		ob.Violate("%s", bad)
	} else {
		ob.HoldNT("hit: true; miss: insert, false")
	}

	// ---- R3 pairing
	c11Pairing(c, p, pkgFns)

	// ---- R4 key
	ob = c.Obl("R4", tRF+".key#csprng", "the SipHash key is 16 bytes from the CSPRNG, written only by the constructor")
	bad = ""
	p.prov()
	ws := p.pi.writes[Loc{Kind: 'f', F: FieldKey{tRF, "key"}}]
	for _, w := range ws {
		if p.FuncKey(w.Fn) != "common/replayfilter:New" {
			bad = "key written in " + p.FuncKey(w.Fn)
		}
		for _, v := range w.Vals {
			if p.Slice(v, SliceOpt{At: w.Instr}).DependsOnCall("$M/common/csrand.Bytes") == nil && !w.Call {
				bad = "the key does not derive from csrand.Bytes"
			}
		}
	}
	if len(ws) < 1 && bad == "" {
		bad = "the key is never written"
	}
	// the random source is 16 bytes
	if nw := p.Func("common/replayfilter:New"); nw != nil && bad == "" {
		ok16 := false
		for _, call := range p.CallsIn(nw, "$M/common/csrand.Bytes") {
			arg := call.Common().Args[0]
			if cc, isC := call.(*ssa.Call); isC {
				okp, _ := p.NewBounds().Prove(nw, cc, func(s *scope, pr *proof) []Cons {
					l, ok := s.lenLin(arg, pr)
					if !ok {
						return nil
					}
					return eq(l, linConst(16))
				})
				if okp {
					ok16 = true
				}
			}
		}
		if !ok16 {
			bad = "New does not draw a 16-byte key from csrand.Bytes"
		}
	}
	if bad != "" {
		ob.Violate("%s", bad)
	} else {
		ob.HoldNT("%d store(s) in New from 16 bytes of csrand.Bytes", len(ws))
	}

	// ---- R5 eviction conditions
	c11Eviction(c, p)
}

func isMutexOf(v ssa.Value, typ string) bool {
	fa, ok := v.(*ssa.FieldAddr)
	if !ok {
		return false
	}
	k, ok := fieldKeyOf(fa.X.Type(), fa.Field)
	return ok && k.Type == typ && k.Field == "Mutex"
}

type rfMutation struct {
	in   ssa.Instruction
	what string // "map-insert", "map-delete", "map-replace", "list-push", "list-remove", "list-replace", "list-other:<m>"
}

func c11Pairing(c *Ctx, p *Prog, pkgFns []*ssa.Function) {
	var muts []rfMutation
	for _, fn := range pkgFns {
		allInstrs(fn, func(in ssa.Instruction) {
			switch x := in.(type) {
			case *ssa.MapUpdate:
				if isFieldLoad(x.Map, tRF, "filter") {
					muts = append(muts, rfMutation{in, "map-insert"})
				}
			case *ssa.Store:
				if k, ok := fieldAddrKey(x.Addr); ok && k.Type == tRF {
					if _, isAlloc := addrRoot(x.Addr).(*ssa.Alloc); isAlloc && fn.Name() == "New" {
						return
					}
					switch k.Field {
					case "filter":
						muts = append(muts, rfMutation{in, "map-replace"})
					case "fifo":
						muts = append(muts, rfMutation{in, "list-replace"})
					}
				}
			case ssa.CallInstruction:
				id := p.CalleeID(x.Common())
				if id == "builtin:delete" && isFieldLoad(x.Common().Args[0], tRF, "filter") {
					muts = append(muts, rfMutation{in, "map-delete"})
				}
				if strings.HasPrefix(id, "(*container/list.List).") && len(x.Common().Args) > 0 && isFieldLoad(x.Common().Args[0], tRF, "fifo") {
					m := strings.TrimPrefix(id, "(*container/list.List).")
					switch m {
					case "PushBack":
						muts = append(muts, rfMutation{in, "list-push"})
					case "Remove":
						muts = append(muts, rfMutation{in, "list-remove"})
					case "Len", "Front", "Back":
					default:
						muts = append(muts, rfMutation{in, "list-other:" + m})
					}
				}
			}
		})
	}
	pairOf := map[string]string{"map-insert": "list-push", "list-push": "map-insert", "map-delete": "list-remove", "list-remove": "map-delete", "map-replace": "list-replace", "list-replace": "map-replace"}
	ob := c.Obl("R3", "mutations#paired", "the map and the list stay in bijection: every mutation of one is matched, in the same basic block (control-equivalent), by the corresponding mutation of the other; no other mutation of either exists in the package")
	bad := ""
	counts := map[string]int{}
	for _, m := range muts {
		counts[m.what]++
		want, ok := pairOf[m.what]
		if !ok {
			bad = fmt.Sprintf("unpaired mutation %s at %s: it changes the order or content of the list without the map (or vice versa)", m.what, p.InstrPos(m.in))
			continue
		}
		found := false
		for _, o := range muts {
			if o.what == want && o.in.Block() == m.in.Block() {
				found = true
			}
		}
		if !found {
			bad = fmt.Sprintf("%s at %s has no %s in the same block", m.what, p.InstrPos(m.in), want)
		}
	}
	for _, k := range []string{"map-insert", "map-delete", "map-replace"} {
		if counts[k] != 1 && bad == "" {
			bad = fmt.Sprintf("%d %s sites, expected 1", counts[k], k)
		}
	}
	if bad != "" {
		ob.Violate("%s", bad)
	} else {
		ob.HoldNT("insert/PushBack, delete/Remove, replace/replace: one pair each")
	}
	// same entry on both sides
	ob = c.Obl("R3", "mutations#same-entry", "the pairs concern the same entry: the entry stored in the map is the value pushed on the list and remembers its list element; the digest deleted and the element removed belong to the entry at the front of the list")
	bad = ""
	for _, m := range muts {
		switch m.what {
		case "map-insert":
			mu := m.in.(*ssa.MapUpdate)
			e := unspill(mu.Value)
			for _, o := range muts {
				if o.what == "list-push" && o.in.Block() == m.in.Block() {
					pc := o.in.(*ssa.Call)
					if stripConv(pc.Common().Args[1]) != e {
						bad = "the value pushed on the list is not the entry stored in the map"
					}
					// e.element = result of PushBack ; e.digest = key
					okEl, okDg := false, false
					for _, s := range p.Stores("common/replayfilter.entry", "element") {
						if s.Base == e && unspill(s.Val) == ssa.Value(pc) {
							okEl = true
						}
					}
					for _, s := range p.Stores("common/replayfilter.entry", "digest") {
						if s.Base == e && unspill(s.Val) == unspill(mu.Key) {
							okDg = true
						}
					}
					if !okEl || !okDg {
						bad = "the new entry does not remember its list element and digest"
					}
				}
			}
		case "map-delete":
			dc := m.in.(ssa.CallInstruction)
			k := unspill(dc.Common().Args[1])
			fk, base, ok := fieldLoad(k)
			if !ok || fk.Type != "common/replayfilter.entry" || fk.Field != "digest" {
				bad = "the key deleted is not an entry's digest"
				break
			}
			for _, o := range muts {
				if o.what == "list-remove" && o.in.Block() == m.in.Block() {
					rc := o.in.(*ssa.Call)
					ek, ebase, ok := fieldLoad(unspill(rc.Common().Args[1]))
					if !ok || ek.Field != "element" || unspill(ebase) != unspill(base) {
						bad = "the element removed does not belong to the entry whose digest is deleted"
					}
				}
			}
			// the entry is the Value of the current front-walk element
			ex, isEx := unspill(base).(*ssa.Extract)
			if !isEx {
				bad = "the purged entry is not taken from the list"
			} else if ta, ok := ex.Tuple.(*ssa.TypeAssert); !ok {
				bad = "the purged entry is not taken from the list"
			} else if vk, _, ok := fieldLoad(ta.X); !ok || vk.Field != "Value" {
				bad = "the purged entry is not the list element's value"
			}
		}
	}
	if bad != "" {
		ob.Violate("%s", bad)
	} else {
		ob.HoldNT("same entry on both sides of each pair")
	}
}

func c11Eviction(c *Ctx, p *Prog) {
	cf := p.Func("common/replayfilter:(*ReplayFilter).compactFilter")
	ob := c.Obl("R5", "common/replayfilter:(*ReplayFilter).compactFilter#conditions", "an entry is purged only from the front of the list, and only if the filter is full (Len() >= 102400, evaluated inside the loop for every entry), the TTL is disabled, or now-firstSeen >= ttl; otherwise purging stops")
	if cf == nil {
		ob.Undecide("compactFilter not found")
		return
	}
	ff := p.Facts(cf)
	var del ssa.CallInstruction
	allInstrs(cf, func(in ssa.Instruction) {
		if call, ok := in.(ssa.CallInstruction); ok && p.CalleeID(call.Common()) == "builtin:delete" {
			del = call
		}
	})
	if del == nil {
		ob.Violate("compactFilter never deletes")
		return
	}
	D := del.Block()
	// loop containing D
	var loop map[*ssa.BasicBlock]bool
	for _, head := range cf.Blocks {
		for _, pred := range head.Preds {
			if isBackEdge(pred, head) && naturalLoop(pred, head)[D] {
				loop = naturalLoop(pred, head)
			}
		}
	}
	if loop == nil {
		ob.Violate("the purge is not a loop over the list")
		return
	}
	bad := ""
	// walk starts at Front()
	for _, in := range cf.Blocks[0].Instrs {
		_ = in
	}
	// the element under inspection is the loop-carried e: every value it takes is
	// the list's Front() or the Next() of the element inspected before
	fronts := p.CallsIn(cf, "(*container/list.List).Front")
	okWalk := false
	for blk := range loop {
		for _, in := range blk.Instrs {
			phi, ok := in.(*ssa.Phi)
			if !ok {
				break
			}
			if !isNamedType(phi.Type(), "container/list", "Element") {
				continue
			}
			all, anyFront := true, false
			for _, e := range phi.Edges {
				ec, _ := callOf(unspill(e))
				switch {
				case ec != nil && p.CalleeID(ec.Common()) == "(*container/list.List).Front" && isFieldLoad(ec.Common().Args[0], tRF, "fifo"):
					anyFront = true
				case ec != nil && p.CalleeID(ec.Common()) == "(*container/list.Element).Next" && unspill(ec.Common().Args[0]) == ssa.Value(phi):
				default:
					all = false
				}
			}
			if all && anyFront {
				okWalk = true
			}
		}
	}
	if !okWalk {
		// or: every iteration fetches the current front again, and the entry deleted is the one read from it
		var derives func(v ssa.Value, d int) *ssa.Call
		derives = func(v ssa.Value, d int) *ssa.Call {
			if d > 8 {
				return nil
			}
			switch x := unspill(v).(type) {
			case *ssa.Call:
				if p.CalleeID(x.Common()) == "(*container/list.List).Front" && isFieldLoad(x.Common().Args[0], tRF, "fifo") {
					return x
				}
			case *ssa.UnOp:
				return derives(x.X, d+1)
			case *ssa.FieldAddr:
				return derives(x.X, d+1)
			case *ssa.TypeAssert:
				return derives(x.X, d+1)
			case *ssa.Extract:
				return derives(x.Tuple, d+1)
			}
			return nil
		}
		if len(del.Common().Args) == 2 {
			if fc := derives(del.Common().Args[1], 0); fc != nil && loop[fc.Block()] && instrDominates(fc, del) {
				okWalk = true
			}
		}
	}
	if len(fronts) < 1 || !okWalk {
		bad = "the walk does not start at the front of the list and advance element by element"
	}
	for _, pred := range D.Preds {
		fs := append([]Fact{}, ff.NC(pred)...)
		if ef, ok := edgeFact(pred, D); ok {
			fs = append(fs, ef)
		}
		okEdge := true
		for _, alt := range ff.Alternatives(fs, 0) {
			okAlt := false
			for _, f := range alt {
				b, isB := f.Cond.(*ssa.BinOp)
				if !isB {
					continue
				}
				op := b.Op
				if !f.Pol {
					op = negOp(op)
				}
				// Len() >= 102400
				if lc, _ := callOf(unspill(b.X)); lc != nil && p.CalleeID(lc.Common()) == "(*container/list.List).Len" {
					if k, ok := intConst(b.Y); ok && k == 102400 && op == token.GEQ {
						if loop[lc.Block()] {
							okAlt = true
						} else {
							bad = "the 'filter is full' test uses a length taken before the loop: once full, every entry is evicted"
						}
					}
				}
				// ttl <= 0
				if isFieldLoad(b.X, tRF, "ttl") {
					if k, ok := intConst(b.Y); ok && k == 0 && op == token.LEQ {
						okAlt = true
					}
				}
				// deltaT >= ttl
				if isFieldLoad(b.Y, tRF, "ttl") && op == token.GEQ {
					if sc, _ := callOf(unspill(b.X)); sc != nil && p.CalleeID(sc.Common()) == "(time.Time).Sub" {
						a := sc.Common().Args
						if unspill(a[0]) == ssa.Value(cf.Params[1]) {
							if fk, _, ok := fieldLoad(unspill(a[1])); ok && fk.Field == "firstSeen" {
								okAlt = true
							}
						}
					}
				}
			}
			if !okAlt {
				okEdge = false
			}
		}
		if !okEdge && bad == "" {
			bad = fmt.Sprintf("the purge is reachable from block %s without the filter being full, the TTL disabled or the entry expired", pred.Comment)
		}
	}
	// backwards clock → reset, and young entry → stop
	resets := p.CallsIn(cf, "(*$M/common/replayfilter.ReplayFilter).reset")
	if len(resets) != 1 {
		bad = "no reset on a backwards clock jump"
	} else if !hasFact(ff.NC(resets[0].Block()), func(f Fact) bool {
		b, ok := f.Cond.(*ssa.BinOp)
		if !ok {
			return false
		}
		op := b.Op
		if !f.Pol {
			op = negOp(op)
		}
		k, isK := intConst(b.Y)
		sc, _ := callOf(unspill(b.X))
		return isK && k == 0 && op == token.LSS && sc != nil && p.CalleeID(sc.Common()) == "(time.Time).Sub"
	}) {
		bad = "reset is not guarded by now-firstSeen < 0"
	}
	if bad != "" {
		ob.Violate("%s", bad)
	} else {
		ob.HoldNT("purge guarded by Len()>=102400 (in loop) | ttl<=0 | age>=ttl; reset on negative age")
	}
	// the walk is left only for a reason that has to do with the list: it is empty, the clock went
	// backwards (reset), or the eldest entry is still young (and the filter not full)
	ob = c.Obl("R5", "common/replayfilter:(*ReplayFilter).compactFilter#exits", "compactFilter returns only when the list is exhausted, after a reset, or at an entry younger than the TTL: no other early exit (a memoised 'nothing to do') can skip the purge of a full filter or of expired entries")
	bad = ""
	nExit := 0
	for _, r := range returnsOf(cf) {
		if ff.Infeasible(r.Block()) {
			continue
		}
		nExit++
		fs := ff.NC(r.Block())
		okExit := false
		for _, alt := range ff.Alternatives(fs, 0) {
			okAlt := false
			for _, f := range alt {
				// (a) the element under inspection is nil
				if x, isNil, ok := FactNilCmp(f); ok && isNil && isNamedType(x.Type(), "container/list", "Element") {
					okAlt = true
				}
				// (c) young entry: age < ttl
				if b, isB := f.Cond.(*ssa.BinOp); isB {
					op := b.Op
					if !f.Pol {
						op = negOp(op)
					}
					if isFieldLoad(b.Y, tRF, "ttl") && op == token.LSS {
						if sc, _ := callOf(unspill(b.X)); sc != nil && p.CalleeID(sc.Common()) == "(time.Time).Sub" {
							okAlt = true
						}
					}
				}
			}
			// (b) after the reset
			for _, rc := range resets {
				if instrDominates(rc, r) {
					okAlt = true
				}
			}
			if okAlt {
				okExit = true
			} else {
				okExit = false
				break
			}
		}
		if !okExit {
			bad = "the return at " + p.InstrPos(r) + " leaves compactFilter for a reason unrelated to the list (" + factsString(p, fs) + "): a full filter or expired entries are not purged on that call"
		}
	}
	if nExit == 0 && bad == "" {
		bad = "no exit found"
	}
	if bad != "" {
		ob.Violate("%s", bad)
	} else {
		ob.HoldNT("%d exit(s): list exhausted | reset | young entry", nExit)
	}
}

func factsString(p *Prog, fs []Fact) string {
	var out []string
	for _, f := range fs {
		out = append(out, p.FactString(f))
	}
	if len(out) == 0 {
		return "unconditionally"
	}
	return strings.Join(out, "; ")
}

// isFreshLocal: v is an object allocated in the calling function (new/&T{}).
func isFreshLocal(v ssa.Value) bool {
	a, ok := unspill(v).(*ssa.Alloc)
	return ok && a.Heap || ok
}
