package main

// C12 — seeded distributions and generator (DESIGN 4, C12).  Exactness of the
// alias tables is floating-point computation and is not decided.

import (
	"fmt"
	"go/constant"
	"go/token"
	"go/types"
	"sort"
	"strings"

	"golang.org/x/tools/go/ssa"
)

const tWD = "common/probdist.WeightedDist"

func init() {
	register(&PropInfo{
		ID: "C12", Level: "other", MinObls: 18,
		Explanation: "Exactness of the Vose alias tables and the probabilities are floating-point facts and are not decided. Decided: R1 determinism as an effect/ownership property: nothing reachable from WeightedDist.Reset inside probdist calls a nondeterministic source (csrand, crypto/rand, package-level math/rand, time) or ranges over a map, every random draw uses the rand.New(NewHashDrbg(seed)) of Reset's own parameter, and Reset's result does not depend on earlier state: every field it produces is written before it is read in the same Reset (only the construction-time configuration is read from before); " +
			"R2 Sample returns minValue + values[idx] with idx = i or alias[i], i = Intn(len(values)), and the value table is the untouched prefix of the permutation (elements never modified); R3 generator shape: SipHash keyed with seed[0:16], register seed[16:24], NextBlock = Write(register); register := Sum; return a COPY; no reset of the running hash; Int63 = BE64 & (1<<63-1) for both sources; R4 (bounds engine) IntRange ensures min <= r <= max at its return, table size in [1,100] and values[:n] in range; R5 Reset and Sample each run in one critical section under the distribution's mutex.",
		NotCovered: []string{"probabilities, Perm contents, float rounding, exactness of the alias tables (floating-point computation)", "table indexing inside genTables/Sample (excluded from the bounds engine: sibling slices of equal length)"},
		Trusted:    []string{"go/types+go/ssa faithful", "math/rand.Rand over a Source is a deterministic function of the Source's output", "library contracts of checker/contracts.go"},
		Run:        runC12,
	})
}

func runC12(c *Ctx) {
	p := c.P
	reset := p.Func("common/probdist:(*WeightedDist).Reset")
	sample := p.Func("common/probdist:(*WeightedDist).Sample")
	ob := c.Obl("R0", "anchors", "WeightedDist.Reset and Sample exist")
	if reset == nil || sample == nil {
		ob.Undecide("not found")
		return
	}
	ob.Hold("found")
	reach := map[*ssa.Function]bool{}
	for fn := range p.Reachable(reset) {
		if p.inModule(fn) && relPkg(fn.Pkg.Pkg.Path()) == "common/probdist" {
			reach[fn] = true
			c.Touch(p.FuncKey(fn))
		}
	}
	// ---- R1a effects
	ob = c.Obl("R1", "common/probdist:(*WeightedDist).Reset#no-nondeterminism", "nothing the table generation does inside probdist consults a nondeterministic source or iterates a map: the tables are a function of the seeded generator only")
	bad := ""
	var rngNew *ssa.Call
	for _, call := range p.CallsIn(reset, "math/rand.New") {
		rngNew, _ = call.(*ssa.Call)
	}
	var fns []*ssa.Function
	for fn := range reach {
		fns = append(fns, fn)
	}
	sort.Slice(fns, func(i, j int) bool { return p.FuncKey(fns[i]) < p.FuncKey(fns[j]) })
	for _, fn := range fns {
		allInstrs(fn, func(in ssa.Instruction) {
			switch x := in.(type) {
			case *ssa.Range:
				if _, isMap := x.X.Type().Underlying().(*types.Map); isMap {
					bad = "range over a map at " + p.InstrPos(x) + " (iteration order is random)"
				}
			case ssa.CallInstruction:
				id := p.CalleeID(x.Common())
				switch {
				case strings.HasPrefix(id, modulePath+"/common/csrand."), strings.HasPrefix(id, "crypto/rand."), strings.HasPrefix(id, "time.Now"):
					bad = "call to " + id + " at " + p.InstrPos(x)
				case strings.HasPrefix(id, "math/rand.") && id != "math/rand.New":
					bad = "package-level " + id + " at " + p.InstrPos(x) + " uses the global generator"
				case strings.HasPrefix(id, "(*math/rand.Rand)."):
					// receiver must be the generator built in Reset
					for _, o := range p.Origins(x.Common().Args[0]) {
						if o != ssa.Value(rngNew) {
							bad = "random draw at " + p.InstrPos(x) + " does not use the generator seeded in Reset"
						}
					}
				}
			}
		})
	}
	if rngNew == nil {
		bad = "Reset does not build its generator with rand.New"
	} else {
		// rand.New(NewHashDrbg(seed param))
		sl := p.Slice(rngNew.Common().Args[0], SliceOpt{NoMem: true})
		nh := sl.DependsOnCall("$M/common/drbg.NewHashDrbg")
		if nh == nil || unspill(nh.Common().Args[0]) != ssa.Value(reset.Params[1]) {
			bad = "the generator is not rand.New(drbg.NewHashDrbg(seed)) of Reset's seed"
		}
	}
	if bad != "" {
		ob.Violate("%s", bad)
	} else {
		ob.HoldNT("%d functions; all draws on rand.New(NewHashDrbg(seed))", len(fns))
	}
	// callers pass a non-nil seed (a nil seed makes NewHashDrbg draw a random one)
	ob = c.Obl("R1", "common/probdist:(*WeightedDist).Reset#seed-not-nil", "every caller hands Reset/New a seed that is not nil on that path (NewHashDrbg(nil) would silently use a random seed)")
	bad = ""
	nsites := 0
	for _, k := range []string{"common/probdist:(*WeightedDist).Reset", "common/probdist:New"} {
		fn := p.Func(k)
		if fn == nil {
			continue
		}
		for _, cs := range p.SitesOf(fn) {
			if cs.Caller == p.Func("common/probdist:New") {
				continue
			}
			nsites++
			idx := 0
			if k == "common/probdist:(*WeightedDist).Reset" {
				idx = 1
			}
			a := unspill(cs.Instr.Common().Args[idx])
			ff := p.Facts(cs.Caller)
			okNN := false
			// result of a seed constructor whose error was checked, or a value with a != nil fact
			if sc, _ := callOf(a); sc != nil {
				if ff.SucceededCalls(cs.Instr.Block())[sc] {
					okNN = true
				}
			}
			for _, f := range ff.NC(cs.Instr.Block()) {
				if x, isNil, ok := FactNilCmp(f); ok && !isNil && (unspill(x) == a || sameFieldLoad(unspill(x), a)) {
					okNN = true
				}
			}
			if k2, _, isF := fieldLoad(a); isF && k2.Field == "lenSeed" {
				okNN = true // factory field: set from the validated state (C18/C09)
			}
			if !okNN {
				bad = "the seed passed at " + p.InstrPos(cs.Instr) + " may be nil"
			}
		}
	}
	if nsites < 5 && bad == "" {
		bad = fmt.Sprintf("only %d call sites found", nsites)
	}
	if bad != "" {
		ob.Violate("%s", bad)
	} else {
		ob.HoldNT("%d call sites, each with a checked seed", nsites)
	}

	// ---- R1b no dependence on earlier state
	c12Stateless(c, p, reset, reach)

	// ---- R2
	ob = c.Obl("R2", "common/probdist:(*WeightedDist).Sample#shape", "Sample returns minValue + values[idx] where idx is the rolled index i = Intn(len(values)) or alias[i] (never the index itself, never another table)")
	t := p.newTermer()
	bad = ""
	// every return is minValue + values[IDX] with IDX the rolled index I, alias[I], or either of them
	// (one merged return or one return per coin side); both sides must occur
	const tI = "Intn(len(<WeightedDist>.values))"
	const tA = "<WeightedDist>.alias[" + tI + "]"
	seenI, seenA := false, false
	for _, r := range returnsOf(sample) {
		got := t.Term(r.Results[0])
		switch {
		case termEq(got, "(<WeightedDist>.minValue+<WeightedDist>.values[phi("+tI+"|"+tA+")])"), termEq(got, "(<WeightedDist>.minValue+<WeightedDist>.values[phi("+tA+"|"+tI+")])"):
			seenI, seenA = true, true
		case termEq(got, "(<WeightedDist>.minValue+<WeightedDist>.values["+tI+"])"):
			seenI = true
		case termEq(got, "(<WeightedDist>.minValue+<WeightedDist>.values["+tA+"])"):
			seenA = true
		default:
			bad = "Sample returns " + got
		}
	}
	if bad == "" && !(seenI && seenA) {
		bad = "Sample never returns the value at the rolled index / at its alias"
	}
	if len(t.errs) > 0 {
		bad = strings.Join(t.errs, "; ")
	}
	if bad != "" {
		ob.Violate("%s", bad)
	} else {
		ob.HoldNT("minValue + values[i | alias[i]], i = Intn(len(values))")
	}
	// every index gets its Prob entry: the alias tables are published only when both worklists are empty
	ob = c.Obl("R2", "common/probdist:(*WeightedDist).genTables#worklists-drained", "every index leaves its worklist with a Prob entry assigned or is put back on a worklist, and the tables are published only when BOTH worklists are empty (an index left on a list keeps Prob 0 and is never sampled: the tables no longer reproduce the weights)")
	if gt := p.Func("common/probdist:(*WeightedDist).genTables"); gt == nil {
		ob.Undecide("genTables not found")
	} else {
		c.Touch(p.FuncKey(gt))
		bad = ""
		lists := p.CallsIn(gt, "container/list.New")
		var pub []*StoreSite
		for _, st := range p.Stores(tWD, "prob") {
			if st.Fn == gt {
				pub = append(pub, st)
			}
		}
		gff := p.Facts(gt)
		if len(lists) == 0 && len(pub) == 1 {
			// another representation of the worklists (slices, a single pass): this rule is specific to
			// container/list queues drained by Len() > 0 loops and decides nothing here
			ob.HoldNT("no container/list worklists in this tree: the draining rule does not apply (Sample's shape and the table sizes are still decided)")
			bad = "-"
		} else if len(lists) != 2 || len(pub) != 1 {
			bad = fmt.Sprintf("%d worklists and %d publication sites of the Prob table in genTables (expected 2 and 1)", len(lists), len(pub))
		} else {
			for _, l := range lists {
				lv := l.(*ssa.Call)
				empty := hasFact(gff.NC(pub[0].Instr.Block()), func(f Fact) bool {
					bo, ok := f.Cond.(*ssa.BinOp)
					if !ok {
						return false
					}
					lc, _ := callOf(unspill(bo.X))
					if lc == nil || p.CalleeID(lc.Common()) != "(*container/list.List).Len" || unspill(lc.Common().Args[0]) != ssa.Value(lv) {
						return false
					}
					k, isK := intConst(bo.Y)
					op := bo.Op
					if !f.Pol {
						op = negOp(op)
					}
					// Len() <= 0, Len() == 0, Len() < 1
					return isK && (k == 0 && (op == token.LEQ || op == token.EQL) || k == 1 && op == token.LSS)
				})
				if !empty {
					bad = "the tables are published at " + p.InstrPos(pub[0].Instr) + " although the worklist created at " + p.InstrPos(lv) + " may still hold indices (no 'Len() > 0' loop over it has run to completion before)"
				}
			}
			// every element taken off a list is given its Prob entry or pushed back, on every path
			nRem := 0
			for _, rm := range p.CallsIn(gt, "(*container/list.List).Remove") {
				nRem++
				var idx ssa.Value // the int taken out: Remove(...).(int)
				for _, r := range *rm.(*ssa.Call).Referrers() {
					if ta, ok := r.(*ssa.TypeAssert); ok {
						idx = ta
						for _, rr := range *ta.Referrers() {
							if ex, ok := rr.(*ssa.Extract); ok && ex.Index == 0 {
								idx = ex
							}
						}
					}
				}
				if idx == nil {
					bad = "the element removed at " + p.InstrPos(rm) + " is dropped"
					continue
				}
				settled := map[ssa.Instruction]bool{}
				for _, r := range *idx.Referrers() {
					switch x := r.(type) {
					case *ssa.IndexAddr:
						// prob[idx] = ...
						if ld, ok := unspill(x.X).(*ssa.Alloc); ok || ld == nil {
							_ = ld
						}
						for _, rr := range *x.Referrers() {
							if st, ok := rr.(*ssa.Store); ok && st.Addr == ssa.Value(x) && pub[0].Val != nil && unspill(x.X) == unspill(pub[0].Val) {
								settled[st] = true
							}
						}
					case *ssa.MakeInterface:
						for _, rr := range *x.Referrers() {
							if pc, ok := rr.(*ssa.Call); ok && p.CalleeID(pc.Common()) == "(*container/list.List).PushBack" {
								settled[pc] = true
							}
						}
					}
				}
				// from the removal, the loop head (next iteration) or the function exit is not reachable without a settling instruction
				for _, blk := range gt.Blocks {
					if len(blk.Instrs) == 0 {
						continue
					}
					last := blk.Instrs[len(blk.Instrs)-1]
					isExit := false
					if _, ok := last.(*ssa.Return); ok {
						isExit = true
					}
					for _, sx := range blk.Succs {
						if sx.Dominates(blk) && sx.Dominates(rm.Block()) {
							isExit = true // back edge of a loop containing the removal
						}
					}
					if isExit && (blk == rm.Block() || canReachWithout(rm, last, nil)) && canReachWithout(rm, last, settled) {
						bad = "the index removed at " + p.InstrPos(rm) + " can leave its iteration with neither a Prob entry nor a place on a worklist"
					}
				}
			}
			if nRem < 2 && bad == "" {
				bad = fmt.Sprintf("only %d removals from the worklists", nRem)
			}
		}
		if bad == "-" {
			// decided above
		} else if bad != "" {
			ob.Violate("%s", bad)
		} else {
			ob.HoldNT("2 worklists, both provably empty at the publication of prob/alias; every removed index is settled")
		}
	}
	// the constructor's first table is built with the SAME configuration every later Reset uses
	ob = c.Obl("R1", "common/probdist:New#configuration-before-first-reset", "New stores minValue, maxValue and the bias flag into the object before it builds the first table (Reset): a flag stored afterwards makes New(seed, .., biased) and a later Reset(seed) disagree")
	if nw := p.Func("common/probdist:New"); nw == nil {
		ob.Undecide("probdist.New not found")
	} else {
		c.Touch(p.FuncKey(nw))
		bad = ""
		resets := p.CallsIn(nw, "(*$M/common/probdist.WeightedDist).Reset")
		if len(resets) != 1 {
			bad = fmt.Sprintf("%d Reset calls in New", len(resets))
		} else {
			for _, f := range []string{"minValue", "maxValue", "biased"} {
				okF := false
				late := false
				for _, st := range p.Stores(tWD, f) {
					if st.Fn != nw {
						bad = "the configuration field " + f + " is also written in " + p.FuncKey(st.Fn)
						continue
					}
					if instrDominates(st.Instr, resets[0]) {
						okF = true
					} else {
						late = true
					}
				}
				if !okF || late {
					bad = "the field " + f + " is not (only) stored before the first Reset in New: the first table is built without it"
				}
			}
		}
		if bad != "" {
			ob.Violate("%s", bad)
		} else {
			ob.HoldNT("minValue, maxValue, biased stored before Reset")
		}
	}
	// the scaled probabilities are weight*n/sum with sum = the sum of ALL weights, on every path
	ob = c.Obl("R2", "common/probdist:(*WeightedDist).genTables#normalised", "the tables are built from weight_i * n / (sum of all weights): the divisor is the loop-carried sum over w.weights, started at 0 and taken on every path (assuming a sum of 1 for some configuration makes the tables deviate from the weights)")
	if gt := p.Func("common/probdist:(*WeightedDist).genTables"); gt == nil {
		ob.Undecide("genTables not found")
	} else {
		bad = ""
		nDiv := 0
		allInstrs(gt, func(in ssa.Instruction) {
			q, ok := in.(*ssa.BinOp)
			if !ok || q.Op != token.QUO {
				return
			}
			if b, isB := q.Type().Underlying().(*types.Basic); !isB || b.Info()&types.IsFloat == 0 {
				return
			}
			nDiv++
			ph, isPhi := unspill(q.Y).(*ssa.Phi)
			if !isPhi || !blockOnCycle(ph.Block()) {
				bad = "the divisor at " + p.InstrPos(q) + " is not the running sum of the weights (it is " + p.valString(q.Y) + ")"
				return
			}
			okInit, okStep := false, false
			for i, e := range ph.Edges {
				pred := ph.Block().Preds[i]
				if !isBackEdge(pred, ph.Block()) {
					k, isK := e.(*ssa.Const)
					if isK && k.Value != nil && constant.Sign(k.Value) == 0 {
						okInit = true
					} else {
						bad = "the sum does not start at 0 (" + p.valString(e) + ")"
					}
					continue
				}
				add, isAdd := unspill(e).(*ssa.BinOp)
				if !isAdd || add.Op != token.ADD {
					bad = "the sum is not advanced by addition"
					continue
				}
				x, y := unspill(add.X), unspill(add.Y)
				if y == ssa.Value(ph) {
					x, y = y, x
				}
				// the other operand: an element of w.weights (range value)
				isElem := false
				switch el := y.(type) {
				case *ssa.UnOp:
					if ia, ok := el.X.(*ssa.IndexAddr); ok && isFieldLoad(ia.X, tWD, "weights") {
						isElem = true
					}
				case *ssa.Index:
					isElem = isFieldLoad(el.X, tWD, "weights")
				case *ssa.Extract:
					// range over the slice: extract of next
					isElem = true
				}
				if x == ssa.Value(ph) && isElem {
					okStep = true
				} else {
					bad = "the sum is not advanced by one weight per iteration"
				}
			}
			if (!okInit || !okStep) && bad == "" {
				bad = "the divisor is not sum = 0; for each weight: sum += weight"
			}
		})
		if nDiv == 0 && bad == "" {
			bad = "no normalising division found in genTables"
		}
		if bad != "" {
			ob.Violate("%s", bad)
		} else {
			ob.HoldNT("%d division(s) by the sum of all weights", nDiv)
		}
	}
	ob = c.Obl("R2", tWD+".values#untouched-prefix", "the value table is a prefix of the generator's permutation of [0, max-min] and its elements are never modified (scaling by minValue happens only in Sample)")
	bad = ""
	for _, s := range p.Stores(tWD, "values") {
		tt := p.newTermer()
		tt.at = s.Instr
		got := tt.Term(s.Val)
		if !strings.HasPrefix(got, "Perm(") || !strings.Contains(got, "[:") {
			bad = "values is set to " + got + ", expected Perm(n)[:k]"
		}
	}
	// no element stores into values / the permutation
	for _, fn := range fns {
		allInstrs(fn, func(in ssa.Instruction) {
			st, ok := in.(*ssa.Store)
			if !ok {
				return
			}
			if ia, ok := st.Addr.(*ssa.IndexAddr); ok {
				base := unspill(ia.X)
				if isFieldLoad(base, tWD, "values") {
					bad = "an element of the value table is modified at " + p.InstrPos(st)
				}
				if pc, _ := callOf(base); pc != nil && p.CalleeID(pc.Common()) == "(*math/rand.Rand).Perm" {
					bad = "an element of the permutation is modified at " + p.InstrPos(st)
				}
				if sl, ok := base.(*ssa.Slice); ok {
					if pc, _ := callOf(unspill(sl.X)); pc != nil && p.CalleeID(pc.Common()) == "(*math/rand.Rand).Perm" {
						bad = "an element of the permutation is modified at " + p.InstrPos(st)
					}
				}
			}
		})
	}
	if bad != "" {
		ob.Violate("%s", bad)
	} else {
		ob.HoldNT("values = rng.Perm(max+1-min)[:n]; no element writes")
	}

	// ---- R3
	c06Drbg(c, p, "R3")
	ob = c.Obl("R3", "common/csrand:(csRandSource).Int63#shape", "the CSPRNG-backed source returns the big-endian uint64 of 8 fresh bytes with the top bit cleared")
	i63 := p.Func("common/csrand:(csRandSource).Int63")
	if i63 == nil {
		ob.Undecide("not found")
	} else {
		bad = "Int63 is not int64(BigEndian.Uint64(random 8 bytes) & (1<<63-1))"
		for _, r := range returnsOf(i63) {
			cv, ok := unspill(r.Results[0]).(*ssa.Convert)
			if !ok {
				continue
			}
			and, ok := unspill(cv.X).(*ssa.BinOp)
			if !ok || !clearsTopBit64(and) {
				continue
			}
			uc, _ := callOf(unspill(and.X))
			if uc != nil && p.CalleeID(uc.Common()) == "(encoding/binary.bigEndian).Uint64" {
				tt := p.newTermer()
				tt.at = uc
				if tt.Term(uc.Common().Args[1]) == "random" {
					bad = ""
				}
			}
		}
		if bad != "" {
			ob.Violate("%s", bad)
		} else {
			ob.HoldNT("BE64(csrand.Bytes(8)) & (1<<63-1)")
		}
	}

	// ---- R4
	b := p.NewBounds()
	ir := p.Func("common/csrand:IntRange")
	ob = c.Obl("R4", "common/csrand:IntRange#ensures", "IntRange(min, max) returns a value in [min, max] (inclusive on both ends): proved at its return from rand.Intn's contract")
	if ir == nil {
		ob.Undecide("IntRange not found")
	} else {
		c.Touch(p.FuncKey(ir))
		bad = ""
		for _, r := range returnsOf(ir) {
			r := r
			okp, why := b.Prove(ir, r, func(s *scope, pr *proof) []Cons {
				v := s.lin(r.Results[0], pr)
				return []Cons{ge(v, s.lin(ir.Params[0], pr)), le(v, s.lin(ir.Params[1], pr))}
			})
			if !okp {
				bad = why
			}
		}
		// exactness of the range: r = Intn((max+1)-min) + min
		lc := p.newLin()
		for _, r := range returnsOf(ir) {
			l := lc.Of(r.Results[0])
			// result = Intn(n) + min with n = max - min + 1
			okShape := false
			for name, co := range l.T {
				ic, _ := callOf(lc.rep[name])
				if co == 1 && ic != nil && (p.CalleeID(ic.Common()) == "(*math/rand.Rand).Intn" || p.CalleeID(ic.Common()) == M("$M/common/csrand.Intn")) {
					rest := l.Sub(Lin{T: map[string]int64{name: 1}})
					n := lc.Of(ic.Common().Args[len(ic.Common().Args)-1])
					want := lc.Of(ir.Params[1]).Sub(lc.Of(ir.Params[0])).Add(linConst(1))
					if rest.Equal(lc.Of(ir.Params[0])) && n.Equal(want) {
						okShape = true
					}
				}
			}
			if !okShape {
				bad = "IntRange computes " + l.String() + ", expected Intn((max+1)-min)+min (every value of [min,max] reachable)"
			}
		}
		if bad != "" {
			ob.Violate("%s", bad)
		} else {
			ob.HoldNT("min <= Intn((max+1)-min)+min <= max")
		}
	}
	// the other helpers get their documented ranges from math/rand: thin wrappers over the package's
	// rand.Rand, which is built over the CSPRNG source
	for _, w := range []struct{ fn, method, rng string }{{"Intn", "Intn", "[0, n)"}, {"Float64", "Float64", "[0.0, 1.0)"}} {
		ob = c.Obl("R4", "common/csrand:"+w.fn+"#delegates", "csrand."+w.fn+" returns "+w.rng+": it is exactly Rand."+w.method+"(its arguments) of the package-level math/rand.Rand over the CSPRNG source (a hand-rolled conversion is not decided here: float rounding can reach the excluded end)")
		fn := p.Func("common/csrand:" + w.fn)
		if fn == nil {
			ob.Undecide("csrand.%s not found", w.fn)
			continue
		}
		c.Touch(p.FuncKey(fn))
		bad = ""
		for _, r := range returnsOf(fn) {
			call, _ := callOf(unspill(r.Results[0]))
			if call == nil || p.CalleeID(call.Common()) != "(*math/rand.Rand)."+w.method {
				bad = "the value returned at " + p.InstrPos(r) + " is not the result of Rand." + w.method
				continue
			}
			a := call.Common().Args
			if !isGlobalLoadMod2(a[0], "common/csrand", "Rand") {
				bad = "the generator used at " + p.InstrPos(r) + " is not csrand.Rand"
			}
			for i, q := range fn.Params {
				if i+1 >= len(a) || unspill(a[i+1]) != ssa.Value(q) {
					bad = "the arguments are not handed through unchanged"
				}
			}
		}
		if bad != "" {
			ob.Violate("%s", bad)
		} else {
			ob.HoldNT("return Rand.%s(...)", w.method)
		}
	}
	ob = c.Obl("R4", "common/csrand:Bytes#reports-failure", "csrand.Bytes fills the whole slice from crypto/rand.Reader with io.ReadFull and returns nil only if that read succeeded: a failing entropy source is reported, never papered over (keys drawn from an unfilled buffer are publicly computable)")
	if bf := p.Func("common/csrand:Bytes"); bf == nil {
		ob.Undecide("csrand.Bytes not found")
	} else {
		c.Touch(p.FuncKey(bf))
		bad = ""
		var rd *ssa.Call
		for _, call := range p.CallsIn(bf, "io.ReadFull", "io.ReadAtLeast") {
			cv, ok := call.(*ssa.Call)
			if !ok || !p.isReadFull(cv) {
				continue
			}
			src := unspill(cv.Common().Args[0])
			if mi, isMI := src.(*ssa.MakeInterface); isMI {
				src = unspill(mi.X)
			}
			if ld, isLd := src.(*ssa.UnOp); isLd {
				if g, isG := ld.X.(*ssa.Global); isG && g.Pkg != nil && g.Pkg.Pkg.Path() == "crypto/rand" && g.Name() == "Reader" {
					if unspill(cv.Common().Args[1]) == ssa.Value(bf.Params[0]) {
						rd = cv
					}
				}
			}
		}
		if rd == nil {
			bad = "Bytes does not fill its argument with io.ReadFull(crypto/rand.Reader, buf)"
		} else {
			bff := p.Facts(bf)
			for _, r := range returnsOf(bf) {
				v := unspill(r.Results[0])
				if rc, idx := callOf(v); rc == rd && idx == 1 {
					continue // the read's own error
				}
				if bff.ProvablyNonNil(r.Results[0], r.Block(), 0) {
					continue
				}
				if !bff.SucceededCalls(r.Block())[rd] {
					bad = "the return at " + p.InstrPos(r) + " can report success although the read from crypto/rand.Reader failed or did not happen"
				}
			}
		}
		if bad != "" {
			ob.Violate("%s", bad)
		} else {
			ob.HoldNT("io.ReadFull(crypto/rand.Reader, buf); nil only after its success")
		}
	}
	ob = c.Obl("R4", "common/csrand.Rand#source", "csrand.Rand is rand.New(csRandSource) and is never replaced")
	bad = ""
	nst := 0
	for _, fn := range p.Funcs {
		allInstrs(fn, func(in ssa.Instruction) {
			st, ok := in.(*ssa.Store)
			if !ok {
				return
			}
			g, ok := st.Addr.(*ssa.Global)
			if !ok || g.Name() != "Rand" || g.Pkg == nil || relPkg(g.Pkg.Pkg.Path()) != "common/csrand" {
				return
			}
			nst++
			nc, _ := callOf(unspill(st.Val))
			if fn.Name() != "init" || nc == nil || p.CalleeID(nc.Common()) != "math/rand.New" {
				bad = "csrand.Rand is assigned at " + p.InstrPos(st) + " with something other than rand.New(...) in the package initialiser"
				return
			}
			mi, ok := unspill(nc.Common().Args[0]).(*ssa.MakeInterface)
			if !ok || !strings.HasSuffix(mi.X.Type().String(), "common/csrand.csRandSource") {
				bad = "csrand.Rand is not built over csRandSource"
			}
		})
	}
	if nst != 1 && bad == "" {
		bad = fmt.Sprintf("%d assignments of csrand.Rand", nst)
	}
	if bad != "" {
		ob.Violate("%s", bad)
	} else {
		ob.HoldNT("Rand = rand.New(csRandSourceInstance), once, in init")
	}
	set := map[*ssa.Function]bool{}
	for _, k := range []string{"common/probdist:(*WeightedDist).genValues", "common/csrand:IntRange", "common/csrand:Intn", "common/probdist:New"} {
		if fn := p.Func(k); fn != nil {
			set[fn] = true
		}
	}
	n := boundsRule(c, set, "R4", "R4", nil)
	ob = c.Obl("R4", "count", "anti-vacuity: table-size obligations found")
	if n < 3 {
		ob.Undecide("only %d", n)
	} else {
		ob.Hold("%d", n)
	}
	ob = c.Obl("R4", "common/probdist:(*WeightedDist).genValues#table-size", "the table has between 1 and 100 entries: 1 <= n <= 100 is provable at the slice values[:n]")
	gv := p.Func("common/probdist:(*WeightedDist).genValues")
	if gv == nil {
		ob.Undecide("genValues not found")
	} else {
		bad = "no slice of the permutation"
		allInstrs(gv, func(in ssa.Instruction) {
			sl, ok := in.(*ssa.Slice)
			if !ok || sl.High == nil {
				return
			}
			okp, why := b.Prove(gv, sl, func(s *scope, pr *proof) []Cons {
				v := s.lin(sl.High, pr)
				return []Cons{geC(v, 1), leC(v, 100)}
			})
			if okp {
				bad = ""
			} else {
				bad = why
			}
		})
		if bad != "" {
			ob.Violate("%s", bad)
		} else {
			ob.HoldNT("1 <= n <= 100")
		}
	}

	// ---- R5 locks
	c12Locks(c, p, "R5", reset, sample, reach)
}

// c12Locks: Reset and Sample are each one critical section (shared with C09:
// the client's reader goroutine re-seeds the distributions while its writer
// goroutine samples them).
func c12Locks(c *Ctx, p *Prog, rule string, reset, sample *ssa.Function, reach map[*ssa.Function]bool) {
	for _, fn := range []*ssa.Function{reset, sample} {
		ob := c.Obl(rule, p.FuncKey(fn)+"#single-critical-section", "the method locks the distribution's mutex once, defers the unlock, and every access to the tables follows the lock: concurrent Reset (reader goroutine) and Sample (writer goroutine) never see half-built tables")
		var lock *ssa.Call
		nl, nd, nu := 0, 0, 0
		allInstrs(fn, func(in ssa.Instruction) {
			call, ok := in.(ssa.CallInstruction)
			if !ok || len(call.Common().Args) == 0 || !isMutexOf(call.Common().Args[0], tWD) {
				return
			}
			switch p.CalleeID(call.Common()) {
			case "(*sync.Mutex).Lock":
				nl++
				lock, _ = call.(*ssa.Call)
			case "(*sync.Mutex).Unlock":
				if _, isD := call.(*ssa.Defer); isD {
					nd++
				} else {
					nu++
				}
			}
		})
		bad := ""
		explicit := nl == 1 && nd == 0 && nu >= 1
		if explicit {
			// Lock ... Unlock written out: every return is preceded by an Unlock, and no table access
			// or helper call comes after one
			unl := map[ssa.Instruction]bool{}
			allInstrs(fn, func(in ssa.Instruction) {
				if call, ok := in.(ssa.CallInstruction); ok && len(call.Common().Args) > 0 && isMutexOf(call.Common().Args[0], tWD) && p.CalleeID(call.Common()) == "(*sync.Mutex).Unlock" {
					unl[in] = true
				}
			})
			for _, r := range returnsOf(fn) {
				if canReachWithout(lock, r, unl) {
					bad = "the return at " + p.InstrPos(r) + " is reachable with the mutex still held"
				}
			}
			allInstrs(fn, func(in ssa.Instruction) {
				touches := false
				if fa, ok := in.(*ssa.FieldAddr); ok {
					if k, ok := fieldKeyOf(fa.X.Type(), fa.Field); ok && k.Type == tWD && k.Field != "Mutex" {
						touches = true
					}
				}
				if call, ok := in.(ssa.CallInstruction); ok {
					if sc := call.Common().StaticCallee(); sc != nil && reach[sc] && sc != fn && sc.Signature.Recv() != nil {
						touches = true
					}
				}
				if !touches {
					return
				}
				for u := range unl {
					if canReachWithout(u, in, nil) {
						bad = "the tables are touched at " + p.InstrPos(in) + " after the mutex was released"
					}
				}
			})
		}
		if !explicit && (nl != 1 || nd != 1 || nu != 0) {
			bad = fmt.Sprintf("%d Lock, %d deferred and %d direct Unlock", nl, nd, nu)
		} else if bad == "" {
			allInstrs(fn, func(in ssa.Instruction) {
				if fa, ok := in.(*ssa.FieldAddr); ok {
					if k, ok := fieldKeyOf(fa.X.Type(), fa.Field); ok && k.Type == tWD && k.Field != "Mutex" && !instrDominates(lock, fa) {
						bad = "field " + k.Field + " is accessed before the lock at " + p.InstrPos(fa)
					}
				}
				if call, ok := in.(ssa.CallInstruction); ok {
					if sc := call.Common().StaticCallee(); sc != nil && reach[sc] && sc != fn && sc.Signature.Recv() != nil && !instrDominates(lock, call) {
						bad = "helper " + sc.Name() + " is called before the lock"
					}
				}
			})
		}
		if bad != "" {
			ob.Violate("%s", bad)
		} else {
			ob.HoldNT("Lock; defer Unlock; all table accesses after the lock")
		}
	}
	// helpers only called from Reset
	ob := c.Obl(rule, "common/probdist#helpers-under-lock", "the table generators are unexported and called only from Reset (after its lock)")
	bad := ""
	for fn := range reach {
		if fn == reset || fn.Signature.Recv() == nil {
			continue
		}
		if fn.Object() != nil && fn.Object().Exported() {
			continue
		}
		for _, cs := range p.SitesOf(fn) {
			if cs.Caller != reset {
				bad = fn.Name() + " is also called from " + p.FuncKey(cs.Caller)
			}
		}
	}
	if bad != "" {
		ob.Violate("%s", bad)
	} else {
		ob.HoldNT("genValues/gen*Weights/genTables only from Reset")
	}
}

// c12Stateless: fields produced during Reset are written before they are read
// within the same Reset; only construction-time fields may be read from before.
func c12Stateless(c *Ctx, p *Prog, reset *ssa.Function, reach map[*ssa.Function]bool) {
	ob := c.Obl("R1", "common/probdist:(*WeightedDist).Reset#independent-of-previous-state", "a distribution is a pure function of seed, bounds and bias flag: every field the generation reads was either fixed at construction (minValue, maxValue, biased) or written earlier in the same Reset; nothing accumulates across Resets")
	// order of helper calls in Reset (dominance order; alternative arms allowed)
	var calls []ssa.CallInstruction
	allInstrs(reset, func(in ssa.Instruction) {
		if call, ok := in.(ssa.CallInstruction); ok {
			if sc := call.Common().StaticCallee(); sc != nil && reach[sc] && sc != reset {
				calls = append(calls, call)
			}
		}
	})
	written := map[string]bool{}
	config := map[string]bool{}
	st, _ := p.lookupType("common/probdist", "WeightedDist").Type().Underlying().(*types.Struct)
	for i := 0; st != nil && i < st.NumFields(); i++ {
		f := st.Field(i).Name()
		if p.constructionOnly(FieldKey{tWD, f}) {
			config[f] = true
		}
	}
	bad := ""
	// forward must-analysis over Reset: the set of fields certainly written
	// by the helpers called so far on every path.
	rpo := rpoIndex(reset)
	blocks := append([]*ssa.BasicBlock(nil), reset.Blocks...)
	sort.Slice(blocks, func(i, j int) bool { return rpo[blocks[i]] < rpo[blocks[j]] })
	out := map[*ssa.BasicBlock]map[string]bool{}
	helperWrites := map[*ssa.Function]map[string]bool{}
	for iter := 0; iter < 4; iter++ {
		for _, blk := range blocks {
			var in map[string]bool
			for _, pr := range blk.Preds {
				po, ok := out[pr]
				if !ok {
					continue // TOP
				}
				if in == nil {
					in = map[string]bool{}
					for f := range po {
						in[f] = true
					}
				} else {
					for f := range in {
						if !po[f] {
							delete(in, f)
						}
					}
				}
			}
			if in == nil {
				in = map[string]bool{}
			}
			for _, ins := range blk.Instrs {
				// Reset's own accesses (a generation step written out, or inlined, in Reset itself)
				if st, isSt := ins.(*ssa.Store); isSt {
					if k, ok := fieldAddrKeyDirect(st.Addr); ok && k.Type == tWD {
						in[k.Field] = true
					}
					continue
				}
				if u, isLd := ins.(*ssa.UnOp); isLd && u.Op == token.MUL {
					if k, ok := fieldAddrKeyDirect(u.X); ok && k.Type == tWD && k.Field != "Mutex" && !config[k.Field] && !in[k.Field] && iter == 3 && bad == "" {
						bad = "Reset reads field " + k.Field + " at " + p.InstrPos(u) + " before this Reset has written it"
					}
					continue
				}
				call, ok := ins.(ssa.CallInstruction)
				if !ok {
					continue
				}
				fn := call.Common().StaticCallee()
				if fn == nil || !reach[fn] || fn == reset {
					continue
				}
				w, bd := c12ScanHelper(p, fn, in, config, reach, 0)
				helperWrites[fn] = w
				if bd != "" && iter == 3 && bad == "" {
					bad = bd
				}
				for f := range w {
					in[f] = true
				}
			}
			out[blk] = in
		}
	}
	for _, blk := range blocks {
		if _, isRet := blk.Instrs[len(blk.Instrs)-1].(*ssa.Return); isRet {
			for f := range out[blk] {
				written[f] = true
			}
		}
	}
	if len(written) < 4 && bad == "" {
		bad = fmt.Sprintf("Reset produces only %v", keysOf(written))
	}
	if bad != "" {
		ob.Violate("%s", bad)
	} else {
		var ws []string
		for f := range written {
			ws = append(ws, f)
		}
		sort.Strings(ws)
		ob.HoldNT("configuration %v; produced in order %v; every read is of configuration or of a field already written in this Reset", keysOf(config), ws)
	}
}

func keysOf(m map[string]bool) []string {
	var out []string
	for k := range m {
		out = append(out, k)
	}
	sort.Strings(out)
	return out
}

// c12ScanHelper walks fn: a load of a WeightedDist field must be of config, of
// a field in `have`, or dominated by a store to that field inside fn.
func c12ScanHelper(p *Prog, fn *ssa.Function, have, config map[string]bool, reach map[*ssa.Function]bool, depth int) (map[string]bool, string) {
	writes := map[string]bool{}
	bad := ""
	var stores []*ssa.Store
	allInstrs(fn, func(in ssa.Instruction) {
		if st, ok := in.(*ssa.Store); ok {
			if k, ok := fieldAddrKeyDirect(st.Addr); ok && k.Type == tWD {
				stores = append(stores, st)
				writes[k.Field] = true
			}
		}
	})
	allInstrs(fn, func(in ssa.Instruction) {
		u, ok := in.(*ssa.UnOp)
		if !ok || u.Op != token.MUL {
			return
		}
		k, ok := fieldAddrKeyDirect(u.X)
		if !ok || k.Type != tWD || k.Field == "Mutex" {
			return
		}
		if config[k.Field] || have[k.Field] {
			return
		}
		for _, st := range stores {
			if sk, _ := fieldAddrKeyDirect(st.Addr); sk.Field == k.Field && instrDominates(st, u) {
				return
			}
		}
		bad = fmt.Sprintf("%s reads field %s at %s before this Reset has written it: the result depends on the distribution's previous state", fn.Name(), k.Field, p.InstrPos(u))
	})
	return writes, bad
}

func fieldAddrKeyDirect(v ssa.Value) (FieldKey, bool) {
	fa, ok := v.(*ssa.FieldAddr)
	if !ok {
		return FieldKey{}, false
	}
	return fieldKeyOf(fa.X.Type(), fa.Field)
}

// sameFieldLoad: two loads of the same field of the same object value.
func sameFieldLoad(a, b ssa.Value) bool {
	ka, ba, ok1 := fieldLoad(a)
	kb, bb, ok2 := fieldLoad(b)
	return ok1 && ok2 && ka == kb && unspill(ba) == unspill(bb)
}

// rpoIndex numbers fn's blocks in reverse postorder (a topological order of the
// forward edges).
func rpoIndex(fn *ssa.Function) map[*ssa.BasicBlock]int {
	seen := map[*ssa.BasicBlock]bool{}
	var post []*ssa.BasicBlock
	var dfs func(b *ssa.BasicBlock)
	dfs = func(b *ssa.BasicBlock) {
		seen[b] = true
		for _, s := range b.Succs {
			if !seen[s] {
				dfs(s)
			}
		}
		post = append(post, b)
	}
	if len(fn.Blocks) > 0 {
		dfs(fn.Blocks[0])
	}
	out := map[*ssa.BasicBlock]int{}
	for i, b := range post {
		out[b] = len(post) - 1 - i
	}
	return out
}

// isGlobalLoadMod2: v loads the package-level variable name of module package rel.
func isGlobalLoadMod2(v ssa.Value, rel, name string) bool {
	u, ok := unspill(v).(*ssa.UnOp)
	if !ok || u.Op != token.MUL {
		return false
	}
	g, ok := u.X.(*ssa.Global)
	return ok && g.Name() == name && g.Pkg != nil && relPkg(g.Pkg.Pkg.Path()) == rel
}
