package main

// C13 — obfs3 and UniformDH (DESIGN 4, C13).

import (
	"fmt"
	"go/token"
	"go/types"
	"strings"

	"golang.org/x/tools/go/ssa"
)

func init() {
	register(&PropInfo{
		ID: "C13", Level: "other", MinObls: 22,
		Explanation: "Modular arithmetic, AES-CTR and stream equality are not decided; decided are: R1 UniformDH structure: the private exponent has bit 0 cleared before the exponentiation g^x mod p, that bit selects X or p-X, both are serialised with FillBytes into a 192-byte buffer (always exactly 192 bytes, left-padded), the shared secret likewise, imported keys of any other length are refused; " +
			"R2 obfs3 key derivation against a spec table and a role table: INIT/RESP secrets and magics are HMAC-SHA256(shared secret, label) with the four labels, KEY = [:16], COUNTER = [16:], initiator sends with INIT and scans for the RESP magic, responder mirrored; MAX_PADDING 8194 and both padding draws in [0,4097]; " +
			"R3 magic scan: the search covers the whole receive buffer for the expected magic, fails once 8194+32 bytes were scanned without it and when it lies beyond 8194, and on a match drops exactly pos+len(magic) bytes keeping the rest; R4 buffer hand-over: the stream reader is rewired to the connection only when the handshake buffer is empty and the buffer object the reader was built over is never replaced; R5 short-read discipline, deadlines and bounded scan loop (C10 instances).",
		NotCovered: []string{"modular arithmetic and agreement of the shared secret (needs execution)", "AES-CTR", "byte-exact delivery under every segmentation"},
		Trusted:    []string{"go/types+go/ssa faithful", "math/big semantics (Exp, Sub, FillBytes left-pads)", "checker/spec/obfs3.json transcribes the obfs3 specification"},
		Run:        runC13,
	})
}

func runC13(c *Ctx) {
	wholeSliceToStream(c, c.P, "R4", "transports/obfs3:(*obfs3Conn).Write")
	wholeSliceFromStream(c, c.P, "R4", "transports/obfs3:(*obfs3Conn).Read")
	obfs3RewireOnAnyRead(c, c.P, "R4")
	obfs3PaddingLimitOnIndex(c, c.P, "R4")
	clearedOnlyOnSuccess(c, c.P, "R4", "transports/obfs3.obfs3Conn", "rxMagic", "transports/obfs3:(*obfs3Conn).Read", "findPeerMagic", "a Read after a failed scan must fail again, not hand out the junk that was buffered")
	noBackgroundConnWrites(c, c.P, newConnIO(c.P), "R4", "transports/obfs3")
	if !importing {
		importObls(c, "C10", runC10, "X10", func(k string) bool { return containsAny(k, "transports/obfs3", "common/uniformdh") })
		importObls(c, "C12", runC12, "X12", func(k string) bool { return containsAny(k, "common/csrand") })
	}
	p := c.P
	sharedDigestRule(c, p, "R2", "transports/obfs3", "common/uniformdh")
	spec, err := loadSpec("obfs3.json")
	if err != nil {
		c.Obl("R0", "spec", "spec table loads").Undecide("%v", err)
		return
	}
	evalSpec(c, p, spec, "R2", "R2", "R2")
	c13UniformDH(c, p)
	c13Kdf(c, p)
	c13Scan(c, p)
	c13Handover(c, p)
	cio := newConnIO(p)
	for _, k := range []string{"transports/obfs3:newObfs3ClientConn", "transports/obfs3:newObfs3ServerConn"} {
		if fn := p.Func(k); fn != nil {
			deadlineArmRule(c, "R5", fn, cio, 30e9)
		} else {
			c.Obl("R5", k, "constructor exists").Undecide("not found")
		}
	}
	if fn := p.Func("transports/obfs3:(*obfs3Conn).findPeerMagic"); fn != nil {
		// the scanner's raw read is the only one: the handshake reads its fixed-size fields with io.ReadFull
		set := map[*ssa.Function]bool{fn: true}
		if hs := p.Func("transports/obfs3:(*obfs3Conn).handshake"); hs != nil {
			set[hs] = true
			c.Touch(p.FuncKey(hs))
		}
		n := shortReadRule(c, "R5", p, cio, set, false)
		if n != 1 {
			c.Obl("R5", "findPeerMagic#read", "the magic scan reads the connection").Undecide("%d raw reads", n)
		}
	}
}

func c13UniformDH(c *Ctx, p *Prog) {
	gk := p.Func("common/uniformdh:generateKey")
	ob := c.Obl("R1", "common/uniformdh:generateKey#structure", "x has bit 0 cleared before X = g^x mod p; the cleared bit selects X (even) or p-X (odd); whichever is sent is written with FillBytes into a fresh 192-byte buffer (exactly 192 bytes, leading zeros kept); the stored public number is X and the stored exponent the even one")
	if gk == nil {
		ob.Undecide("generateKey not found")
		return
	}
	c.Touch(p.FuncKey(gk))
	bad := ""
	exps := p.CallsIn(gk, "(*math/big.Int).Exp")
	setbits := p.CallsIn(gk, "(*math/big.Int).SetBit")
	fills := p.CallsIn(gk, "(*math/big.Int).FillBytes")
	subs := p.CallsIn(gk, "(*math/big.Int).Sub")
	switch {
	case len(exps) != 1 || len(setbits) != 1 || len(subs) != 1 || len(fills) < 1 || len(fills) > 2:
		bad = fmt.Sprintf("%d Exp, %d SetBit, %d Sub, %d FillBytes calls; expected 1,1,1 and 1 or 2", len(exps), len(setbits), len(subs), len(fills))
	default:
		exp, sb, sub := exps[0].(*ssa.Call), setbits[0].(*ssa.Call), subs[0].(*ssa.Call)
		// big.Int methods return their receiver: compare objects, not call results
		expObj, subObj, sbObj := bigObj(p, exp), bigObj(p, sub), bigObj(p, sb)
		ea := exp.Common().Args // recv, base, exponent, modulus
		if !isGlobalLoadMod(ea[1], "gen") || !isGlobalLoadMod(ea[3], "modpGroup") {
			bad = "the exponentiation is not gen^x mod modpGroup"
		}
		if bigObj(p, ea[2]) != sbObj || !instrDominates(sb, exp) {
			bad = "the exponent is not the value with bit 0 cleared"
		}
		sa := sb.Common().Args // recv, x, i, b
		if i, _ := intConst(sa[2]); i != 0 {
			bad = "SetBit does not address bit 0"
		}
		if b, _ := intConst(sa[3]); b != 0 {
			bad = "SetBit does not clear the bit"
		}
		if bigObj(p, sa[1]) != sbObj {
			bad = "SetBit does not clear the bit of the exponent itself"
		}
		// nothing else modifies the exponent: a reduction or any other arithmetic on it after the bit
		// was cleared can set bit 0 again (or change the value the coin was taken from)
		allInstrs(gk, func(ins ssa.Instruction) {
			in, isCall := ins.(ssa.CallInstruction)
			if !isCall {
				return
			}
			sc := in.Common().StaticCallee()
			if sc == nil || sc.Signature.Recv() == nil || !isNamedType(sc.Signature.Recv().Type(), "math/big", "Int") || len(in.Common().Args) == 0 {
				return
			}
			if bigObj(p, in.Common().Args[0]) != sbObj || in == ssa.CallInstruction(sb) {
				return
			}
			switch sc.Name() {
			case "SetBytes", "Bit", "Bytes", "FillBytes", "Cmp", "CmpAbs", "BitLen", "Sign", "String", "Text", "IsInt64", "IsUint64", "TrailingZeroBits", "ProbablyPrime":
			default:
				bad = "the exponent is modified by " + sc.Name() + " at " + p.InstrPos(in) + ": it need no longer be the even number the coin belongs to"
			}
		})
		sua := sub.Common().Args
		if !isGlobalLoadMod(sua[1], "modpGroup") || bigObj(p, sua[2]) != expObj {
			bad = "the alternative public value is not modpGroup - X"
		}
		// the coin: bit 0 of the random exponent as drawn — Bit(x, 0) read BEFORE the bit is
		// cleared, or the low bit of the last (least significant, big-endian) byte of the
		// random bytes x was built from
		ff := p.Facts(gk)
		var bit *ssa.Call
		for _, bc := range p.CallsIn(gk, "(*math/big.Int).Bit") {
			if k, _ := intConst(bc.Common().Args[1]); k == 0 && bigObj(p, bc.Common().Args[0]) == sbObj && instrDominates(bc, sb) {
				bit = bc.(*ssa.Call)
			}
		}
		var rawBytes ssa.Value // the buffer x was loaded from
		for _, sbc := range p.CallsIn(gk, "(*math/big.Int).SetBytes") {
			if bigObj(p, sbc.Common().Args[0]) == sbObj {
				rawBytes = sbc.Common().Args[1]
			}
		}
		isCoin := func(v ssa.Value) bool {
			v = unspill(v)
			if bit != nil && v == ssa.Value(bit) {
				return true
			}
			and, ok := v.(*ssa.BinOp)
			if !ok || and.Op != token.AND || rawBytes == nil {
				return false
			}
			if k, _ := intConst(and.Y); k != 1 {
				return false
			}
			ld, ok := unspill(and.X).(*ssa.UnOp)
			if !ok || ld.Op != token.MUL {
				return false
			}
			ia, ok := ld.X.(*ssa.IndexAddr)
			if !ok || bufObjKey(ia.X) != bufObjKey(rawBytes) {
				return false
			}
			k, okk := intConst(ia.Index)
			return okk && k == 191
		}
		// parity known from a set of facts: +1 even, -1 odd, 0 unknown
		parity := func(fs []Fact) int {
			for _, fct := range fs {
				bo, ok := fct.Cond.(*ssa.BinOp)
				if !ok || !isCoin(bo.X) || (bo.Op != token.EQL && bo.Op != token.NEQ) {
					continue
				}
				k, okk := intConst(bo.Y)
				if !okk || (k != 0 && k != 1) {
					continue
				}
				isZero := (bo.Op == token.EQL) == (k == 0) // condition true means bit == 0
				if isZero == fct.Pol {
					return 1
				}
				return -1
			}
			return 0
		}
		checkSel := func(par int, recv ssa.Value, where string) {
			switch {
			case par > 0 && bigObj(p, recv) != expObj:
				bad = "an even exponent does not send X (" + where + ")"
			case par < 0 && bigObj(p, recv) != subObj:
				bad = "an odd exponent does not send p-X (" + where + ")"
			case par == 0:
				bad = "what is serialised at " + where + " is not selected by the parity coin"
			}
		}
		if bit == nil && rawBytes == nil {
			bad = "the parity coin is not read before the bit is cleared"
		}
		for _, fc := range fills {
			f := fc.(*ssa.Call)
			recv := f.Common().Args[0]
			if ph, isPhi := recv.(*ssa.Phi); isPhi && phiAlias(ph) == nil {
				for i, e := range ph.Edges {
					pred := ph.Block().Preds[i]
					fs := append([]Fact{}, ff.NC(pred)...)
					if ef, ok := edgeFact(pred, ph.Block()); ok {
						fs = append(fs, ef)
					}
					checkSel(parity(fs), e, p.InstrPos(f))
				}
			} else {
				checkSel(parity(ff.NC(f.Block())), recv, p.InstrPos(f))
			}
			if l := bufLenTerm(p, p.newTermer(), f.Common().Args[1]); l != "192" {
				bad = "the public key buffer is " + l + " bytes, expected 192"
			}
		}
		// bytes field = that buffer; publicKey field = X; privateKey field = even exponent
		for _, s := range p.Stores("common/uniformdh.PublicKey", "bytes") {
			if s.Fn != gk {
				continue
			}
			okB := false
			for _, fc := range fills {
				if bufObjKey(s.Val) == bufObjKey(fc.Common().Args[1]) || unspill(s.Val) == ssa.Value(fc.(*ssa.Call)) {
					okB = true
				}
			}
			if !okB {
				bad = "PublicKey.bytes is not the buffer FillBytes filled"
			}
		}
		for _, s := range p.Stores("common/uniformdh.PublicKey", "publicKey") {
			if s.Fn == gk && bigObj(p, s.Val) != expObj {
				bad = "the stored public number is not X"
			}
		}
		for _, s := range p.Stores("common/uniformdh.PrivateKey", "privateKey") {
			if s.Fn == gk && (bigObj(p, s.Val) != sbObj) {
				bad = "the stored exponent is not the even one"
			}
		}
		// no other way to fill the key bytes (copy of Bytes() would left-align)
		for _, cp := range p.CallsIn(gk, "builtin:copy") {
			bad = "public key bytes are produced with copy() at " + p.InstrPos(cp) + " (big.Int.Bytes() drops leading zeros: the value would be left-aligned)"
		}
	}
	if bad != "" {
		ob.Violate("%s", bad)
	} else {
		ob.HoldNT("coin=Bit(x,0); x'=SetBit(x,0,0); X=gen^x' mod p; even: X.FillBytes(buf[192]) / odd: (p-X).FillBytes(buf[192])")
	}

	ob = c.Obl("R1", "common/uniformdh:Handshake#structure", "the shared secret is peer^x mod p written with FillBytes into a fresh 192-byte buffer")
	hf := p.Func("common/uniformdh:Handshake")
	if hf == nil {
		ob.Undecide("Handshake not found")
	} else {
		c.Touch(p.FuncKey(hf))
		bad := ""
		exps := p.CallsIn(hf, "(*math/big.Int).Exp")
		fills := p.CallsIn(hf, "(*math/big.Int).FillBytes")
		if len(exps) != 1 || len(fills) != 1 {
			bad = "Handshake does not consist of one Exp and one FillBytes"
		} else {
			ea := exps[0].Common().Args
			if !isFieldLoad(ea[1], "common/uniformdh.PublicKey", "publicKey") || !isFieldLoad(ea[2], "common/uniformdh.PrivateKey", "privateKey") || !isGlobalLoadMod(ea[3], "modpGroup") {
				bad = "the shared secret is not publicKey^privateKey mod modpGroup"
			}
			if unspill(fills[0].Common().Args[0]) != ssa.Value(exps[0].(*ssa.Call)) {
				bad = "the bytes returned are not those of the shared secret"
			}
			if l := bufLenTerm(p, p.newTermer(), fills[0].Common().Args[1]); l != "192" {
				bad = "the shared secret buffer is " + l + " bytes, expected 192"
			}
			for _, r := range returnsOf(hf) {
				if k, isC := r.Results[0].(*ssa.Const); isC && k.IsNil() {
					continue // error return
				}
				if bufObjKey(r.Results[0]) != bufObjKey(fills[0].Common().Args[1]) && unspill(r.Results[0]) != ssa.Value(fills[0].(*ssa.Call)) {
					bad = "Handshake does not return the filled buffer"
				}
			}
		}
		if bad != "" {
			ob.Violate("%s", bad)
		} else {
			ob.HoldNT("secret = pub^priv mod p; FillBytes(make(192))")
		}
	}
	ob = c.Obl("R1", "common/uniformdh:(*PublicKey).SetBytes#length", "an imported public key is accepted only if it is exactly 192 bytes and is stored as a private copy")
	sf := p.Func("common/uniformdh:(*PublicKey).SetBytes")
	if sf == nil {
		ob.Undecide("SetBytes not found")
		return
	}
	ff := p.Facts(sf)
	bad = ""
	for _, r := range ff.SuccessReturns() {
		if !hasFact(ff.NC(r.Block()), func(f Fact) bool {
			bo, ok := f.Cond.(*ssa.BinOp)
			if !ok {
				return false
			}
			op := bo.Op
			if !f.Pol {
				op = negOp(op)
			}
			k, isK := intConst(bo.Y)
			return isK && k == 192 && op == token.EQL
		}) {
			bad = "SetBytes accepts keys whose length is not 192"
		}
	}
	for _, s := range p.Stores("common/uniformdh.PublicKey", "bytes") {
		if s.Fn == sf {
			var by []ssa.Instruction
			for _, r := range ff.SuccessReturns() {
				by = append(by, r)
			}
			if ok, why := p.privateCopyOf(sf, s.Val, sf.Params[1], by); !ok {
				bad = "the imported bytes are not copied (" + why + ")"
			}
		}
	}
	if bad != "" {
		ob.Violate("%s", bad)
	} else {
		ob.HoldNT("len == 192 guards success; bytes.Clone")
	}
}

func isGlobalLoadMod(v ssa.Value, name string) bool {
	u, ok := unspill(v).(*ssa.UnOp)
	if !ok || u.Op != token.MUL {
		return false
	}
	g, ok := u.X.(*ssa.Global)
	return ok && g.Name() == name && g.Pkg != nil && isModulePkg(g.Pkg.Pkg)
}

func c13Kdf(c *Ctx, p *Prog) {
	kdf := p.Func("transports/obfs3:(*obfs3Conn).kdf")
	if kdf == nil {
		c.Obl("R2", "transports/obfs3:(*obfs3Conn).kdf", "kdf exists").Undecide("not found")
		return
	}
	c.Touch(p.FuncKey(kdf))
	const tC = "transports/obfs3.obfs3Conn"
	hm := func(label string) string { return `hmac-sha256[$1]{"` + label + `"}` }
	init := "ctr[aes[" + hm("Initiator obfuscated data") + "[:16]];iv=" + hm("Initiator obfuscated data") + "[16:]]"
	resp := "ctr[aes[" + hm("Responder obfuscated data") + "[:16]];iv=" + hm("Responder obfuscated data") + "[16:]]"
	tx, e1 := roleStores(p, kdf, "crypto/cipher.StreamWriter", "S", tC)
	rx, e2 := roleStores(p, kdf, "crypto/cipher.StreamReader", "S", tC)
	txm, e3 := roleStores(p, kdf, tC, "txMagic", tC)
	rxm, e4 := roleStores(p, kdf, tC, "rxMagic", tC)
	checkRoleTable(c, "R2", "transports/obfs3:(*obfs3Conn).kdf#tx-streams", "the initiator encrypts with AES-CTR(INIT_KEY, INIT_COUNTER), the responder with the RESP pair; secrets are HMAC-SHA256(SHARED_SECRET, label), KEY = [:16], COUNTER = [16:]", tx, e1, map[string]string{"initiator": init, "responder": resp})
	checkRoleTable(c, "R2", "transports/obfs3:(*obfs3Conn).kdf#rx-streams", "each role decrypts with the stream its peer encrypts with", rx, e2, map[string]string{"initiator": resp, "responder": init})
	checkRoleTable(c, "R2", "transports/obfs3:(*obfs3Conn).kdf#tx-magic", "each role sends HMAC(SHARED_SECRET, its own magic label)", txm, e3, map[string]string{"initiator": hm("Initiator magic"), "responder": hm("Responder magic")})
	checkRoleTable(c, "R2", "transports/obfs3:(*obfs3Conn).kdf#rx-magic", "each role scans for the magic its peer sends", rxm, e4, map[string]string{"initiator": hm("Responder magic"), "responder": hm("Initiator magic")})
	// rx reader reads the handshake buffer first, tx writer writes to the connection
	ob := c.Obl("R2", "transports/obfs3:(*obfs3Conn).kdf#endpoints", "the decrypting reader is built over the handshake receive buffer (bytes that followed the magic are decrypted first) and the encrypting writer over the connection")
	bad := ""
	for _, s := range p.Stores("crypto/cipher.StreamReader", "R") {
		if s.Fn == kdf && !isFieldLoad(stripConv(s.Val), tC, "rxBuf") {
			bad = "the reader is not built over conn.rxBuf"
		}
	}
	for _, s := range p.Stores("crypto/cipher.StreamWriter", "W") {
		if s.Fn == kdf && !isFieldLoad(stripConv(s.Val), tC, "Conn") {
			bad = "the writer is not built over the connection"
		}
	}
	if bad != "" {
		ob.Violate("%s", bad)
	} else {
		ob.HoldNT("rx.R = conn.rxBuf; tx.W = conn.Conn")
	}
}

func c13Scan(c *Ctx, p *Prog) {
	fm := p.Func("transports/obfs3:(*obfs3Conn).findPeerMagic")
	ob := c.Obl("R3", "transports/obfs3:(*obfs3Conn).findPeerMagic#scan", "after every read the WHOLE receive buffer is searched for the expected magic (a magic straddling two reads is found); without a match the scan fails once 8194+32 bytes are buffered; a match beyond 8194 bytes of padding fails; on a match exactly pos+len(magic) bytes are dropped and the rest stays buffered")
	if fm == nil {
		ob.Undecide("findPeerMagic not found")
		return
	}
	c.Touch(p.FuncKey(fm))
	const tC = "transports/obfs3.obfs3Conn"
	idx := p.CallsIn(fm, "bytes.Index")
	bad := ""
	if len(idx) != 1 {
		ob.Violate("%d bytes.Index calls", len(idx))
		return
	}
	ix := idx[0].(*ssa.Call)
	a := ix.Common().Args
	bc, _ := callOf(unspill(a[0]))
	if bc == nil || p.CalleeID(bc.Common()) != "(*bytes.Buffer).Bytes" || !isFieldLoad(bc.Common().Args[0], tC, "rxBuf") {
		bad = "the search does not cover the whole receive buffer (conn.rxBuf.Bytes()): a magic split across two reads would be missed"
	}
	if !isFieldLoad(a[1], tC, "rxMagic") {
		bad = "the value searched for is not conn.rxMagic"
	}
	ff := p.Facts(fm)
	// success return: pos != -1, pos <= 8194, Next(pos+len(magic))
	bd := p.NewBounds()
	for _, r := range ff.SuccessReturns() {
		r := r
		// proved from everything known at the return: 0 <= pos <= 8194
		okRange, _ := bd.Prove(fm, r, func(s *scope, pr *proof) []Cons {
			v := s.lin(ix, pr)
			return []Cons{geC(v, 0), leC(v, 8194)}
		})
		if !okRange {
			bad = "success does not require the magic to be found within MAX_PADDING (8194) bytes"
		}
		okNext := false
		for _, nc := range p.CallsIn(fm, "(*bytes.Buffer).Next") {
			if !instrDominates(nc, r) || !isFieldLoad(nc.Common().Args[0], tC, "rxBuf") {
				continue
			}
			ncall, isCall := nc.(*ssa.Call)
			if !isCall {
				continue
			}
			// dropped = pos + len(magic searched for)
			okEq, _ := bd.Prove(fm, ncall, func(s *scope, pr *proof) []Cons {
				ml, _ := s.lenLin(a[1], pr)
				return eq(s.lin(nc.Common().Args[1], pr), s.lin(ix, pr).Add(ml))
			})
			if okEq {
				okNext = true
			}
		}
		if !okNext {
			bad = "the bytes dropped on a match are not exactly pos + len(magic)"
		}
	}
	// no Reset/Truncate of rxBuf
	allInstrs(fm, func(in ssa.Instruction) {
		if call, ok := in.(*ssa.Call); ok {
			r, m, _ := recvOf(call)
			if r != nil && isFieldLoad(r, tC, "rxBuf") && (m == "Reset" || m == "Truncate") {
				bad = m + " of the receive buffer loses data that followed the magic"
			}
		}
	})
	if bad != "" {
		ob.Violate("%s", bad)
	} else {
		ob.HoldNT("bytes.Index(rxBuf.Bytes(), rxMagic); pos != -1 && pos <= 8194; rxBuf.Next(pos+len(rxMagic))")
	}
	// the scanner blocks on a read before it looks at the buffer: nothing else may put bytes there
	ob = c.Obl("R3", tC+".rxBuf#writers", "the handshake receive buffer is filled only by the magic scanner itself, with the bytes of the read it has just done (bytes stashed there by anyone else would sit unseen while the scanner blocks on its next read)")
	bad = ""
	nw := 0
	for _, fn := range p.Funcs {
		allInstrs(fn, func(in ssa.Instruction) {
			call, ok := in.(ssa.CallInstruction)
			if !ok {
				return
			}
			r, m, args := recvOf(call)
			if r != nil && isFieldLoad(r, tC, "rxBuf") {
				if !accWriteMethods[m] {
					return
				}
				nw++
				if fn != fm {
					bad = "conn.rxBuf is written in " + p.FuncKey(fn) + " at " + p.InstrPos(call)
					return
				}
				// Write(buf[:n]) with n the count of a connection read that dominates it
				okSrc := false
				if sl, isSl := unspill(args[0]).(*ssa.Slice); isSl && sl.Low == nil && sl.High != nil {
					if rc, idx := callOf(unspill(sl.High)); rc != nil && idx == 0 && rc.Common().IsInvoke() && rc.Common().Method.Name() == "Read" &&
						len(rc.Common().Args) == 1 && bufObjKey(rc.Common().Args[0]) == bufObjKey(sl) && instrDominates(rc, call) {
						okSrc = true
					}
				}
				if !okSrc {
					bad = "the bytes written to conn.rxBuf at " + p.InstrPos(call) + " are not buf[:n] of the read just done"
				}
				return
			}
			for _, a := range call.Common().Args {
				if isFieldLoad(a, tC, "rxBuf") && (r == nil || a != r) {
					id := p.CalleeID(call.Common())
					if id == "bytes.NewBuffer" || strings.HasPrefix(id, "builtin:") {
						continue
					}
					if sc := call.Common().StaticCallee(); sc != nil && !p.inModule(sc) && fn != fm {
						bad = "conn.rxBuf is handed to " + id + " in " + p.FuncKey(fn)
					}
				}
			}
		})
	}
	if nw == 0 && bad == "" {
		bad = "no writer of conn.rxBuf found"
	}
	if bad != "" {
		ob.Violate("%s", bad)
	} else {
		ob.HoldNT("%d writer(s), in findPeerMagic, each Write(buf[:n]) of the preceding read", nw)
	}
	// bounded: covered by C10.R2 instance; repeat here
	ob = c.Obl("R3", "transports/obfs3:(*obfs3Conn).findPeerMagic#bounded", "peers that send more than MAX_PADDING + 32 bytes without the magic are rejected: the scan loop iterates again only while rxBuf.Len() < 8226")
	b := p.NewBounds()
	okB := false
	why := "no back edge"
	for _, head := range fm.Blocks {
		for _, pred := range head.Preds {
			if isBackEdge(pred, head) {
				fs := append([]Fact{}, ff.NC(pred)...)
				if ef, ok := edgeFact(pred, head); ok {
					fs = append(fs, ef)
				}
				okB, why = c10BackEdgeBounded(p, b, fm, fs)
				if okB && !strings.Contains(why, "< 8226") {
					okB, why = false, "the bound is not MAX_PADDING+32 = 8226 ("+why+")"
				}
			}
		}
	}
	if okB {
		ob.HoldNT("%s", why)
	} else {
		ob.Violate("%s", why)
	}
}

func c13Handover(c *Ctx, p *Prog) {
	const tC = "transports/obfs3.obfs3Conn"
	rd := p.Func("transports/obfs3:(*obfs3Conn).Read")
	ob := c.Obl("R4", "transports/obfs3:(*obfs3Conn).Read#handover", "the stream reader is switched from the handshake buffer to the connection only when that buffer is empty (nothing received with the magic is skipped), and the buffer object the reader was built over is never replaced by another one")
	if rd == nil {
		ob.Undecide("Read not found")
		return
	}
	c.Touch(p.FuncKey(rd))
	ff := p.Facts(rd)
	bad := ""
	n := 0
	for _, s := range p.Stores("crypto/cipher.StreamReader", "R") {
		if s.Fn != rd {
			if relPkg(s.Fn.Pkg.Pkg.Path()) == "transports/obfs3" && s.Fn.Name() != "kdf" {
				bad = "the reader is rewired in " + p.FuncKey(s.Fn)
			}
			continue
		}
		n++
		if !isFieldLoad(stripConv(s.Val), tC, "Conn") {
			bad = "the reader is rewired to something other than the connection"
		}
		if !hasFact(ff.NC(s.Instr.Block()), func(f Fact) bool {
			bo, ok := f.Cond.(*ssa.BinOp)
			if !ok || !isBufLenOf(p, bo.X, tC, "rxBuf") {
				return false
			}
			k, isK := intConst(bo.Y)
			op := bo.Op
			if !f.Pol {
				op = negOp(op)
			}
			return isK && k == 0 && (op == token.EQL || op == token.LEQ)
		}) {
			bad = "the reader is rewired while the handshake buffer may still hold data"
		}
	}
	if n != 1 && bad == "" {
		bad = fmt.Sprintf("%d rewiring stores in Read, expected 1", n)
	}
	for _, s := range p.Stores(tC, "rxBuf") {
		if _, isAlloc := s.Base.(*ssa.Alloc); isAlloc {
			continue // constructor
		}
		if k, ok := s.Val.(*ssa.Const); ok && k.IsNil() {
			continue
		}
		bad = "conn.rxBuf is replaced at " + p.InstrPos(s.Instr) + ": the stream reader keeps reading the old buffer"
	}
	// magic found only once: rxMagic cleared after success
	okClr := false
	for _, s := range p.Stores(tC, "rxMagic") {
		if s.Fn == rd {
			if k, ok := s.Val.(*ssa.Const); ok && k.IsNil() {
				okClr = true
			}
		}
	}
	if !okClr && bad == "" {
		bad = "rxMagic is not cleared after the magic was found: every Read would scan again"
	}
	if bad != "" {
		ob.Violate("%s", bad)
	} else {
		ob.HoldNT("rx.R = conn.Conn only under rxBuf.Len() == 0; rxBuf only ever set to nil")
	}
	// write side: magic sent once before first data
	wr := p.Func("transports/obfs3:(*obfs3Conn).Write")
	ob = c.Obl("R4", "transports/obfs3:(*obfs3Conn).Write#magic-once", "the first Write sends padding | own magic before any data, exactly once (txMagic cleared after a successful send)")
	if wr == nil {
		ob.Undecide("Write not found")
		return
	}
	wff := p.Facts(wr)
	bad = ""
	okClr = false
	for _, s := range p.Stores(tC, "txMagic") {
		if s.Fn == wr {
			if k, ok := s.Val.(*ssa.Const); ok && k.IsNil() {
				okClr = true
				if len(wff.SucceededCalls(s.Instr.Block())) == 0 {
					bad = "txMagic is cleared although sending it may have failed"
				}
			}
		}
	}
	if !okClr {
		bad = "txMagic is never cleared"
	}
	// blob layout: copy(blob[padLen:], txMagic), random fill blob[:padLen]
	okCopy := false
	for _, cp := range p.CallsIn(wr, "builtin:copy") {
		a := cp.Common().Args
		if sl, ok := unspill(a[0]).(*ssa.Slice); ok && sl.Low != nil && sl.High == nil && isFieldLoad(a[1], tC, "txMagic") {
			if ic, _ := callOf(unspill(sl.Low)); ic != nil && p.CalleeID(ic.Common()) == M("$M/common/csrand.IntRange") {
				okCopy = true
			}
		}
	}
	// or: blob := make([]byte, padLen, ...); csrand.Bytes(blob); blob = append(blob, txMagic...)
	for _, ap := range p.CallsIn(wr, "builtin:append") {
		a := ap.Common().Args
		if len(a) != 2 || !isFieldLoad(a[1], tC, "txMagic") {
			continue
		}
		base := unspill(a[0])
		var lenV ssa.Value
		switch x := base.(type) {
		case *ssa.MakeSlice:
			lenV = x.Len
		case *ssa.Slice:
			if x.Low == nil && x.High != nil {
				lenV = x.High
			}
		}
		if lenV == nil {
			continue
		}
		ic, _ := callOf(unspill(lenV))
		if ic == nil || p.CalleeID(ic.Common()) != M("$M/common/csrand.IntRange") {
			continue
		}
		for _, rb := range p.CallsIn(wr, "$M/common/csrand.Bytes") {
			if unspill(rb.Common().Args[0]) == base && instrDominates(rb, ap) {
				okCopy = true
			}
		}
	}
	if !okCopy && bad == "" {
		bad = "the magic is not placed right behind the random padding"
	}
	if bad != "" {
		ob.Violate("%s", bad)
	} else {
		ob.HoldNT("blob = random[padLen] | txMagic; txMagic = nil after a successful write")
	}
}

// bigObj resolves a *big.Int value to the object it designates: big.Int
// methods return their receiver.
func bigObj(p *Prog, v ssa.Value) ssa.Value {
	for i := 0; i < 16; i++ {
		v = unspill(v)
		c, ok := v.(*ssa.Call)
		if !ok || !strings.HasPrefix(p.CalleeID(c.Common()), "(*math/big.Int).") || len(c.Common().Args) == 0 {
			return v
		}
		if _, isPtr := c.Type().Underlying().(*types.Pointer); !isPtr {
			return v
		}
		v = c.Common().Args[0]
	}
	return v
}

// obfs3RewireOnAnyRead: the bytes that followed the peer's magic sit in a temporary buffer; whichever Read finds
// that buffer empty switches the stream reader over to the connection.  If the switch were made only by the Read
// that found the magic, data arriving in the same segment as the magic would leave the reader on the (soon
// empty) buffer for ever: every later Read reports EOF.
func obfs3RewireOnAnyRead(c *Ctx, p *Prog, rule string) {
	const key = "transports/obfs3:(*obfs3Conn).Read"
	ob := c.Obl(rule, key+"#rewire-on-any-read", "the switch from the handshake buffer to the connection (rxBuf = nil) is reachable on every Read, not only on the one that found the magic: no condition on the way tests rxMagic")
	fn := p.Func(key)
	if fn == nil {
		ob.Undecide("not found")
		return
	}
	ff := p.Facts(fn)
	n := 0
	bad := ""
	for _, s := range p.Stores("transports/obfs3.obfs3Conn", "rxBuf") {
		if s.Fn != fn || !isNilConst(unspill(s.Val)) {
			continue
		}
		n++
		for _, f := range ff.NC(s.Instr.Block()) {
			x, _, ok := FactNilCmp(f)
			if ok && isFieldLoad(unspill(x), "transports/obfs3.obfs3Conn", "rxMagic") {
				bad = "the switch at " + p.InstrPos(s.Instr) + " happens only under a test of rxMagic (the Read that found the magic)"
			}
		}
	}
	switch {
	case n == 0:
		ob.Violate("Read never abandons the handshake buffer")
	case bad != "":
		ob.Violate("%s", bad)
	default:
		ob.HoldNT("%d switch site(s), independent of rxMagic", n)
	}
}

// obfs3PaddingLimitOnIndex: the "too much padding" verdict compares the position at which the magic was found
// with MAX_PADDING — the position itself, before the magic's own length is added to it (a conforming peer may
// use the whole allowance).
func obfs3PaddingLimitOnIndex(c *Ctx, p *Prog, rule string) {
	const key = "transports/obfs3:(*obfs3Conn).findPeerMagic"
	ob := c.Obl(rule, key+"#limit-on-position", "the padding limit is tested on the result of bytes.Index itself (pos > maxPadding), not on a value to which the magic's length was already added")
	fn := p.Func(key)
	if fn == nil {
		ob.Undecide("not found")
		return
	}
	n := 0
	bad := ""
	allInstrs(fn, func(in ssa.Instruction) {
		bo, ok := in.(*ssa.BinOp)
		if !ok || (bo.Op != token.GTR && bo.Op != token.GEQ && bo.Op != token.LSS && bo.Op != token.LEQ) {
			return
		}
		x, y := bo.X, bo.Y
		if _, isC := x.(*ssa.Const); isC {
			x, y = y, x
		}
		k, ok := intConst(y)
		if !ok || (k != 8194 && k != 8195) {
			return
		}
		// only comparisons of a position (derived from bytes.Index), not of the buffer length
		cl, _ := callOf(unspill(x))
		if cl != nil && p.CalleeID(cl.Common()) == "(*bytes.Buffer).Len" {
			return
		}
		n++
		if cl == nil || p.CalleeID(cl.Common()) != "bytes.Index" {
			bad = "the value compared with the limit at " + p.InstrPos(in) + " is not the bytes.Index result itself"
		}
	})
	switch {
	case bad != "":
		ob.Violate("%s", bad)
	case n == 0:
		ob.Undecide("no comparison of the magic's position with MAX_PADDING found")
	default:
		ob.HoldNT("pos > maxPadding on the index itself")
	}
}
