package main

// C14 — obfs2 (DESIGN 4, C14) and the shared role-table helper used by C13.

import (
	"fmt"
	"go/token"
	"sort"
	"strings"

	"golang.org/x/tools/go/ssa"
)

func init() {
	register(&PropInfo{
		ID: "C14", Level: "other", MinObls: 20,
		Explanation: "Stream equality under segmentation needs execution; decided statically: R1 the key derivation against a spec table (E7 terms): MAC(s,x)=SHA256(s|x|s), KEY/IV = MAC[:16]/MAC[16:], the four label strings, magic 0x2BF5CA7E, MAX_PADDING 8192, PADLEN in [0,8192], session secrets over INIT_SEED|RESP_SEED ordered by role with nothing in front of them, pad keys from each side's own label; " +
			"R2 role table: which stream (initiator/responder) each role installs for sending and receiving, mirrored between the roles; R3 handshake success requires the peer's magic to match and PADLEN <= 8192, and every PADLEN in [0,8192] is accepted; R4 segmentation independence and exact consumption: the handshake reads exactly the 16-byte seed, the 8-byte header and PADLEN bytes of padding, each with one io.ReadFull outside any loop, in that order; what is sent is seed | E(magic | padlen | random padding); R5 deadline typestate of both constructors (C10.R1).",
		NotCovered: []string{"delivery of exactly the bytes written under every segmentation (needs execution)", "AES-CTR and SHA-256 themselves"},
		Trusted:    []string{"go/types+go/ssa faithful", "checker/spec/obfs2.json transcribes the obfs2 specification", "cipher.StreamReader/StreamWriter are transparent stream ciphers"},
		Run:        runC14,
	})
}

// roleStores evaluates, for every store in fn to field `field` of the
// (library) struct type typ, the role (polarity of the dominating fact on the
// conn's isInitiator field) and the E7 term of the stored value.
func roleStores(p *Prog, fn *ssa.Function, typ, field, connType string) (map[string]string, []string) {
	out := map[string]string{}
	var errs []string
	ff := p.Facts(fn)
	for _, s := range p.Stores(typ, field) {
		if s.Fn != fn {
			continue
		}
		role := ""
		for _, f := range ff.NC(s.Instr.Block()) {
			if isFieldLoad(f.Cond, connType, "isInitiator") {
				if f.Pol {
					role = "initiator"
				} else {
					role = "responder"
				}
			}
		}
		if role == "" {
			// one store for both roles whose value was selected by the role earlier
			// (tx, rx := a, b; if initiator { tx, rx = rx, tx }): resolve the merged
			// value once per role
			okBoth := true
			for _, r := range []string{"initiator", "responder"} {
				v, ok := resolveForRole(ff, s.Val, connType, r == "initiator", 0)
				if !ok {
					okBoth = false
					break
				}
				t := p.newTermer()
				t.at = s.Instr
				t.resolvePhi = roleResolver(ff, connType, r == "initiator")
				out[r] = t.Term(v)
				errs = append(errs, t.errs...)
			}
			if !okBoth {
				errs = append(errs, "store at "+p.InstrPos(s.Instr)+" is not role-dependent")
			}
			continue
		}
		t := p.newTermer()
		t.at = s.Instr
		t.resolvePhi = roleResolver(ff, connType, role == "initiator")
		out[role] = t.Term(s.Val)
		errs = append(errs, t.errs...)
	}
	return out, errs
}

func checkRoleTable(c *Ctx, rule, key, text string, got map[string]string, errs []string, want map[string]string) {
	ob := c.Obl(rule, key, text)
	if len(errs) > 0 {
		ob.Undecide("%s", strings.Join(errs, "; "))
		return
	}
	var diffs []string
	var keys []string
	for k := range want {
		keys = append(keys, k)
	}
	sort.Strings(keys)
	for _, k := range keys {
		if !termEq(got[k], want[k]) {
			diffs = append(diffs, fmt.Sprintf("%s: got %s, spec %s", k, got[k], want[k]))
		}
	}
	if len(diffs) > 0 {
		ob.Violate("%s", strings.Join(diffs, "\n      "))
	} else {
		ob.HoldNT("%v", got)
	}
}

func runC14(c *Ctx) {
	wholeSliceToStream(c, c.P, "R4", "transports/obfs2:(*obfs2Conn).Write")
	wholeSliceFromStream(c, c.P, "R4", "transports/obfs2:(*obfs2Conn).Read")
	noBackgroundConnWrites(c, c.P, newConnIO(c.P), "R4", "transports/obfs2")
	if !importing {
		importObls(c, "C10", runC10, "X10", func(k string) bool { return containsAny(k, "transports/obfs2") })
		importObls(c, "C12", runC12, "X12", func(k string) bool { return containsAny(k, "common/csrand") })
	}
	p := c.P
	sharedDigestRule(c, p, "R1", "transports/obfs2")
	spec, err := loadSpec("obfs2.json")
	if err != nil {
		c.Obl("R0", "spec", "spec table loads").Undecide("%v", err)
		return
	}
	evalSpec(c, p, spec, "R1", "R1", "R1")
	kdf := p.Func("transports/obfs2:(*obfs2Conn).kdf")
	hs := p.Func("transports/obfs2:(*obfs2Conn).handshake")
	ob := c.Obl("R0", "anchors", "obfs2 handshake and kdf exist")
	if kdf == nil || hs == nil {
		ob.Undecide("not found")
		return
	}
	ob.Hold("found")
	c.Touch(p.FuncKey(kdf))
	c.Touch(p.FuncKey(hs))
	const tC = "transports/obfs2.obfs2Conn"
	// INIT_SEED|RESP_SEED: the initiator's own seed ($1) comes first on the initiator, the peer's ($2) first on the responder
	stream := func(label, seeds string) string {
		return `ctr[aes[hsKdf("` + label + `",` + seeds + `)];iv=hsKdf("` + label + `",` + seeds + `)#1]`
	}
	const iSeeds, rSeeds = "cat($1,$2)", "cat($2,$1)"
	initI, respI := stream("Initiator obfuscated data", iSeeds), stream("Responder obfuscated data", iSeeds)
	initR, respR := stream("Initiator obfuscated data", rSeeds), stream("Responder obfuscated data", rSeeds)
	tx, e1 := roleStores(p, kdf, "crypto/cipher.StreamWriter", "S", tC)
	rx, e2 := roleStores(p, kdf, "crypto/cipher.StreamReader", "S", tC)
	checkRoleTable(c, "R2", "transports/obfs2:(*obfs2Conn).kdf#tx-streams", "session streams: the initiator sends with the INIT stream and the responder with the RESP stream; both are AES-CTR keyed by hsKdf(label, INIT_SEED|RESP_SEED) with the seeds ordered by role (own seed first for the initiator) and nothing in front of them", tx, e1, map[string]string{"initiator": initI, "responder": respR})
	checkRoleTable(c, "R2", "transports/obfs2:(*obfs2Conn).kdf#rx-streams", "session streams: each role receives with the stream its peer sends with (mirror image)", rx, e2, map[string]string{"initiator": respI, "responder": initR})
	// which seed is which: kdf(seed, peerSeed) is called with (own seed, peer seed)
	ob = c.Obl("R2", "transports/obfs2:(*obfs2Conn).handshake#kdf-arguments", "the session KDF gets (own seed, peer's seed): the own seed is the CSPRNG array that was sent, the peer seed the 16 bytes read first")
	kc := p.CallsIn(hs, p.fnID(kdf))
	if len(kc) != 1 {
		ob.Violate("kdf is not called exactly once from handshake")
	} else {
		t := p.newTermer()
		t.at = kc[0]
		a, b := t.Term(kc[0].Common().Args[1]), t.Term(kc[0].Common().Args[2])
		if a != "random" || !strings.HasPrefix(b, "read(") {
			ob.Violate("kdf(%s, %s): expected (own random seed, seed read from the peer)", a, b)
		} else {
			ob.HoldNT("kdf(%s, %s)", a, b)
		}
	}
	// pad keys: own label for tx, peer label for rx
	c14PadKeys(c, p, hs, tC)

	// ---- R3
	ob = c.Obl("R3", "transports/obfs2:(*obfs2Conn).handshake#magic-and-padlen", "the handshake succeeds only if the decrypted magic equals MAGIC_VALUE and PADLEN <= MAX_PADDING, and every PADLEN in [0,8192] is accepted")
	ff := p.Facts(hs)
	bad := ""
	// the two header words: BE32 at offset 0 (magic) and at offset 4 (PADLEN) of the 8-byte header
	var magicV, padV *ssa.Call
	for _, uc := range p.CallsIn(hs, "(encoding/binary.bigEndian).Uint32") {
		_, lo, hi, isS := sliceOfLocalConst(uc.Common().Args[1])
		if !isS || (hi >= 0 && hi-lo < 4) {
			continue
		}
		switch lo {
		case 0:
			magicV, _ = uc.(*ssa.Call)
		case 4:
			padV, _ = uc.(*ssa.Call)
		}
	}
	if magicV == nil || padV == nil {
		bad = "the header is not decoded as BE32 magic at offset 0 and BE32 PADLEN at offset 4"
	}
	bd := p.NewBounds()
	for _, r := range ff.SuccessReturns() {
		if bad != "" {
			break
		}
		r := r
		okMagic, _ := bd.Prove(hs, r, func(s *scope, pr *proof) []Cons { return eq(s.lin(magicV, pr), linConst(0x2bf5ca7e)) })
		okPad, _ := bd.Prove(hs, r, func(s *scope, pr *proof) []Cons { return []Cons{leC(s.lin(padV, pr), 8192)} })
		if !okMagic {
			bad = "success does not require the magic value to match"
		} else if !okPad {
			bad = "success does not require PADLEN <= 8192"
		}
		// every PADLEN in [0,8192] is accepted: each condition on PADLEN on the way to success
		// must follow from 0 <= PADLEN <= 8192
		for _, f := range ff.NC(r.Block()) {
			bo, ok := f.Cond.(*ssa.BinOp)
			if !ok || !isIntType(bo.X.Type()) || bad != "" {
				continue
			}
			sl := p.Slice(bo.X, SliceOpt{NoMem: true})
			sl2 := p.Slice(bo.Y, SliceOpt{NoMem: true})
			if !sl.Seen[padV] && !sl2.Seen[padV] {
				continue
			}
			op := bo.Op
			if f.Pol {
				op = negOp(op) // hypothesis: the condition fails
			}
			if op == token.ILLEGAL {
				continue
			}
			okImp, _ := bd.RefuteWith(hs, hs.Blocks[0], func(s *scope, pr *proof) {
				v := s.lin(padV, pr)
				pr.add(geC(v, 0), leC(v, 8192))
				s.cmpCons(pr, op, bo.X, bo.Y, "c14:neg")
			})
			if !okImp {
				bad = "PADLEN is additionally constrained by '" + p.FactString(f) + "': the specification's bound is <= 8192 (a conforming peer may draw any value up to exactly 8192)"
			}
		}
	}
	if bad != "" {
		ob.Violate("%s", bad)
	} else {
		ob.HoldNT("magic == 0x2bf5ca7e and padLen <= 8192 guard the success return")
	}

	// ---- R4 reads
	ob = c.Obl("R4", "transports/obfs2:(*obfs2Conn).handshake#exact-reads", "the handshake consumes exactly seed[16], header[8] and padding[PADLEN] with one io.ReadFull each, outside any loop, in that order: independent of segmentation and without swallowing data that follows the padding")
	rfs := p.ReadFullsIn(hs)
	bad = ""
	var lens []string
	for _, rf := range rfs {
		if blockOnCycle(rf.Block()) {
			bad = "io.ReadFull at " + p.InstrPos(rf) + " is inside a loop: the last iteration can read past the field"
		}
		t := p.newTermer()
		lens = append(lens, bufLenTerm(p, t, rf.Common().Args[1]))
	}
	cio := newConnIO(p)
	allInstrs(hs, func(in ssa.Instruction) {
		if call, ok := in.(ssa.CallInstruction); ok && call.Common().IsInvoke() && call.Common().Method.Name() == "Read" && cio.mayBeConn(call.Common().Value) {
			bad = "raw Read at " + p.InstrPos(call) + ": a short read would desynchronise the handshake"
		}
	})
	want := []string{"16", "8", "be32(zeros(8)[4:8])"}
	if bad == "" && (len(lens) != 3 || lens[0] != want[0] || lens[1] != want[1] || !strings.HasPrefix(lens[2], "be32(")) {
		bad = fmt.Sprintf("the handshake reads fields of lengths %v, expected [16 8 PADLEN]", lens)
	}
	if bad == "" {
		for i := 0; i+1 < len(rfs); i++ {
			if !instrDominates(rfs[i], rfs[i+1]) {
				bad = "the reads are not in the order seed, header, padding"
			}
		}
	}
	if bad != "" {
		ob.Violate("%s", bad)
	} else {
		ob.HoldNT("io.ReadFull x3: %v", lens)
	}
	// ---- R4b what is sent
	ob = c.Obl("R4", "transports/obfs2:(*obfs2Conn).handshake#sent-layout", "the key establishment message is SEED in the clear followed by E(PAD_KEY, UINT32(MAGIC) | UINT32(PADLEN) | PADLEN random bytes)")
	bad = ""
	puts := p.CallsIn(hs, "(encoding/binary.bigEndian).PutUint32")
	gotPut := map[int64]string{}
	for _, pc := range puts {
		_, lo, hi, ok := sliceOfLocalConst(pc.Common().Args[1])
		if ok && hi-lo == 4 {
			if k, isK := intConst(pc.Common().Args[2]); isK {
				gotPut[lo] = fmt.Sprint(k)
			} else {
				gotPut[lo] = "padLen"
			}
		}
	}
	if gotPut[0] != fmt.Sprint(0x2bf5ca7e) || gotPut[4] != "padLen" {
		bad = fmt.Sprintf("header fields written: %v; expected magic at 0 and PADLEN at 4, big-endian", gotPut)
	}
	if bad != "" {
		ob.Violate("%s", bad)
	} else {
		ob.HoldNT("PutUint32(blob[0:4], magic); PutUint32(blob[4:8], padLen)")
	}

	// ---- R5
	for _, k := range []string{"transports/obfs2:newObfs2ClientConn", "transports/obfs2:newObfs2ServerConn"} {
		if fn := p.Func(k); fn != nil {
			deadlineArmRule(c, "R5", fn, cio, 30e9)
		} else {
			c.Obl("R5", k, "constructor exists").Undecide("not found")
		}
	}
}

// sliceOfLocalConst: v is x[lo:hi] with constant bounds of a local buffer.
func sliceOfLocalConst(v ssa.Value) (ssa.Value, int64, int64, bool) {
	sl, ok := unspill(v).(*ssa.Slice)
	if !ok {
		return nil, 0, 0, false
	}
	lo, hi := int64(0), int64(-1)
	if sl.Low != nil {
		k, ok := intConst(sl.Low)
		if !ok {
			return nil, 0, 0, false
		}
		lo = k
	}
	if sl.High != nil {
		k, ok := intConst(sl.High)
		if !ok {
			return nil, 0, 0, false
		}
		hi = k
	} else if n, ok := constLen(sl.X.Type()); ok {
		hi = n
	}
	return sl.X, lo, hi, true
}

// bufLenTerm: the length of the buffer a read fills, as a term.
func bufLenTerm(p *Prog, t *termer, v ssa.Value) string {
	v = unspill(v)
	switch x := v.(type) {
	case *ssa.Slice:
		if x.Low == nil && x.High == nil {
			if l, ok := constLen(x.X.Type()); ok {
				return fmt.Sprint(l)
			}
			return bufLenTerm(p, t, x.X)
		}
		if _, lo, hi, ok := sliceOfLocalConst(x); ok && hi >= 0 {
			return fmt.Sprint(hi - lo)
		}
		if x.Low == nil && x.High != nil {
			// buf[:n] (or buf[:n:n]): n bytes
			if _, isK := intConst(x.High); !isK {
				if cv, ok := unspill(x.High).(*ssa.Convert); ok {
					return t.Term(cv.X)
				}
				return t.Term(x.High)
			}
		}
	case *ssa.MakeSlice:
		if k, ok := intConst(x.Len); ok {
			return fmt.Sprint(k)
		}
		if cv, ok := unspill(x.Len).(*ssa.Convert); ok {
			return t.Term(cv.X)
		}
		return t.Term(x.Len)
	}
	return "?"
}

func c14PadKeys(c *Ctx, p *Prog, hs *ssa.Function, tC string) {
	ob := c.Obl("R1", "transports/obfs2:(*obfs2Conn).handshake#pad-keys", "each side encrypts its header with the pad key of its own label over its own seed and decrypts the peer's with the other label over the peer's seed")
	calls := p.CallsIn(hs, "$M/transports/obfs2.hsKdf")
	if len(calls) != 2 {
		ob.Violate("%d hsKdf calls in handshake, expected 2", len(calls))
		return
	}
	ff := p.Facts(hs)
	got := map[string]string{}
	for _, call := range calls {
		// label and seed under each role (phis resolved by the role's branch); the direction is told by
		// the seed: the own seed is CSPRNG output, the peer's is read from the connection
		for _, role := range []string{"initiator", "responder"} {
			t := p.newTermer()
			t.at = call
			t.resolvePhi = roleResolver(ff, tC, role == "initiator")
			lab := t.Term(call.Common().Args[0])
			seed := t.Term(call.Common().Args[1])
			if len(t.errs) > 0 || strings.Contains(lab, "phi(") {
				ob.Violate("the pad label at %s is not determined by the role (%s; %s)", p.InstrPos(call), lab, strings.Join(t.errs, "; "))
				return
			}
			dir := "rx"
			if seed == "random" {
				dir = "tx"
			}
			if _, dup := got[role+"."+dir]; dup {
				ob.Violate("two pad keys for direction %s", dir)
				return
			}
			got[role+"."+dir] = lab + " over " + seed
		}
	}
	want := map[string]string{
		"initiator.tx": `"Initiator obfuscation padding" over random`,
		"responder.tx": `"Responder obfuscation padding" over random`,
		"initiator.rx": `"Responder obfuscation padding" over read($0.Conn)`,
		"responder.rx": `"Initiator obfuscation padding" over read($0.Conn)`,
	}
	var diffs []string
	for k, w := range want {
		if got[k] != w && !(strings.HasSuffix(k, ".rx") && strings.HasPrefix(got[k], strings.SplitN(w, " over ", 2)[0]+" over read(")) {
			diffs = append(diffs, fmt.Sprintf("%s: got %s, spec %s", k, got[k], w))
		}
	}
	sort.Strings(diffs)
	if len(diffs) > 0 {
		ob.Violate("%s", strings.Join(diffs, "; "))
	} else {
		ob.HoldNT("%v", got)
	}
}

// resolveForRole follows v through phis, keeping on each the single incoming
// edge that is compatible with the given role (isInitiator == initiator).
func resolveForRole(ff *FuncFacts, v ssa.Value, connType string, initiator bool, d int) (ssa.Value, bool) {
	v = unspill(v)
	phi, ok := v.(*ssa.Phi)
	if !ok || d > 4 {
		return v, ok == false
	}
	var cands []ssa.Value
	for i, e := range phi.Edges {
		pred := phi.Block().Preds[i]
		fs := append([]Fact{}, ff.NC(pred)...)
		if ef, ok := edgeFact(pred, phi.Block()); ok {
			fs = append(fs, ef)
		}
		contradicts := false
		for _, f := range fs {
			if isFieldLoad(f.Cond, connType, "isInitiator") && f.Pol != initiator {
				contradicts = true
			}
		}
		if !contradicts {
			cands = append(cands, e)
		}
	}
	if len(cands) != 1 {
		return v, false
	}
	return resolveForRole(ff, cands[0], connType, initiator, d+1)
}

// roleResolver: phi resolution under the assumption isInitiator == initiator.
func roleResolver(ff *FuncFacts, connType string, initiator bool) func(*ssa.Phi) ssa.Value {
	return func(phi *ssa.Phi) ssa.Value {
		v, ok := resolveForRole(ff, phi, connType, initiator, 0)
		if !ok {
			return nil
		}
		return v
	}
}
