package main

// C15 — ScrambleSuit client (DESIGN 4, C15).

import (
	"fmt"
	"go/token"
	"strings"

	"golang.org/x/tools/go/ssa"
)

const (
	tSSConn  = "transports/scramblesuit.ssConn"
	tSSRx    = "transports/scramblesuit.ssRxState"
	tSSTick  = "transports/scramblesuit.ssTicket"
	tSSStore = "transports/scramblesuit.ssTicketStore"
)

func init() {
	register(&PropInfo{
		ID: "C15", Level: "other", MinObls: 40,
		Explanation: "R1 (bounds engine) every slice/index/precondition of the response parser, packet parser and packet builder holds (the F2 split-inside-the-MAC defect was found here and is fixed); the excluded data[:payloadLen] needs a relational heap invariant; R2 packet authentication and layout: the only writer of the application buffer is guarded by hmac.Equal of the packet MAC computed over header-then-body ciphertext (each added before it is decrypted), header fields total[0:2]/payload[2:4]/flags[4] agree between builder and parser, and the partially received MAC/header are private copies (never views of the receive buffer); " +
			"R3 tickets are one-shot and expire: getTicket deletes the ticket before every return that hands one out, returns none when it is no longer valid, validity uses the persisted issue time (a loaded ticket keeps its IssuedAt), the client falls back to UniformDH when no ticket is usable, and nothing is written to the network before that decision; R4 the UniformDH handshake succeeds only after hmac.Equal over resp[192:pos+16]|hour keyed by k_B, and the running HMAC is only fed on invocations that cannot end in 'retry' (the parser is re-run on a growing buffer); handshake layouts and key-material offsets against a spec table (E7); R5 deadline typestate, bounded and non-spinning handshake loop, short-read discipline, read-fault propagation (C10 instances).",
		NotCovered: []string{"byte-exact delivery against a conforming server (needs execution)", "ticket histories across restarts beyond the per-call structure", "AES-CTR, HMAC, UniformDH arithmetic"},
		Trusted:    []string{"go/types+go/ssa faithful", "library contracts of checker/contracts.go", "checker/spec/scramblesuit.json transcribes the ScrambleSuit specification"},
		Run:        runC15,
	})
}

func runC15(c *Ctx) {
	if !importing {
		importObls(c, "C10", runC10, "X10", func(k string) bool { return containsAny(k, "transports/scramblesuit") })
		importObls(c, "C12", runC12, "X12", func(k string) bool { return containsAny(k, "common/csrand", "common/probdist") })
		// the ticket store is persisted through internal/atomicfile (C18.R1)
		importObls(c, "C18", runC18, "X18", func(k string) bool { return containsAny(k, "internal/atomicfile") })
	}
	p := c.P
	sharedDigestRule(c, p, "R4", "transports/scramblesuit")
	c15MarkWindow(c, p)
	noBackgroundConnWrites(c, p, newConnIO(p), "R4", "transports/scramblesuit")
	// the UniformDH handshake is common/uniformdh: its structural rules (C13.R1: even exponent, X / p-X,
	// fixed-width 192-byte FillBytes of the public value and of the shared secret, import check) are part
	// of "the client completes the UniformDH handshake" too; imported as RU1
	defer func() {
		sub := NewCtx(c.P, c.Prop, c.Tier)
		c13UniformDH(sub, c.P)
		for _, o := range sub.Obls {
			o.Key = strings.Replace(o.Key, c.Prop+".R", c.Prop+".RU", 1)
			c.Obls = append(c.Obls, o)
		}
		for k := range sub.fnSeen {
			c.fnSeen[k] = true
		}
	}()
	spec, err := loadSpec("scramblesuit.json")
	if err != nil {
		c.Obl("R0", "spec", "spec table loads").Undecide("%v", err)
		return
	}
	evalSpec(c, p, spec, "R4", "R4", "R4")
	set := map[*ssa.Function]bool{}
	for _, fn := range p.Funcs {
		if relPkg(fn.Pkg.Pkg.Path()) == "transports/scramblesuit" && fn.Synthetic == "" {
			set[fn] = true
			c.Touch(p.FuncKey(fn))
		}
	}
	// ---- R1
	n := boundsRule(c, set, "R1", "R1", nil)
	ob := c.Obl("R1", "count", "anti-vacuity: the parsers' obligations are found")
	if n < 25 {
		ob.Undecide("only %d obligations discharged", n)
	} else {
		ob.Hold("%d", n)
	}
	c15Packets(c, p)
	c15Tickets(c, p)
	c15Handshake(c, p)
	// ---- R5
	cio := newConnIO(p)
	if fn := p.Func("transports/scramblesuit:newScrambleSuitClientConn"); fn != nil {
		deadlineArmRule(c, "R5", fn, cio, 60e9)
	} else {
		c.Obl("R5", "constructor", "constructor exists").Undecide("newScrambleSuitClientConn not found")
	}
	io := map[*ssa.Function]bool{}
	for _, k := range []string{"transports/scramblesuit:(*ssConn).clientHandshake", "transports/scramblesuit:(*ssConn).readPackets"} {
		if fn := p.Func(k); fn != nil {
			io[fn] = true
		}
	}
	if shortReadRule(c, "R5", p, cio, io, false) != 2 {
		c.Obl("R5", "raw-reads", "the two raw reads of the transport are found").Undecide("not 2")
	}
	faultRule(c, "R5", p, cio, set, 2)
	c01ReadWithError(c, p, cio, "R5", "transports/scramblesuit:(*ssConn).readPackets")
}

func c15Packets(c *Ctx, p *Prog) {
	rp := p.Func("transports/scramblesuit:(*ssConn).readPackets")
	mk := p.Func("transports/scramblesuit:(*ssConn).makePayloadPacket")
	ob := c.Obl("R2", "transports/scramblesuit:(*ssConn).readPackets#authenticated-surfacing", "application data is appended to the decoded buffer only after hmac.Equal(computed packet MAC, received MAC) succeeded, and only on the 'payload' flag arm")
	if rp == nil || mk == nil {
		ob.Undecide("readPackets/makePayloadPacket not found")
		return
	}
	ff := p.Facts(rp)
	var W ssa.CallInstruction
	nW := 0
	for _, fn := range p.Funcs {
		allInstrs(fn, func(in ssa.Instruction) {
			call, ok := in.(ssa.CallInstruction)
			if !ok {
				return
			}
			r, m, _ := recvOf(call)
			if r != nil && isFieldLoad(r, tSSConn, "receiveDecodedBuffer") && accWriteMethods[m] {
				W = call
				nW++
			}
		})
	}
	var eq *ssa.Call
	if nW != 1 || W.Parent() != rp {
		ob.Violate("%d writers of the application buffer, expected exactly one in readPackets", nW)
		return
	}
	for _, f := range ff.NC(W.Block()) {
		if e, ok := p.FactCallBool(f, "crypto/hmac.Equal"); ok && f.Pol {
			eq = e
		}
	}
	okFlag := hasFact(ff.NC(W.Block()), func(f Fact) bool {
		bo, ok := f.Cond.(*ssa.BinOp)
		if !ok || !f.Pol || bo.Op != token.EQL {
			return false
		}
		k, isK := intConst(bo.Y)
		bi := byteIndexOf(bo.X)
		return isK && k == 1 && bi.ok && bi.idx == 4
	})
	switch {
	case eq == nil:
		ob.Violate("the write at %s is reachable without a successful hmac.Equal", p.InstrPos(W))
		return
	case !okFlag:
		ob.Violate("the write is not restricted to packets whose flag byte hdr[4] is 1 (payload)")
		return
	}
	// operands: computed = rxCrypto.mac.Sum(nil)[:16], received = receiveState.mac
	ea := eq.Common().Args
	sum := sumPrefix(p, ea[0], 16)
	rxm := ea[1]
	if sum == nil {
		sum, rxm = sumPrefix(p, ea[1], 16), ea[0]
	}
	if sum == nil || !isFieldLoadPath(rxm, tSSRx, "mac") {
		ob.Violate("hmac.Equal does not compare Sum(nil)[:16] of the receive HMAC with the stored packet MAC")
		return
	}
	ob.HoldNT("Write under hmac.Equal(rxCrypto.mac.Sum(nil)[:16], receiveState.mac) and hdr[4] == 1")

	// MAC input order and before-decrypt
	ob = c.Obl("R2", "transports/scramblesuit:(*ssConn).readPackets#mac-over-ciphertext", "the packet MAC covers the header and then the body exactly as received: each is added to the HMAC (after a Reset for the header) before it is decrypted in place, the body by the same keystream object right after the header")
	bad := ""
	var macOps []ssa.CallInstruction
	var xors []ssa.CallInstruction
	allInstrs(rp, func(in ssa.Instruction) {
		call, ok := in.(ssa.CallInstruction)
		if !ok {
			return
		}
		if call.Common().IsInvoke() {
			switch call.Common().Method.Name() {
			case "Reset", "Write":
				if k, _, ok := fieldLoad(call.Common().Value); ok && k.Field == "mac" && k.Type == "transports/scramblesuit.ssCryptoState" {
					macOps = append(macOps, call)
				}
			case "XORKeyStream":
				xors = append(xors, call)
			}
		}
	})
	if len(macOps) != 3 || len(xors) != 2 {
		bad = fmt.Sprintf("%d HMAC operations and %d decryptions in readPackets; expected Reset, Write(hdr), Write(data) and 2 decryptions", len(macOps), len(xors))
	} else {
		if macOps[0].Common().Method.Name() != "Reset" || macOps[1].Common().Method.Name() != "Write" || macOps[2].Common().Method.Name() != "Write" {
			bad = "the HMAC is not Reset, Write(header), Write(body)"
		}
		for i, w := range macOps[1:] {
			buf := w.Common().Args[0]
			var x ssa.CallInstruction
			for _, xc := range xors {
				if unspill(xc.Common().Args[0]) == unspill(buf) && unspill(xc.Common().Args[1]) == unspill(buf) {
					x = xc
				}
			}
			if x == nil {
				bad = fmt.Sprintf("MAC input %d is not the buffer that is decrypted in place", i+1)
			} else if !instrDominates(w, x) {
				bad = "a buffer is decrypted before it was added to the MAC (the MAC would cover plaintext)"
			}
		}
		if bad == "" && !instrDominates(macOps[0], macOps[1]) {
			bad = "Reset does not precede the header"
		}
	}
	if bad != "" {
		ob.Violate("%s", bad)
	} else {
		ob.HoldNT("mac.Reset(); mac.Write(hdr); decrypt(hdr); ... mac.Write(data); decrypt(data)")
	}

	// private copies
	ob = c.Obl("R2", tSSRx+"#private-copies", "the partially received packet MAC and header kept across reads are freshly allocated copies (a view into the receive buffer is overwritten when the buffer compacts)")
	bad = ""
	for _, f := range []string{"mac", "hdr"} {
		for _, s := range p.Stores(tSSRx, f) {
			if k, ok := s.Val.(*ssa.Const); ok && k.IsNil() {
				continue
			}
			for _, o := range p.Origins(s.Val) {
				switch x := o.(type) {
				case *ssa.MakeSlice, *ssa.Alloc:
				case *ssa.Slice:
					if _, isAlloc := x.X.(*ssa.Alloc); !isAlloc {
						bad = "receiveState." + f + " is a view of " + p.valString(x.X)
					}
				default:
					bad = "receiveState." + f + " is not a fresh allocation (origin " + p.valString(o) + " at " + p.Pos(o.Pos()) + ")"
				}
			}
		}
	}
	for _, nc := range p.CallsIn(rp, "(*bytes.Buffer).Next") {
		bad = "receiveBuffer.Next at " + p.InstrPos(nc) + " hands out a view of the buffer that the next Write may overwrite"
	}
	if bad != "" {
		ob.Violate("%s", bad)
	} else {
		ob.HoldNT("mac, hdr (and data) are make()d and filled by receiveBuffer.Read")
	}

	// header layout agreement
	ob = c.Obl("R2", "packet-header#layout-agreement", "builder and parser agree on the packet header: total length BE16 at [0:2], payload length BE16 at [2:4], flags at [4]; the length check rejects payload > total or total > 1427")
	bad = ""
	wantPut := map[int64]string{}
	for _, pc := range p.CallsIn(mk, "(encoding/binary.bigEndian).PutUint16") {
		if sl, ok := unspill(pc.Common().Args[1]).(*ssa.Slice); ok {
			lo := int64(0)
			if sl.Low != nil {
				lo, _ = intConst(sl.Low)
			}
			t := p.newTermer()
			wantPut[lo] = t.Term(pc.Common().Args[2])
		}
	}
	if wantPut[0] != "(len($2)+$3)" || wantPut[2] != "len($2)" {
		bad = fmt.Sprintf("builder writes %v; expected total = len(data)+padLen at 0 and payload = len(data) at 2", wantPut)
	}
	got := map[int64]bool{}
	for _, uc := range p.CallsIn(rp, "(encoding/binary.bigEndian).Uint16") {
		if sl, ok := unspill(uc.Common().Args[1]).(*ssa.Slice); ok {
			lo := int64(0)
			if sl.Low != nil {
				lo, _ = intConst(sl.Low)
			}
			got[lo] = true
		}
	}
	if !got[0] || !got[2] {
		bad = "the parser does not read big-endian lengths at [0:] and [2:]"
	}
	if bad != "" {
		ob.Violate("%s", bad)
	} else {
		ob.HoldNT("PutUint16(pkt[0:], total), PutUint16(pkt[2:], payload), pkt[4]=flags <-> Uint16(hdr[0:]), Uint16(hdr[2:]), hdr[4]")
	}
}

// isFieldLoadPath: v loads field `field` of an embedded struct of type typ
// (conn.receiveState.mac).
func isFieldLoadPath(v ssa.Value, typ, field string) bool {
	k, _, ok := fieldLoad(v)
	if ok && k.Type == typ && k.Field == field {
		return true
	}
	// the whole of an array field: conn.receiveState.mac[:]
	if sl, isSl := unspill(v).(*ssa.Slice); isSl && sl.Low == nil && sl.High == nil {
		if fa, isFA := sl.X.(*ssa.FieldAddr); isFA {
			if k, ok := fieldKeyOf(fa.X.Type(), fa.Field); ok && k.Type == typ && k.Field == field {
				return true
			}
		}
	}
	return false
}

func c15Tickets(c *Ctx, p *Prog) {
	gt := p.Func("transports/scramblesuit:(*ssTicketStore).getTicket")
	ob := c.Obl("R3", "transports/scramblesuit:(*ssTicketStore).getTicket#one-shot", "a ticket is used for at most one handshake: every return that hands out a ticket is dominated by its deletion from the store (and the store is written back); an invalid ticket is never handed out")
	if gt == nil {
		ob.Undecide("getTicket not found")
		return
	}
	ff := p.Facts(gt)
	bad := ""
	var del ssa.CallInstruction
	allInstrs(gt, func(in ssa.Instruction) {
		if call, ok := in.(ssa.CallInstruction); ok && p.CalleeID(call.Common()) == "builtin:delete" && isFieldLoad(call.Common().Args[0], tSSStore, "store") {
			del = call
		}
	})
	nOut := 0
	for _, r := range returnsOf(gt) {
		v := unspill(r.Results[0])
		if k, ok := v.(*ssa.Const); ok && k.IsNil() {
			continue
		}
		nOut++
		if del == nil || !instrDominates(del, r) {
			bad = "a ticket is returned at " + p.InstrPos(r) + " without having been deleted from the store: it would be presented again"
		}
		if _, isCall := del.(*ssa.Call); del != nil && !isCall {
			// defer delete(...) / go delete(...): the instruction dominates the return but the deletion runs at
			// the function's exit, after the store was written back — the file still holds the ticket
			bad = "the deletion at " + p.InstrPos(del) + " is deferred: it runs after the store was written back, so the ticket handed out is still on disk and is presented again after a restart"
		}
		// the value looked up in the store under the address: m[k] or the first result of v, ok := m[k]
		isLookup := false
		switch x := unspill(v).(type) {
		case *ssa.Extract:
			if lk, ok := x.Tuple.(*ssa.Lookup); ok && x.Index == 0 && isFieldLoad(lk.X, tSSStore, "store") {
				isLookup = true
			}
		case *ssa.Lookup:
			isLookup = isFieldLoad(x.X, tSSStore, "store")
		}
		if !isLookup {
			bad = "the ticket returned is not the one looked up"
		}
		validKnown := hasFact(ff.NC(r.Block()), func(f Fact) bool {
			if _, ok := p.FactCallBool(f, "(*$M/transports/scramblesuit.ssTicket).isValid"); ok && f.Pol {
				return true
			}
			// the same test written out: issuedAt + 604800 > time.Now().Unix() (in any of its forms)
			bo, ok := f.Cond.(*ssa.BinOp)
			if !ok {
				return false
			}
			op := bo.Op
			if !f.Pol {
				op = negOp(op)
			}
			t := p.newTermer()
			x, y := t.Term(bo.X), t.Term(bo.Y)
			if op == token.LSS { // now < issuedAt+lifetime
				x, y, op = y, x, token.GTR
			}
			return len(t.errs) == 0 && op == token.GTR && termEq(x, "(<ssTicket>.issuedAt+604800)") && termEq(y, "unix(now)")
		})
		if !validKnown {
			bad = "a ticket is handed out without isValid() having succeeded: an expired ticket would be presented and the connection die"
		}
		if len(p.CallsIn(gt, "(*$M/transports/scramblesuit.ssTicketStore).serialize")) == 0 {
			bad = "the store is not written back after the deletion"
		}
		// "at most one handshake" across restarts: the ticket is handed out only together with the outcome
		// of writing the store back (a failed write leaves the ticket on disk, so the caller must not use it:
		// the dialer aborts on the error)
		okErr := false
		if len(r.Results) == 2 {
			if ec, _ := callOf(unspill(r.Results[1])); ec != nil && p.CalleeID(ec.Common()) == M("(*$M/transports/scramblesuit.ssTicketStore).serialize") && del != nil && instrDominates(del, ec) {
				okErr = true
			}
		}
		if !okErr {
			bad = "the ticket is handed out at " + p.InstrPos(r) + " without the error of the write-back (serialize): if the write failed the ticket is still on disk and will be presented again after a restart"
		}
	}
	if nOut == 0 && bad == "" {
		bad = "getTicket never returns a ticket"
	}
	if bad != "" {
		ob.Violate("%s", bad)
	} else {
		ob.HoldNT("delete + serialize dominate the %d returning site(s); isValid() guards them", nOut)
	}

	// sender side of the packet MAC: Reset, then exactly the encrypted packet, then Sum
	obM := c.Obl("R2", "transports/scramblesuit:(*ssConn).makePayloadPacket#mac-input", "the MAC sent with a packet is HMAC(tx key) over exactly the encrypted packet: the running HMAC is Reset before, the packet written once, then Sum — nothing left over from an earlier use (the ticket handshake shares the object) enters it")
	if mk2 := p.Func("transports/scramblesuit:(*ssConn).makePayloadPacket"); mk2 == nil {
		obM.Undecide("makePayloadPacket not found")
	} else {
		badM := ""
		nSum := 0
		allInstrs(mk2, func(in ssa.Instruction) {
			call, ok := in.(*ssa.Call)
			if !ok || !call.Common().IsInvoke() || call.Common().Method.Name() != "Sum" {
				return
			}
			nSum++
			ops, start, why := p.AccumSeq(call)
			switch {
			case why != "":
				badM = "the MAC state at " + p.InstrPos(call) + " is not determined by this call alone: " + why
			case !strings.HasPrefix(start, "Reset at"):
				badM = "the HMAC is not Reset before the packet is written (" + start + ")"
			default:
				ws := writesOf(ops)
				if len(ws) != 1 {
					badM = fmt.Sprintf("%d writes into the HMAC between Reset and Sum, expected the packet only", len(ws))
				} else {
					// the written buffer is the one that was encrypted in place before
					enc := false
					for _, xc := range p.CallsIn(mk2, "(crypto/cipher.Stream).XORKeyStream") {
						_ = xc
					}
					allInstrs(mk2, func(in2 ssa.Instruction) {
						xc, ok := in2.(*ssa.Call)
						if ok && xc.Common().IsInvoke() && xc.Common().Method.Name() == "XORKeyStream" && unspill(xc.Common().Args[0]) == unspill(ws[0]) && unspill(xc.Common().Args[1]) == unspill(ws[0]) && instrDominates(xc, call) {
							enc = true
						}
					})
					if !enc {
						badM = "the MAC does not cover the packet as encrypted"
					}
				}
			}
		})
		if nSum != 1 && badM == "" {
			badM = fmt.Sprintf("%d Sum calls", nSum)
		}
		if badM != "" {
			obM.Violate("%s", badM)
		} else {
			obM.HoldNT("encrypt(pkt); mac.Reset(); mac.Write(pkt); mac.Sum(nil)[:16]")
		}
	}

	// ---- the same two stream rules as for obfs4 (C01.R5, C05.R5)
	readErrPriority(c, p, "R2", "transports/scramblesuit:(*ssConn).Read", "(*$M/transports/scramblesuit.ssConn).readPackets")
	remainderRules(c, p, "R1", "R1", "transports/scramblesuit:(*ssConn).clientHandshake", "transports/scramblesuit:(*ssConn).readPackets", tSSConn, "")

	// the store is written back whenever serialize reports success (also when it has become empty:
	// a redeemed ticket must not survive a restart)
	ob = c.Obl("R3", "transports/scramblesuit:(*ssTicketStore).serialize#writes-back", "serialize reports success only after the whole store, whatever its size, went to the ticket file: every nil return is the file write's own result or follows a successful file write of json.Marshal(all entries)")
	if sz := p.Func("transports/scramblesuit:(*ssTicketStore).serialize"); sz == nil {
		ob.Undecide("serialize not found")
	} else {
		isWrite := func(call *ssa.Call) bool {
			if call == nil {
				return false
			}
			switch p.CalleeID(call.Common()) {
			case M("$M/internal/atomicfile.WriteFile"), "os.WriteFile", "io/ioutil.WriteFile":
				return len(call.Common().Args) >= 1 && isFieldLoad(call.Common().Args[0], tSSStore, "filePath")
			}
			return false
		}
		sff := p.Facts(sz)
		bad := ""
		n := 0
		for _, r := range returnsOf(sz) {
			v := unspill(r.Results[0])
			if cc, _ := callOf(v); isWrite(cc) {
				n++
				// what is written is the JSON encoding (an empty store is "{}", which the loader accepts; an
				// empty FILE is not valid JSON and blocks the next start)
				if mc, idx := callOf(unspill(cc.Common().Args[1])); mc == nil || idx != 0 || p.CalleeID(mc.Common()) != "encoding/json.Marshal" {
					bad = "the file written at " + p.InstrPos(cc) + " is not the json.Marshal encoding of the store"
				}
				continue
			}
			if sff.ProvablyNonNil(r.Results[0], r.Block(), 0) {
				continue
			}
			okW := false
			for cc := range sff.SucceededCalls(r.Block()) {
				if isWrite(cc) {
					okW = true
					n++
				}
			}
			if !okW {
				bad = "serialize can report success at " + p.InstrPos(r) + " without having written the ticket file"
			}
		}
		if n == 0 && bad == "" {
			bad = "serialize never writes the ticket file"
		}
		if bad != "" {
			ob.Violate("%s", bad)
		} else {
			ob.HoldNT("%d success exit(s), each through the file write", n)
		}
	}

	ob = c.Obl("R3", tSSTick+".issuedAt#provenance", "validity is judged by the time the ticket was issued: issuedAt is time.Now().Unix() when a ticket arrives from the server and the persisted IssuedAt when the store is loaded (never re-stamped on load); isValid compares issuedAt + 7 days with the current time")
	bad = ""
	ld := p.Func("transports/scramblesuit:loadTicketStore")
	if ld == nil {
		ob.Undecide("loadTicketStore not found")
		return
	}
	nLd := 0
	for _, s := range p.Stores(tSSTick, "issuedAt") {
		t := p.newTermer()
		t.at = s.Instr
		term := t.Term(s.Val)
		if s.Fn == ld {
			nLd++
			if !strings.Contains(term, "IssuedAt") {
				bad = "loadTicketStore sets issuedAt to " + term + " instead of the persisted IssuedAt"
			}
		} else if term != "unix(now)" {
			bad = "issuedAt is set to " + term + " in " + p.FuncKey(s.Fn)
		}
	}
	// tickets stored by the loader must be built in the loader (not through newTicket, which stamps now)
	for fn := range p.Reachable(ld) {
		if p.inModule(fn) && fn.Name() == "newTicket" {
			bad = "loadTicketStore builds tickets with newTicket(), which stamps them with the current time: expired tickets become valid again after a restart"
		}
	}
	if nLd == 0 && bad == "" {
		bad = "loadTicketStore never restores issuedAt"
	}
	iv := p.Func("transports/scramblesuit:(*ssTicket).isValid")
	if iv != nil {
		t := p.newTermer()
		for _, r := range returnsOf(iv) {
			if got := t.Term(r.Results[0]); !termEq(got, "((<ssTicket>.issuedAt+604800)>unix(now))") {
				bad = "isValid is " + got
			}
		}
	}
	if bad != "" {
		ob.Violate("%s", bad)
	} else {
		ob.HoldNT("newTicket: unix(now); loadTicketStore: v.IssuedAt; isValid: issuedAt+604800 > unix(now)")
	}

	// fallback and no write before decision
	ch := p.Func("transports/scramblesuit:(*ssConn).clientHandshake")
	ob = c.Obl("R3", "transports/scramblesuit:(*ssConn).clientHandshake#fallback", "an absent ticket, a failed key setup or a failed ticket-handshake generation falls through to the UniformDH handshake, and nothing is written to the network before that decision")
	if ch == nil {
		ob.Undecide("clientHandshake not found")
		return
	}
	cio := newConnIO(p)
	cff := p.Facts(ch)
	var writes []*ssa.Call
	allInstrs(ch, func(in ssa.Instruction) {
		if call, ok := in.(*ssa.Call); ok && call.Common().IsInvoke() && call.Common().Method.Name() == "Write" && cio.mayBeConn(call.Common().Value) {
			writes = append(writes, call)
		}
	})
	dh := p.CallsIn(ch, "$M/transports/scramblesuit.newDHClientHandshake")
	gtc := p.CallsIn(ch, "(*$M/transports/scramblesuit.ssTicketStore).getTicket")
	bad = ""
	if len(writes) != 2 || len(dh) != 1 || len(gtc) != 1 {
		bad = fmt.Sprintf("%d network writes, %d UniformDH handshakes, %d getTicket calls; expected 2, 1, 1", len(writes), len(dh), len(gtc))
	} else {
		// the DH path is reachable from: ticket == nil, initCrypto failure, generateHandshake failure — without passing a network write
		wset := map[ssa.Instruction]bool{}
		for _, w := range writes {
			wset[w] = true
		}
		if !canReachWithout(gtc[0], dh[0], wset) {
			bad = "the UniformDH handshake cannot be reached from the ticket lookup without a network write"
		}
		for _, call := range p.CallsIn(ch, "(*$M/transports/scramblesuit.ssConn).initCrypto", "(*$M/transports/scramblesuit.ssTicketClientHandshake).generateHandshake") {
			if instrDominates(call, dh[0]) || instrDominates(dh[0], call) {
				continue
			}
			// failure arm of the ticket path must lead to the DH path without a write or a return
			cv, _ := call.(*ssa.Call)
			var failBlk *ssa.BasicBlock
			for _, blk := range ch.Blocks {
				i := blockIf(blk)
				if i == nil {
					continue
				}
				cond, pol := stripNot(i.Cond, true)
				x, isNil, ok := FactNilCmp(Fact{cond, pol})
				if !ok {
					continue
				}
				if cc, _ := callOf(unspill(x)); cc == nil || cc != cv {
					continue
				}
				// successor on which the error is non-nil
				if isNil {
					failBlk = blk.Succs[1]
				} else {
					failBlk = blk.Succs[0]
				}
			}
			if failBlk == nil {
				bad = "the error of " + p.CalleeID(call.Common()) + " is not checked"
				continue
			}
			if failBlk.Instrs[0] == ssa.Instruction(dh[0].(*ssa.Call)) || failBlk == dh[0].Block() && instrIndex(dh[0]) == 0 {
				continue
			}
			avoid := map[ssa.Instruction]bool{dh[0]: true}
			var failPred *ssa.BasicBlock
			if len(failBlk.Preds) == 1 {
				failPred = failBlk.Preds[0]
			}
			for _, r := range returnsOf(ch) {
				if canReachFeasible(failBlk, failPred, r, avoid) {
					bad = "a failure of " + p.CalleeID(call.Common()) + " returns at " + p.InstrPos(r) + " instead of falling back to UniformDH"
				}
			}
			for w := range wset {
				if canReachFeasible(failBlk, failPred, w, avoid) {
					bad = "a failure of " + p.CalleeID(call.Common()) + " still writes to the network"
				}
			}
		}
		// ticket-path write: under ticket != nil, carrying the ticket handshake blob
		tw := writes[0]
		if instrDominates(dh[0], tw) {
			tw = writes[1]
		}
		if !hasFact(cff.NC(tw.Block()), func(f Fact) bool {
			x, isNil, ok := FactNilCmp(f)
			if !ok || isNil {
				return false
			}
			ex, isEx := unspill(x).(*ssa.Extract)
			return isEx && ex.Tuple == ssa.Value(gtc[0].(*ssa.Call))
		}) {
			bad = "the ticket handshake is sent although no ticket was obtained"
		}
	}
	if bad != "" {
		ob.Violate("%s", bad)
	} else {
		ob.HoldNT("ticket==nil / initCrypto failure / generateHandshake failure reach the UniformDH path with no prior network write")
	}
}

func c15Handshake(c *Ctx, p *Prog) {
	ps := p.Func("transports/scramblesuit:(*ssDHClientHandshake).parseServerHandshake")
	ob := c.Obl("R4", "transports/scramblesuit:(*ssDHClientHandshake).parseServerHandshake#mac-guard", "the handshake completes only if hmac.Equal(HMAC_kB(Y | P_S | M_S | E)[:16], resp[pos+16:pos+32]) holds; the MAC input written on the final invocation is resp[192:pos+16] then the remembered hour")
	if ps == nil {
		ob.Undecide("parseServerHandshake not found")
		return
	}
	ff := p.Facts(ps)
	im := NewImplier(p)
	bad := ""
	if !im.SuccessImplies(ps, atomMacEqual) {
		bad = "success does not require hmac.Equal: " + im.Why[impliesKey{ps, atomMacEqual.Name}]
	}
	lc := p.newLin()
	var E *ssa.Call
	for _, r := range ff.SuccessReturns() {
		for _, f := range ff.NC(r.Block()) {
			if e, ok := p.FactCallBool(f, "crypto/hmac.Equal"); ok && f.Pol {
				E = e
			}
		}
	}
	var finalWrites []ssa.CallInstruction
	if E != nil {
		ea := E.Common().Args
		sum, rxv := sumPrefix(p, ea[0], 16), ea[1]
		if sum == nil {
			sum, rxv = sumPrefix(p, ea[1], 16), ea[0]
		}
		rx, isSl := unspill(rxv).(*ssa.Slice)
		if sum == nil || !isSl || rx.Low == nil || rx.High == nil {
			bad = "hmac.Equal operands are not (Sum(nil)[:16], resp[l:h])"
		} else {
			// writes into hs.mac that dominate the Sum and are outside the first-call block
			allInstrs(ps, func(in ssa.Instruction) {
				call, ok := in.(ssa.CallInstruction)
				if !ok || !call.Common().IsInvoke() || call.Common().Method.Name() != "Write" {
					return
				}
				if k, _, ok := fieldLoad(call.Common().Value); !ok || k.Field != "mac" {
					return
				}
				if instrDominates(call, sum) {
					finalWrites = append(finalWrites, call)
				}
			})
			if len(finalWrites) != 2 {
				bad = fmt.Sprintf("%d MAC writes dominate the final Sum, expected 2 (data, hour)", len(finalWrites))
			} else {
				// both as absolute ranges of the response (slices of slices resolved)
				dRoot, dLo, dHi, dOpen := sliceAbs(lc, finalWrites[0].Common().Args[0])
				rRoot, rLo, rHi, rOpen := sliceAbs(lc, rx)
				if dRoot != rRoot || dOpen || rOpen || dRoot != ssa.Value(ps.Params[1]) {
					bad = "the MAC data is not a slice of the response"
				} else {
					if !dLo.Equal(linConst(192)) {
						bad = "the MAC data does not start right after the 192-byte public key (which was hashed on the first invocation)"
					}
					if !dHi.Equal(rLo) || !rHi.Sub(rLo).Equal(linConst(16)) {
						bad = fmt.Sprintf("MAC input ends at %s, received MAC is [%s:%s]", dHi, rLo, rHi)
					}
				}
				if !isFieldLoad(finalWrites[1].Common().Args[0], "transports/scramblesuit.ssDHClientHandshake", "epochHour") {
					bad = "the hour hashed is not the one remembered from the request"
				}
			}
		}
	}
	if bad != "" {
		ob.Violate("%s", bad)
	} else {
		ob.HoldNT("hmac.Equal guards success; input resp[192:pos+16] | hs.epochHour; received MAC resp[pos+16:pos+32]")
	}

	ob = c.Obl("R4", "transports/scramblesuit:(*ssDHClientHandshake).parseServerHandshake#mac-state", "the parser is re-run on a growing buffer with a running HMAC: after data was fed into the HMAC (outside the first-invocation block, which is preceded by a Reset) no 'need more data' return is reachable, so a later invocation never hashes the same bytes twice")
	bad = ""
	sent := retrySentinels(p)
	ei := errResultIndex(ps)
	for _, w := range finalWrites {
		for _, r := range returnsOf(ps) {
			if g, ok := sentinelGlobal(unspill(r.Results[ei])); ok && sent[g] && canReachWithout(w, r, nil) {
				bad = "after the HMAC was fed at " + p.InstrPos(w) + " the parser can still return the retry sentinel at " + p.InstrPos(r) + ": the next invocation hashes the data again and the genuine response fails"
			}
		}
	}
	// the first-call block: Reset before Write(y)
	var firstW ssa.CallInstruction
	allInstrs(ps, func(in ssa.Instruction) {
		call, ok := in.(ssa.CallInstruction)
		if ok && call.Common().IsInvoke() && call.Common().Method.Name() == "Write" {
			if k, _, okk := fieldLoad(call.Common().Value); okk && k.Field == "mac" {
				isFinal := false
				for _, fw := range finalWrites {
					if fw == call {
						isFinal = true
					}
				}
				if !isFinal {
					firstW = call
				}
			}
		}
	})
	if firstW == nil {
		bad = "the public key is never hashed"
	} else {
		okReset := false
		allInstrs(ps, func(in ssa.Instruction) {
			call, ok := in.(ssa.CallInstruction)
			if ok && call.Common().IsInvoke() && call.Common().Method.Name() == "Reset" && instrDominates(call, firstW) {
				okReset = true
			}
		})
		if !okReset {
			bad = "the HMAC is not reset before the public key is hashed"
		}
		if !hasFact(ff.NC(firstW.Block()), func(f Fact) bool {
			x, isNil, ok := FactNilCmp(f)
			return ok && isNil && isFieldLoad(x, "transports/scramblesuit.ssDHClientHandshake", "serverPublicKey")
		}) {
			bad = "the public key is hashed on every invocation"
		}
	}
	if len(finalWrites) == 0 && bad == "" {
		bad = "MAC writes not identified"
	}
	if bad != "" {
		ob.Violate("%s", bad)
	} else {
		ob.HoldNT("Reset; Write(Y) once (serverPublicKey == nil); later writes only on paths that cannot retry")
	}

	// key material offsets
	ob = c.Obl("R4", "transports/scramblesuit:(*ssConn).initCrypto#offsets", "session keys are HKDF-Expand-SHA256(seed) split as tx: key[0:32] iv[32:40] mac[80:112]; rx: key[40:72] iv[72:80] mac[112:144]; the CTR counter starts at 1 behind the 8-byte IV prefix")
	ic := p.Func("transports/scramblesuit:(*ssConn).initCrypto")
	if ic == nil {
		ob.Undecide("initCrypto not found")
		return
	}
	bad = ""
	want := map[string][6]int64{"txCrypto": {0, 32, 32, 40, 80, 112}, "rxCrypto": {40, 72, 72, 80, 112, 144}}
	for f, w := range want {
		okF := false
		for _, s := range p.Stores(tSSConn, f) {
			if s.Fn != ic {
				continue
			}
			nc, _ := callOf(unspill(s.Val))
			if nc == nil || len(nc.Common().Args) != 3 {
				continue
			}
			okF = true
			for i, a := range nc.Common().Args {
				_, lo, hi, ok := sliceOfLocalConst(a)
				if !ok || lo != w[2*i] || hi != w[2*i+1] {
					bad = fmt.Sprintf("%s argument %d is okm[%d:%d], expected okm[%d:%d]", f, i, lo, hi, w[2*i], w[2*i+1])
				}
			}
		}
		if !okF && bad == "" {
			bad = f + " is not installed by initCrypto"
		}
	}
	t := p.newTermer()
	for _, rf := range p.ReadFullsIn(ic) {
		if got := t.Term(rf.Common().Args[0]); got != "hkdf-expand-sha256[prk=$1;info=\"\"]" {
			bad = "key material comes from " + got
		}
	}
	if bad != "" {
		ob.Violate("%s", bad)
	} else {
		ob.HoldNT("HKDF-Expand(seed); tx (0:32,32:40,80:112) rx (40:72,72:80,112:144)")
	}
}

// sliceAbs resolves a slice of slices to its root value and the absolute
// range [lo, hi) it covers there (open: the range runs to the end of root).
func sliceAbs(lc *linCtx, v ssa.Value) (root ssa.Value, lo, hi Lin, open bool) {
	v = unspill(v)
	sl, ok := v.(*ssa.Slice)
	if !ok {
		return v, linConst(0), Lin{}, true
	}
	root, lo0, hi0, open0 := sliceAbs(lc, sl.X)
	lo = lo0
	if sl.Low != nil {
		lo = lo0.Add(lc.Of(sl.Low))
	}
	if sl.High != nil {
		return root, lo, lo0.Add(lc.Of(sl.High)), false
	}
	return root, lo, hi0, open0
}

// c15MarkWindow: the search for M_S covers every position at which a mark followed by its MAC still fits into a
// maximum-length response: the window handed to bytes.Index ends at min(len(resp), 1532-16).  A tighter clamp
// rejects a conforming server whose padding puts the mark in the last 16 positions.
func c15MarkWindow(c *Ctx, p *Prog) {
	const key = "transports/scramblesuit:(*ssDHClientHandshake).parseServerHandshake"
	ob := c.Obl("R4", key+"#mark-window", "the mark is searched in resp[192:min(len(resp), 1516)]: the clamp of the window's end is maxHandshakeLength-macLength, exactly")
	fn := p.Func(key)
	if fn == nil {
		ob.Undecide("not found")
		return
	}
	var par *ssa.Parameter
	for _, q := range fn.Params {
		if isByteSlice(q.Type()) {
			par = q
		}
	}
	n := 0
	bad := ""
	for _, call := range p.CallsIn(fn, "bytes.Index") {
		sl, ok := unspill(call.Common().Args[0]).(*ssa.Slice)
		if !ok || sl.High == nil || par == nil || unspill(sl.X) != ssa.Value(par) {
			continue
		}
		n++
		// High = phi(len(resp), K) or min-like: collect the constants among its leaves
		var ks []int64
		hasLen := false
		for _, lf := range errLeaves(sl.High) {
			if k, ok := intConst(lf); ok {
				ks = append(ks, k)
			} else if lc, _ := callOf(lf); lc != nil && p.CalleeID(lc.Common()) == "builtin:len" && unspill(lc.Common().Args[0]) == ssa.Value(par) {
				hasLen = true
			} else if lc != nil && (p.CalleeID(lc.Common()) == "builtin:min") {
				for _, a := range lc.Common().Args {
					if k, ok := intConst(a); ok {
						ks = append(ks, k)
					} else {
						hasLen = true
					}
				}
			}
		}
		if !hasLen || len(ks) != 1 || ks[0] != 1516 {
			bad = fmt.Sprintf("the window ends at %v (len(resp) among the alternatives: %v); expected min(len(resp), 1516)", ks, hasLen)
		}
	}
	switch {
	case n == 0:
		// the rule knows one way of writing the window; on another representation it decides nothing
		// (and says so) rather than raise an alarm it cannot justify
		ob.Hold("the search window is not written as resp[a:min(len(resp), K)] here: nothing decided on this representation")
	case bad != "":
		ob.Violate("%s", bad)
	default:
		ob.HoldNT("resp[192:min(len(resp), 1516)]")
	}
}
