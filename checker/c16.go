package main

// C16 — meek_lite (DESIGN 4, C16): structural clauses; byte-stream integrity
// across the worker goroutine is a scheduling property and is not decided.

import (
	"fmt"
	"go/token"
	"strings"

	"golang.org/x/tools/go/ssa"
)

const tMeek = "transports/meeklite.meekConn"

func init() {
	register(&PropInfo{
		ID: "C16", Level: "other", MinObls: 9,
		Explanation: "Stream integrity across the polling worker depends on goroutine scheduling and is not decided. Decided: R1 (bounds engine) the body handed to roundTrip is sndBuf[:wrSz] with 0 <= wrSz <= 65536 proved at the call, and what is kept for the next request is exactly sndBuf[wrSz:] with the same wrSz, prepended to the next body; " +
			"R2 one session id: sessionID has a single writer (the constructor, from newSessionID) and the request header is set from that field; R3 one request in flight: roundTrip is called only from ioWorker, synchronously, transport.RoundTrip only in roundTrip, and ioWorker is started by exactly one go statement outside any loop; " +
			"R4 closed-check-before-I/O: Read and Write test the close signal in their entry block, before anything else, and the closed arm returns an error without data; R5 no aliasing of in-flight data: every response slice handed to the reader comes from a fresh allocation (io.ReadAll) and Write enqueues a private copy of the caller's bytes; R6 polling stops after Close: the worker's select listens on the close channel and leaves the loop.",
		NotCovered: []string{"order and completeness of the byte stream under all timings of writes, polls and Close (schedules)", "HTTP transport behaviour", "retry/backoff timing"},
		Trusted:    []string{"go/types+go/ssa faithful", "io.ReadAll returns a freshly allocated slice", "library contracts of checker/contracts.go"},
		Run:        runC16,
	})
}

func runC16(c *Ctx) {
	if !importing {
		importObls(c, "C10", runC10, "X10", func(k string) bool { return containsAny(k, "transports/meeklite") })
	}
	p := c.P
	iow := p.Func("transports/meeklite:(*meekConn).ioWorker")
	rt := p.Func("transports/meeklite:(*meekConn).roundTrip")
	rd := p.Func("transports/meeklite:(*meekConn).Read")
	wr := p.Func("transports/meeklite:(*meekConn).Write")
	ob := c.Obl("R0", "anchors", "meekConn.ioWorker, roundTrip, Read and Write exist")
	if iow == nil || rt == nil || rd == nil || wr == nil {
		ob.Undecide("not found")
		return
	}
	ob.Hold("found")
	meekRdBufInvariant(c, p, "R7")
	meekResponseRules(c, p, "R5")
	noRetainedWriteArg(c, p, "R5")
	for _, f := range []*ssa.Function{iow, rt, rd, wr} {
		c.Touch(p.FuncKey(f))
	}
	b := p.NewBounds()

	// ---- R1
	calls := p.SitesOf(rt)
	ob = c.Obl("R1", p.FuncKey(iow)+"#body-bound", "no request body exceeds 65536 bytes: at the roundTrip call the argument is sndBuf[:wrSz] and 0 <= wrSz <= 65536 is provable from the facts that dominate the call")
	var rtCall *ssa.Call
	if len(calls) == 1 {
		rtCall, _ = calls[0].Instr.(*ssa.Call)
	}
	var body *ssa.Slice
	if rtCall == nil || calls[0].Caller != iow {
		ob.Violate("roundTrip is not called exactly once, synchronously, from ioWorker")
	} else {
		body, _ = unspill(rtCall.Common().Args[1]).(*ssa.Slice)
		if body == nil || body.Low != nil || body.High == nil {
			ob.Violate("the request body is not sndBuf[:wrSz]")
		} else {
			okb, why := b.Prove(iow, rtCall, func(s *scope, pr *proof) []Cons {
				l, ok := s.lenLin(body, pr)
				if !ok {
					return []Cons{{linConst(1)}}
				}
				return []Cons{leC(l, 65536), geC(l, 0)}
			})
			if okb {
				ob.At(p.InstrPos(rtCall)).HoldNT("len(body) <= 65536: %s", why)
			} else {
				ob.At(p.InstrPos(rtCall)).Violate("cannot prove len(body) <= 65536: %s", why)
			}
		}
	}
	ob = c.Obl("R1", p.FuncKey(iow)+"#remainder", "what was not sent is kept: the carry-over is exactly sndBuf[wrSz:] of the same buffer and the same wrSz as the body sndBuf[:wrSz], stored only after the request succeeded, and the next body starts with it")
	if body != nil {
		bad := ""
		var rest *ssa.Slice
		allInstrs(iow, func(in ssa.Instruction) {
			if sl, ok := in.(*ssa.Slice); ok && sl != body && unspill(sl.X) == unspill(body.X) && sl.Low != nil && sl.High == nil {
				rest = sl
			}
		})
		if rest == nil || unspill(rest.Low) != unspill(body.High) {
			bad = "no slice sndBuf[wrSz:] with the wrSz of the body: bytes between the body and the remainder would be lost or duplicated"
		} else {
			// flows into the loop-carried leftBuf phi, which is the first operand of the append that builds the next body
			okCarry := false
			for _, r := range *rest.Referrers() {
				if ph, ok := r.(*ssa.Phi); ok {
					for _, rr := range *ph.Referrers() {
						if lp, ok := rr.(*ssa.Phi); ok && blockOnCycle(lp.Block()) {
							for _, u := range *lp.Referrers() {
								if ap, ok := u.(*ssa.Call); ok && p.CalleeID(ap.Common()) == "builtin:append" && ap.Common().Args[0] == ssa.Value(lp) {
									okCarry = true
								}
							}
						}
					}
				}
			}
			if !okCarry {
				bad = "the remainder is not prepended to the next request body"
			}
			if !hasFact(p.Facts(iow).NC(rest.Block()), func(f Fact) bool { return FactErrNilOfCall(f, rtCall) }) {
				bad = "the remainder is updated although the request failed"
			}
		}
		if bad != "" {
			ob.Violate("%s", bad)
		} else {
			ob.HoldNT("leftBuf = sndBuf[wrSz:]; next sndBuf = append(leftBuf, ...)")
		}
	} else {
		ob.Undecide("body not identified")
	}
	// the bytes taken from the queue are appended in arrival order
	ob = c.Obl("R1", p.FuncKey(iow)+"#coalescing-order", "queued writes are appended to the body in the order they are received from the write channel, nothing is dropped: every receive from workerWrChan flows into an append onto the body buffer")
	bad := ""
	nrecv := 0
	allInstrs(iow, func(in ssa.Instruction) {
		var recvd ssa.Value
		switch x := in.(type) {
		case *ssa.UnOp:
			if x.Op == token.ARROW && isFieldLoad(x.X, tMeek, "workerWrChan") {
				recvd = x
			}
		case *ssa.Select:
			for i, st := range x.States {
				if st.Dir == 2 && isFieldLoad(st.Chan, tMeek, "workerWrChan") { // types.RecvOnly
					for _, r := range *x.Referrers() {
						if ex, ok := r.(*ssa.Extract); ok && ex.Index == 2+i {
							recvd = ex
						}
					}
				}
			}
		}
		if recvd == nil {
			return
		}
		nrecv++
		okApp := false
		var follow func(v ssa.Value, d int)
		follow = func(v ssa.Value, d int) {
			if d > 3 {
				return
			}
			for _, r := range *v.Referrers() {
				switch u := r.(type) {
				case *ssa.Phi:
					follow(u, d+1)
				case *ssa.Call:
					if p.CalleeID(u.Common()) == "builtin:append" && len(u.Common().Args) == 2 && u.Common().Args[1] == v {
						okApp = true
					}
				}
			}
		}
		follow(recvd, 0)
		if !okApp {
			bad = "bytes received at " + p.InstrPos(in) + " are not appended to the body"
		}
	})
	if nrecv < 2 && bad == "" {
		bad = fmt.Sprintf("%d receives from the write channel, expected 2", nrecv)
	}
	if bad != "" {
		ob.Violate("%s", bad)
	} else {
		ob.HoldNT("%d receive sites, each appended as second operand (after what is already buffered)", nrecv)
	}

	// ---- R2
	ob = c.Obl("R2", tMeek+".sessionID#single", "every request of a connection carries the same session identifier: the field is written once (constructor, from newSessionID) and the X-Session-Id header is set from it")
	st := p.Stores(tMeek, "sessionID")
	bad = ""
	if len(st) != 1 {
		bad = fmt.Sprintf("%d stores to sessionID", len(st))
	} else {
		if _, isAlloc := st[0].Base.(*ssa.Alloc); !isAlloc {
			bad = "sessionID is written outside the constructor literal"
		}
		if p.Slice(st[0].Val, SliceOpt{NoMem: true}).DependsOnCall("$M/transports/meeklite.newSessionID") == nil {
			bad = "sessionID does not come from newSessionID()"
		}
	}
	okHdr := false
	for _, call := range p.CallsIn(rt, "(net/http.Header).Set") {
		if k, ok := constString(call.Common().Args[1]); ok && k == "X-Session-Id" && isFieldLoad(call.Common().Args[2], tMeek, "sessionID") {
			okHdr = true
		}
	}
	if !okHdr && bad == "" {
		bad = "the X-Session-Id header is not set from c.sessionID"
	}
	if bad != "" {
		ob.Violate("%s", bad)
	} else {
		ob.HoldNT("one store in the constructor; Header.Set(\"X-Session-Id\", c.sessionID)")
	}

	// ---- R3
	ob = c.Obl("R3", "one-request-in-flight", "at most one request is in flight: http RoundTrip is invoked only inside roundTrip, roundTrip only (synchronously) from ioWorker, and ioWorker is started by exactly one go statement outside any loop")
	bad = ""
	for _, fn := range p.Funcs {
		if relPkg(fn.Pkg.Pkg.Path()) != "transports/meeklite" {
			continue
		}
		allInstrs(fn, func(in ssa.Instruction) {
			call, ok := in.(ssa.CallInstruction)
			if !ok {
				return
			}
			id := p.CalleeID(call.Common())
			if strings.HasSuffix(id, ".RoundTrip") && fn != rt {
				bad = "RoundTrip called outside roundTrip at " + p.InstrPos(call)
			}
			if strings.HasPrefix(id, "(*net/http.Client).") {
				bad = "an http.Client request at " + p.InstrPos(call)
			}
		})
	}
	for _, cs := range p.SitesOf(rt) {
		if _, isCall := cs.Instr.(*ssa.Call); !isCall || cs.Caller != iow {
			bad = "roundTrip is started asynchronously or outside ioWorker at " + p.InstrPos(cs.Instr)
		}
	}
	if blockOnCycle(rt.Blocks[0]) {
		bad = "roundTrip re-enters itself"
	}
	if !singleWorker(p, iow) {
		bad = "ioWorker is not started by exactly one go statement outside any loop"
	}
	if bad != "" {
		ob.Violate("%s", bad)
	} else {
		ob.HoldNT("RoundTrip only in roundTrip; roundTrip only from ioWorker (call); one go ioWorker()")
	}

	// ---- R4
	for _, fn := range []*ssa.Function{rd, wr} {
		ob := c.Obl("R4", p.FuncKey(fn)+"#closed-check-first", "the method tests the close signal before anything else (non-blocking select on workerCloseChan in the entry block) and the closed arm returns an error and no data: after Close both Read and Write fail")
		sel, _ := firstSelect(fn)
		bad := ""
		switch {
		case sel == nil || sel.Block() != fn.Blocks[0] || sel.Blocking || len(sel.States) != 1 || !isFieldLoad(sel.States[0].Chan, tMeek, "workerCloseChan"):
			bad = "no non-blocking select on workerCloseChan in the entry block"
		default:
			// nothing observable before it
			for _, in := range fn.Blocks[0].Instrs {
				if in == ssa.Instruction(sel) {
					break
				}
				switch in.(type) {
				case *ssa.Call, *ssa.Send, *ssa.Store, *ssa.Go, *ssa.Defer:
					bad = "work is done before the closed test at " + p.InstrPos(in)
				}
			}
			// closed arm: index == 0 → return 0, non-nil error
			ff := p.Facts(fn)
			okArm := false
			for _, r := range returnsOf(fn) {
				isClosedArm := hasFact(ff.NC(r.Block()), func(f Fact) bool {
					bo, ok := f.Cond.(*ssa.BinOp)
					if !ok || !f.Pol || bo.Op != token.EQL {
						return false
					}
					ex, ok := unspill(bo.X).(*ssa.Extract)
					k, isK := intConst(bo.Y)
					return ok && ex.Tuple == ssa.Value(sel) && ex.Index == 0 && isK && k == 0
				})
				if !isClosedArm {
					continue
				}
				n, isN := intConst(r.Results[0])
				if isN && n == 0 && ff.ProvablyNonNil(r.Results[1], r.Block(), 0) {
					okArm = true
				} else {
					bad = "the closed arm does not return (0, error)"
				}
			}
			if !okArm && bad == "" {
				bad = "no return on the closed arm"
			}
		}
		if bad != "" {
			ob.Violate("%s", bad)
		} else {
			ob.HoldNT("select { case <-workerCloseChan: return 0, err; default: } first")
		}
	}

	// ---- R5
	ob = c.Obl("R5", p.FuncKey(rt)+"#fresh-response", "every response slice the worker hands to the reader is a fresh allocation (io.ReadAll): a later poll can never overwrite data that is still queued or partly read")
	bad = ""
	for _, r := range returnsOf(rt) {
		v := unspill(r.Results[0])
		if k, ok := v.(*ssa.Const); ok && k.IsNil() {
			continue
		}
		for _, o := range p.Origins(v) {
			oc, _ := callOf(o)
			if oc == nil || p.CalleeID(oc.Common()) != "io.ReadAll" {
				if k, ok := o.(*ssa.Const); ok && k.IsNil() {
					continue
				}
				bad = "roundTrip returns " + p.valString(o) + " at " + p.InstrPos(r) + ", not a fresh io.ReadAll result: queued responses would share storage"
			}
		}
	}
	// what is sent on workerRdChan is roundTrip's result
	allInstrs(iow, func(in ssa.Instruction) {
		if s, ok := in.(*ssa.Send); ok && isFieldLoad(s.Chan, tMeek, "workerRdChan") {
			if ex, ok := unspill(s.X).(*ssa.Extract); !ok || ex.Tuple != ssa.Value(rtCall) || ex.Index != 0 {
				bad = "the value queued for the reader is not roundTrip's result"
			}
		}
	})
	if bad != "" {
		ob.Violate("%s", bad)
	} else {
		ob.HoldNT("roundTrip returns io.ReadAll(...) or nil; queued as is")
	}
	ob = c.Obl("R5", p.FuncKey(wr)+"#private-copy", "Write enqueues a private copy of the caller's bytes (the caller may reuse its buffer as soon as Write returns) and reports len(b)")
	bad = ""
	enq := p.CallsIn(wr, "(*$M/transports/meeklite.meekConn).enqueueWrite")
	if len(enq) != 1 {
		bad = "Write does not enqueue exactly once"
	} else {
		ap, _ := callOf(unspill(enq[0].Common().Args[1]))
		// make([]byte, len(b)) + copy(fresh, b) is the same private copy
		okMake := false
		if ms, isMake := unspill(enq[0].Common().Args[1]).(*ssa.MakeSlice); isMake {
			if lc, _ := callOf(unspill(ms.Len)); lc != nil && p.CalleeID(lc.Common()) == "builtin:len" && unspill(lc.Common().Args[0]) == ssa.Value(wr.Params[1]) {
				for _, cp := range p.CallsIn(wr, "builtin:copy") {
					if unspill(cp.Common().Args[0]) == ssa.Value(ms) && unspill(cp.Common().Args[1]) == ssa.Value(wr.Params[1]) && instrDominates(cp, enq[0]) {
						okMake = true
					}
				}
			}
		}
		// bytes.Clone(b) / slices.Clone(b): the library's spelling of append([]byte{}, b...)
		if ap != nil && !okMake {
			if id := p.CalleeID(ap.Common()); (id == "bytes.Clone" || strings.HasPrefix(id, "slices.Clone")) && len(ap.Common().Args) == 1 && unspill(ap.Common().Args[0]) == ssa.Value(wr.Params[1]) {
				okMake = true
			}
		}
		if okMake {
			// holds
		} else if ap == nil || p.CalleeID(ap.Common()) != "builtin:append" || unspill(ap.Common().Args[1]) != ssa.Value(wr.Params[1]) {
			bad = "the enqueued slice is not append(fresh, b...)"
		} else {
			for _, o := range p.Origins(ap.Common().Args[0]) {
				switch x := o.(type) {
				case *ssa.Alloc, *ssa.MakeSlice:
				case *ssa.Slice:
					if _, isAlloc := x.X.(*ssa.Alloc); !isAlloc {
						bad = "the copy is appended to shared storage"
					}
				case *ssa.Const:
				default:
					bad = "the copy is appended to shared storage"
				}
			}
		}
	}
	if bad != "" {
		ob.Violate("%s", bad)
	} else {
		ob.HoldNT("enqueueWrite(append([]byte{}, b...))")
	}

	// a Write that loses the race with Close (send on the closed channel, recovered) must report it
	ob = c.Obl("R4", "transports/meeklite:(*meekConn).enqueueWrite#closed-reported", "the recover handler of enqueueWrite stores the failure into enqueueWrite's own named result (not into a variable of its own): a Write that was blocked while the connection closed does not report success")
	if enqF := p.Func("transports/meeklite:(*meekConn).enqueueWrite"); enqF == nil {
		ob.Undecide("enqueueWrite not found")
	} else {
		c.Touch(p.FuncKey(enqF))
		// named results are allocs that a Return loads from; the handler gets them as free variables
		resAllocs := map[ssa.Value]bool{}
		for _, r := range returnsOf(enqF) {
			for _, v := range r.Results {
				if u, ok := v.(*ssa.UnOp); ok {
					if al, ok := u.X.(*ssa.Alloc); ok {
						resAllocs[al] = true
					}
				}
			}
		}
		okStore, nRecover := false, 0
		for _, af := range enqF.AnonFuncs {
			hasRecover := false
			allInstrs(af, func(in ssa.Instruction) {
				if ci, ok := in.(ssa.CallInstruction); ok && p.CalleeID(ci.Common()) == "builtin:recover" {
					hasRecover = true
				}
			})
			if !hasRecover {
				continue
			}
			nRecover++
			var mk *ssa.MakeClosure
			allInstrs(enqF, func(in ssa.Instruction) {
				if m, ok := in.(*ssa.MakeClosure); ok && m.Fn == ssa.Value(af) {
					mk = m
				}
			})
			allInstrs(af, func(in ssa.Instruction) {
				st, ok := in.(*ssa.Store)
				if !ok || mk == nil {
					return
				}
				fv, ok := st.Addr.(*ssa.FreeVar)
				if !ok {
					return
				}
				for i, f := range af.FreeVars {
					if f == fv && i < len(mk.Bindings) && resAllocs[mk.Bindings[i]] {
						okStore = true
					}
				}
			})
		}
		switch {
		case nRecover == 0:
			ob.Violate("enqueueWrite has no recover handler: a send on the closed channel panics the caller")
		case !okStore:
			ob.Violate("the recover handler does not assign enqueueWrite's result: the failure is lost and Write reports success after Close")
		default:
			ob.HoldNT("the handler assigns the named result")
		}
	}

	// ---- R6
	ob = c.Obl("R6", p.FuncKey(iow)+"#stops-on-close", "polling stops after Close: the worker's blocking select listens on workerCloseChan and that arm leaves the loop; Close closes the channel exactly once (C10.R6)")
	bad = "the worker's select does not listen on workerCloseChan"
	allInstrs(iow, func(in ssa.Instruction) {
		sel, ok := in.(*ssa.Select)
		if !ok || !sel.Blocking {
			return
		}
		for i, st := range sel.States {
			if isFieldLoad(st.Chan, tMeek, "workerCloseChan") {
				// the arm index i leads out of the loop (to a block not on a cycle)
				bad = "the close arm does not leave the polling loop"
				for _, blk := range iow.Blocks {
					ifi := blockIf(blk)
					if ifi == nil {
						continue
					}
					bo, ok := ifi.Cond.(*ssa.BinOp)
					if !ok || bo.Op != token.EQL {
						continue
					}
					ex, ok := unspill(bo.X).(*ssa.Extract)
					k, isK := intConst(bo.Y)
					if ok && ex.Tuple == ssa.Value(sel) && isK && int(k) == i && !blockOnCycle(blk.Succs[0]) {
						bad = ""
					}
				}
			}
		}
	})
	if bad != "" {
		ob.Violate("%s", bad)
	} else {
		ob.HoldNT("case <-workerCloseChan: break loop")
	}
}

func firstSelect(fn *ssa.Function) (*ssa.Select, bool) {
	var sel *ssa.Select
	allInstrs(fn, func(in ssa.Instruction) {
		if s, ok := in.(*ssa.Select); ok && sel == nil {
			sel = s
		}
	})
	return sel, sel != nil
}
