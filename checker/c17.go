package main

// C17 — SOCKS5 front end (DESIGN 4, C17).  The argument parser's input/output
// relation is an escape-processing automaton over arbitrary bytes and is not
// decided; decided are segmentation independence, provenance of target and
// argument string, reader bounds, replies on failure.

import (
	"fmt"
	"go/token"
	"go/types"
	"strings"

	"golang.org/x/tools/go/ssa"
)

const tReq = "common/socks5.Request"

func init() {
	register(&PropInfo{
		ID: "C17", Level: "other", MinObls: 20,
		Explanation: "R1 segmentation independence: every read of the exchange goes through the request's bufio reader with ReadByte / io.ReadFull into a private buffer (no raw conn.Read, no Peek/ReadSlice/ReadLine whose result aliases the bufio buffer), so message boundaries on the wire cannot matter; " +
			"R2 provenance: Target = host:port with host taken from the arm of the received address type (4 bytes as dotted quad, the domain bytes verbatim, 16 bytes in brackets) and port = rawPort[0]<<8 | rawPort[1]; the argument string is the username followed by the password unless the password is the single NUL byte, parsed byte by byte (no rune decoding) and stored in Request.Args; " +
			"R3 (bounds engine) every index/slice/make of the readers holds; R4 the exchange runs under the 5 s deadline typestate (C10.R1) and a flush with unread buffered input is an error; R5 every failure return of the command reader is preceded by a reply (command not supported -> 7, address type -> 8, else 1) and every RFC 1929 failure goes through the failure response.",
		NotCovered: []string{"the input/output relation of the escape-processing argument parser (an automaton over arbitrary bytes)", "round-trip of the argument encoding (needs execution)"},
		Trusted:    []string{"go/types+go/ssa faithful", "bufio/io.ReadFull semantics", "library contracts of checker/contracts.go"},
		Run:        runC17,
	})
}

func runC17(c *Ctx) {
	if !importing {
		importObls(c, "C10", runC10, "X10", func(k string) bool { return containsAny(k, "common/socks5") })
	}
	p := c.P
	var fns []*ssa.Function
	set := map[*ssa.Function]bool{}
	for _, fn := range p.Funcs {
		if relPkg(fn.Pkg.Pkg.Path()) == "common/socks5" && fn.Synthetic == "" {
			fns = append(fns, fn)
			set[fn] = true
			c.Touch(p.FuncKey(fn))
		}
	}
	hs := p.Func("common/socks5:Handshake")
	ob := c.Obl("R0", "anchors", "socks5.Handshake exists")
	if hs == nil {
		ob.Undecide("not found")
		return
	}
	ob.Hold("found; %d functions in package", len(fns))
	cio := newConnIO(p)

	// ---- R1
	ob = c.Obl("R1", "common/socks5#buffered-reads-only", "the front end never reads the connection directly and never uses a bufio primitive whose result aliases the reader's internal buffer: all input arrives through ReadByte or io.ReadFull into a private buffer")
	bad := ""
	nread := 0
	for _, fn := range fns {
		allInstrs(fn, func(in ssa.Instruction) {
			call, ok := in.(ssa.CallInstruction)
			if !ok {
				return
			}
			cm := call.Common()
			id := p.CalleeID(cm)
			if cm.IsInvoke() && cm.Method.Name() == "Read" && cio.mayBeConn(cm.Value) {
				bad = "raw Read of the connection at " + p.InstrPos(call)
			}
			if strings.HasPrefix(id, "(*bufio.Reader).") || strings.HasPrefix(id, "(*bufio.ReadWriter).") {
				m := id[strings.LastIndex(id, ".")+1:]
				switch m {
				case "ReadByte", "Buffered":
					nread++
				case "Read":
					bad = "a single bufio Read at " + p.InstrPos(call) + " may return fewer bytes than asked when the message is split across segments"
				default:
					bad = "bufio." + m + " at " + p.InstrPos(call) + ": its result aliases (or skips) the reader's buffer"
				}
			}
			if p.isReadFull(call) {
				nread++
				if !cio.wrapsConn(cm.Args[0]) && !isFieldLoad(stripConv(cm.Args[0]), tReq, "rw") {
					bad = "io.ReadFull at " + p.InstrPos(call) + " does not read from the request's buffered reader"
				}
			}
		})
	}
	if nread < 3 && bad == "" {
		bad = fmt.Sprintf("only %d buffered read sites found", nread)
	}
	if bad != "" {
		ob.Violate("%s", bad)
	} else {
		ob.HoldNT("%d read sites: ReadByte / io.ReadFull(req.rw, private)", nread)
	}
	ob = c.Obl("R1", "common/socks5:(*Request).readBytes#private-buffer", "readBytes returns a freshly allocated slice of exactly n bytes filled by io.ReadFull (a slice into the bufio buffer would be overwritten by the next refill)")
	rb := p.Func("common/socks5:(*Request).readBytes")
	if rb == nil {
		ob.Undecide("readBytes not found")
	} else {
		t := p.newTermer()
		bad := ""
		for _, r := range p.Facts(rb).SuccessReturns() {
			if got := t.Term(r.Results[0]); got != "read(<Request>.rw,$1)" {
				bad = "readBytes returns " + got + ", expected a fresh buffer of n bytes filled by io.ReadFull(req.rw, ...)"
			}
		}
		if len(t.errs) > 0 {
			bad = strings.Join(t.errs, "; ")
		}
		if bad != "" {
			ob.Violate("%s", bad)
		} else {
			ob.HoldNT("make([]byte, n) filled by io.ReadFull(req.rw, b)")
		}
	}

	// ---- R2 target
	c17Target(c, p)
	c17Args(c, p)

	// ---- R3 bounds
	n := boundsRule(c, set, "R3", "R3", nil)
	ob = c.Obl("R3", "count", "anti-vacuity: the readers' index obligations are found")
	if n < 8 {
		ob.Undecide("only %d", n)
	} else {
		ob.Hold("%d", n)
	}

	// ---- R4
	deadlineArmRule(c, "R4", hs, cio, 5e9)
	ob = c.Obl("R4", "common/socks5:(*Request).flushBuffers#trailing-data", "a flush point with unread buffered input is an error (the client must follow the exchange step by step)")
	fb := p.Func("common/socks5:(*Request).flushBuffers")
	if fb == nil {
		ob.Undecide("flushBuffers not found")
	} else {
		ff := p.Facts(fb)
		bad := ""
		for _, r := range ff.SuccessReturns() {
			if !hasFact(ff.NC(r.Block()), func(f Fact) bool {
				bo, ok := f.Cond.(*ssa.BinOp)
				if !ok {
					return false
				}
				op := bo.Op
				if !f.Pol {
					op = negOp(op)
				}
				bc, _ := callOf(unspill(bo.X))
				k, isK := intConst(bo.Y)
				return bc != nil && p.CalleeID(bc.Common()) == "(*bufio.Reader).Buffered" && isK && k == 0 && (op == token.LEQ || op == token.EQL)
			}) {
				bad = "flushBuffers can succeed with unread buffered input"
			}
			okFlush := false
			for call := range ff.SucceededCalls(r.Block()) {
				if strings.HasSuffix(p.CalleeID(call.Common()), ".Flush") {
					okFlush = true
				}
			}
			if !okFlush {
				bad = "flushBuffers can succeed without a successful Flush"
			}
		}
		if bad != "" {
			ob.Violate("%s", bad)
		} else {
			ob.HoldNT("Flush ok and Buffered() == 0")
		}
	}

	// ---- R5 replies
	c17Replies(c, p)
}

func c17Target(c *Ctx, p *Prog) {
	rc := p.Func("common/socks5:(*Request).readCommand")
	ob := c.Obl("R2", "common/socks5:(*Request).readCommand#target", "Request.Target is \"host:port\": host from the arm of the received address type, port = rawPort[0]<<8 | rawPort[1] of the two bytes read last")
	if rc == nil {
		ob.Undecide("readCommand not found")
		return
	}
	st := p.Stores(tReq, "Target")
	if len(st) != 1 || st[0].Fn != rc {
		ob.Violate("%d stores to Request.Target (expected one, in readCommand)", len(st))
		return
	}
	sp, _ := callOf(unspill(st[0].Val))
	if sp == nil || p.CalleeID(sp.Common()) != "fmt.Sprintf" {
		ob.Violate("Target is not built with fmt.Sprintf")
		return
	}
	if f, ok := constString(sp.Common().Args[0]); !ok || f != "%s:%d" {
		ob.Violate("Target format is not \"%%s:%%d\"")
		return
	}
	el := varargElems(sp)
	if len(el) != 2 {
		ob.Violate("Target is not built from exactly host and port")
		return
	}
	var host, port ssa.Value
	for _, e := range el {
		v := e
		for {
			if mi, ok := v.(*ssa.MakeInterface); ok {
				v = mi.X
				continue
			}
			break
		}
		if isStringLike(v.Type()) {
			host = v
		} else {
			port = v
		}
	}
	bad := ""
	// port
	okPort := false
	if or, ok := unspill(port).(*ssa.BinOp); ok && or.Op == token.OR {
		sh, ok1 := unspill(or.X).(*ssa.BinOp)
		if ok1 && sh.Op == token.SHL {
			if k, _ := intConst(sh.Y); k == 8 {
				hi, lo := byteIndexOf(sh.X), byteIndexOf(or.Y)
				if hi.ok && lo.ok && hi.idx == 0 && lo.idx == 1 && hi.base == lo.base {
					if rcall, idx := callOf(hi.base); rcall != nil && idx == 0 && rcall.Common().StaticCallee() != nil && rcall.Common().StaticCallee().Name() == "readBytes" {
						if k, _ := intConst(rcall.Common().Args[1]); k == 2 {
							okPort = true
						}
					}
				}
			}
		}
	}
	// binary.BigEndian.Uint16(rawPort) of the 2-byte read is the same number
	pv := unspill(port)
	if cv, isCv := pv.(*ssa.Convert); isCv {
		pv = unspill(cv.X)
	}
	if uc, _ := callOf(pv); uc != nil && p.CalleeID(uc.Common()) == "(encoding/binary.bigEndian).Uint16" {
		src := unspill(uc.Common().Args[1])
		if sl, isSl := src.(*ssa.Slice); isSl && (sl.Low == nil || func() bool { k, ok := intConst(sl.Low); return ok && k == 0 }()) {
			src = unspill(sl.X)
		}
		if rcall, idx := callOf(src); rcall != nil && idx == 0 && rcall.Common().StaticCallee() != nil && rcall.Common().StaticCallee().Name() == "readBytes" {
			if k, _ := intConst(rcall.Common().Args[1]); k == 2 {
				okPort = true
			}
		}
	}
	if !okPort {
		bad = "port is not int(rawPort[0])<<8 | int(rawPort[1]) of a 2-byte read"
	}
	// host: phi over the three arms
	ph, ok := unspill(host).(*ssa.Phi)
	if !ok {
		bad = "host is not selected by the address type"
	} else {
		ff := p.Facts(rc)
		arms := map[int64]string{}
		for i, e := range ph.Edges {
			pred := ph.Block().Preds[i]
			atyp := int64(-1)
			fs := append([]Fact{}, ff.NC(pred)...)
			if ef, ok := edgeFact(pred, ph.Block()); ok {
				fs = append(fs, ef)
			}
			for _, f := range fs {
				if bo, ok := f.Cond.(*ssa.BinOp); ok && bo.Op == token.EQL && f.Pol {
					if k, isK := intConst(bo.Y); isK && bo.X.Type().String() == "byte" {
						if rcall, idx := callOf(unspill(bo.X)); rcall != nil && idx == 0 && strings.HasSuffix(p.CalleeID(rcall.Common()), "readByte") {
							atyp = k
						}
					}
				}
			}
			arms[atyp] = hostArmShape(p, e)
		}
		if arms[1] != "ipv4(4)" {
			bad = "the IPv4 arm (ATYP 1) yields " + arms[1] + ", expected the 4 address bytes as a dotted quad"
		}
		if arms[3] != "bytes(n)" {
			bad = "the domain arm (ATYP 3) yields " + arms[3] + ", expected the domain bytes verbatim"
		}
		if arms[4] != "ipv6(16)" {
			bad = "the IPv6 arm (ATYP 4) yields " + arms[4] + ", expected the 16 address bytes in brackets"
		}
	}
	if bad != "" {
		ob.Violate("%s", bad)
	} else {
		ob.HoldNT("Sprintf(\"%%s:%%d\", phi{1: IPv4(addr[0..3]), 3: string(addr), 4: \"[\"+IP(rawAddr)+\"]\"}, rawPort[0]<<8|rawPort[1])")
	}
}

type byteIdx struct {
	base ssa.Value
	idx  int64
	ok   bool
}

// byteIndexOf matches int(x[i]) with constant i.
func byteIndexOf(v ssa.Value) byteIdx {
	v = unspill(v)
	if cv, ok := v.(*ssa.Convert); ok {
		v = unspill(cv.X)
	}
	u, ok := v.(*ssa.UnOp)
	if !ok || u.Op != token.MUL {
		return byteIdx{}
	}
	ia, ok := u.X.(*ssa.IndexAddr)
	if !ok {
		return byteIdx{}
	}
	k, ok := intConst(ia.Index)
	return byteIdx{unspill(ia.X), k, ok}
}

func hostArmShape(p *Prog, v ssa.Value) string {
	v = unspill(v)
	// string(addr) with addr = readBytes(int(alen))
	if cv, ok := v.(*ssa.Convert); ok && isStringLike(cv.Type()) {
		if rc, idx := callOf(unspill(cv.X)); rc != nil && idx == 0 && rc.Common().StaticCallee() != nil && rc.Common().StaticCallee().Name() == "readBytes" {
			if _, isC := intConst(rc.Common().Args[1]); !isC {
				return "bytes(n)"
			}
		}
		return "string(?)"
	}
	// "[" + net.IP(rawAddr).String() + "]"
	if o, ok := v.(*ssa.BinOp); ok && o.Op == token.ADD {
		if r, isR := constString(o.Y); isR && r == "]" {
			if i, ok := unspill(o.X).(*ssa.BinOp); ok && i.Op == token.ADD {
				if l, isL := constString(i.X); isL && l == "[" {
					if sc, _ := callOf(unspill(i.Y)); sc != nil && p.CalleeID(sc.Common()) == "(net.IP).String" {
						sl := p.Slice(sc.Common().Args[0], SliceOpt{})
						for x := range sl.Seen {
							if rc, ok := x.(*ssa.Call); ok && rc.Common().StaticCallee() != nil && rc.Common().StaticCallee().Name() == "readBytes" {
								if k, _ := intConst(rc.Common().Args[1]); k == 16 {
									return "ipv6(16)"
								}
							}
						}
						return "ipv6(?)"
					}
				}
			}
		}
		return "?"
	}
	c, _ := callOf(v)
	if c == nil {
		return "?"
	}
	switch p.CalleeID(c.Common()) {
	case "(net.IP).String":
		// net.IPv4(addr[0], addr[1], addr[2], addr[3]).String()
		if ic, _ := callOf(unspill(c.Common().Args[0])); ic != nil && p.CalleeID(ic.Common()) == "net.IPv4" {
			var base ssa.Value
			for i, a := range ic.Common().Args {
				bi := byteIndexOf(a)
				if !bi.ok || bi.idx != int64(i) || (base != nil && bi.base != base) {
					return "ipv4(misordered)"
				}
				base = bi.base
			}
			if rc, idx := callOf(base); rc != nil && idx == 0 {
				if k, _ := intConst(rc.Common().Args[1]); k == 4 {
					return "ipv4(4)"
				}
			}
			return "ipv4(?)"
		}
	case "fmt.Sprintf":
		if f, ok := constString(c.Common().Args[0]); ok && f == "[%s]" {
			for _, e := range varargElems(c) {
				sl := p.Slice(e, SliceOpt{})
				for x := range sl.Seen {
					if rc, ok := x.(*ssa.Call); ok && rc.Common().StaticCallee() != nil && rc.Common().StaticCallee().Name() == "readBytes" {
						if k, _ := intConst(rc.Common().Args[1]); k == 16 {
							return "ipv6(16)"
						}
					}
				}
			}
			return "ipv6(?)"
		}
	}
	return "?"
}

func c17Args(c *Ctx, p *Prog) {
	au := p.Func("common/socks5:(*Request).authRFC1929")
	ob := c.Obl("R2", "common/socks5:(*Request).authRFC1929#argument-string", "the PT argument string is the username followed by the password, the password being left out exactly when it is the single byte NUL; it is parsed by parseClientParameters and stored in Request.Args")
	if au == nil {
		ob.Undecide("authRFC1929 not found")
		return
	}
	pc := p.CallsIn(au, "$M/common/socks5.parseClientParameters")
	if len(pc) != 1 {
		ob.Violate("parseClientParameters is not called exactly once")
		return
	}
	arg := unspill(pc[0].Common().Args[0])
	ph, ok := arg.(*ssa.Phi)
	if !ok || len(ph.Edges) < 2 {
		ob.Violate("the argument string does not choose between username and username+password")
		return
	}
	ff := p.Facts(au)
	bad := ""
	var uname, passwd ssa.Value
	isStrOf := func(v ssa.Value) (ssa.Value, bool) {
		cv, ok := unspill(v).(*ssa.Convert)
		if !ok || !isStringLike(cv.Type()) {
			return nil, false
		}
		rc, idx := callOf(unspill(cv.X))
		if rc == nil || idx != 0 || rc.Common().StaticCallee() == nil || rc.Common().StaticCallee().Name() != "readBytes" {
			return nil, false
		}
		return unspill(cv.X), true
	}
	for i, e := range ph.Edges {
		pred := ph.Block().Preds[i]
		fs := append([]Fact{}, ff.NC(pred)...)
		if ef, ok := edgeFact(pred, ph.Block()); ok {
			fs = append(fs, ef)
		}
		e = unspill(e)
		if u, ok := isStrOf(e); ok {
			// username only: must hold plen == 1 && passwd[0] == 0
			uname = u
			okLen := hasFact(fs, func(f Fact) bool {
				bo, ok := f.Cond.(*ssa.BinOp)
				k, isK := intConst(bo2y(bo, ok))
				return ok && f.Pol && bo.Op == token.EQL && isK && k == 1
			})
			okNul := hasFact(fs, func(f Fact) bool {
				bo, ok := f.Cond.(*ssa.BinOp)
				if !ok || !f.Pol || bo.Op != token.EQL {
					return false
				}
				k, isK := intConst(bo.Y)
				bi := byteIndexOf(bo.X)
				return isK && k == 0 && bi.ok && bi.idx == 0
			})
			if !okLen || !okNul {
				bad = "the password is left out under a condition other than 'one byte long and that byte is NUL'"
			}
			continue
		}
		cat, ok := e.(*ssa.BinOp)
		if !ok || cat.Op != token.ADD {
			bad = "an arm of the argument string is neither username nor username+password"
			continue
		}
		u, ok1 := isStrOf(cat.X)
		pw, ok2 := isStrOf(cat.Y)
		if !ok1 || !ok2 {
			bad = "the concatenation is not string(uname) + string(passwd)"
			continue
		}
		uname, passwd = u, pw
		// every way into the concatenation block carries plen != 1 or passwd[0] != 0
		cb := cat.Block()
		for _, pp := range cb.Preds {
			fs2 := append([]Fact{}, ff.NC(pp)...)
			if ef, ok := edgeFact(pp, cb); ok {
				fs2 = append(fs2, ef)
			}
			okNeg := hasFact(fs2, func(f Fact) bool {
				bo, ok := f.Cond.(*ssa.BinOp)
				if !ok || f.Pol || bo.Op != token.EQL {
					return false
				}
				k, isK := intConst(bo.Y)
				if !isK {
					return false
				}
				if bi := byteIndexOf(bo.X); bi.ok && bi.idx == 0 && k == 0 {
					return true
				}
				return k == 1
			})
			if !okNeg {
				bad = "the password is appended on a path where neither 'plen != 1' nor 'passwd[0] != 0' is known"
			}
		}
	}
	if uname == nil || passwd == nil {
		bad = "username/password reads not identified"
	} else if uname == passwd {
		bad = "username and password are the same read"
	} else {
		// username is read before the password
		uc, _ := callOf(uname)
		pwc, _ := callOf(passwd)
		if !instrDominates(uc, pwc) {
			bad = "the password is read before the username"
		}
	}
	okStore := false
	for _, s := range p.Stores(tReq, "Args") {
		if ex, ok := unspill(s.Val).(*ssa.Extract); ok && ex.Tuple == ssa.Value(pc[0].(*ssa.Call)) && ex.Index == 0 {
			okStore = true
		}
	}
	if !okStore && bad == "" {
		bad = "the parsed arguments are not stored in Request.Args"
	}
	if bad != "" {
		ob.Violate("%s", bad)
	} else {
		ob.HoldNT("argStr = string(uname) [+ string(passwd) unless plen==1 && passwd[0]==0]; Args = parseClientParameters(argStr)")
	}

	ob = c.Obl("R2", "common/socks5:parseClientParameters#bytewise", "the argument parser walks the string byte by byte (never by rune: 8-bit bytes must pass through unchanged) and appends the byte it examined")
	pf := p.Func("common/socks5:parseClientParameters")
	if pf == nil {
		ob.Undecide("parseClientParameters not found")
		return
	}
	bad = ""
	nApp := 0
	allInstrs(pf, func(in ssa.Instruction) {
		switch x := in.(type) {
		case *ssa.Range:
			if isStringLike(x.X.Type()) {
				bad = "range over a string at " + p.InstrPos(x) + " decodes runes: invalid UTF-8 bytes are replaced by U+FFFD"
			}
		case *ssa.Call:
			if p.CalleeID(x.Common()) == "builtin:append" && isByteSlice(x.Type()) {
				nApp++
				// appended element: a 1-byte slice literal holding the loop byte
				src := x.Common().Args[1]
				okByte := false
				if sl, ok := unspill(src).(*ssa.Slice); ok {
					if a, ok := sl.X.(*ssa.Alloc); ok {
						for _, r := range *a.Referrers() {
							if ia, ok := r.(*ssa.IndexAddr); ok {
								for _, rr := range *ia.Referrers() {
									if st, ok := rr.(*ssa.Store); ok {
										if b, ok := st.Val.Type().Underlying().(*types.Basic); ok && b.Kind() == types.Uint8 {
											okByte = true
										}
									}
								}
							}
						}
					}
				}
				if !okByte {
					bad = "the accumulator does not receive the examined byte at " + p.InstrPos(x)
				}
			}
		}
	})
	if nApp == 0 && bad == "" {
		bad = "no byte is ever accumulated"
	}
	if bad != "" {
		ob.Violate("%s", bad)
	} else {
		ob.HoldNT("index loop over []byte(argStr); acc = append(acc, ch)")
	}
}

func bo2y(bo *ssa.BinOp, ok bool) ssa.Value {
	if !ok || bo == nil {
		return nil
	}
	return bo.Y
}

// c17FailureReplyMeansError: whoever tells the client that the request failed also tells its caller.
func c17FailureReplyMeansError(c *Ctx, p *Prog) {
	ob := c.Obl("R5", "common/socks5#failure-reply-means-error", "every return that follows a failure reply (Reply with a constant code other than ReplySucceeded) inside the handshake code carries a non-nil error: Handshake never succeeds with a request it has already refused")
	n := 0
	for _, fn := range p.Funcs {
		if relPkg(fn.Pkg.Pkg.Path()) != "common/socks5" || fn.Synthetic != "" {
			continue
		}
		ei := errResultIndex(fn)
		if ei < 0 {
			continue
		}
		if fn.Name() == "Reply" {
			continue
		}
		ff := p.Facts(fn)
		var bad string
		allInstrs(fn, func(in ssa.Instruction) {
			ci, ok := in.(ssa.CallInstruction)
			if !ok || bad != "" {
				return
			}
			sc := ci.Common().StaticCallee()
			if sc == nil || sc.Name() != "Reply" || len(ci.Common().Args) != 2 {
				return
			}
			// Reply(ReplySucceeded) is the one reply that is no refusal; a code that is not a constant (a
			// helper's parameter, the code a parser handed back with its error) is treated as a failure code
			if code, ok := intConst(ci.Common().Args[1]); ok && code == 0 {
				return
			}
			n++
			for _, r := range returnsOf(fn) {
				if !canReachWithout(in, r, nil) || ei >= len(r.Results) {
					continue
				}
				if ff.ProvablyNonNil(r.Results[ei], r.Block(), 0) {
					continue
				}
				// a small "reply and pass the error through" helper: the error is its parameter, and every
				// call site hands it a non-nil one
				if q, isParam := unspill(r.Results[ei]).(*ssa.Parameter); isParam && c17AllCallersPassNonNil(p, fn, q) {
					continue
				}
				bad = p.FuncKey(fn) + ": after the failure reply at " + p.InstrPos(in) + " the return at " + p.InstrPos(r) + " may carry a nil error"
			}
		})
		if bad != "" {
			ob.Violate("%s", bad)
			return
		}
	}
	if n == 0 {
		ob.Undecide("no failure reply found")
		return
	}
	ob.HoldNT("%d failure replies, every return after one is an error return", n)
}

// c17AllCallersPassNonNil: every call of fn (a function literal called through its variable, or a static helper)
// passes a provably non-nil error for parameter q; at least one call exists.
func c17AllCallersPassNonNil(p *Prog, fn *ssa.Function, q *ssa.Parameter) bool {
	idx := -1
	for i, x := range fn.Params {
		if x == q {
			idx = i
		}
	}
	if idx < 0 {
		return false
	}
	n := 0
	ok := true
	scan := func(caller *ssa.Function) {
		cf := p.Facts(caller)
		allInstrs(caller, func(in ssa.Instruction) {
			ci, isCall := in.(ssa.CallInstruction)
			if !isCall {
				return
			}
			match := false
			if sc := ci.Common().StaticCallee(); sc == fn {
				match = true
			} else if mk, isMk := unspill(ci.Common().Value).(*ssa.MakeClosure); isMk && mk.Fn == ssa.Value(fn) {
				match = true
			}
			if !match {
				return
			}
			args := ci.Common().Args
			off := 0
			if fn.Signature.Recv() != nil && !ci.Common().IsInvoke() {
				off = 0 // receiver is Params[0] and Args[0] alike
			}
			if idx+off >= len(args) {
				ok = false
				return
			}
			n++
			if !cf.ProvablyNonNil(args[idx+off], in.Block(), 0) {
				ok = false
			}
		})
	}
	if fn.Parent() != nil {
		scan(fn.Parent())
	} else {
		for _, g := range p.Funcs {
			if g.Pkg == fn.Pkg {
				scan(g)
			}
		}
	}
	return ok && n > 0
}

func c17Replies(c *Ctx, p *Prog) {
	c17FailureReplyMeansError(c, p)
	c17EscapeFlag(c, p)
	rc := p.Func("common/socks5:(*Request).readCommand")
	ob := c.Obl("R5", "common/socks5:(*Request).readCommand#reply-on-failure", "every failure return of the command reader is preceded, in its own block, by a reply to the client; an unsupported command is answered with code 7 and an unsupported address type with code 8")
	if rc == nil {
		ob.Undecide("readCommand not found")
		return
	}
	ff := p.Facts(rc)
	succ := map[*ssa.Return]bool{}
	for _, r := range ff.SuccessReturns() {
		succ[r] = true
	}
	bad := ""
	codes := map[int64]bool{}
	nfail := 0
	// a failure arm: one way of failing, with the reply code it sends and the facts that hold on it.
	// Either a failure return with its own constant Reply, or one incoming edge of a merged reply code
	// (single reply site: Reply(code) with code a phi of constants).
	type arm struct {
		facts []Fact
		code  int64
		pos   string
	}
	var arms []arm
	var expand func(v ssa.Value, facts []Fact, pos string, d int) bool
	expand = func(v ssa.Value, facts []Fact, pos string, d int) bool {
		v = unspill(v)
		if k, ok := intConst(v); ok {
			arms = append(arms, arm{facts, k, pos})
			return true
		}
		phi, ok := v.(*ssa.Phi)
		if !ok || d > 4 {
			return false
		}
		for i, e := range phi.Edges {
			pred := phi.Block().Preds[i]
			if ff.Infeasible(pred) || ff.EdgeInfeasible(pred, phi.Block()) {
				continue
			}
			fs := append([]Fact{}, ff.NC(pred)...)
			if ef, ok := edgeFact(pred, phi.Block()); ok {
				fs = append(fs, ef)
			}
			ppos := pos
			if len(pred.Instrs) > 0 {
				ppos = p.InstrPos(pred.Instrs[len(pred.Instrs)-1])
			}
			if !expand(e, fs, ppos, d+1) {
				return false
			}
		}
		return true
	}
	// a local helper closure  fail := func(code, err) error { _ = req.Reply(code); return err }
	replyVia := func(v ssa.Value) (ssa.Value, *ssa.Call, bool) {
		call, ok := unspill(v).(*ssa.Call)
		if !ok {
			return nil, nil, false
		}
		var fn *ssa.Function
		switch x := unspill(call.Common().Value).(type) {
		case *ssa.MakeClosure:
			fn, _ = x.Fn.(*ssa.Function)
		case *ssa.Function:
			fn = x
		}
		if fn == nil || fn.Parent() != rc {
			return nil, nil, false
		}
		var code ssa.Value
		n := 0
		allInstrs(fn, func(in ssa.Instruction) {
			if rp, ok := in.(*ssa.Call); ok && rp.Common().StaticCallee() != nil && rp.Common().StaticCallee().Name() == "Reply" && rp.Block() == fn.Blocks[0] {
				n++
				for i, q := range fn.Params {
					if unspill(rp.Common().Args[1]) == ssa.Value(q) && i < len(call.Common().Args) {
						code = call.Common().Args[i]
					}
				}
			}
		})
		if n != 1 || code == nil {
			return nil, nil, false
		}
		// the closure hands its error argument through
		for _, r := range returnsOf(fn) {
			if _, isParam := unspill(r.Results[0]).(*ssa.Parameter); !isParam {
				return nil, nil, false
			}
		}
		return code, call, true
	}
	for _, r := range returnsOf(rc) {
		if code, _, ok := replyVia(r.Results[0]); ok {
			// return fail(code, err): a failure arm whatever err is
			delete(succ, r)
			if !expand(code, ff.NC(r.Block()), p.InstrPos(r), 0) {
				bad = "the reply code at " + p.InstrPos(r) + " is not a constant on every path"
			}
			continue
		}
		if succ[r] {
			continue
		}
		found := false
		allInstrs(rc, func(in ssa.Instruction) {
			call, ok := in.(*ssa.Call)
			if !ok || call.Common().StaticCallee() == nil || call.Common().StaticCallee().Name() != "Reply" || !instrDominates(call, r) {
				return
			}
			// the reply belongs to this failure: nothing succeeds after it
			for s := range succ {
				if canReachWithout(call, s, nil) {
					return
				}
			}
			found = true
			if !expand(call.Common().Args[1], ff.NC(r.Block()), p.InstrPos(r), 0) {
				bad = "the reply code at " + p.InstrPos(call) + " is not a constant on every path"
			}
		})
		if !found {
			bad = "failure return at " + p.InstrPos(r) + " sends no reply"
		}
	}
	for _, a := range arms {
		codes[a.code] = true
	}
	nfail = len(arms)
	if !codes[7] || !codes[8] || !codes[1] {
		bad = fmt.Sprintf("reply codes used on failure are %v; expected 1 (general), 7 (command not supported) and 8 (address type not supported)", codes)
	}
	if nfail < 8 && bad == "" {
		bad = fmt.Sprintf("only %d failure arms found", nfail)
	}
	if bad != "" {
		ob.Violate("%s", bad)
	} else {
		ob.HoldNT("%d failure arms, each with a Reply; codes 1, 7, 8 in use", nfail)
	}
	// command/address type mapping
	ob = c.Obl("R5", "common/socks5:(*Request).readCommand#code-mapping", "the command check fails with 'command not supported' and the address-type default arm with 'address type not supported'")
	bad = ""
	for _, call := range p.CallsIn(rc, "(*$M/common/socks5.Request).readByteVerify") {
		descr, _ := constString(call.Common().Args[1])
		want := int64(1)
		if descr == "command" {
			want = 7
			if k, _ := intConst(call.Common().Args[2]); k != 1 {
				bad = "the only accepted command is not CONNECT (1)"
			}
		}
		// the failure arm(s) of this call
		n := 0
		for _, a := range arms {
			if !hasFact(a.facts, func(f Fact) bool {
				x, isNil, ok := FactNilCmp(f)
				cc, _ := callOf(unspill(x))
				return ok && !isNil && cc == call.(*ssa.Call)
			}) {
				continue
			}
			n++
			if a.code != want {
				bad = fmt.Sprintf("a wrong '%s' field is answered with code %d, expected %d", descr, a.code, want)
			}
		}
		if n == 0 && bad == "" {
			bad = fmt.Sprintf("no failure arm for a wrong '%s' field", descr)
		}
	}
	if bad != "" {
		ob.Violate("%s", bad)
	} else {
		ob.HoldNT("version/reserved -> 1, command -> 7")
	}
	au := p.Func("common/socks5:(*Request).authRFC1929")
	ob = c.Obl("R5", "common/socks5:(*Request).authRFC1929#failure-response", "every failure of the username/password sub-negotiation returns through the closure that sends the failure response (version 1, status 1)")
	if au == nil {
		ob.Undecide("authRFC1929 not found")
		return
	}
	aff := p.Facts(au)
	asucc := map[*ssa.Return]bool{}
	for _, r := range aff.SuccessReturns() {
		asucc[r] = true
	}
	bad = ""
	nf := 0
	// the failure response written in authRFC1929 itself (a helper method inlined back, or written
	// out by hand): a buffered Write of the two bytes {1, 1}
	failWrites := map[ssa.Instruction]bool{}
	for _, wc := range p.CallsIn(au, "(*bufio.Writer).Write", "(*bufio.ReadWriter).Write", "(bufio.ReadWriter).Write") {
		args := wc.Common().Args
		sl, ok := unspill(args[len(args)-1]).(*ssa.Slice)
		if !ok {
			continue
		}
		al, ok := sl.X.(*ssa.Alloc)
		if !ok {
			continue
		}
		n, ok := constLen(al.Type())
		if !ok || n != 2 {
			continue
		}
		vals := map[int64]int64{}
		for _, r := range *al.Referrers() {
			if ia, ok := r.(*ssa.IndexAddr); ok {
				idx, _ := intConst(ia.Index)
				for _, rr := range *ia.Referrers() {
					if st, ok := rr.(*ssa.Store); ok {
						if k, ok := intConst(st.Val); ok {
							vals[idx] = k
						} else {
							vals[idx] = -1
						}
					}
				}
			}
		}
		if vals[0] == 1 && vals[1] == 1 {
			failWrites[wc] = true
		}
	}
	for _, r := range returnsOf(au) {
		v := unspill(r.Results[0])
		call, _ := v.(*ssa.Call)
		viaClosure := false
		if !asucc[r] && len(failWrites) > 0 && !entryReachesWithout(au, r, failWrites) {
			nf++
			continue
		}
		if call != nil {
			if mc, ok := call.Common().Value.(*ssa.MakeClosure); ok {
				cl := mc.Fn.(*ssa.Function)
				// the closure writes {1,1} and returns its argument
				wr := p.CallsIn(cl, "(*bufio.Writer).Write", "(*bufio.ReadWriter).Write")
				if len(wr) == 1 {
					viaClosure = true
				}
			}
		}
		if viaClosure {
			nf++
			continue
		}
		if !asucc[r] {
			bad = "failure return at " + p.InstrPos(r) + " does not go through the failure response"
		}
	}
	if len(failWrites) > nf {
		nf = len(failWrites) // one merged failure return fed by several failure sites
	}
	if nf < 5 && bad == "" {
		bad = fmt.Sprintf("only %d failure paths go through the failure response", nf)
	}
	if bad != "" {
		ob.Violate("%s", bad)
	} else {
		ob.HoldNT("%d failure returns via sendErrResp", nf)
	}
}

// c17EscapeFlag: the one bit of state the argument parser carries from byte to byte is "the previous byte was an
// unescaped backslash".  Round every loop trip the flag is the constant false, the toggle of itself (the
// backslash arm), or itself where it is known to be false — a path that goes round again without having looked
// at the flag carries a stale escape into the next byte.
func c17EscapeFlag(c *Ctx, p *Prog) {
	const key = "common/socks5:parseClientParameters"
	ob := c.Obl("R2", key+"#escape-flag", "every value the escape flag takes at the loop's back edges is false, its own toggle (backslash), or itself on a path that has tested it false: no byte is appended with a stale escape pending")
	fn := p.Func(key)
	if fn == nil {
		ob.Undecide("not found")
		return
	}
	ff := p.Facts(fn)
	n := 0
	bad := ""
	for _, b := range fn.Blocks {
		for _, in := range b.Instrs {
			ph, ok := in.(*ssa.Phi)
			if !ok {
				break
			}
			if !isBoolType(ph.Type()) || !blockOnCycle(b) {
				continue
			}
			loopCarried := false
			for i := range ph.Edges {
				if isBackEdge(b.Preds[i], b) {
					loopCarried = true
				}
			}
			if !loopCarried {
				continue
			}
			n++
			var check func(v ssa.Value, pred *ssa.BasicBlock, d int) bool
			check = func(v ssa.Value, pred *ssa.BasicBlock, d int) bool {
				v = unspill(v)
				if _, isC := v.(*ssa.Const); isC {
					return true
				}
				if u, ok := v.(*ssa.UnOp); ok && u.Op == token.NOT && unspill(u.X) == ssa.Value(ph) {
					return true
				}
				if v == ssa.Value(ph) {
					fs := append([]Fact{}, ff.NC(pred)...)
					return hasFact(fs, func(f Fact) bool {
						cnd, pol := stripNot(f.Cond, f.Pol)
						return unspill(cnd) == ssa.Value(ph) && !pol
					})
				}
				if q, ok := v.(*ssa.Phi); ok && d < 4 {
					for j, e := range q.Edges {
						if !check(e, q.Block().Preds[j], d+1) {
							return false
						}
					}
					return true
				}
				return false
			}
			for i, e := range ph.Edges {
				if !isBackEdge(b.Preds[i], b) {
					continue
				}
				if !check(e, b.Preds[i], 0) {
					bad = "the flag goes round the loop unchanged on a path that has not tested it (back edge from " + b.Preds[i].Comment + ")"
				}
			}
		}
	}
	switch {
	case n == 0:
		ob.Undecide("no loop-carried boolean in %s", key)
	case bad != "":
		ob.Violate("%s", bad)
	default:
		ob.HoldNT("%d loop-carried flag(s), reset or tested on every trip", n)
	}
}
