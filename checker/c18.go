package main

// C18 — a bridge keeps its identity across restarts and crashes (DESIGN 4, C18).

import (
	"fmt"
	"go/constant"
	"go/token"
	"go/types"
	"sort"
	"strings"

	"golang.org/x/tools/go/ssa"
)

func init() {
	register(&PropInfo{
		ID: "C18", Level: "other", MinObls: 14,
		Explanation: "R1 atomic replace: every write of a persistent file in the module goes through a helper that creates a temporary file in the target's directory, writes, syncs and closes it, and renames it over the target only if all of those succeeded — never removing, truncating or rewriting the target itself; direct os.WriteFile/os.Create/truncating OpenFile of a state path is a violation (the regenerated bridge-line file and the append-only log are exempt by name); " +
			"R2 no silent regeneration: a fresh identity is generated only under os.IsNotExist of the state-file read, any other read or parse error is returned; R3 same identity advertised: the state (including an iat-mode override) is written back on every successful start and the advertised cert derives from the loaded state; R4 the cert writer/reader agree and the client accepts every advertised iat-mode (C06.R8).",
		NotCovered: []string{"what the file system does under power loss beyond the rename contract", "durability of the directory entry (no directory fsync)", "histories of starts (only the per-start structure is decided)"},
		Trusted:    []string{"go/types+go/ssa faithful", "POSIX rename atomically replaces the target; os.CreateTemp creates a new file"},
		Run:        runC18,
	})
}

var fileWriteExempt = map[string]string{
	"obfs4_bridgeline.txt": "operator-facing summary regenerated from the state on every start; losing it loses nothing",
}

// constStrings collects the string constants a path expression is built from
// (through +, path.Join/filepath.Join and phis).
func constStrings(p *Prog, v ssa.Value) []string {
	var out []string
	seen := map[ssa.Value]bool{}
	var walk func(v ssa.Value, d int)
	walk = func(v ssa.Value, d int) {
		v = unspill(v)
		if v == nil || seen[v] || d > 12 {
			return
		}
		seen[v] = true
		if s, ok := constString(v); ok {
			out = append(out, s)
			return
		}
		switch x := v.(type) {
		case *ssa.BinOp:
			walk(x.X, d+1)
			walk(x.Y, d+1)
		case *ssa.Phi:
			for _, e := range x.Edges {
				walk(e, d+1)
			}
		case *ssa.Convert:
			walk(x.X, d+1)
		case *ssa.Call:
			id := p.CalleeID(x.Common())
			if id == "path.Join" || id == "path/filepath.Join" {
				for _, e := range varargElems(x) {
					walk(e, d+1)
				}
			}
		}
	}
	walk(v, 0)
	sort.Strings(out)
	return out
}

func runC18(c *Ctx) {
	alwaysRewritten(c, c.P, "R3", "transports/obfs4:newBridgeFile", "the bridge line an operator copies must describe the identity and options of THIS start, also after an override or an explicit identity")
	// a persisted (or overridden) iat-mode that the range check refuses blocks every later start
	{
		p := c.P
		ob := c.Obl("R3", "transports/obfs4:serverStateFromJSONServerState#iat-range", "the iat-mode the state builder lets through ranges over exactly [0,2]: the smallest and the largest mode a bridge can run are both accepted, nothing outside is")
		fn := p.Func("transports/obfs4:serverStateFromJSONServerState")
		if fn == nil {
			ob.Undecide("not found")
		} else {
			b := p.NewBounds()
			bad := ""
			n := 0
			for _, s := range p.Stores("transports/obfs4.obfs4ServerState", "iatMode") {
				if s.Fn != fn {
					continue
				}
				n++
				// the interval the path conditions leave for the persisted mode (every load of js.IATMode is
				// the same value: the builder does not write it)
				lo, hi := int64(-1<<62), int64(1<<62)
				facts := append([]Fact{}, p.Facts(fn).NC(s.Instr.Block())...)
				// a range predicate valid(x) called on the mode: the conditions under which it returns the
				// value that lets the store be reached, re-stated on the caller's operand
				type sub struct{ par, arg ssa.Value }
				subs := []sub{}
				for _, f := range p.Facts(fn).NC(s.Instr.Block()) {
					cnd, pol := stripNot(f.Cond, f.Pol)
					cl, _ := callOf(unspill(cnd))
					if cl == nil {
						continue
					}
					g := cl.Common().StaticCallee()
					if g == nil || !p.inModule(g) || len(g.Params) != 1 || len(cl.Common().Args) != 1 {
						continue
					}
					var pick *ssa.Return
					cnt := 0
					for _, r := range returnsOf(g) {
						if len(r.Results) != 1 {
							continue
						}
						if k, ok := unspill(r.Results[0]).(*ssa.Const); ok && k.Value != nil && (k.Value.String() == "true") == pol {
							pick = r
							cnt++
						}
					}
					if cnt != 1 {
						continue
					}
					facts = append(facts, p.Facts(g).NC(pick.Block())...)
					subs = append(subs, sub{g.Params[0], cl.Common().Args[0]})
				}
				hullLo, hullHi, first := int64(0), int64(0), true
				for _, altFacts := range p.Facts(fn).Alternatives(facts, 0) {
					lo, hi = int64(-1<<62), int64(1<<62)
					for _, f := range altFacts {
						bo, ok := f.Cond.(*ssa.BinOp)
						if !ok {
							continue
						}
						x, y, op := bo.X, bo.Y, bo.Op
						if _, isC := x.(*ssa.Const); isC {
							x, y = y, x
							switch op {
							case token.LSS:
								op = token.GTR
							case token.LEQ:
								op = token.GEQ
							case token.GTR:
								op = token.LSS
							case token.GEQ:
								op = token.LEQ
							}
						}
						k, isK := intConst(y)
						if !isK {
							continue
						}
						unsigned := false
						if cv, isCv := x.(*ssa.Convert); isCv {
							if bt, ok := cv.Type().Underlying().(*types.Basic); ok && bt.Info()&types.IsUnsigned != 0 {
								unsigned = true
							}
							x = cv.X
						}
						for _, sb := range subs {
							if unspill(x) == sb.par {
								x = sb.arg
							}
						}
						if !isFieldLoad(unspill(x), "transports/obfs4.jsonServerState", "IATMode") {
							continue
						}
						if !f.Pol {
							op = negOp(op)
						}
						switch op {
						case token.LSS:
							if k-1 < hi {
								hi = k - 1
							}
						case token.LEQ:
							if k < hi {
								hi = k
							}
						case token.GTR:
							if k+1 > lo {
								lo = k + 1
							}
						case token.GEQ:
							if k > lo {
								lo = k
							}
						}
						if unsigned && (op == token.LSS || op == token.LEQ) && lo < 0 {
							lo = 0
						}
					}
					if first || lo < hullLo {
						hullLo = lo
					}
					if first || hi > hullHi {
						hullHi = hi
					}
					first = false
				}
				lo, hi = hullLo, hullHi
				_ = b
				if lo != 0 || hi != 2 {
					bad = fmt.Sprintf("the iat-mode that reaches the state ranges over [%d,%d], expected [0,2]", lo, hi)
				}
			}
			switch {
			case n == 0:
				ob.Undecide("no store of the iat-mode")
			case bad != "":
				ob.Violate("%s", bad)
			default:
				ob.HoldNT("iatMode in [0,2], both ends reachable")
			}
		}
	}
	mapValuesOwnAlloc(c, c.P, "R2", "transports/scramblesuit:loadTicketStore", "ticket")
	if !importing {
		// the ticket store "at worst is forgotten but never blocks start-up": what serialize writes must be
		// something loadTicketStore accepts (C15's serialize rule)
		importObls(c, "C15", runC15, "X15", func(k string) bool { return containsAny(k, "(*ssTicketStore).serialize") })
	}
	p := c.P
	// ---- R1a: the atomic helper(s): functions that call os.Rename
	helpers := map[*ssa.Function]bool{}
	for _, cs := range p.Sites("os.Rename") {
		helpers[cs.Caller] = true
	}
	ob := c.Obl("R1", "atomic-helper", "a replace-by-rename helper exists")
	if len(helpers) == 0 {
		ob.Violate("no function renames a temporary file over its target: persistent files can only be rewritten in place")
	} else {
		ob.Hold("%d helper(s)", len(helpers))
	}
	for h := range helpers {
		c18Helper(c, p, h)
	}
	// ---- R1b: every file-creating/truncating call outside the helpers
	n := 0
	cnt := map[string]int{}
	for _, id := range []string{"os.WriteFile", "os.Create", "os.OpenFile", "io/ioutil.WriteFile", "os.Truncate"} {
		for _, cs := range p.Sites(id) {
			if helpers[cs.Caller] {
				continue
			}
			n++
			args := cs.Instr.Common().Args
			names := constStrings(p, args[0])
			key := siteKey(p, cs.Instr, id, cnt)
			ob := c.Obl("R1", key, "a file that holds persistent state is never created/truncated in place: a crash between the truncation and the rewrite would leave it empty or torn").At(p.InstrPos(cs.Instr))
			if id == "os.OpenFile" {
				// append-only log: O_APPEND without O_TRUNC
				oApp, ok1 := p.stdConstInt("os", "O_APPEND")
				oTrunc, ok2 := p.stdConstInt("os", "O_TRUNC")
				if fl, ok := intConst(args[1]); ok && ok1 && ok2 && fl&oApp != 0 && fl&oTrunc == 0 {
					ob.Hold("append-only open (flags %#x)", fl)
					continue
				}
			}
			exempt := ""
			for _, nm := range names {
				if r, ok := fileWriteExempt[nm]; ok {
					exempt = nm + ": " + r
				}
			}
			if exempt != "" {
				ob.Hold("exempt: %s", exempt)
				c.Exclude(key + " — " + exempt)
				continue
			}
			ob.Violate("%s rewrites %v in place in %s; use the replace-by-rename helper", id, names, p.FuncKey(cs.Caller))
		}
	}
	// ---- R1c: the state files are written through the helper
	for _, k := range []struct{ name, why string }{
		{"obfs4_state.json", "the only copy of the bridge's identity key"},
		{"", "ScrambleSuit ticket store (ssTicketStore.filePath)"},
	} {
		ob := c.Obl("R1", "persisted:"+k.name+k.why[:10], "this persistent file ("+k.why+") is written through the replace-by-rename helper")
		found := false
		for h := range helpers {
			for _, cs := range p.SitesOf(h) {
				a0 := cs.Instr.Common().Args[0]
				if k.name != "" {
					for _, nm := range constStrings(p, a0) {
						if nm == k.name {
							found = true
						}
					}
				} else if isFieldLoad(a0, "transports/scramblesuit.ssTicketStore", "filePath") {
					found = true
				}
			}
		}
		if found {
			ob.HoldNT("written via the helper")
		} else {
			ob.Violate("no call of the replace-by-rename helper writes this file")
		}
	}
	c18Regeneration(c, p)
	c18WriteBack(c, p)
	// R4
	c06Cert(c, p)
}

func c18Helper(c *Ctx, p *Prog, h *ssa.Function) {
	hk := p.FuncKey(h)
	c.Touch(hk)
	ff := p.Facts(h)
	ob := c.Obl("R1", hk+"#sequence", "temp file in the target's directory -> Write(data) -> Sync -> Close -> Rename(temp, target), the rename reachable only if Write, Sync and Close all succeeded")
	renames := p.CallsIn(h, "os.Rename")
	temps := p.CallsIn(h, "os.CreateTemp")
	if len(renames) != 1 || len(temps) != 1 {
		ob.Violate("%d Rename and %d CreateTemp calls, expected 1 and 1", len(renames), len(temps))
		return
	}
	rn, ct := renames[0].(*ssa.Call), temps[0].(*ssa.Call)
	target := h.Params[0]
	var file ssa.Value
	for _, r := range *ct.Referrers() {
		if ex, ok := r.(*ssa.Extract); ok && ex.Index == 0 {
			file = ex
		}
	}
	bad := ""
	// rename(tmpName, target)
	if unspill(rn.Common().Args[1]) != ssa.Value(target) {
		bad = "the rename target is not the file name given to the helper"
	}
	if nc, _ := callOf(unspill(rn.Common().Args[0])); nc == nil || p.CalleeID(nc.Common()) != "(*os.File).Name" || unspill(nc.Common().Args[0]) != file {
		bad = "the file renamed is not the temporary file"
	}
	// temp dir derives from the target's directory
	dirSl := p.Slice(ct.Common().Args[0], SliceOpt{NoMem: true})
	if !dirSl.DependsOn(target) || (dirSl.DependsOnCall("path/filepath.Split") == nil && dirSl.DependsOnCall("path/filepath.Dir") == nil && dirSl.DependsOnCall("path.Dir") == nil && dirSl.DependsOnCall("path.Split") == nil) {
		bad = "the temporary file is not created in the target's directory (rename across file systems is not atomic)"
	}
	// write/sync/close on the temp file succeeded before rename
	succ := ff.SucceededCalls(rn.Block())
	need := map[string]bool{"(*os.File).Write": false, "(*os.File).Sync": false, "(*os.File).Close": false}
	var order []*ssa.Call
	for call := range succ {
		id := p.CalleeID(call.Common())
		if _, ok := need[id]; ok && unspill(call.Common().Args[0]) == file {
			need[id] = true
			order = append(order, call)
			if id == "(*os.File).Write" && unspill(call.Common().Args[1]) != ssa.Value(h.Params[1]) {
				bad = "the data written is not the helper's data argument"
			}
		}
	}
	for id, ok := range need {
		if !ok && bad == "" {
			bad = "the rename is reachable without a successful " + id + " on the temporary file"
		}
	}
	if bad == "" {
		var w, s, cl *ssa.Call
		for _, call := range order {
			switch p.CalleeID(call.Common()) {
			case "(*os.File).Write":
				w = call
			case "(*os.File).Sync":
				s = call
			case "(*os.File).Close":
				cl = call
			}
		}
		if !(instrDominates(w, s) || canReachWithout(w, s, nil)) || canReachWithout(s, w, nil) || !instrDominates(s, cl) && !canReachWithout(s, cl, nil) || canReachWithout(cl, s, nil) || !instrDominates(cl, rn) {
			bad = "Write, Sync, Close, Rename are not in this order"
		}
	}
	if bad != "" {
		ob.Violate("%s", bad)
	} else {
		ob.HoldNT("CreateTemp(dir(target)) ; Write ; Sync ; Close ; Rename(tmp, target) with all three successes guarding the rename")
	}
	ob = c.Obl("R1", hk+"#target-untouched", "before the rename the helper never removes, truncates or writes the target itself: at every instant the target name holds either the complete old or the complete new contents")
	bad = ""
	allInstrs(h, func(in ssa.Instruction) {
		call, ok := in.(ssa.CallInstruction)
		if !ok || call == ssa.CallInstruction(rn) {
			return
		}
		id := p.CalleeID(call.Common())
		if !strings.HasPrefix(id, "os.") {
			return
		}
		for i, a := range call.Common().Args {
			if unspill(a) == ssa.Value(target) && !(id == "os.Stat" || id == "os.Lstat") {
				bad = fmt.Sprintf("%s is applied to the target (argument %d) at %s: a crash right after it loses the persisted file", id, i, p.InstrPos(call))
			}
		}
	})
	if bad != "" {
		ob.Violate("%s", bad)
	} else {
		ob.HoldNT("only Rename touches the target")
	}
}

func c18Regeneration(c *Ctx, p *Prog) {
	ob := c.Obl("R2", "transports/obfs4:newJSONServerState#only-when-absent", "a new identity is generated only when reading the state file failed with os.IsNotExist; every other read or parse failure is reported and nothing is regenerated")
	gen := p.Func("transports/obfs4:newJSONServerState")
	if gen == nil {
		ob.Undecide("newJSONServerState not found")
		return
	}
	sites := p.SitesOf(gen)
	if len(sites) == 0 {
		ob.Undecide("newJSONServerState is never called")
		return
	}
	bad := ""
	for _, cs := range sites {
		fn := cs.Caller
		c.Touch(p.FuncKey(fn))
		ff := p.Facts(fn)
		okGuard := false
		for _, f := range ff.NC(cs.Instr.Block()) {
			call, ok := p.FactCallBool(f, "os.IsNotExist")
			if !ok || !f.Pol {
				continue
			}
			rc, idx := callOf(unspill(call.Common().Args[0]))
			if rc != nil && idx == 1 && (p.CalleeID(rc.Common()) == "os.ReadFile" || p.CalleeID(rc.Common()) == "io/ioutil.ReadFile") {
				names := constStrings(p, rc.Common().Args[0])
				for _, nm := range names {
					if nm == "obfs4_state.json" {
						okGuard = true
					}
				}
			}
		}
		if !okGuard {
			bad = "newJSONServerState at " + p.InstrPos(cs.Instr) + " is reachable without os.IsNotExist(err of reading obfs4_state.json): an unreadable or corrupt state file would be silently replaced by a new identity"
		}
		// success of the caller requires: read ok and unmarshal ok, or regeneration ok
		for _, r := range ff.SuccessReturns() {
			sc := ff.SucceededCalls(r.Block())
			okR := false
			for call := range sc {
				id := p.CalleeID(call.Common())
				if id == "encoding/json.Unmarshal" || call.Common().StaticCallee() == gen {
					okR = true
				}
			}
			// `return err` style returns whose value is the call's own result
			if rc, _ := callOf(unspill(r.Results[errResultIndex(fn)])); rc != nil && rc.Common().StaticCallee() == gen {
				okR = true
			}
			if !okR {
				bad = "success return at " + p.InstrPos(r) + " of " + p.FuncKey(fn) + " needs neither a successful parse nor a successful generation"
			}
		}
	}
	if bad != "" {
		ob.Violate("%s", bad)
	} else {
		ob.HoldNT("%d call site(s), each under os.IsNotExist(ReadFile error); success needs Unmarshal ok or generation ok", len(sites))
	}
}

// c18FieldAgreement: whatever a start reads back from the persisted JSON object
// must be something EVERY way of writing that object fills in: the generated
// identity (newJSONServerState) and the identity given by arguments
// (serverStateFromArgs) — otherwise a state written by one kind of start is
// rejected (or misread) by a later start of the other kind.
func c18FieldAgreement(c *Ctx, p *Prog) {
	const tJS = "transports/obfs4.jsonServerState"
	ob := c.Obl("R3", tJS+"#reader-writer-agreement", "every field of the persisted state that the load path reads is filled in by both writers (generation and explicit arguments): a later start must not depend on a field an earlier start may have left empty")
	sa := p.Func("transports/obfs4:serverStateFromArgs")
	if sa == nil {
		ob.Undecide("serverStateFromArgs not found")
		return
	}
	// writers: functions that store a field of the object, other than through decoding
	writersOf := map[string]map[*ssa.Function]bool{}
	readersOf := map[string][]string{}
	for _, fn := range p.Funcs {
		allInstrs(fn, func(in ssa.Instruction) {
			fa, ok := in.(*ssa.FieldAddr)
			if !ok {
				return
			}
			k, ok := fieldKeyOf(fa.X.Type(), fa.Field)
			if !ok || k.Type != tJS {
				return
			}
			for _, r := range *fa.Referrers() {
				switch x := r.(type) {
				case *ssa.Store:
					if x.Addr == ssa.Value(fa) {
						if writersOf[k.Field] == nil {
							writersOf[k.Field] = map[*ssa.Function]bool{}
						}
						writersOf[k.Field][fn] = true
					}
				case *ssa.UnOp:
					readersOf[k.Field] = append(readersOf[k.Field], p.FuncKey(fn)+" at "+p.InstrPos(x))
				}
			}
		})
	}
	// the writers that create a complete state: every function that stores NodeID (the identity)
	full := writersOf["NodeID"]
	if len(full) < 2 {
		ob.Violate("%d functions fill in the persisted identity (expected the generator and the argument path)", len(full))
		return
	}
	bad := ""
	var fields []string
	for f := range readersOf {
		fields = append(fields, f)
	}
	sort.Strings(fields)
	for _, f := range fields {
		for w := range full {
			if !writersOf[f][w] {
				// the iat-mode default is the zero value: a writer that leaves it alone writes 0 = iatNone
				if f == "IATMode" {
					continue
				}
				bad = fmt.Sprintf("field %s is read back (%s) but %s, which also persists an identity, never sets it", f, readersOf[f][0], p.FuncKey(w))
			}
		}
	}
	if len(fields) < 3 && bad == "" {
		bad = fmt.Sprintf("only %d fields are read back", len(fields))
	}
	if bad != "" {
		ob.Violate("%s", bad)
	} else {
		ob.HoldNT("read back: %v; each set by all %d identity writers", fields, len(full))
	}
}

// c18IdentityKey: the public key written to the state file at generation must be the one every later
// start re-derives from the private key (KeypairFromHex: plain base-point multiplication).  The
// Elligator variant of NewKeypair adds a low-order point to the public key, so the identity key is
// generated without it.
func c18IdentityKey(c *Ctx, p *Prog) {
	ob := c.Obl("R3", "transports/obfs4.obfs4ServerState.identityKey#derivation", "the bridge identity key comes from ntor.KeypairFromHex (reload) or ntor.NewKeypair(false) (generation): both derive the public key by plain base-point multiplication, so the public-key persisted and advertised in the legacy form is the one the server uses after every restart")
	bad := ""
	n := 0
	for _, st := range p.Stores("transports/obfs4.obfs4ServerState", "identityKey") {
		n++
		call, _ := callOf(unspill(st.Val))
		if call == nil {
			bad = "identityKey is assigned something other than a constructor result at " + p.InstrPos(st.Instr)
			continue
		}
		switch p.CalleeID(call.Common()) {
		case M("$M/common/ntor.KeypairFromHex"):
		case M("$M/common/ntor.NewKeypair"):
			if k, ok := call.Common().Args[0].(*ssa.Const); !ok || k.Value == nil || k.Value.String() != "false" {
				bad = "the identity key is generated with NewKeypair(" + p.valString(call.Common().Args[0]) + ") at " + p.InstrPos(call) + ": with Elligator the generated public key is not the one KeypairFromHex derives from the stored private key"
			}
		default:
			bad = "identityKey is built by " + p.CalleeID(call.Common())
		}
	}
	// generation may go through temporaries instead of a scratch state object: every NewKeypair call
	// of the state-file code is judged, wherever its result goes
	nGen := 0
	if sa := p.Func("transports/obfs4:serverStateFromArgs"); sa != nil {
		for fn := range p.Reachable(sa) {
			if !p.inModule(fn) || relPkg(fn.Pkg.Pkg.Path()) != "transports/obfs4" {
				continue
			}
			for _, call := range p.CallsIn(fn, "$M/common/ntor.NewKeypair") {
				nGen++
				if k, ok := call.Common().Args[0].(*ssa.Const); !ok || k.Value == nil || k.Value.String() != "false" {
					bad = "the identity key is generated with NewKeypair(" + p.valString(call.Common().Args[0]) + ") at " + p.InstrPos(call) + ": with Elligator the generated public key is not the one KeypairFromHex derives from the stored private key"
				}
			}
		}
	}
	if (n < 1 || nGen < 1) && bad == "" {
		bad = fmt.Sprintf("%d assignments of the identity key and %d generation sites (expected reload and generation)", n, nGen)
	}
	if bad != "" {
		ob.Violate("%s", bad)
	} else {
		ob.HoldNT("%d assignment(s), %d generation site(s): KeypairFromHex / NewKeypair(false)", n, nGen)
	}
}

func c18WriteBack(c *Ctx, p *Prog) {
	c18FieldAgreement(c, p)
	c18IdentityKey(c, p)
	ob := c.Obl("R3", "transports/obfs4:serverStateFromJSONServerState#write-back", "every successful start writes the (possibly overridden) state back: the function that builds the server state succeeds only if writeJSONServerState succeeded, with the same JSON object the state was built from")
	fn := p.Func("transports/obfs4:serverStateFromJSONServerState")
	wr := p.Func("transports/obfs4:writeJSONServerState")
	sa := p.Func("transports/obfs4:serverStateFromArgs")
	if fn == nil || wr == nil || sa == nil {
		ob.Undecide("state functions not found")
		return
	}
	c.Touch(p.FuncKey(fn))
	ff := p.Facts(fn)
	bad := ""
	for _, r := range ff.SuccessReturns() {
		okW := false
		if rc, _ := callOf(unspill(r.Results[errResultIndex(fn)])); rc != nil && rc.Common().StaticCallee() == wr {
			okW = unspill(rc.Common().Args[1]) == ssa.Value(fn.Params[1])
		}
		for call := range ff.SucceededCalls(r.Block()) {
			if call.Common().StaticCallee() == wr && unspill(call.Common().Args[1]) == ssa.Value(fn.Params[1]) {
				okW = true
			}
		}
		if !okW {
			bad = "success return at " + p.InstrPos(r) + " does not depend on writeJSONServerState(stateDir, js) having succeeded: an override would be advertised but not persisted"
		}
	}
	if bad != "" {
		ob.Violate("%s", bad)
	} else {
		ob.HoldNT("success requires writeJSONServerState(js) ok")
	}
	// the bridge line the operator hands out describes the state that is served: nothing of the state is
	// filled in after the summary file was written
	obB := c.Obl("R3", "transports/obfs4:serverStateFromJSONServerState#bridgeline-from-final-state", "newBridgeFile is called with the finished server state: no field of the state is stored after that call")
	badB, nB := "", 0
	allInstrs(fn, func(in ssa.Instruction) {
		ci, ok := in.(ssa.CallInstruction)
		if !ok {
			return
		}
		sc := ci.Common().StaticCallee()
		if sc == nil || sc.Name() != "newBridgeFile" {
			return
		}
		nB++
		allInstrs(fn, func(in2 ssa.Instruction) {
			st, ok := in2.(*ssa.Store)
			if !ok {
				return
			}
			if k, ok := fieldAddrKey(st.Addr); ok && k.Type == "transports/obfs4.obfs4ServerState" && canReachWithout(in, in2, nil) {
				badB = "obfs4ServerState." + k.Field + " is stored at " + p.InstrPos(in2) + ", after the bridge line file was written at " + p.InstrPos(in) + ": the file advertises the zero value"
			}
		})
	})
	switch {
	case nB == 0:
		obB.Undecide("no newBridgeFile call")
	case badB != "":
		obB.Violate("%s", badB)
	default:
		obB.HoldNT("no store to the state after newBridgeFile")
	}
	// a start that is rejected leaves the state file as it was: nothing can fail after the write-back
	// except the write itself (the file holds the only copy of the identity key)
	obV := c.Obl("R3", "transports/obfs4:serverStateFromJSONServerState#validated-before-written", "the state is written back only after everything that can reject it has passed: no failure return is reachable after writeJSONServerState other than through its own error")
	badV, nW := "", 0
	for _, wc := range p.CallsIn(fn, p.fnID(wr)) {
		nW++
		for _, r := range returnsOf(fn) {
			if !canReachWithout(wc, r, nil) {
				continue
			}
			ev := r.Results[errResultIndex(fn)]
			if isNilConst(unspill(ev)) {
				continue
			}
			own := true
			for _, lf := range errLeaves(ev) {
				if isNilConst(lf) {
					continue
				}
				if lc, _ := callOf(lf); lc == nil || ssa.Instruction(lc) != wc.(ssa.Instruction) {
					own = false
				}
			}
			if !own {
				badV = "the return at " + p.InstrPos(r) + " can fail after the state file was already rewritten at " + p.InstrPos(wc) + ": a rejected start has replaced the stored identity/options"
			}
		}
	}
	switch {
	case nW == 0:
		obV.Undecide("no write-back call")
	case badV != "":
		obV.Violate("%s", badV)
	default:
		obV.HoldNT("nothing can fail after the write-back but the write itself")
	}
	// the override is stored into the object that is handed on, and every success of serverStateFromArgs goes through fn
	ob = c.Obl("R3", "transports/obfs4:serverStateFromArgs#override-persisted", "an iat-mode argument is stored into the JSON state object before it is handed to the builder that writes it back, and serverStateFromArgs succeeds only through that builder")
	c.Touch(p.FuncKey(sa))
	sff := p.Facts(sa)
	bad = ""
	var build ssa.CallInstruction
	for _, call := range p.CallsIn(sa, p.fnID(fn)) {
		build = call
	}
	if build == nil {
		bad = "serverStateFromArgs does not call the state builder"
	} else {
		okStore := false
		for _, s := range p.Stores("transports/obfs4.jsonServerState", "IATMode") {
			if s.Fn == sa && canReachWithout(s.Instr, build, nil) {
				if ac, _ := callOf(unspill(s.Val)); ac != nil && p.CalleeID(ac.Common()) == "strconv.Atoi" {
					okStore = true
				}
			}
		}
		if !okStore {
			bad = "the parsed iat-mode is not stored into js.IATMode before the state is built"
		}
		// ... and nothing that is handed the same object (the state-file loader, the generator) runs
		// between the store and the builder: it would overwrite the override with the stored value
		for _, s := range p.Stores("transports/obfs4.jsonServerState", "IATMode") {
			if s.Fn != sa {
				continue
			}
			fa, ok := s.Instr.(*ssa.Store).Addr.(*ssa.FieldAddr)
			if !ok {
				continue
			}
			allInstrs(sa, func(in ssa.Instruction) {
				ci, ok := in.(ssa.CallInstruction)
				if !ok || in == build.(ssa.Instruction) {
					return
				}
				for _, a := range ci.Common().Args {
					if unspill(a) == unspill(fa.X) && canReachWithout(s.Instr, in, nil) && canReachWithout(in, build, nil) {
						bad = "after the iat-mode override is stored, " + p.CalleeID(ci.Common()) + " (" + p.InstrPos(in) + ") is handed the same state object before it is built: the override is overwritten by the loaded or generated value"
					}
				}
			})
		}
		for _, r := range sff.SuccessReturns() {
			if !instrDominates(build, r) {
				bad = "serverStateFromArgs can succeed without building (and writing back) the state"
			}
		}
	}
	if bad != "" {
		ob.Violate("%s", bad)
	} else {
		ob.HoldNT("js.IATMode = Atoi(iat-mode) precedes the builder; all success returns pass it")
	}
	// advertised args derive from the loaded state
	ob = c.Obl("R3", "transports/obfs4:(*Transport).ServerFactory#advertised-identity", "the cert and iat-mode advertised by Args() are computed from the state that serverStateFromArgs returned")
	sf := p.Func("transports/obfs4:(*Transport).ServerFactory")
	if sf == nil {
		ob.Undecide("ServerFactory not found")
		return
	}
	var adds []ssa.CallInstruction
	allInstrs(sf, func(in ssa.Instruction) {
		if call, ok := in.(ssa.CallInstruction); ok && strings.HasSuffix(p.CalleeID(call.Common()), "goptlib.Args).Add") {
			adds = append(adds, call)
		}
	})
	got := map[string]bool{}
	for _, a := range adds {
		key, _ := constString(a.Common().Args[1])
		sl := p.Slice(a.Common().Args[2], SliceOpt{NoMem: true})
		fromState := false
		for v := range sl.Seen {
			if k, _, ok := fieldLoad(v); ok && k.Type == "transports/obfs4.obfs4ServerState" && (k.Field == "cert" && key == "cert" || k.Field == "iatMode" && key == "iat-mode") {
				fromState = true
			}
		}
		if fromState {
			got[key] = true
		}
	}
	if !got["cert"] || !got["iat-mode"] {
		ob.Violate("Args() does not advertise both cert (from st.cert) and iat-mode (from st.iatMode)")
	} else {
		ob.HoldNT("cert = st.cert.String(), iat-mode = st.iatMode")
	}
}

// stdConstInt reads an integer constant of an imported (non-module) package as
// type-checked for the configuration under analysis (flag values differ per GOOS).
func (p *Prog) stdConstInt(pkg, name string) (int64, bool) {
	sp := p.SSA.ImportedPackage(pkg)
	if sp == nil {
		return 0, false
	}
	cst, ok := sp.Pkg.Scope().Lookup(name).(*types.Const)
	if !ok {
		return 0, false
	}
	return constant.Int64Val(constant.ToInt(cst.Val()))
}
