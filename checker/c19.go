package main

// C19 — relay and shutdown (DESIGN 4, C19): structural clauses only.

import (
	"fmt"
	"go/token"
	"go/types"
	"sort"

	"golang.org/x/tools/go/ssa"
)

func init() {
	register(&PropInfo{
		ID: "C19", Level: "other", MinObls: 10,
		Explanation: "Schedules are not decidable statically; decided are the structural necessary conditions: R1 the relay starts exactly two copier goroutines, each forwards with io.Copy in its own direction (crossed), each defers Close of BOTH connections and wg.Done, the error channel's capacity covers every send so no copier can block, and the relay returns only after wg.Wait(); " +
			"R2 every function that reports a handler start defers the matching finish before any return, and numHandlers is written only by the monitor loop; R3 check-before-blocking: in the monitor loop no path from entry or from an update of numHandlers reaches the blocking select without evaluating the zero-handler exit condition.",
		NotCovered: []string{"all interleavings of the two copiers and of handler events (schedules)", "prefix/order of forwarded bytes beyond 'io.Copy is used' (library semantics)", "signal delivery"},
		Trusted:    []string{"go/types+go/ssa faithful", "io.Copy writes everything it read before returning, including bytes returned together with an error"},
		Run:        runC19,
	})
}

var goArgBinding = map[*ssa.Parameter]ssa.Value{}

// cellParam resolves a closure free variable (a captured cell) to the
// parameter/value stored in it by the enclosing function.
func cellValue(p *Prog, v ssa.Value) ssa.Value {
	v = unspill(v)
	// a parameter of a function started with `go f(args)`: the argument
	if prm, isParam := v.(*ssa.Parameter); isParam {
		if a, ok := goArgBinding[prm]; ok {
			return cellValue(p, stripConv(a))
		}
		return v
	}
	u, ok := v.(*ssa.UnOp)
	if !ok || u.Op != token.MUL {
		return v
	}
	fv, ok := u.X.(*ssa.FreeVar)
	if !ok {
		return v
	}
	fn := fv.Parent()
	idx := -1
	for i, f := range fn.FreeVars {
		if f == fv {
			idx = i
		}
	}
	for _, mc := range p.prov().closure[fn] {
		if idx < 0 || idx >= len(mc.Bindings) {
			continue
		}
		if a, ok := mc.Bindings[idx].(*ssa.Alloc); ok {
			ci := cellOf(a)
			if len(ci.stores) == 1 {
				return ci.stores[0].Val
			}
		}
	}
	return v
}

func runC19(c *Ctx) {
	p := c.P
	if !importing {
		// "a side that ends has all its earlier bytes forwarded first" relies on the transport's Read
		// handing over the bytes that arrived together with the error (C01.R8)
		importObls(c, "C01", runC01, "X01", func(k string) bool { return containsAny(k, "#bytes-with-error-kept") })
		// "an error ends the relay": no copier retries on a temporary error (C10.R3)
		importObls(c, "C10", runC10, "X10", func(k string) bool { return containsAny(k, "retry-on-temporary") })
	}
	noRetainedWriteArg(c, p, "R1")
	cl := p.Func("obfs4proxy:copyLoop")
	ob := c.Obl("R1", "obfs4proxy:copyLoop#copiers", "the relay starts exactly two copier goroutines, outside any loop, one per direction: io.Copy(b, a) and io.Copy(a, b)")
	if cl == nil {
		ob.Undecide("copyLoop not found")
	} else {
		c19Relay(c, p, cl, ob)
	}
	c19Handlers(c, p)
	intTyped(c, p, "R2", "obfs4proxy.termMonitor", "handlerChan", "numHandlers")
	c19Wait(c, p)
}

func c19Relay(c *Ctx, p *Prog, cl *ssa.Function, ob *Obligation) {
	c.Touch(p.FuncKey(cl))
	var gos []*ssa.Go
	allInstrs(cl, func(in ssa.Instruction) {
		if g, ok := in.(*ssa.Go); ok {
			gos = append(gos, g)
		}
	})
	if len(gos) != 2 {
		ob.Violate("%d goroutines are started, expected 2", len(gos))
		return
	}
	a, b := ssa.Value(cl.Params[0]), ssa.Value(cl.Params[1])
	var closures []*ssa.Function
	dirs := map[string]bool{}
	for _, g := range gos {
		if blockOnCycle(g.Block()) {
			ob.Violate("a copier is started inside a loop")
			return
		}
		var fn *ssa.Function
		switch x := g.Call.Value.(type) {
		case *ssa.MakeClosure:
			fn = x.Fn.(*ssa.Function)
		case *ssa.Function:
			// a function (literal without captures, or a named helper) started with its
			// operands as arguments
			fn = x
			for i, prm := range fn.Params {
				if i < len(g.Call.Args) {
					goArgBinding[prm] = g.Call.Args[i]
				}
			}
		}
		if fn == nil || len(fn.Blocks) == 0 || !p.inModule(fn) {
			ob.Violate("a copier is not a function of this module started directly by copyLoop")
			return
		}
		closures = append(closures, fn)
		c.Touch(p.FuncKey(fn))
		copies := p.CallsIn(fn, "io.Copy", "io.CopyBuffer")
		if len(copies) != 1 {
			ob.Violate("copier %s does not forward with exactly one io.Copy (a hand-written copy loop must also forward bytes that arrive together with an error; only io.Copy is trusted to)", p.FuncKey(fn))
			return
		}
		if p.CalleeID(copies[0].Common()) == "io.CopyBuffer" {
			// io.CopyBuffer is io.Copy with a caller-provided staging buffer: that buffer must be the
			// copier's own (allocated in this goroutine), or the two directions overwrite each other's data
			own := false
			switch x := unspill(copies[0].Common().Args[2]).(type) {
			case *ssa.MakeSlice:
				own = x.Parent() == fn
			case *ssa.Slice:
				if al, ok := x.X.(*ssa.Alloc); ok {
					own = al.Parent() == fn
				}
			}
			if !own {
				ob.Violate("copier %s forwards through a staging buffer it did not allocate itself (io.CopyBuffer at %s): a buffer shared by both directions is a data race that corrupts relayed bytes", p.FuncKey(fn), p.InstrPos(copies[0]))
				return
			}
		}
		dst := cellValue(p, stripConv(copies[0].Common().Args[0]))
		src := cellValue(p, stripConv(copies[0].Common().Args[1]))
		switch {
		case dst == b && src == a:
			dirs["a->b"] = true
		case dst == a && src == b:
			dirs["b->a"] = true
		default:
			ob.Violate("copier %s does not copy between the two relayed connections", p.FuncKey(fn))
			return
		}
	}
	if len(dirs) != 2 {
		ob.Violate("both copiers forward in the same direction")
		return
	}
	ob.HoldNT("two goroutines: io.Copy(b,a) and io.Copy(a,b)")

	for _, fn := range closures {
		fk := p.FuncKey(fn)
		ob := c.Obl("R1", fk+"#closes-both", "each copier defers Close of BOTH connections at entry: as soon as one side ends, the other side's blocked copy is released and both are torn down together")
		closed := map[ssa.Value]bool{}
		done := false
		allInstrs(fn, func(in ssa.Instruction) {
			df, ok := in.(*ssa.Defer)
			if !ok || df.Block() != fn.Blocks[0] {
				return
			}
			if df.Call.IsInvoke() && df.Call.Method.Name() == "Close" {
				closed[cellValue(p, df.Call.Value)] = true
			}
			if p.CalleeID(&df.Call) == "(*sync.WaitGroup).Done" {
				done = true
			}
		})
		// the defers must precede the copy
		switch {
		case !closed[a] || !closed[b]:
			ob.Violate("copier %s does not defer Close on both connections (closes %d of 2): when its source ends the other direction keeps blocking", fk, len(closed))
		case !done:
			ob.Violate("copier %s does not defer wg.Done(): the relay never returns", fk)
		default:
			ok := true
			for _, cp := range p.CallsIn(fn, "io.Copy", "io.CopyBuffer") {
				allInstrs(fn, func(in ssa.Instruction) {
					if df, isD := in.(*ssa.Defer); isD && !instrDominates(df, cp) {
						ok = false
					}
				})
			}
			if !ok {
				ob.Violate("a deferred Close/Done is registered after the copy started")
			} else {
				ob.HoldNT("defer Done, Close(a), Close(b) before io.Copy")
			}
		}
	}

	// error channel capacity vs sends
	ob = c.Obl("R1", "obfs4proxy:copyLoop#error-channel", "the error channel is buffered for every send the copiers can make (no copier can block on reporting its result, whatever the order), and the WaitGroup counts exactly the copiers")
	var mk *ssa.MakeChan
	allInstrs(cl, func(in ssa.Instruction) {
		if m, ok := in.(*ssa.MakeChan); ok {
			mk = m
		}
	})
	nsend := 0
	for _, fn := range closures {
		allInstrs(fn, func(in ssa.Instruction) {
			if _, ok := in.(*ssa.Send); ok {
				nsend++
			}
		})
	}
	capv := int64(-1)
	if mk != nil {
		capv, _ = intConst(mk.Size)
	}
	adds := p.CallsIn(cl, "(*sync.WaitGroup).Add")
	// the WaitGroup count: the constants added outside loops (Add(2), or one Add(1) per copier)
	addN := int64(-1)
	if len(adds) >= 1 {
		addN = 0
		for _, ad := range adds {
			k, ok := intConst(ad.Common().Args[1])
			if !ok || blockOnCycle(ad.Block()) {
				addN = -1
				break
			}
			addN += k
		}
	}
	switch {
	case mk == nil:
		ob.Violate("no error channel")
	case capv < int64(nsend):
		ob.Violate("error channel capacity %d < %d send sites: the second copier to finish blocks forever and the relay never returns", capv, nsend)
	case addN != int64(len(closures)):
		ob.Violate("wg.Add(%d) does not match the %d copiers", addN, len(closures))
	default:
		ob.HoldNT("cap %d >= %d sends; wg.Add(%d)", capv, nsend, addN)
	}
	// no blocking receive that nobody may answer
	ob = c.Obl("R1", "obfs4proxy:copyLoop#no-blocking-receive", "copyLoop never blocks on the error channel: a receive from it happens only where a value is known to be queued (after wg.Wait under len(errChan) > 0), or every copier sends exactly once on every path (a copier that reports only real errors leaves the relay waiting for ever when both directions end cleanly)")
	{
		badR := ""
		// do all copiers send unconditionally?
		allSend := true
		for _, fn := range closures {
			sent := false
			allInstrs(fn, func(in ssa.Instruction) {
				if sd, ok := in.(*ssa.Send); ok {
					// on every path from the entry to every return
					okAll := true
					for _, r := range returnsOf(fn) {
						if entryReachesWithout(fn, r, map[ssa.Instruction]bool{sd: true}) {
							okAll = false
						}
					}
					if okAll {
						sent = true
					}
				}
			})
			if !sent {
				allSend = false
			}
		}
		allInstrs(cl, func(in ssa.Instruction) {
			un, ok := in.(*ssa.UnOp)
			if !ok || un.Op != token.ARROW || mk == nil || unspill(un.X) != ssa.Value(mk) {
				return
			}
			guarded := hasFact(p.Facts(cl).NC(un.Block()), func(f Fact) bool {
				bo, ok := f.Cond.(*ssa.BinOp)
				if !ok {
					return false
				}
				lc, _ := callOf(unspill(bo.X))
				if lc == nil || p.CalleeID(lc.Common()) != "builtin:len" || unspill(lc.Common().Args[0]) != ssa.Value(mk) {
					return false
				}
				k, isK := intConst(bo.Y)
				op := bo.Op
				if !f.Pol {
					op = negOp(op)
				}
				return isK && (k == 0 && (op == token.GTR || op == token.NEQ) || k == 1 && op == token.GEQ)
			})
			if !guarded && !allSend {
				badR = "the receive at " + p.InstrPos(un) + " can block for ever: it is not guarded by len(errChan) > 0 and not every copier sends on every path"
			}
		})
		if badR != "" {
			ob.Violate("%s", badR)
		} else {
			ob.HoldNT("receives are guarded by len(errChan) > 0 (copiers send unconditionally: %v)", allSend)
		}
	}
	ob = c.Obl("R1", "obfs4proxy:copyLoop#returns-after-wait", "the relay returns only after both copiers finished (wg.Wait dominates every return) and reports the first error")
	waits := p.CallsIn(cl, "(*sync.WaitGroup).Wait")
	bad := ""
	if len(waits) != 1 {
		bad = "no single wg.Wait()"
	} else {
		for _, r := range returnsOf(cl) {
			if !instrDominates(waits[0], r) {
				bad = "return at " + p.InstrPos(r) + " is not preceded by wg.Wait()"
			}
		}
		for _, g := range gos {
			if !instrDominates(g, waits[0]) {
				bad = "wg.Wait() can run before a copier was started"
			}
		}
	}
	if bad != "" {
		ob.Violate("%s", bad)
	} else {
		ob.HoldNT("wg.Wait() dominates every return")
	}
}

func c19Handlers(c *Ctx, p *Prog) {
	const tMon = "obfs4proxy.termMonitor"
	// "delta functions": module functions (the onHandlerStart / onHandlerFinish helpers, or a deferred
	// function literal) whose whole effect is one unconditional send of +1 / -1 on handlerChan
	deltaOf := func(fn *ssa.Function) (int64, bool) {
		if fn == nil || len(fn.Blocks) == 0 {
			return 0, false
		}
		n, val, ok := 0, int64(0), true
		allInstrs(fn, func(in ssa.Instruction) {
			switch x := in.(type) {
			case *ssa.Send:
				n++
				v, isK := intConst(x.X)
				if !isK || !isFieldLoad(x.Chan, tMon, "handlerChan") || x.Block() != fn.Blocks[0] {
					ok = false
				}
				val = v
			case ssa.CallInstruction:
				ok = false
			}
		})
		return val, ok && n == 1 && (val == 1 || val == -1)
	}
	delta := map[*ssa.Function]int64{}
	for _, fn := range p.Funcs {
		if fn.Pkg != nil && relPkg(fn.Pkg.Pkg.Path()) == "obfs4proxy" {
			if v, ok := deltaOf(fn); ok {
				delta[fn] = v
			}
			for _, an := range fn.AnonFuncs {
				if v, ok := deltaOf(an); ok {
					delta[an] = v
				}
			}
		}
	}
	calleeOf := func(cm *ssa.CallCommon) *ssa.Function {
		if sc := cm.StaticCallee(); sc != nil {
			return sc
		}
		if mc, ok := cm.Value.(*ssa.MakeClosure); ok {
			fn, _ := mc.Fn.(*ssa.Function)
			return fn
		}
		return nil
	}
	// events per function: starts (+1 reported now), deferred finishes (-1 at exit), direct finishes
	type events struct {
		starts, directFin []ssa.Instruction
		deferred          []*ssa.Defer
	}
	ev := map[*ssa.Function]*events{}
	get := func(fn *ssa.Function) *events {
		if ev[fn] == nil {
			ev[fn] = &events{}
		}
		return ev[fn]
	}
	for _, fn := range p.Funcs {
		if fn.Pkg == nil || relPkg(fn.Pkg.Pkg.Path()) != "obfs4proxy" {
			continue
		}
		if _, isDelta := delta[fn]; isDelta {
			continue
		}
		allInstrs(fn, func(in ssa.Instruction) {
			switch x := in.(type) {
			case *ssa.Send:
				if isFieldLoad(x.Chan, tMon, "handlerChan") {
					if v, ok := intConst(x.X); ok && v == 1 {
						get(fn).starts = append(get(fn).starts, x)
					} else {
						get(fn).directFin = append(get(fn).directFin, x)
					}
				}
			case *ssa.Defer:
				if d, ok := delta[calleeOf(&x.Call)]; ok {
					if d == -1 {
						get(fn).deferred = append(get(fn).deferred, x)
					} else {
						get(fn).directFin = append(get(fn).directFin, x) // a deferred START makes no sense
					}
				}
			case *ssa.Call:
				if d, ok := delta[calleeOf(x.Common())]; ok {
					if d == 1 {
						get(fn).starts = append(get(fn).starts, x)
					} else {
						get(fn).directFin = append(get(fn).directFin, x)
					}
				}
			case *ssa.Go:
				if _, ok := delta[calleeOf(&x.Call)]; ok {
					get(fn).directFin = append(get(fn).directFin, x)
				}
			}
		})
	}
	var fns []*ssa.Function
	for fn, e := range ev {
		if len(e.starts) > 0 || len(e.deferred) > 0 || len(e.directFin) > 0 {
			fns = append(fns, fn)
		}
	}
	sort.Slice(fns, func(i, j int) bool { return p.FuncKey(fns[i]) < p.FuncKey(fns[j]) })
	nStart := 0
	for _, fn := range fns {
		nStart += len(ev[fn].starts)
	}
	ob := c.Obl("R2", "handlers#count", "anti-vacuity: the client and server connection handlers report their start")
	if nStart < 2 {
		ob.Undecide("found %d handler-start events (+1 on handlerChan), expected 2", nStart)
	} else {
		ob.Hold("%d", nStart)
	}
	for _, fn := range fns {
		e := ev[fn]
		c.Touch(p.FuncKey(fn))
		ob := c.Obl("R2", p.FuncKey(fn)+"#start-finish-paired", "a handler that reported its start defers the matching finish immediately: the count returns to zero on every exit, including early returns and panics")
		switch {
		case len(e.starts) != 1:
			ob.Violate("%d start events in %s (expected exactly one per handler)", len(e.starts), p.FuncKey(fn))
		case len(e.deferred) == 0:
			ob.At(p.InstrPos(e.starts[0])).Violate("no finish (-1) is deferred in %s: an early return leaves the handler count raised and graceful shutdown never completes", p.FuncKey(fn))
		case len(e.deferred) > 1:
			ob.Violate("%d deferred finishes: the handler would be counted down more than once", len(e.deferred))
		case !instrDominates(e.starts[0], e.deferred[0]):
			ob.At(p.InstrPos(e.starts[0])).Violate("the finish is deferred before the start was reported")
		default:
			st, df := e.starts[0], e.deferred[0]
			bad := ""
			for _, r := range returnsOf(fn) {
				if canReachWithout(st, r, map[ssa.Instruction]bool{df: true}) {
					bad = "return at " + p.InstrPos(r) + " is reachable after the start without the finish being deferred"
				}
			}
			for _, x := range e.directFin {
				bad = "a finish is also reported directly at " + p.InstrPos(x) + ": the handler would be counted down twice"
			}
			if blockOnCycle(st.Block()) {
				bad = "the start is reported inside a loop"
			}
			if bad != "" {
				ob.At(p.InstrPos(st)).Violate("%s", bad)
			} else {
				ob.At(p.InstrPos(st)).HoldNT("defer finish right after start")
			}
		}
	}
	// start sends +1, finish sends -1
	for _, k := range []struct {
		fn  string
		val int64
	}{{"obfs4proxy:(*termMonitor).onHandlerStart", 1}, {"obfs4proxy:(*termMonitor).onHandlerFinish", -1}} {
		ob := c.Obl("R2", k.fn+"#delta", fmt.Sprintf("the event carries %+d on the monitor's handler channel, unconditionally", k.val))
		fn := p.Func(k.fn)
		if fn == nil {
			if nStart >= 2 {
				ob.HoldNT("the helper does not exist in this tree; the %d start events and their deferred finishes are sends of +1 / -1 written at the handlers themselves and are judged there", nStart)
			} else {
				ob.Undecide("not found")
			}
			continue
		}
		if d, ok := delta[fn]; !ok || d != k.val {
			ob.Violate("%s is not exactly one unconditional send of %+d on handlerChan", k.fn, k.val)
		} else {
			ob.Hold("%+d", k.val)
		}
	}
	// a start must have been COUNTED before the handler proceeds (and before a shutdown request can look
	// at the count): the event channel is a rendezvous, not a queue
	ob = c.Obl("R2", "obfs4proxy.termMonitor.handlerChan#unbuffered", "the handler event channel is unbuffered: onHandlerStart returns only after the monitor has taken the +1, so a graceful shutdown never sees a stale zero while a started handler is running")
	{
		badC := ""
		nC := 0
		for _, st := range p.Stores(tMon, "handlerChan") {
			nC++
			mc, ok := unspill(st.Val).(*ssa.MakeChan)
			if !ok {
				badC = "handlerChan is assigned something other than make(chan int) at " + p.InstrPos(st.Instr)
				continue
			}
			if k, isK := intConst(mc.Size); !isK || k != 0 {
				badC = "handlerChan is created with a buffer (" + p.valString(mc.Size) + ") at " + p.InstrPos(mc) + ": events queue up uncounted"
			}
		}
		if nC == 0 {
			badC = "handlerChan is never created"
		}
		if badC != "" {
			ob.Violate("%s", badC)
		} else {
			ob.HoldNT("%d creation site(s), make(chan int)", nC)
		}
	}
	ob = c.Obl("R2", "obfs4proxy.termMonitor.numHandlers#writers", "numHandlers is written only by the monitor loop (single goroutine), by adding the received delta")
	st := p.Stores("obfs4proxy.termMonitor", "numHandlers")
	bad := ""
	nInit := 0
	for _, s := range st {
		// spelling out the zero value when the monitor is created (a store of 0 into the freshly
		// allocated object) is not an update
		if k, ok := intConst(unspill(s.Val)); ok && k == 0 {
			if sto, ok := s.Instr.(*ssa.Store); ok {
				if fa, ok := sto.Addr.(*ssa.FieldAddr); ok {
					if al, ok := fa.X.(*ssa.Alloc); ok && al.Heap {
						nInit++
						continue
					}
				}
			}
		}
		if p.FuncKey(s.Fn) != "obfs4proxy:(*termMonitor).wait" {
			bad = "written in " + p.FuncKey(s.Fn)
		}
		// the counter lives in the one monitor object: the updating method works on it through a pointer
		// (with a value receiver every call of wait counts on a copy of its own and forgets it on return)
		if recv := s.Fn.Signature.Recv(); recv != nil {
			if _, isPtr := recv.Type().Underlying().(*types.Pointer); !isPtr {
				bad = p.FuncKey(s.Fn) + " has a value receiver: the update at " + p.InstrPos(s.Instr) + " is made on a copy of the monitor and lost when the call returns"
			}
		}
		b, ok := unspill(s.Val).(*ssa.BinOp)
		if !ok || b.Op != token.ADD || !isFieldLoad(b.X, "obfs4proxy.termMonitor", "numHandlers") {
			bad = "the update at " + p.InstrPos(s.Instr) + " is not numHandlers += n"
		} else if ex, ok := unspill(b.Y).(*ssa.Extract); !ok {
			bad = "the delta is not the value received from the handler channel"
		} else if _, isSel := ex.Tuple.(*ssa.Select); !isSel {
			bad = "the delta is not the value received from the handler channel"
		}
	}
	if len(st)-nInit == 0 {
		bad = "numHandlers is never updated"
	}
	if bad != "" {
		ob.Violate("%s", bad)
	} else {
		ob.HoldNT("%d store(s), in wait: numHandlers += received delta", len(st))
	}
}

func c19Wait(c *Ctx, p *Prog) {
	w := p.Func("obfs4proxy:(*termMonitor).wait")
	ob := c.Obl("R3", "obfs4proxy:(*termMonitor).wait", "check before blocking: no path from the entry of wait, or from an update of numHandlers, reaches the blocking select without first evaluating the zero-handler exit condition (termOnNoHandlers && numHandlers == 0)")
	if w == nil {
		ob.Undecide("wait not found")
		return
	}
	c.Touch(p.FuncKey(w))
	var sel *ssa.Select
	allInstrs(w, func(in ssa.Instruction) {
		if s, ok := in.(*ssa.Select); ok && s.Blocking {
			sel = s
		}
	})
	if sel == nil {
		ob.Undecide("no blocking select in wait")
		return
	}
	// the evaluation: the If on the termOnNoHandlers parameter (first conjunct); its true arm tests numHandlers == 0 and returns
	var flagIf, cntIf *ssa.If
	for _, b := range w.Blocks {
		i := blockIf(b)
		if i == nil {
			continue
		}
		cond, _ := stripNot(i.Cond, true)
		if cond == ssa.Value(w.Params[1]) {
			flagIf = i
		}
		if bo, ok := cond.(*ssa.BinOp); ok && isFieldLoad(bo.X, "obfs4proxy.termMonitor", "numHandlers") {
			if k, ok := intConst(bo.Y); ok && k == 0 {
				cntIf = i
			}
		}
	}
	if flagIf == nil || cntIf == nil {
		ob.Violate("wait does not test termOnNoHandlers && numHandlers == 0")
		return
	}
	via := map[ssa.Instruction]bool{flagIf: true}
	if entryReachesWithout(w, sel, via) {
		ob.Violate("the blocking select at %s is reachable from the entry of wait without evaluating the exit condition: a shutdown requested while no handler is active waits for an event that never comes", p.InstrPos(sel))
		return
	}
	for _, s := range p.Stores("obfs4proxy.termMonitor", "numHandlers") {
		if s.Fn == w && canReachWithout(s.Instr, sel, via) {
			ob.Violate("after the update of numHandlers at %s the select is reached again without re-evaluating the exit condition", p.InstrPos(s.Instr))
			return
		}
	}
	// the count test is reached from the flag test's true arm without blocking, and its true arm returns SIGTERM
	ff := p.Facts(w)
	okRet := false
	for _, r := range returnsOf(w) {
		fs := ff.NC(r.Block())
		// in every way the conditions of this return can have come about (a merged
		// "!flag || n != 0" loop condition is taken apart), the flag is set and the count is zero
		okAll := true
		for _, alt := range ff.Alternatives(fs, 0) {
			okFlag := hasFact(alt, func(f Fact) bool { return f.Cond == ssa.Value(w.Params[1]) && f.Pol })
			okZero := hasFact(alt, func(f Fact) bool {
				bo, ok := f.Cond.(*ssa.BinOp)
				if !ok || !isFieldLoad(bo.X, "obfs4proxy.termMonitor", "numHandlers") {
					return false
				}
				if k, isK := intConst(bo.Y); !isK || k != 0 {
					return false
				}
				return (bo.Op == token.EQL && f.Pol) || (bo.Op == token.NEQ && !f.Pol)
			})
			if !okFlag || !okZero {
				okAll = false
			}
		}
		if okAll {
			if !canReachWithout(flagIf, r, map[ssa.Instruction]bool{sel: true}) {
				continue
			}
			okRet = true
		}
	}
	if !okRet {
		ob.Violate("no return is taken when termOnNoHandlers && numHandlers == 0 without passing the select")
		return
	}
	ob.HoldNT("every path to the select passes the exit test; its true arm returns without blocking")
}
