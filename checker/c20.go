package main

// C20 — safe logging never reveals peer addresses or host names (DESIGN 4, C20).

import (
	"fmt"
	"go/token"
	"go/types"
	"regexp"
	"sort"
	"strings"

	"golang.org/x/tools/go/ssa"
)

func init() {
	register(&PropInfo{
		ID: "C20", Level: "other", MinObls: 20,
		Explanation: "R1 type lemma (types.Implements on the program's own type information): every standard error type that carries an address or host name implements net.Error, so ElideError's errors.As(err, *net.Error) fall-through returns verbatim text only for chains without such a type; " +
			"R2 information flow in ElideError: with scrubbing on and a net.Error found, every returned string is built only from constants, an allow-list of address-free fields (AddrError.Err, DNSError.Err, OpError.Op), %T-only formatting, Errno text, and recursive calls to ElideError/ElideAddr — never from Error()/String() of anything derived from the input; " +
			"R3 ElideAddr returns only constants and the port half of SplitHostPort; R4 with unsafe logging both return their input's text unchanged; R5 in package main every error/address that reaches a log call passes through ElideError/ElideAddr (named exemptions: loopback SOCKS listener, local SOCKS handshake and argument errors).",
		NotCovered: []string{"error types outside the standard library that embed addresses in a non-net.Error (ElideError's documented contract: 'presumably transport authors know what they are doing')", "the field allow-list itself (trusted base, one reason per field)"},
		Trusted:    []string{"go/types+go/ssa faithful", "field table: net.AddrError.Err, net.DNSError.Err and net.OpError.Op hold operation/cause words, never addresses (Go standard library, net package sources)", "syscall.Errno.Error() is a fixed table of cause words"},
		Run:        runC20,
	})
}

// allowedErrFields: (type, field) pairs whose text carries no address.
var allowedErrFields = map[string]string{
	"net.AddrError.Err": "cause words such as 'missing port in address'; the address itself is in .Addr",
	"net.DNSError.Err":  "cause words such as 'no such host'; the name and server are in .Name/.Server",
	"net.OpError.Op":    "operation word: dial, read, write, ...",
}

var onlyTypeVerbs = regexp.MustCompile(`%[^%T]`)

// plainVerbsOnly: a format made of literal text and the flag-less verbs %s %v %q %d %T %% only.
var plainVerbsOnly = regexp.MustCompile(`^([^%]|%[svqdT%])*$`)

// variadicOperands returns the values stored into the []interface{} a variadic call site builds
// (new [n]interface{}; t[i] = make interface <- v; slice t[:]), with the interface conversion removed.
// ok is false when the slice is not such a literal (a caller-supplied args... slice).
func variadicOperands(v ssa.Value) ([]ssa.Value, bool) {
	if c, ok := v.(*ssa.Const); ok && c.IsNil() {
		return nil, true
	}
	sl, ok := v.(*ssa.Slice)
	if !ok || sl.Low != nil || sl.High != nil {
		return nil, false
	}
	al, ok := sl.X.(*ssa.Alloc)
	if !ok {
		return nil, false
	}
	var out []ssa.Value
	for _, r := range *al.Referrers() {
		switch y := r.(type) {
		case *ssa.Slice:
			if y != sl {
				return nil, false
			}
		case *ssa.IndexAddr:
			for _, rr := range *y.Referrers() {
				st, isSt := rr.(*ssa.Store)
				if !isSt || st.Addr != ssa.Value(y) {
					return nil, false
				}
				val := st.Val
				if mi, ok := val.(*ssa.MakeInterface); ok {
					val = mi.X
				}
				out = append(out, val)
			}
		case *ssa.DebugRef:
		default:
			return nil, false
		}
	}
	return out, true
}

func runC20(c *Ctx) {
	p := c.P
	ee := p.Func("common/log:ElideError")
	ea := p.Func("common/log:ElideAddr")
	o := c.Obl("R0", "anchors", "log.ElideError and log.ElideAddr exist")
	if ee == nil || ea == nil {
		o.Undecide("not found")
		return
	}
	o.Hold("found")
	c.Touch(p.FuncKey(ee))
	c.Touch(p.FuncKey(ea))
	var unsafeG *ssa.Global
	if sp := p.SPkgs["common/log"]; sp != nil {
		unsafeG, _ = sp.Members["unsafeLogging"].(*ssa.Global)
	}
	isUnsafeFact := func(f Fact, pol bool) bool {
		u, ok := f.Cond.(*ssa.UnOp)
		return ok && u.Op == token.MUL && u.X == ssa.Value(unsafeG) && f.Pol == pol
	}

	// ---- R4b the switch itself: scrubbing is on unless the LAST Init asked for unsafe logging
	obS := c.Obl("R4", "common/log.unsafeLogging#writers", "the scrubbing switch is written only by log.Init, with Init's own 'unsafe' argument, on every path on which Init succeeds (whatever 'enable' says): scrubbing follows the last Init")
	if initF := p.Func("common/log:Init"); initF == nil || unsafeG == nil {
		obS.Undecide("log.Init or unsafeLogging not found")
	} else {
		c.Touch(p.FuncKey(initF))
		badS := ""
		var stores []ssa.Instruction
		for _, fn := range p.Funcs {
			allInstrs(fn, func(in ssa.Instruction) {
				st, ok := in.(*ssa.Store)
				if !ok || st.Addr != ssa.Value(unsafeG) {
					return
				}
				if fn.Name() == "init" && fn.Pkg == initF.Pkg && fn != initF {
					return // package initialiser (zero value / constant)
				}
				if fn != initF {
					badS = "unsafeLogging is written in " + p.FuncKey(fn)
					return
				}
				var up *ssa.Parameter
				for _, q := range initF.Params {
					if q.Name() == "unsafe" || isBoolType(q.Type()) && q == initF.Params[len(initF.Params)-1] {
						up = q
					}
				}
				if up == nil || unspill(st.Val) != ssa.Value(up) {
					badS = "Init stores something other than its 'unsafe' argument at " + p.InstrPos(st)
					return
				}
				stores = append(stores, st)
			})
		}
		set := map[ssa.Instruction]bool{}
		for _, st := range stores {
			set[st] = true
		}
		iff := p.Facts(initF)
		for _, r := range iff.SuccessReturns() {
			if entryReachesWithout(initF, r, set) {
				badS = "Init can succeed (return at " + p.InstrPos(r) + ") without storing its 'unsafe' argument: an earlier setting stays in force"
			}
		}
		if len(stores) == 0 && badS == "" {
			badS = "Init never stores the switch"
		}
		// an Init that fails leaves the switch as it was
		for _, st := range stores {
			for _, r := range returnsOf(initF) {
				ei := errResultIndex(initF)
				if ei < 0 || ei >= len(r.Results) || !iff.ProvablyNonNil(r.Results[ei], r.Block(), 0) {
					continue
				}
				if canReachWithout(st, r, nil) {
					badS = "Init can fail (return at " + p.InstrPos(r) + ") after it has already stored the switch at " + p.InstrPos(st) + ": a failed Init(.., unsafe=true) turns scrubbing off"
				}
			}
		}
		if badS != "" {
			obS.Violate("%s", badS)
		} else {
			obS.HoldNT("%d store(s) in Init, on every successful path", len(stores))
		}
	}

	// ---- R1 type lemma
	netErr := p.stdIface("net", "Error")
	var asCall *ssa.Call
	for _, call := range p.CallsIn(ee, "errors.As") {
		asCall = call.(*ssa.Call)
	}
	ob := c.Obl("R1", "common/log:ElideError#as-target", "the scrubber looks for a net.Error anywhere in the chain (errors.As with a *net.Error target) before it decides to return text verbatim")
	if asCall == nil || netErr == nil {
		ob.Violate("no errors.As(err, &netErr) in ElideError")
	} else {
		okT := false
		if mi, ok := asCall.Common().Args[1].(*ssa.MakeInterface); ok {
			if pt, ok := mi.X.Type().(*types.Pointer); ok && isNamedType(pt.Elem(), "net", "Error") {
				okT = true
			}
		}
		if !okT || unspill(asCall.Common().Args[0]) != ssa.Value(ee.Params[0]) {
			ob.Violate("errors.As is not applied to the input error with a *net.Error target")
		} else {
			ob.Hold("errors.As(err, *net.Error)")
		}
	}
	for _, tn := range []struct {
		pkg, name string
		ptr       bool
	}{
		{"net", "AddrError", true}, {"net", "DNSError", true}, {"net", "InvalidAddrError", false}, {"net", "UnknownNetworkError", false},
		{"net", "OpError", true}, {"net", "ParseError", true}, {"net", "DNSConfigError", true}, {"net/url", "Error", true},
	} {
		ob := c.Obl("R1", "implements-net.Error:"+tn.pkg+"."+tn.name, "this address-carrying standard error type implements net.Error, so a chain containing it never takes the verbatim fall-through")
		var T types.Type
		for _, pk := range p.SSA.AllPackages() {
			if pk.Pkg.Path() == tn.pkg {
				if o := pk.Pkg.Scope().Lookup(tn.name); o != nil {
					T = o.Type()
				}
			}
		}
		if T == nil || netErr == nil {
			ob.Undecide("type %s.%s not loaded", tn.pkg, tn.name)
			continue
		}
		if tn.ptr {
			T = types.NewPointer(T)
		}
		if types.Implements(T, netErr) {
			ob.HoldNT("types.Implements(%s, net.Error)", T)
		} else {
			ob.Violate("%s does not implement net.Error: ElideError would print it verbatim", T)
		}
	}

	// ---- R2/R4 information flow in ElideError
	ff := p.Facts(ee)
	nScrub := 0
	for i, r := range returnsOf(ee) {
		fs := ff.NC(r.Block())
		key := fmt.Sprintf("common/log:ElideError#return#%d", i+1)
		switch {
		case hasFact(fs, func(f Fact) bool { return isUnsafeFact(f, true) }):
			ob := c.Obl("R4", key, "with unsafe logging the original text is returned unchanged").At(p.InstrPos(r))
			if call, _ := callOf(unspill(r.Results[0])); call != nil && call.Common().IsInvoke() && call.Common().Method.Name() == "Error" && unspill(call.Common().Value) == ssa.Value(ee.Params[0]) {
				ob.Hold("err.Error()")
			} else {
				ob.Violate("the unsafe-logging arm does not return err.Error()")
			}
		case !hasFact(fs, func(f Fact) bool { return isUnsafeFact(f, false) }):
			c.Obl("R2", key, "every return is either on the unsafe arm or on the scrubbing arm").At(p.InstrPos(r)).Violate("return is not guarded by the unsafeLogging test")
		case asCall != nil && hasFact(fs, func(f Fact) bool { cc, ok := p.FactCallBool(f, "errors.As"); return ok && !f.Pol && cc == asCall }):
			ob := c.Obl("R2", key, "text is returned verbatim with scrubbing on only when no net.Error is anywhere in the chain").At(p.InstrPos(r))
			ob.HoldNT("guarded by !errors.As(err, *net.Error)")
		default:
			// arms merged into one return (single-exit style, or a helper inlined back) count one by one
			nScrub += len(errLeaves(r.Results[0]))
			ob := c.Obl("R2", key, "with scrubbing on and a net.Error found, the returned string is built only from constants, allow-listed address-free fields, %T formatting, errno text and recursive ElideError/ElideAddr results").At(p.InstrPos(r))
			if asCall != nil && !hasFact(fs, func(f Fact) bool { cc, ok := p.FactCallBool(f, "errors.As"); return ok && f.Pol && cc == asCall }) {
				ob.Violate("the return is reachable without errors.As having found a net.Error")
				continue
			}
			if bad := scrubbedOnly(p, r.Results[0], 0); bad != "" {
				ob.Violate("the returned text depends on %s", bad)
			} else {
				ob.HoldNT("address-free")
			}
		}
	}
	ob = c.Obl("R2", "common/log:ElideError#scrub-arms", "anti-vacuity: the type switch has scrubbing arms")
	if nScrub < 5 {
		ob.Undecide("only %d scrubbing returns found", nScrub)
	} else {
		ob.Hold("%d", nScrub)
	}

	// ---- R3/R4 ElideAddr
	af := p.Facts(ea)
	for i, r := range returnsOf(ea) {
		fs := af.NC(r.Block())
		key := fmt.Sprintf("common/log:ElideAddr#return#%d", i+1)
		if hasFact(fs, func(f Fact) bool { return isUnsafeFact(f, true) }) {
			ob := c.Obl("R4", key, "with unsafe logging the address is returned unchanged").At(p.InstrPos(r))
			if unspill(r.Results[0]) == ssa.Value(ea.Params[0]) {
				ob.Hold("addrStr")
			} else {
				ob.Violate("the unsafe-logging arm does not return its input")
			}
			continue
		}
		ob := c.Obl("R3", key, "with scrubbing on ElideAddr returns only constants and the port half of net.SplitHostPort: neither the host nor the unparsed input").At(p.InstrPos(r))
		if !hasFact(fs, func(f Fact) bool { return isUnsafeFact(f, false) }) {
			ob.Violate("return is not guarded by the unsafeLogging test")
			continue
		}
		if bad := portOnly(p, r.Results[0], 0); bad != "" {
			ob.Violate("the returned text depends on %s", bad)
		} else {
			ob.HoldNT("constants and port only")
		}
	}

	// ---- R5 call sites
	c20CallSites(c, p)
	c20AddrTaint(c, p, "R6")
}

// scrubbedOnly returns "" if string value v is built from allowed parts only.
func scrubbedOnly(p *Prog, v ssa.Value, depth int) string {
	if depth > 20 {
		return "an expression too deep to analyse"
	}
	v = unspill(v)
	switch x := v.(type) {
	case *ssa.Const:
		return ""
	case *ssa.BinOp:
		if x.Op == token.ADD {
			if b := scrubbedOnly(p, x.X, depth+1); b != "" {
				return b
			}
			return scrubbedOnly(p, x.Y, depth+1)
		}
	case *ssa.Phi:
		for _, e := range x.Edges {
			if b := scrubbedOnly(p, e, depth+1); b != "" {
				return b
			}
		}
		return ""
	case *ssa.UnOp:
		if x.Op == token.MUL {
			if fa, ok := x.X.(*ssa.FieldAddr); ok {
				t := fa.X.Type()
				if pt, ok := t.Underlying().(*types.Pointer); ok {
					t = pt.Elem()
				}
				st, _ := t.Underlying().(*types.Struct)
				if n, ok := t.(*types.Named); ok && st != nil {
					name := n.Obj().Pkg().Path() + "." + n.Obj().Name() + "." + st.Field(fa.Field).Name()
					if _, ok := allowedErrFields[name]; ok {
						return ""
					}
					return "field " + name + " (not on the address-free allow-list)"
				}
			}
		}
	case *ssa.Convert:
		// string <-> []byte (and constant runes): same text
		if isStringLike(x.Type()) || isByteSlice(x.Type()) {
			return scrubbedOnly(p, x.X, depth+1)
		}
	case *ssa.Slice:
		// buf[:0]: empty, whatever the storage held
		if x.High != nil {
			if k, ok := intConst(x.High); ok && k == 0 {
				return ""
			}
		}
		// a literal []byte{a, b}: its elements
		if al, ok := x.X.(*ssa.Alloc); ok {
			for _, r := range *al.Referrers() {
				switch y := r.(type) {
				case *ssa.Slice:
					if y != x {
						return "a locally built byte array at " + p.Pos(al.Pos())
					}
				case *ssa.IndexAddr:
					for _, rr := range *y.Referrers() {
						st, isSt := rr.(*ssa.Store)
						if !isSt || st.Addr != ssa.Value(y) {
							return "a locally built byte array at " + p.Pos(al.Pos())
						}
						if b := scrubbedOnly(p, st.Val, depth+1); b != "" {
							return b
						}
					}
				default:
					return "a locally built byte array at " + p.Pos(al.Pos())
				}
			}
			return ""
		}
	case *ssa.MakeSlice:
		if k, ok := intConst(x.Len); ok && k == 0 {
			return ""
		}
	case *ssa.Call:
		cm := x.Common()
		id := p.CalleeID(cm)
		if id == "builtin:append" {
			for _, a := range cm.Args {
				if b := scrubbedOnly(p, a, depth+1); b != "" {
					return b
				}
			}
			return ""
		}
		switch id {
		case M("$M/common/log.ElideError"), M("$M/common/log.ElideAddr"):
			return ""
		case "(syscall.Errno).Error":
			return ""
		case "fmt.Sprintf":
			if f, ok := constString(cm.Args[0]); ok && !onlyTypeVerbs.MatchString(f) {
				return ""
			}
			// "%s"-style formatting of operands that are each scrubbed text is the same text a
			// concatenation would give: judge every operand of the variadic slice by the same rule
			if f, ok := constString(cm.Args[0]); ok && plainVerbsOnly.MatchString(f) && len(cm.Args) == 2 {
				if ops, ok := variadicOperands(cm.Args[1]); ok {
					for _, o := range ops {
						if b := scrubbedOnly(p, o, depth+1); b != "" {
							return b + " (operand of fmt.Sprintf at " + p.InstrPos(x) + ")"
						}
					}
					return ""
				}
			}
			return "fmt.Sprintf with a verb other than %T at " + p.InstrPos(x)
		}
		if cm.IsInvoke() {
			return fmt.Sprintf("%s() of a value derived from the input at %s", cm.Method.Name(), p.InstrPos(x))
		}
		return "call to " + id + " at " + p.InstrPos(x)
	case *ssa.Parameter:
		return "the input itself"
	}
	return fmt.Sprintf("%T at %s", v, p.Pos(v.Pos()))
}

// portOnly: constants and result #1 (port) of net.SplitHostPort.
func portOnly(p *Prog, v ssa.Value, depth int) string {
	if depth > 20 {
		return "an expression too deep to analyse"
	}
	v = unspill(v)
	switch x := v.(type) {
	case *ssa.Const:
		return ""
	case *ssa.BinOp:
		if x.Op == token.ADD {
			if b := portOnly(p, x.X, depth+1); b != "" {
				return b
			}
			return portOnly(p, x.Y, depth+1)
		}
	case *ssa.Phi:
		for _, e := range x.Edges {
			if b := portOnly(p, e, depth+1); b != "" {
				return b
			}
		}
		return ""
	case *ssa.Convert:
		// string <-> []byte (and constant runes): same text
		if isStringLike(x.Type()) || isByteSlice(x.Type()) {
			return portOnly(p, x.X, depth+1)
		}
	case *ssa.Slice:
		// buf[:0]: empty, whatever the storage held
		if x.High != nil {
			if k, ok := intConst(x.High); ok && k == 0 {
				return ""
			}
		}
		// a literal []byte{a, b}: its elements
		if al, ok := x.X.(*ssa.Alloc); ok {
			for _, r := range *al.Referrers() {
				switch y := r.(type) {
				case *ssa.Slice:
					if y != x {
						return "a locally built byte array at " + p.Pos(al.Pos())
					}
				case *ssa.IndexAddr:
					for _, rr := range *y.Referrers() {
						st, isSt := rr.(*ssa.Store)
						if !isSt || st.Addr != ssa.Value(y) {
							return "a locally built byte array at " + p.Pos(al.Pos())
						}
						if b := portOnly(p, st.Val, depth+1); b != "" {
							return b
						}
					}
				default:
					return "a locally built byte array at " + p.Pos(al.Pos())
				}
			}
			return ""
		}
	case *ssa.MakeSlice:
		if k, ok := intConst(x.Len); ok && k == 0 {
			return ""
		}
	case *ssa.Call:
		cm := x.Common()
		id := p.CalleeID(cm)
		if id == "builtin:append" {
			for _, a := range cm.Args {
				if b := portOnly(p, a, depth+1); b != "" {
					return b
				}
			}
			return ""
		}
	case *ssa.Extract:
		if call, ok := x.Tuple.(*ssa.Call); ok && p.CalleeID(call.Common()) == "net.SplitHostPort" {
			if x.Index == 1 {
				return ""
			}
			if x.Index == 0 {
				return "the host half of SplitHostPort"
			}
		}
	case *ssa.Parameter:
		return "the unparsed input address"
	}
	return fmt.Sprintf("%T at %s", v, p.Pos(v.Pos()))
}

// An exemption names the function and WHAT is logged there (the call the unsanitised value comes from), not the
// wording of the message: re-wording a log line changes nothing, logging something else does.
type logExemption struct {
	Func, Source, Reason string
}

var logExemptions = []logExemption{
	{"obfs4proxy:clientSetup", "a net.Addr", "the loopback SOCKS listener address (127.0.0.1:port), not a peer"},
	{"obfs4proxy:clientHandler", "common/socks5.Handshake(", "error of the local SOCKS exchange with tor over loopback (C20.R6 keeps addresses out of it)"},
	{"obfs4proxy:clientHandler", "ParseArgs(", "argument parsing error: carries bridge-line argument text, no network address"},
	{"obfs4proxy:main", "transports.Init(", "start-up error, no peer involved"},
	{"obfs4proxy:(*termMonitor).termOnStdinClose", "io.Copy(", "stdin read error"},
}

func c20CallSites(c *Ctx, p *Prog) {
	logFns := map[string]bool{}
	for _, n := range []string{"Noticef", "Errorf", "Warnf", "Infof", "Debugf"} {
		logFns[M("$M/common/log."+n)] = true
	}
	n := 0
	var fns []*ssa.Function
	for _, fn := range p.Funcs {
		if relPkg(fn.Pkg.Pkg.Path()) == "obfs4proxy" {
			fns = append(fns, fn)
		}
	}
	sort.Slice(fns, func(i, j int) bool { return p.FuncKey(fns[i]) < p.FuncKey(fns[j]) })
	cnt := map[string]int{}
	for _, fn := range fns {
		allInstrs(fn, func(in ssa.Instruction) {
			call, ok := in.(ssa.CallInstruction)
			if !ok {
				return
			}
			id := p.CalleeID(call.Common())
			isGolog := strings.HasPrefix(id, "log.") && (strings.HasPrefix(id, "log.Print") || strings.HasPrefix(id, "log.Fatal"))
			if !logFns[id] && !isGolog {
				return
			}
			n++
			format, _ := constString(call.Common().Args[0])
			key := siteKey(p, in, "log:"+format, cnt)
			ob := c.Obl("R5", key, "everything this log call prints is free of peer addresses: errors and addresses pass through log.ElideError / log.ElideAddr first").At(p.InstrPos(in))
			exempt := ""
			if isGolog {
				// fatal start-up messages on stderr before logging is initialised
				exempt = "start-up diagnostics to stderr before any connection exists"
			}
			bad := ""
			nLeak, nExempt := 0, 0
			for _, v := range varargElems(call) {
				if b := logArgLeaks(p, v); b != "" {
					bad = b
					nLeak++
					for _, e := range logExemptions {
						if e.Func == p.FuncKey(fn) && strings.Contains(b, e.Source) {
							exempt = e.Reason
							nExempt++
							break
						}
					}
				}
			}
			if nExempt < nLeak && !isGolog {
				exempt = "" // something else than the exempted value is logged unsanitised too
			}
			switch {
			case bad == "":
				ob.HoldNT("arguments are constants, names or sanitised strings")
			case exempt != "":
				ob.Hold("exempt: %s", exempt)
				c.Exclude(key + " — " + exempt)
			default:
				ob.Violate("%s reaches the log unsanitised", bad)
			}
		})
	}
	ob := c.Obl("R5", "count", "anti-vacuity: the proxy's log call sites are found")
	if n < 15 {
		ob.Undecide("only %d log call sites", n)
	} else {
		ob.Hold("%d log call sites", n)
	}
}

// varargElems returns the values stored into the variadic slice of a call.
func varargElems(call ssa.CallInstruction) []ssa.Value {
	args := call.Common().Args
	if len(args) == 0 {
		return nil
	}
	last := args[len(args)-1]
	sl, ok := last.(*ssa.Slice)
	if !ok {
		return nil
	}
	a, ok := sl.X.(*ssa.Alloc)
	if !ok {
		return nil
	}
	var out []ssa.Value
	for _, r := range *a.Referrers() {
		if ia, ok := r.(*ssa.IndexAddr); ok {
			for _, rr := range *ia.Referrers() {
				if st, ok := rr.(*ssa.Store); ok && st.Addr == ssa.Value(ia) {
					out = append(out, st.Val)
				}
			}
		}
	}
	return out
}

// logArgLeaks: "" if the argument cannot carry an address.
func logArgLeaks(p *Prog, v ssa.Value) string {
	for {
		if mi, ok := v.(*ssa.MakeInterface); ok {
			v = mi.X
			continue
		}
		if ci, ok := v.(*ssa.ChangeInterface); ok {
			v = ci.X
			continue
		}
		break
	}
	t := v.Type()
	if isErrorType(t) || (types.Implements(t, errorType.Underlying().(*types.Interface)) && !isStringLike(t)) {
		return "an error value (" + p.valString(v) + ")"
	}
	if addr := p.stdIface("net", "Addr"); addr != nil && types.Implements(t, addr) {
		return "a net.Addr"
	}
	if !isStringLike(t) {
		return ""
	}
	bad := ""
	san := func(x ssa.Value) bool {
		if call, _ := callOf(x); call != nil {
			id := p.CalleeID(call.Common())
			return id == M("$M/common/log.ElideError") || id == M("$M/common/log.ElideAddr")
		}
		return false
	}
	sl := p.Slice(v, SliceOpt{NoMem: true, Stop: san})
	for x := range sl.Seen {
		if san(x) {
			continue
		}
		if call, ok := x.(*ssa.Call); ok && call.Common().IsInvoke() {
			m := call.Common().Method.Name()
			if m == "String" || m == "Error" {
				bad = fmt.Sprintf("%s() of %s", m, p.valString(call.Common().Value))
			}
		}
		if isFieldLoad(x, "common/socks5.Request", "Target") {
			bad = "the SOCKS target address"
		}
	}
	return bad
}

func isStringLike(t types.Type) bool {
	b, ok := t.Underlying().(*types.Basic)
	return ok && b.Info()&types.IsString != 0
}
