package main

import (
	"go/types"
	"sort"
	"strings"

	"golang.org/x/tools/go/ssa"
)

// Address text in plain errors (C20.R6).
//
// ElideError returns the text of an error verbatim when no net.Error is anywhere in its chain: the scrubber rests
// on "an error that is not a net.Error carries no address". The module's own code must therefore never build a
// plain error (fmt.Errorf / errors.New) from address text, and the one log site that prints the SOCKS handshake
// error without scrubbing (exempt in R5: the loopback exchange with tor) must never be handed an error that the
// net package built from the requested target.
//
// What is address text is decided from how the value is used, not from its name:
//   - the host half of net.SplitHostPort, the result of net.JoinHostPort, String()/Error() of a value of an
//     address type (net.IP, net.Addr implementations, *url.URL, net.Error implementations);
//   - any string handed, in the same function, to a net routine as the address it parses or dials
//     (net.SplitHostPort, net.ParseIP, net.ResolveTCPAddr, net.Dial*, net.Lookup*, a Dial(network, addr) method);
//   - the addr parameter of a function of the shape func(network, addr string) (net.Conn, error);
//   - the Target field of a socks5.Request;
//   - a parameter that receives one of the above at a call site inside the module (fixpoint);
//   - text built from these by concatenation, fmt.Sprint*, strings.*, strconv.Quote.
type addrTaint struct {
	p       *Prog
	params  map[*ssa.Parameter]bool
	addrIfc *types.Interface
	errIfc  *types.Interface
}

// netAddrArg: index of the address argument of the net routines that parse or dial an address.
var netAddrArg = map[string]int{
	"net.SplitHostPort": 0, "net.ParseIP": 0, "net.ParseCIDR": 0, "net.LookupHost": 0, "net.LookupIP": 0, "net.LookupAddr": 0,
	"net.ResolveTCPAddr": 1, "net.ResolveUDPAddr": 1, "net.ResolveIPAddr": 1, "net.Dial": 1, "net.DialTimeout": 1,
	"(*net.Dialer).Dial": 1, "(*net.Dialer).DialContext": 2, "net/netip.ParseAddr": 0, "net/netip.ParseAddrPort": 0,
}

func (t *addrTaint) addrArgOf(cm *ssa.CallCommon) int {
	id := t.p.CalleeID(cm)
	if i, ok := netAddrArg[id]; ok {
		return i
	}
	// a Dial(network, addr string) (net.Conn, error) method or function value
	sig := cm.Signature()
	if isDialSig(sig) {
		return 1
	}
	return -1
}

func isDialSig(sig *types.Signature) bool {
	if sig == nil || sig.Params().Len() != 2 || sig.Results().Len() != 2 {
		return false
	}
	for i := 0; i < 2; i++ {
		if b, ok := sig.Params().At(i).Type().Underlying().(*types.Basic); !ok || b.Kind() != types.String {
			return false
		}
	}
	r0 := sig.Results().At(0).Type()
	if n, ok := r0.(*types.Named); !ok || n.Obj().Pkg() == nil || n.Obj().Pkg().Path() != "net" || n.Obj().Name() != "Conn" {
		return false
	}
	return isErrorType(sig.Results().At(1).Type())
}

func (t *addrTaint) addrType(ty types.Type) bool {
	s := types.TypeString(ty, nil)
	switch s {
	case "net.IP", "*net.TCPAddr", "*net.UDPAddr", "*net.IPAddr", "*net.IPNet", "net.IPNet", "*net/url.URL", "net/url.URL", "net.TCPAddr", "net.HardwareAddr", "net/netip.Addr", "net/netip.AddrPort":
		return true
	}
	if t.addrIfc != nil {
		if _, isIfc := ty.Underlying().(*types.Interface); isIfc && types.Identical(ty.Underlying(), t.addrIfc) {
			return true
		}
		if n, ok := ty.(*types.Named); ok && n.Obj().Pkg() != nil && n.Obj().Pkg().Path() == "net" && n.Obj().Name() == "Addr" {
			return true
		}
	}
	return false
}

func (t *addrTaint) seed(v ssa.Value) string {
	switch x := v.(type) {
	case *ssa.Extract:
		if c, ok := x.Tuple.(*ssa.Call); ok && t.p.CalleeID(c.Common()) == "net.SplitHostPort" && x.Index == 0 {
			return "the host half of net.SplitHostPort"
		}
	case *ssa.Call:
		cm := x.Common()
		id := t.p.CalleeID(cm)
		if id == "net.JoinHostPort" {
			return "a net.JoinHostPort result"
		}
		var recv ssa.Value
		name := ""
		if cm.IsInvoke() {
			recv, name = cm.Value, cm.Method.Name()
		} else if sc := cm.StaticCallee(); sc != nil && sc.Signature.Recv() != nil && len(cm.Args) > 0 {
			recv, name = cm.Args[0], sc.Name()
		}
		if recv != nil && (name == "String" || name == "Error" || name == "Hostname" || name == "Network") && t.addrType(recv.Type()) {
			return name + "() of a " + types.TypeString(recv.Type(), nil)
		}
	case *ssa.Parameter:
		if t.params[x] {
			return "parameter " + x.Name() + " (an address at its call sites)"
		}
		if fn := x.Parent(); fn != nil && isDialSig(fn.Signature) && len(fn.Params) >= 2 && fn.Params[len(fn.Params)-1] == x {
			return "the addr parameter of a dial function"
		}
	case *ssa.UnOp:
		if fk, _, ok := fieldLoad(x); ok && fk.Field == "Target" && strings.HasSuffix(fk.Type, "socks5.Request") {
			return "the requested target of the SOCKS request"
		}
	}
	if _, isC := v.(*ssa.Const); !isC && t.addrType(v.Type()) {
		return "a value of type " + types.TypeString(v.Type(), nil)
	}
	if refs := v.Referrers(); refs != nil {
		if b, ok := v.Type().Underlying().(*types.Basic); ok && b.Info()&types.IsString != 0 {
			for _, r := range *refs {
				ci, ok := r.(ssa.CallInstruction)
				if !ok {
					continue
				}
				if i := t.addrArgOf(ci.Common()); i >= 0 && i < len(ci.Common().Args) && ci.Common().Args[i] == v {
					return "a string that " + t.p.CalleeID(ci.Common()) + " takes as the address (" + t.p.InstrPos(ci) + ")"
				}
			}
		}
	}
	return ""
}

// carries: non-empty when the text of v is built from address text.
func (t *addrTaint) carries(v ssa.Value, depth int, seen map[ssa.Value]bool) string {
	if v == nil || depth > 12 || seen[v] {
		return ""
	}
	seen[v] = true
	if s := t.seed(v); s != "" {
		return s
	}
	switch x := v.(type) {
	case *ssa.MakeInterface:
		return t.carries(x.X, depth+1, seen)
	case *ssa.ChangeInterface:
		return t.carries(x.X, depth+1, seen)
	case *ssa.ChangeType:
		return t.carries(x.X, depth+1, seen)
	case *ssa.Convert:
		return t.carries(x.X, depth+1, seen)
	case *ssa.Slice:
		return t.carries(x.X, depth+1, seen)
	case *ssa.Phi:
		for _, e := range x.Edges {
			if s := t.carries(e, depth+1, seen); s != "" {
				return s
			}
		}
	case *ssa.BinOp:
		if b, ok := x.Type().Underlying().(*types.Basic); ok && b.Info()&types.IsString != 0 {
			if s := t.carries(x.X, depth+1, seen); s != "" {
				return s
			}
			return t.carries(x.Y, depth+1, seen)
		}
	case *ssa.UnOp:
		if al, ok := x.X.(*ssa.Alloc); ok {
			if st := reachingStore(al, x); st != nil {
				return t.carries(st.Val, depth+1, seen)
			}
		}
	case *ssa.Call:
		id := t.p.CalleeID(x.Common())
		if strings.HasPrefix(id, "fmt.Sprint") || strings.HasPrefix(id, "strings.") || strings.HasPrefix(id, "strconv.Quote") || id == "fmt.Errorf" || id == "errors.New" {
			for _, a := range x.Common().Args {
				if s := t.carries(a, depth+1, seen); s != "" {
					return s
				}
			}
			for _, a := range varargElems(x) {
				if s := t.carries(a, depth+1, seen); s != "" {
					return s
				}
			}
		}
	}
	return ""
}

func newAddrTaint(p *Prog) *addrTaint {
	t := &addrTaint{p: p, params: map[*ssa.Parameter]bool{}, addrIfc: p.stdIface("net", "Addr")}
	// parameters that receive address text at a call site inside the module
	for round := 0; round < 4; round++ {
		changed := false
		for _, fn := range p.Funcs {
			allInstrs(fn, func(in ssa.Instruction) {
				ci, ok := in.(ssa.CallInstruction)
				if !ok {
					return
				}
				sc := ci.Common().StaticCallee()
				if sc == nil || !p.inModule(sc) || len(sc.Params) != len(ci.Common().Args) {
					return
				}
				for i, a := range ci.Common().Args {
					if t.params[sc.Params[i]] {
						continue
					}
					if b, ok := a.Type().Underlying().(*types.Basic); !ok || b.Info()&types.IsString == 0 {
						continue
					}
					if t.carries(a, 0, map[ssa.Value]bool{}) != "" {
						t.params[sc.Params[i]] = true
						changed = true
					}
				}
			})
		}
		if !changed {
			break
		}
	}
	return t
}

func c20AddrTaint(c *Ctx, p *Prog, rule string) {
	t := newAddrTaint(p)
	var fns []*ssa.Function
	for _, fn := range p.Funcs {
		fns = append(fns, fn)
	}
	sort.Slice(fns, func(i, j int) bool { return p.FuncKey(fns[i]) < p.FuncKey(fns[j]) })
	sites, bad := 0, 0
	ob := c.Obl(rule, "plain-errors#address-free", "no plain error (fmt.Errorf / errors.New: not a net.Error, so ElideError returns its text verbatim) is built from address text anywhere in the module")
	for _, fn := range fns {
		allInstrs(fn, func(in ssa.Instruction) {
			call, ok := in.(*ssa.Call)
			if !ok {
				return
			}
			id := p.CalleeID(call.Common())
			if id != "fmt.Errorf" && id != "errors.New" {
				return
			}
			sites++
			args := append([]ssa.Value{}, call.Common().Args...)
			args = append(args, varargElems(call)...)
			for _, a := range args {
				if isErrorType(a.Type()) {
					continue // a wrapped error is judged where it was built
				}
				if mi, ok := a.(*ssa.MakeInterface); ok && isErrorType(mi.X.Type()) {
					continue
				}
				if s := t.carries(a, 0, map[ssa.Value]bool{}); s != "" {
					bad++
					if bad == 1 {
						ob.At(p.InstrPos(call)).Violate("%s in %s is built from %s: the scrubber returns this error's text verbatim", id, p.FuncKey(fn), s)
					}
					return
				}
			}
		})
	}
	if bad == 0 {
		if sites < 40 {
			ob.Undecide("only %d error constructions found", sites)
		} else {
			ob.Hold("%d fmt.Errorf / errors.New sites, none takes address text; %d parameters carry addresses", sites, len(t.params))
		}
	}

	// an error folded into a new plain error keeps its chain only through %w: with %v / %s (or .Error()) the
	// text of a net.Error — addresses included — becomes the text of an error that is no net.Error any more
	ob4 := c.Obl(rule, "wrapped-errors#chain-kept", "wherever the module formats an error value into a new error it uses %w (so that the scrubber still finds the net.Error inside), never %v / %s or err.Error()")
	nw := 0
	for _, fn := range fns {
		allInstrs(fn, func(in ssa.Instruction) {
			call, ok := in.(*ssa.Call)
			if !ok || ob4.Verdict == Violated {
				return
			}
			id := p.CalleeID(call.Common())
			if id != "fmt.Errorf" && id != "errors.New" {
				return
			}
			isErrVal := func(v ssa.Value) bool {
				for {
					switch x := v.(type) {
					case *ssa.MakeInterface:
						v = x.X
						continue
					case *ssa.ChangeInterface:
						v = x.X
						continue
					}
					break
				}
				if _, isC := v.(*ssa.Const); isC {
					return false
				}
				t := v.Type()
				return isErrorType(t) || (types.Implements(t, errorType.Underlying().(*types.Interface)) && !isStringLike(t))
			}
			isErrText := func(v ssa.Value) bool {
				for {
					if mi, ok := v.(*ssa.MakeInterface); ok {
						v = mi.X
						continue
					}
					break
				}
				cl, ok := v.(*ssa.Call)
				if !ok || !cl.Common().IsInvoke() || cl.Common().Method.Name() != "Error" {
					return false
				}
				return isErrorType(cl.Common().Value.Type())
			}
			if id == "errors.New" {
				if len(call.Common().Args) == 1 && isErrText(call.Common().Args[0]) {
					ob4.At(p.InstrPos(call)).Violate("errors.New(err.Error()) in %s rebuilds an error from another error's text", p.FuncKey(fn))
				}
				return
			}
			format, okf := constString(call.Common().Args[0])
			if !okf {
				return
			}
			var verbs []byte
			for i := 0; i < len(format); i++ {
				if format[i] != '%' {
					continue
				}
				i++
				for i < len(format) && strings.IndexByte("+-# 0123456789.*[]", format[i]) >= 0 {
					i++
				}
				if i < len(format) && format[i] != '%' {
					verbs = append(verbs, format[i])
				}
			}
			// varargs in slot order
			last := call.Common().Args[len(call.Common().Args)-1]
			sl, ok := last.(*ssa.Slice)
			if !ok {
				return
			}
			al, ok := sl.X.(*ssa.Alloc)
			if !ok {
				return
			}
			for _, r := range *al.Referrers() {
				ia, ok := r.(*ssa.IndexAddr)
				if !ok {
					continue
				}
				k, okk := intConst(ia.Index)
				if !okk || int(k) >= len(verbs) {
					continue
				}
				for _, rr := range *ia.Referrers() {
					st, ok := rr.(*ssa.Store)
					if !ok || st.Addr != ssa.Value(ia) {
						continue
					}
					if isErrVal(st.Val) {
						nw++
						if verbs[k] != 'w' {
							ob4.At(p.InstrPos(call)).Violate("fmt.Errorf in %s formats an error value with %%%c: the result is a plain error whose text contains whatever addresses the inner error prints", p.FuncKey(fn), verbs[k])
							return
						}
					} else if isErrText(st.Val) {
						ob4.At(p.InstrPos(call)).Violate("fmt.Errorf in %s is handed err.Error(): the result is a plain error carrying the inner error's text", p.FuncKey(fn))
						return
					}
				}
			}
		})
	}
	if ob4.Verdict != Violated {
		ob4.HoldNT("%d error value(s) formatted into new errors, all with %%w", nw)
	}

	// errors of library parsers that are not net.Errors quote their input: handed address text, their error
	// must not travel on (ElideError would print it verbatim)
	ob3 := c.Obl(rule, "foreign-parse-errors#address-free", "no error returned by a library routine outside net, net/url, net/http and x/net/proxy that was handed address text is used beyond a nil test: such errors quote their input and are not net.Errors")
	nf := 0
	for _, fn := range fns {
		allInstrs(fn, func(in ssa.Instruction) {
			call, ok := in.(*ssa.Call)
			if !ok || ob3.Verdict == Violated {
				return
			}
			cm := call.Common()
			var pkg *types.Package
			if cm.IsInvoke() {
				pkg = cm.Method.Pkg()
			} else if sc := cm.StaticCallee(); sc != nil && sc.Pkg != nil {
				pkg = sc.Pkg.Pkg
			}
			if pkg == nil || isModulePkg(pkg) {
				return
			}
			switch pkg.Path() {
			case "net", "net/url", "net/http", "golang.org/x/net/proxy", "fmt", "errors":
				return
			case "gitlab.torproject.org/tpo/anti-censorship/pluggable-transports/goptlib":
				// pt.DialOr sends the client address to tor in a USERADDR command; its errors are those of
				// the ORPort dial and of the socket writes (net.OpError), none is built from the address
				return
			}
			if isDialSig(cm.Signature()) {
				return
			}
			res := cm.Signature().Results()
			ei := -1
			for i := 0; i < res.Len(); i++ {
				if isErrorType(res.At(i).Type()) {
					ei = i
				}
			}
			if ei < 0 {
				return
			}
			src := ""
			for _, a := range cm.Args {
				if bt, ok := a.Type().Underlying().(*types.Basic); ok && bt.Info()&types.IsString != 0 {
					if s := t.carries(a, 0, map[ssa.Value]bool{}); s != "" {
						src = s
					}
				}
			}
			if src == "" {
				return
			}
			nf++
			var uses []ssa.Instruction
			if res.Len() == 1 {
				uses = *call.Referrers()
			} else {
				for _, r := range *call.Referrers() {
					if ex, ok := r.(*ssa.Extract); ok && ex.Index == ei {
						uses = append(uses, *ex.Referrers()...)
					}
				}
			}
			for _, u := range uses {
				if bo, ok := u.(*ssa.BinOp); ok && (isNilConst(bo.X) || isNilConst(bo.Y)) {
					continue
				}
				if _, ok := u.(*ssa.DebugRef); ok {
					continue
				}
				ob3.At(p.InstrPos(call)).Violate("%s in %s is handed %s and its error (which quotes the input and is no net.Error) is used beyond a nil test", p.CalleeID(cm), p.FuncKey(fn), src)
				return
			}
		})
	}
	if ob3.Verdict != Violated {
		ob3.HoldNT("%d library call(s) take address text and return an error; none of those errors is used", nf)
	}

	// the unscrubbed SOCKS-handshake log site: nothing the socks5 package returns may be an error the net
	// package built from the requested target
	ob2 := c.Obl(rule, "common/socks5#errors-are-local", "the SOCKS handshake error is logged without scrubbing (R5 exemption: local exchange with tor); no error produced by a net routine from an address is used in package common/socks5")
	n := 0
	for _, fn := range fns {
		if relPkg(fn.Pkg.Pkg.Path()) != "common/socks5" {
			continue
		}
		n++
		allInstrs(fn, func(in ssa.Instruction) {
			call, ok := in.(*ssa.Call)
			if !ok || (ob2.Verdict == Violated) {
				return
			}
			if t.addrArgOf(call.Common()) < 0 {
				return
			}
			res := call.Common().Signature().Results()
			ei := -1
			for i := 0; i < res.Len(); i++ {
				if isErrorType(res.At(i).Type()) {
					ei = i
				}
			}
			if ei < 0 {
				return
			}
			for _, r := range *call.Referrers() {
				ex, ok := r.(*ssa.Extract)
				if !ok || ex.Index != ei {
					continue
				}
				for _, u := range *ex.Referrers() {
					if bo, ok := u.(*ssa.BinOp); ok && (isNilConst(bo.X) || isNilConst(bo.Y)) {
						continue
					}
					if _, ok := u.(*ssa.DebugRef); ok {
						continue
					}
					ob2.At(p.InstrPos(call)).Violate("the error of %s (which quotes the address it was given) is used in %s beyond a nil test: it can reach the unscrubbed handshake log", p.CalleeID(call.Common()), p.FuncKey(fn))
					return
				}
			}
		})
	}
	if !(ob2.Verdict == Violated) {
		if n == 0 {
			ob2.Undecide("package common/socks5 not found")
		} else {
			ob2.HoldNT("%d functions", n)
		}
	}
}
