package main

// Canonical form of E7 terms for comparison: parenthesised binary operator
// expressions are normalised (associative-commutative operators flattened,
// identity elements dropped, operands sorted), so that  0|a|b ,  (a|b)  and
// (b|a)  compare equal.  Everything else is kept verbatim.

import (
	"math/big"
	"sort"
	"strings"
)

func termEq(a, b string) bool { return canonTerm(a) == canonTerm(b) }

func canonTerm(s string) string {
	var out strings.Builder
	for i := 0; i < len(s); {
		ch := s[i]
		switch {
		case ch == '"':
			j := i + 1
			for j < len(s) && s[j] != '"' {
				if s[j] == '\\' {
					j++
				}
				j++
			}
			if j >= len(s) {
				j = len(s) - 1
			}
			out.WriteString(s[i : j+1])
			i = j + 1
		case ch == '(' && !isCallParen(s, i):
			j := matchParen(s, i)
			if j < 0 {
				out.WriteByte(ch)
				i++
				continue
			}
			out.WriteString(canonBinary(s[i+1 : j]))
			i = j + 1
		default:
			out.WriteByte(ch)
			i++
		}
	}
	return out.String()
}

func isIdentChar(c byte) bool {
	return c == '_' || c == '.' || c == '>' || c == ')' || c == ']' || c == '}' || c == '*' && false ||
		(c >= 'a' && c <= 'z') || (c >= 'A' && c <= 'Z') || (c >= '0' && c <= '9')
}

// isCallParen: the '(' at i opens an argument list (it follows a name).
func isCallParen(s string, i int) bool {
	if i == 0 {
		return false
	}
	c := s[i-1]
	return c == '_' || (c >= 'a' && c <= 'z') || (c >= 'A' && c <= 'Z') || (c >= '0' && c <= '9')
}

func matchParen(s string, i int) int {
	depth := 0
	for j := i; j < len(s); j++ {
		switch s[j] {
		case '"':
			j++
			for j < len(s) && s[j] != '"' {
				if s[j] == '\\' {
					j++
				}
				j++
			}
		case '(', '[', '{':
			depth++
		case ')', ']', '}':
			depth--
			if depth == 0 {
				return j
			}
		}
	}
	return -1
}

var binOps = []string{"&^", "<<", ">>", "==", "!=", "<=", ">=", "&&", "||", "|", "+", "^", "&", "*", "-", "/", "%", "<", ">"}

func isOpChar(c byte) bool { return strings.IndexByte("|+^&*-/%<>=!", c) >= 0 }

// topOp finds the single top-level binary operator of a group's content.
func topOp(s string) (int, string) {
	depth := 0
	for i := 0; i < len(s); i++ {
		c := s[i]
		switch c {
		case '"':
			i++
			for i < len(s) && s[i] != '"' {
				if s[i] == '\\' {
					i++
				}
				i++
			}
			continue
		case '(', '[', '{':
			depth++
			continue
		case ')', ']', '}':
			depth--
			continue
		}
		// <Type> markers are not operators
		if c == '<' {
			if k := strings.IndexByte(s[i:], '>'); k > 0 && !strings.ContainsAny(s[i+1:i+k], "(|+ ,") && i+k+1 < len(s) && s[i+k+1] == '.' {
				i += k
				continue
			}
		}
		if depth != 0 || i == 0 || !isOpChar(c) {
			continue
		}
		if isOpChar(s[i-1]) || s[i-1] == ',' {
			continue
		}
		for _, op := range binOps {
			if strings.HasPrefix(s[i:], op) {
				return i, op
			}
		}
	}
	return -1, ""
}

var acIdentity = map[string]string{"|": "0", "+": "0", "^": "0", "*": "1", "&": "", "&&": "", "||": ""}

func canonBinary(inner string) string {
	inner = canonTerm(inner)
	i, op := topOp(inner)
	if i < 0 {
		return "(" + inner + ")"
	}
	a, b := inner[:i], inner[i+len(op):]
	if (op == "<<" || op == ">>") && b == "0" {
		return a // shift by zero
	}
	if k, isK := new(big.Int).SetString(b, 10); op == ">>" && isK && k.IsInt64() && k.Int64() < 64 && len(a) > 2 && a[0] == '(' && matchParen(a, 0) == len(a)-1 {
		// (x & M) >> k  ==  (x >> k) & (M >> k)
		if ands := operandsOf(a, "&"); len(ands) == 2 {
			for i, m := range ands {
				if mv, isM := new(big.Int).SetString(m, 10); isM && mv.Sign() >= 0 {
					mv.Rsh(mv, uint(k.Int64()))
					return canonBinary(canonBinary(ands[1-i]+">>"+b) + "&" + mv.String())
				}
			}
		}
	}
	if id, ac := acIdentity[op]; ac {
		var ops []string
		for _, x := range []string{a, b} {
			ops = append(ops, operandsOf(x, op)...)
		}
		var keep []string
		// fold the numeric operands
		var acc *big.Int
		for _, x := range ops {
			if n, ok := new(big.Int).SetString(x, 10); ok && (op == "|" || op == "+" || op == "^" || op == "*" || op == "&") {
				if acc == nil {
					acc = n
					continue
				}
				switch op {
				case "|":
					acc.Or(acc, n)
				case "+":
					acc.Add(acc, n)
				case "^":
					acc.Xor(acc, n)
				case "*":
					acc.Mul(acc, n)
				case "&":
					acc.And(acc, n)
				}
				continue
			}
			keep = append(keep, x)
		}
		if acc != nil && !(id != "" && acc.String() == id) {
			keep = append(keep, acc.String())
		}
		if len(keep) == 0 {
			return id
		}
		if len(keep) == 1 {
			return keep[0]
		}
		sort.Strings(keep)
		return "(" + strings.Join(keep, op) + ")"
	}
	if op == "==" || op == "!=" {
		if b < a {
			a, b = b, a
		}
	}
	return "(" + a + op + b + ")"
}

// operandsOf splits a canonical "(x op y op z)" group of the same operator.
func operandsOf(x, op string) []string {
	if len(x) < 2 || x[0] != '(' || matchParen(x, 0) != len(x)-1 {
		return []string{x}
	}
	inner := x[1 : len(x)-1]
	var parts []string
	depth, last := 0, 0
	found := false
	for i := 0; i < len(inner); i++ {
		c := inner[i]
		switch c {
		case '"':
			i++
			for i < len(inner) && inner[i] != '"' {
				if inner[i] == '\\' {
					i++
				}
				i++
			}
			continue
		case '(', '[', '{':
			depth++
			continue
		case ')', ']', '}':
			depth--
			continue
		}
		if depth == 0 && i > 0 && strings.HasPrefix(inner[i:], op) && !isOpChar(inner[i-1]) {
			// make sure this is exactly op (not a longer operator)
			j, o := topOp(inner[last:])
			if j >= 0 && o == op && last+j == i {
				parts = append(parts, inner[last:i])
				last = i + len(op)
				i = last - 1
				found = true
				continue
			}
			return []string{x}
		}
	}
	if !found {
		return []string{x}
	}
	parts = append(parts, inner[last:])
	return parts
}

// expandSummaries replaces, in an E7 term, every application  name(args)  or
// name(args)#k  of a helper whose result term is given purely in terms of its
// parameters ($0, $1, ...) by that term with the arguments substituted.  Both
// the reconstructed and the spec term are compared in this expanded form, so
// that a helper inlined by hand into its caller (or a block extracted into the
// helper) compares equal: the helper's own term is still checked on its own
// where the helper exists.
func expandSummaries(s string, sums map[string]map[int]string, depth int) string {
	if depth > 6 || len(sums) == 0 {
		return s
	}
	var out strings.Builder
	for i := 0; i < len(s); {
		ch := s[i]
		if ch == '"' {
			j := i + 1
			for j < len(s) && s[j] != '"' {
				if s[j] == '\\' {
					j++
				}
				j++
			}
			if j >= len(s) {
				j = len(s) - 1
			}
			out.WriteString(s[i : j+1])
			i = j + 1
			continue
		}
		isStart := (ch >= 'a' && ch <= 'z') || (ch >= 'A' && ch <= 'Z') || ch == '_'
		if !isStart || (i > 0 && (isWordChar(s[i-1]) || s[i-1] == '.' || s[i-1] == '-' || s[i-1] == '$')) {
			out.WriteByte(ch)
			i++
			continue
		}
		j := i
		for j < len(s) && isWordChar(s[j]) {
			j++
		}
		name := s[i:j]
		res, known := sums[name]
		if !known || j >= len(s) || s[j] != '(' {
			out.WriteString(name)
			i = j
			continue
		}
		e := matchParen(s, j)
		if e < 0 {
			out.WriteString(name)
			i = j
			continue
		}
		idx, end := 0, e+1
		if end+1 < len(s) && s[end] == '#' && s[end+1] >= '0' && s[end+1] <= '9' {
			idx = int(s[end+1] - '0')
			end += 2
		}
		body, ok := res[idx]
		if !ok {
			out.WriteString(s[i:end])
			i = end
			continue
		}
		var args []string
		if inner := s[j+1 : e]; inner != "" {
			for _, a := range splitTopAll(inner) {
				args = append(args, expandSummaries(a, sums, depth))
			}
		}
		var sub strings.Builder
		for k := 0; k < len(body); k++ {
			if body[k] == '$' && k+1 < len(body) && body[k+1] >= '0' && body[k+1] <= '9' && (k+2 >= len(body) || body[k+2] < '0' || body[k+2] > '9') {
				n := int(body[k+1] - '0')
				if n < len(args) {
					sub.WriteString(args[n])
					k++
					continue
				}
			}
			sub.WriteByte(body[k])
		}
		out.WriteString(expandSummaries(sub.String(), sums, depth+1))
		i = end
	}
	return out.String()
}

func isWordChar(c byte) bool {
	return c == '_' || (c >= 'a' && c <= 'z') || (c >= 'A' && c <= 'Z') || (c >= '0' && c <= '9')
}

// splitTopAll splits at top-level commas, counting (), [] and {}.
func splitTopAll(s string) []string {
	var out []string
	depth, start, inq := 0, 0, false
	for i := 0; i < len(s); i++ {
		switch s[i] {
		case '\\':
			if inq {
				i++
			}
		case '"':
			inq = !inq
		case '(', '[', '{':
			if !inq {
				depth++
			}
		case ')', ']', '}':
			if !inq {
				depth--
			}
		case ',':
			if !inq && depth == 0 {
				out = append(out, s[start:i])
				start = i + 1
			}
		}
	}
	return append(out, s[start:])
}
