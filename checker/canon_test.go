package main

import "testing"

func TestCanon(t *testing.T) {
	cases := [][2]string{
		{"(((0|constantTimeIsZero(X25519($1.private,$0)))|constantTimeIsZero(X25519($2.private,$0)))==0)", "((constantTimeIsZero(X25519($1.private,$0))|constantTimeIsZero(X25519($2.private,$0)))==0)"},
		{"((Sample(<obfs4Conn>.iatDist)*100)*1000)", "(1000*(100*Sample(<obfs4Conn>.iatDist)))"},
		{"(Intn((($1+1)-$0))+$0)", "($0+Intn(((1+$1)-$0)))"},
		{"(($3>>1)&1)", "(1&($3>>1))"},
		{"(<WeightedDist>.minValue+<WeightedDist>.values[phi(Intn(len(<WeightedDist>.values))|<WeightedDist>.alias[Intn(len(<WeightedDist>.values))])])", "(<WeightedDist>.values[phi(Intn(len(<WeightedDist>.values))|<WeightedDist>.alias[Intn(len(<WeightedDist>.values))])]+<WeightedDist>.minValue)"},
	}
	for _, c := range cases {
		if !termEq(c[0], c[1]) {
			t.Errorf("not equal:\n %s\n %s\n -> %s\n -> %s", c[0], c[1], canonTerm(c[0]), canonTerm(c[1]))
		}
	}
	if termEq("(a-b)", "(b-a)") {
		t.Error("sub")
	}
	if termEq("(a|b)", "(a|c)") {
		t.Error("or")
	}
	t.Log(canonTerm("cat(hmac($0,\"a|b\"),(x|0))"))
}
func TestCanonFold(t *testing.T) {
	if !termEq("((Sample(x)*100)*1000)", "(Sample(x)*100000)") {
		t.Error(canonTerm("((Sample(x)*100)*1000)"), canonTerm("(Sample(x)*100000)"))
	}
	if !termEq("(($3>>0)&1)", "($3&1)") {
		t.Error("shift0")
	}
	if termEq("(x*100)", "(x*1000)") {
		t.Error("neq")
	}
}
