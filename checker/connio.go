package main

// Classification of I/O on the wrapped network connection: which call sites
// can write to / read from / close a raw net.Conn (DESIGN 4, C03.R1).

import (
	"go/types"
	"sort"

	"golang.org/x/tools/go/ssa"
)

type connIO struct {
	p       *Prog
	netConn *types.Interface
	sum     map[*ssa.Function][2]bool
}

func newConnIO(p *Prog) *connIO {
	return &connIO{p: p, netConn: p.stdIface("net", "Conn")}
}

func (ci *connIO) netConnType() types.Type {
	for _, pk := range ci.p.SSA.AllPackages() {
		if pk.Pkg.Path() == "net" {
			return pk.Pkg.Scope().Lookup("Conn").Type()
		}
	}
	return nil
}

// isConnType: the static type is net.Conn or implements it.
func (ci *connIO) isConnType(t types.Type) bool {
	if ci.netConn == nil {
		return false
	}
	if isNamedType(t, "net", "Conn") {
		return true
	}
	if _, ok := t.Underlying().(*types.Interface); ok {
		// another interface type: only if it includes net.Conn's methods
		return types.Implements(t, ci.netConn)
	}
	return types.Implements(t, ci.netConn)
}

// mayBeRawConn: value v may designate a raw network connection (as opposed to
// an in-memory buffer): its static type is net.Conn, or one of its value-flow
// origins has a type implementing net.Conn.
func (ci *connIO) mayBeConn(v ssa.Value) bool {
	if ci.isConnType(v.Type()) {
		return true
	}
	for _, o := range ci.p.Origins(v) {
		if ci.isConnType(o.Type()) {
			return true
		}
		// an interface-typed value of unknown origin (call result, uncalled
		// parameter) may be anything
		// An interface-typed value of unknown origin (call result, uncalled
		// parameter) may be a connection if its interface is a subset of
		// net.Conn's method set (io.Writer, io.ReadWriter, any, ...); a
		// hash.Hash or cipher.Stream result is not a bare connection.
		if it, isIface := o.Type().Underlying().(*types.Interface); isIface {
			if _, isConst := o.(*ssa.Const); !isConst && types.Implements(ci.netConnType(), it) {
				return true
			}
		}
	}
	return false
}

// readOnlyArg lists (callee, argument index) pairs where passing a connection
// cannot cause a write to it.
var readOnlyArg = map[string]map[int]bool{
	"io.Copy":          {1: true},
	"io.CopyBuffer":    {1: true},
	"io.CopyN":         {1: true},
	"io.ReadFull":      {0: true},
	"io.ReadAtLeast":   {0: true},
	"io.ReadAll":       {0: true},
	"io.LimitReader":   {0: true},
	"bufio.NewReader":  {0: true},
	"builtin:panic":    {0: true},
	"builtin:print":    {0: true},
	"builtin:println":  {0: true},
	"fmt.Sprintf":      {},
	"fmt.Errorf":       {},
	"(*sync.Once).Do":  {},
	"(net.Conn).Close": {},
}

// CloseWrite / CloseRead / SetLinger (reached through a type assertion on the connection) change what the peer sees (FIN, RST) just like a write
var connWriteMethods = map[string]bool{"Write": true, "ReadFrom": true, "WriteString": true, "WriteTo": false, "CloseWrite": true, "CloseRead": true, "SetLinger": true}

type ioSite struct {
	Instr ssa.CallInstruction
	Kind  string // "invoke-write", "extern-arg"
	What  string
}

// WriteSites returns the call sites in fns through which bytes can be written
// to a raw connection.
func (ci *connIO) WriteSites(fns map[*ssa.Function]bool) []ioSite {
	var out []ioSite
	var keys []*ssa.Function
	for fn := range fns {
		if ci.p.inModule(fn) {
			keys = append(keys, fn)
		}
	}
	sort.Slice(keys, func(i, j int) bool { return ci.p.FuncKey(keys[i]) < ci.p.FuncKey(keys[j]) })
	for _, fn := range keys {
		allInstrs(fn, func(in ssa.Instruction) {
			call, ok := in.(ssa.CallInstruction)
			if !ok {
				return
			}
			c := call.Common()
			id := ci.p.CalleeID(c)
			if c.IsInvoke() {
				if connWriteMethods[c.Method.Name()] && ci.mayBeConn(c.Value) {
					out = append(out, ioSite{call, "invoke-write", id})
				}
				return
			}
			sc := c.StaticCallee()
			if sc != nil && ci.p.inModule(sc) {
				return // analysed on its own
			}
			// external (or dynamic) callee receiving a connection
			ro, known := readOnlyArg[id]
			for i, a := range c.Args {
				if !refLike(a.Type()) {
					continue
				}
				if _, isIface := a.Type().Underlying().(*types.Interface); !isIface && !ci.isConnType(a.Type()) {
					continue
				}
				if !ci.argMayBeConn(a) {
					continue
				}
				if known && (ro[i] || len(ro) == 0) {
					continue
				}
				out = append(out, ioSite{call, "extern-arg", id})
			}
		})
	}
	return out
}

// argMayBeConn is mayBeConn restricted to definite evidence: static type, or
// an origin whose type implements net.Conn (unknown interface origins are not
// counted for arguments of external calls such as fmt.Sprintf("%v", x)).
func (ci *connIO) argMayBeConn(v ssa.Value) bool {
	if ci.isConnType(v.Type()) {
		return true
	}
	for _, o := range ci.p.Origins(v) {
		if ci.isConnType(o.Type()) {
			return true
		}
	}
	return false
}

// invokeSites lists invoke calls of the named net.Conn method on values that
// may be a raw connection.
func (ci *connIO) invokeSites(fns map[*ssa.Function]bool, method string) []ssa.CallInstruction {
	var out []ssa.CallInstruction
	var keys []*ssa.Function
	for fn := range fns {
		if ci.p.inModule(fn) {
			keys = append(keys, fn)
		}
	}
	sort.Slice(keys, func(i, j int) bool { return ci.p.FuncKey(keys[i]) < ci.p.FuncKey(keys[j]) })
	for _, fn := range keys {
		allInstrs(fn, func(in ssa.Instruction) {
			call, ok := in.(ssa.CallInstruction)
			if !ok {
				return
			}
			c := call.Common()
			if c.IsInvoke() && c.Method.Name() == method && ci.mayBeConn(c.Value) {
				out = append(out, call)
			}
		})
	}
	return out
}

// readsConn: does fn (transitively) read from a raw connection?
func (ci *connIO) readsConn(fn *ssa.Function) bool {
	reach := ci.p.ReachableSkip(rawConnInvoke, fn)
	if len(ci.invokeSites(reach, "Read")) > 0 {
		return true
	}
	for f := range reach {
		if !ci.p.inModule(f) {
			continue
		}
		for _, call := range ci.p.CallsIn(f, "io.ReadFull", "io.ReadAtLeast", "io.Copy", "io.CopyBuffer") {
			for _, a := range call.Common().Args {
				if ci.argMayBeConn(a) {
					return true
				}
			}
		}
	}
	return false
}

// ---- buffered wrappers ------------------------------------------------------

var bufioCtors = map[string]bool{"bufio.NewReader": true, "bufio.NewWriter": true, "bufio.NewReadWriter": true,
	"bufio.NewReaderSize": true, "bufio.NewWriterSize": true}

// wrapsConn: v is (a field of) a bufio reader/writer built over a raw
// connection.
func (ci *connIO) wrapsConn(v ssa.Value) bool {
	return ci.wrapsConnD(v, 0)
}

func (ci *connIO) wrapsConnD(v ssa.Value, d int) bool {
	if d > 6 {
		return false
	}
	// promoted access through an embedded bufio field: look at the base object
	if u, ok := v.(*ssa.UnOp); ok {
		if fa, ok := u.X.(*ssa.FieldAddr); ok {
			if pt, ok := fa.X.Type().Underlying().(*types.Pointer); ok {
				if n, ok := pt.Elem().(*types.Named); ok && n.Obj().Pkg() != nil && n.Obj().Pkg().Path() == "bufio" {
					return ci.wrapsConnD(fa.X, d+1)
				}
			}
		}
	}
	for _, o := range ci.p.Origins(v) {
		call, ok := o.(*ssa.Call)
		if !ok || !bufioCtors[ci.p.CalleeID(call.Common())] {
			continue
		}
		for _, a := range call.Common().Args {
			if ci.argMayBeConn(a) || ci.wrapsConnD(a, d+1) {
				return true
			}
		}
	}
	return false
}

// ioKind classifies a call instruction as direct I/O on a raw connection (or
// a bufio wrapper of one): "read", "write", "" (none).
func (ci *connIO) ioKind(call ssa.CallInstruction) string {
	c := call.Common()
	id := ci.p.CalleeID(c)
	if c.IsInvoke() {
		if !ci.mayBeConn(c.Value) {
			return ""
		}
		switch c.Method.Name() {
		case "Read":
			return "read"
		case "Write":
			return "write"
		}
		return ""
	}
	switch id {
	case "io.ReadFull", "io.ReadAtLeast", "io.ReadAll":
		if ci.argMayBeConn(c.Args[0]) || ci.wrapsConn(c.Args[0]) {
			return "read"
		}
	case "io.Copy", "io.CopyBuffer":
		if ci.argMayBeConn(c.Args[1]) || ci.wrapsConn(c.Args[1]) {
			return "read"
		}
		if ci.argMayBeConn(c.Args[0]) || ci.wrapsConn(c.Args[0]) {
			return "write"
		}
	}
	if sc := c.StaticCallee(); sc != nil && sc.Pkg != nil && sc.Pkg.Pkg.Path() == "bufio" && len(c.Args) > 0 && sc.Signature.Recv() != nil {
		if ci.wrapsConn(c.Args[0]) {
			n := sc.Name()
			switch {
			case len(n) >= 4 && n[:4] == "Read", n == "Peek", n == "Discard":
				return "read"
			case len(n) >= 5 && n[:5] == "Write", n == "Flush":
				return "write"
			}
		}
	}
	return ""
}

// ioSummary: does fn transitively perform reads / writes on a raw connection?
func (ci *connIO) ioSummary(fn *ssa.Function) (reads, writes bool) {
	if ci.sum == nil {
		ci.sum = map[*ssa.Function][2]bool{}
	}
	if r, ok := ci.sum[fn]; ok {
		return r[0], r[1]
	}
	for f := range ci.p.ReachableSkip(rawConnInvoke, fn) {
		if !ci.p.inModule(f) {
			continue
		}
		allInstrs(f, func(in ssa.Instruction) {
			if call, ok := in.(ssa.CallInstruction); ok {
				switch ci.ioKind(call) {
				case "read":
					reads = true
				case "write":
					writes = true
				}
			}
		})
	}
	ci.sum[fn] = [2]bool{reads, writes}
	return
}

// ioInstrs lists, in fn itself, the instructions that perform connection I/O
// directly or by calling a module function that does.
func (ci *connIO) ioInstrs(fn *ssa.Function) (reads, writes []ssa.CallInstruction) {
	allInstrs(fn, func(in ssa.Instruction) {
		call, ok := in.(ssa.CallInstruction)
		if !ok {
			return
		}
		switch ci.ioKind(call) {
		case "read":
			reads = append(reads, call)
			return
		case "write":
			writes = append(writes, call)
			return
		}
		for _, callee := range ci.p.Callees(call) {
			if !ci.p.inModule(callee) || callee == fn {
				continue
			}
			r, w := ci.ioSummary(callee)
			if r {
				reads = append(reads, call)
			}
			if w {
				writes = append(writes, call)
			}
		}
	})
	return
}

// rawConnInvoke: an interface call on a value whose static type is net.Conn.
// Such a call leaves the layer under analysis: whatever implementation sits
// below (the kernel's TCP conn, or one of the module's own proxy conns) is
// reachable only through this site, which is itself classified and checked.
func rawConnInvoke(call ssa.CallInstruction) bool {
	c := call.Common()
	return c.IsInvoke() && isNamedType(c.Value.Type(), "net", "Conn")
}
