package main

// Library contracts and callee summaries for the bounds engine (DESIGN 2.9).
// Library behaviour is represented ONLY by this table; every line carries its
// justification.  Module-internal callees are not listed: their results are
// summarised by inlining the callee's return cases (verified, not assumed).

import (
	"fmt"
	"go/types"

	"golang.org/x/tools/go/ssa"
)

// resultAtom returns true if (call, idx) designates result #want of call.
func isResult(idx, want, nres int) bool {
	return idx == want || (idx == -1 && nres == 1 && want == 0)
}

// errNilKnown: is "error result of call is nil" among the facts at the
// current proof site?  (Contracts in implication form are instantiated only
// when their antecedent is a dominating fact.)
func (s *scope) errNilKnown(pr *proof, call *ssa.Call) bool {
	if !s.onPath {
		return false
	}
	return pr.errNil[call]
}

// callFacts: facts about an integer result of a call.
func (s *scope) callFacts(pr *proof, a Lin, call *ssa.Call, idx int) {
	p := s.b.p
	cm := call.Common()
	id := p.CalleeID(cm)
	nres := 1
	if t, ok := call.Type().(*types.Tuple); ok {
		nres = t.Len()
	}
	readLike := func(bufArg ssa.Value) {
		// io.Reader contract: 0 <= n <= len(p)
		pr.add(geC(a, 0))
		if l, ok := s.lenLin(bufArg, pr); ok {
			pr.add(le(a, l))
		}
	}
	if cm.IsInvoke() {
		switch cm.Method.Name() {
		case "Read":
			if isResult(idx, 0, nres) && len(cm.Args) == 1 {
				readLike(cm.Args[0]) // io.Reader / net.Conn interface contract
			}
		case "Write":
			if isResult(idx, 0, nres) && len(cm.Args) == 1 {
				readLike(cm.Args[0]) // io.Writer: 0 <= n <= len(p)
			}
		case "Len", "Size", "BlockSize":
			pr.add(geC(a, 0))
		}
		return
	}
	switch id {
	case "(*bytes.Buffer).Read":
		if isResult(idx, 0, nres) {
			readLike(cm.Args[1])
			// bytes.Buffer.Read: returns (0, nil) only if len(p) == 0 — (0, io.EOF) when the buffer is empty and len(p) > 0
			if s.errNilKnown(pr, call) {
				if l, ok := s.lenLin(cm.Args[1], pr); ok {
					pr.addSplit(fmt.Sprintf("bufread:%p", call), [][]Cons{{geC(a, 1)}, append(eq(a, linConst(0)), eq(l, linConst(0))...)})
				}
			}
		}
	case "(*bytes.Buffer).Write":
		if isResult(idx, 0, nres) {
			if l, ok := s.lenLin(cm.Args[1], pr); ok {
				pr.add(eq(a, l)...) // bytes.Buffer.Write always writes len(p)
			}
		}
	case "(*bytes.Buffer).Len":
		pr.add(geC(a, 0))
		s.bufLenRel(pr, a, call)
	case "(*bytes.Reader).Len", "(*container/list.List).Len":
		pr.add(geC(a, 0))
	case "io.ReadFull":
		if isResult(idx, 0, nres) {
			readLike(cm.Args[1])
			if s.errNilKnown(pr, call) {
				if l, ok := s.lenLin(cm.Args[1], pr); ok {
					pr.add(eq(a, l)...) // io.ReadFull: err == nil iff n == len(buf)
				}
			}
		}
	case "io.ReadAtLeast":
		if isResult(idx, 0, nres) {
			readLike(cm.Args[1])
			if s.errNilKnown(pr, call) {
				pr.add(ge(a, s.lin(cm.Args[2], pr))) // err == nil implies n >= min
			}
		}
	case "bytes.Index":
		// r == -1 or 0 <= r and r + len(sep) <= len(s)
		pr.add(geC(a, -1))
		ls, ok1 := s.lenLin(cm.Args[0], pr)
		lsep, ok2 := s.lenLin(cm.Args[1], pr)
		if ok1 && ok2 {
			pr.addSplit(fmt.Sprintf("index:%p", call), [][]Cons{eq(a, linConst(-1)), {geC(a, 0), le(a.Add(lsep), ls)}})
		}
	case "bytes.IndexByte":
		pr.add(geC(a, -1))
		if ls, ok := s.lenLin(cm.Args[0], pr); ok {
			pr.add(lt(a, ls.Add(linConst(0))))
			_ = ls
		}
	case "(*math/rand.Rand).Intn", "math/rand.Intn":
		// 0 <= r < n (panics for n <= 0)
		n := cm.Args[len(cm.Args)-1]
		pr.add(geC(a, 0), lt(a, s.lin(n, pr)))
	case "(encoding/binary.bigEndian).Uint16", "(encoding/binary.littleEndian).Uint16":
		pr.add(geC(a, 0), leC(a, 65535))
	case M("(*$M/common/probdist.WeightedDist).Sample"):
		// assumed: minValue <= r <= maxValue (justified by C12's provenance rule: Sample returns minValue+values[idx], values in [0,max-min]);
		// minValue/maxValue are fixed at construction: use the intervals of those fields.
		lo := s.b.fieldInterval(FieldKey{"common/probdist.WeightedDist", "minValue"})
		hi := s.b.fieldInterval(FieldKey{"common/probdist.WeightedDist", "maxValue"})
		if lo != nil && lo.hasLo {
			pr.add(geC(a, lo.lo))
		}
		if hi != nil && hi.hasHi {
			pr.add(leC(a, hi.hi))
		}
		s.b.Assumed["WeightedDist.Sample() returns a value in [minValue,maxValue] (assumed here; its structural justification is C12.R2)"] = true
	default:
		// module callee: inline its return cases
		if sc := cm.StaticCallee(); sc != nil && p.inModule(sc) {
			s.inlineCall(pr, a, call, sc, idx, false)
		}
	}
}

// callLenFacts: facts about len() of a slice result of a call.
func (s *scope) callLenFacts(pr *proof, a Lin, call *ssa.Call, idx int) {
	p := s.b.p
	cm := call.Common()
	id := p.CalleeID(cm)
	if cm.IsInvoke() {
		if cm.Method.Name() == "Sum" && len(cm.Args) == 1 {
			// hash.Hash.Sum(b) appends Size() bytes to b
			if sz := s.b.hashSize(cm.Value); sz > 0 {
				if l, ok := s.lenLin(cm.Args[0], pr); ok {
					pr.add(eq(a, l.Add(linConst(sz)))...)
				}
			}
		}
		return
	}
	switch id {
	case "builtin:append":
		// len(append(x, y...)) = len(x) + len(y)
		if len(cm.Args) == 2 {
			l1, ok1 := s.lenLin(cm.Args[0], pr)
			l2, ok2 := s.lenLin(cm.Args[1], pr)
			if ok1 && ok2 {
				pr.add(eq(a, l1.Add(l2))...)
			} else if ok1 {
				pr.add(ge(a, l1))
			}
		}
	case "golang.org/x/crypto/nacl/secretbox.Seal":
		// len(Seal(out, msg, ..)) = len(out) + len(msg) + 16
		l1, ok1 := s.lenLin(cm.Args[0], pr)
		l2, ok2 := s.lenLin(cm.Args[1], pr)
		if ok1 && ok2 {
			pr.add(eq(a, l1.Add(l2).Add(linConst(16)))...)
		}
	case "golang.org/x/crypto/nacl/secretbox.Open":
		// ok ⇒ len(out') = len(out) + len(box) - 16 ; always: len(out') >= len(out)... (on failure nil is returned)
		if isResult(idx, 0, 2) {
			l1, ok1 := s.lenLin(cm.Args[0], pr)
			l2, ok2 := s.lenLin(cm.Args[1], pr)
			if ok1 && ok2 {
				pr.addSplit(fmt.Sprintf("open:%p", call), [][]Cons{append(eq(a, l1.Add(l2).Sub(linConst(16))), geC(l2, 16)), eq(a, linConst(0))})
			}
		}
	case "(*math/rand.Rand).Perm":
		// Perm(n) returns a permutation of [0,n): n elements
		pr.add(eq(a, s.lin(cm.Args[1], pr))...)
	case "(*filippo.io/edwards25519/field.Element).Bytes":
		pr.add(eq(a, linConst(32))...) // field elements serialise to 32 bytes
	case "bytes.Clone":
		if l, ok := s.lenLin(cm.Args[0], pr); ok {
			pr.add(eq(a, l)...)
		}
	case "crypto/sha256.Sum256":
	case "(*bytes.Buffer).Bytes":
		// len(Bytes()) == Len() of the same buffer state
		s.bufLenRel(pr, a, call)
	case "(*bytes.Buffer).Next":
		// len(Next(n)) = min(n, Len())
		if l := s.lin(cm.Args[1], pr); true {
			pr.add(le(a, l), geC(a, 0))
			if bl, ok := s.bufLenBefore(pr, call); ok {
				pr.addSplit(fmt.Sprintf("next:%p", call), [][]Cons{
					append(eq(a, l), ge(bl, l)),
					append(eq(a, bl), lt(bl, l)),
				})
			}
		}
	default:
		if sc := cm.StaticCallee(); sc != nil && p.inModule(sc) {
			s.inlineCall(pr, a, call, sc, idx, true)
		}
	}
}

// hashSize: Size() of the hash object v, from its constructor.
func (b *Bounds) hashSize(v ssa.Value) int64 {
	size := int64(0)
	for _, o := range b.p.Origins(v) {
		c, _ := callOf(o)
		if c == nil {
			return 0
		}
		var sz int64
		switch b.p.CalleeID(c.Common()) {
		case "crypto/hmac.New":
			if f, ok := c.Common().Args[0].(*ssa.Function); ok {
				switch b.p.fnID(f) {
				case "crypto/sha256.New":
					sz = 32
				case "crypto/sha512.New":
					sz = 64
				case "crypto/sha1.New":
					sz = 20
				}
			}
		case "crypto/sha256.New":
			sz = 32
		case "crypto/sha512.New":
			sz = 64
		case "github.com/dchest/siphash.New":
			sz = 8
		}
		if sz == 0 || (size != 0 && size != sz) {
			return 0
		}
		size = sz
	}
	return size
}

// inlineCall summarises a module callee by a split over its return
// statements: each case binds the result (or its length) to the returned
// value, in a fresh scope whose parameters are bound to the call's arguments,
// under the integer facts that hold at that return.
func (s *scope) inlineCall(pr *proof, a Lin, call *ssa.Call, callee *ssa.Function, idx int, wantLen bool) {
	if s.depth >= s.b.depthCap || callee == s.fn {
		return
	}
	for q := s; q != nil; q = q.parent {
		if q.fn == callee {
			return // recursion
		}
	}
	key := fmt.Sprintf("call:%s%p#%d/%v", s.prefix, call, idx, wantLen)
	if pr.seenSp[key] {
		return
	}
	var nest [][]int
	if idx < 0 {
		idx = 0
	}
	rets := returnsOf(callee)
	if len(rets) == 0 || len(rets) > 12 {
		return
	}
	for _, r := range rets {
		if idx >= len(r.Results) {
			return
		}
	}
	if !pr.begin(key) {
		return
	}
	prefix := fmt.Sprintf("%s%s@%p/", s.prefix, callee.Name(), call)
	cs := s.b.newScope(callee, prefix, s, call)
	var cases [][]Cons
	ei := errResultIndex(callee)
	cff := s.b.p.Facts(callee)
	for _, r := range rets {
		if idx >= len(r.Results) {
			return
		}
		// returns incompatible with what the path knows about the call's error are impossible
		if ei >= 0 && s.onPath {
			if pr.errNil[call] && cff.ProvablyNonNil(r.Results[ei], r.Block(), 0) {
				continue
			}
			if c, ok := r.Results[ei].(*ssa.Const); ok && c.IsNil() && pr.errNon[call] {
				continue
			}
		}
		sub := pr.child()
		rv := r.Results[idx]
		if wantLen {
			if l, ok := cs.lenLin(rv, sub); ok {
				sub.add(eq(a, l)...)
			}
		} else if isIntType(rv.Type()) {
			sub.add(eq(a, cs.lin(rv, sub))...)
		}
		cs.blockFacts(sub, r.Block())
		cc, ns := pr.absorb(sub)
		cases, nest = append(cases, cc), append(nest, ns)
	}
	if len(cases) == 0 {
		cases, nest = [][]Cons{{{linConst(1)}}}, [][]int{nil}
	}
	pr.pushSplit(key, cases, nest)
}

// paramLenContract: lengths of parameters of the function under analysis are
// unconstrained except for the contracts of exported I/O methods (none needed
// today); requires-side obligations are proved at call sites instead.
func (b *Bounds) paramLenContract(s *scope, pr *proof, a Lin, q *ssa.Parameter) {}

// bufLenRel relates the buffer length observed by `call` (Len() or
// len(Bytes())) to the closest earlier observation of the same bytes.Buffer
// in the same basic block, when only appends (Write/WriteByte/WriteString, which
// always append all of their argument) and buffer-unrelated instructions lie
// in between: a = earlier + appended.  Any other call in between ends the
// search (it could change the buffer through an alias).
func (s *scope) bufLenRel(pr *proof, a Lin, call *ssa.Call) {
	if l, ok := s.bufLenBefore(pr, call); ok {
		pr.add(eq(a, l)...)
	}
}

// bufLenBefore expresses the length of call's receiver (a bytes.Buffer) just
// before call through the closest earlier observation (Len() or len(Bytes()))
// reached by walking backwards through the block and its chain of unique
// predecessors, across appends only.
func (s *scope) bufLenBefore(pr *proof, call *ssa.Call) (Lin, bool) {
	recv, _, _ := recvOf(call)
	if recv == nil {
		return Lin{}, false
	}
	key := objKey(recv)
	fk, hasFK := FieldKey{}, false
	if k, _, ok := fieldLoad(recv); ok {
		fk, hasFK = k, true
	}
	blk := call.Block()
	pos := -1
	for i, in := range blk.Instrs {
		if in == ssa.Instruction(call) {
			pos = i
		}
	}
	delta := linConst(0)
	for hops := 0; hops < 6; hops++ {
		for i := pos - 1; i >= 0; i-- {
			switch x := blk.Instrs[i].(type) {
			case *ssa.Store:
				if k, ok := fieldAddrKey(x.Addr); ok && hasFK && k == fk {
					return Lin{}, false // the field that holds the buffer is reassigned
				}
			case *ssa.Call:
				if _, isB := x.Common().Value.(*ssa.Builtin); isB {
					continue
				}
				r, m, args := recvOf(x)
				if r == nil || objKey(r) != key || !isNamedType(r.Type(), "bytes", "Buffer") {
					id := s.b.p.CalleeID(x.Common())
					if pureStd[id] {
						continue
					}
					return Lin{}, false
				}
				switch m {
				case "Len":
					return s.lin(x, pr).Add(delta), true
				case "Bytes":
					if l, ok := s.lenLin(x, pr); ok {
						return l.Add(delta), true
					}
					return Lin{}, false
				case "Write", "WriteString":
					l, ok := s.lenLin(args[0], pr)
					if !ok {
						return Lin{}, false
					}
					delta = delta.Add(l)
				case "WriteByte":
					delta = delta.Add(linConst(1))
				default:
					return Lin{}, false
				}
			case ssa.CallInstruction:
				return Lin{}, false // go / defer
			}
		}
		if len(blk.Preds) != 1 {
			return Lin{}, false
		}
		blk = blk.Preds[0]
		pos = len(blk.Instrs)
	}
	return Lin{}, false
}

// pureStd: standard-library functions that cannot reach a caller's bytes.Buffer.
var pureStd = map[string]bool{
	"bytes.Index": true, "bytes.IndexByte": true, "bytes.Equal": true, "bytes.HasPrefix": true, "bytes.Contains": true,
	"crypto/hmac.Equal": true, "crypto/subtle.ConstantTimeCompare": true, "errors.New": true,
	"(encoding/binary.bigEndian).Uint16": true, "(encoding/binary.bigEndian).Uint32": true, "(encoding/binary.bigEndian).Uint64": true,
	"(encoding/binary.bigEndian).PutUint16": true, "(encoding/binary.bigEndian).PutUint32": true, "(encoding/binary.bigEndian).PutUint64": true,
}
