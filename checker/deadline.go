package main

// E6 — handshake deadline typestate (DESIGN 2.7, C10.R1 / C03.R6): a deadline
// is armed on the raw connection before the first handshake I/O and removed
// on every success path after the last handshake read.

import (
	"fmt"

	"golang.org/x/tools/go/ssa"
)

type armSite struct {
	Call *ssa.Call
	Ns   int64
}

func isZeroTime(v ssa.Value) bool {
	c, ok := v.(*ssa.Const)
	return ok && c.Value == nil && isNamedType(c.Type(), "time", "Time")
}

// armArg matches time.Now().Add(<const>) and returns the constant.
func (p *Prog) armArg(v ssa.Value) (int64, bool) {
	v = unspill(v)
	call, _ := callOf(v)
	if call == nil || p.CalleeID(call.Common()) != "(time.Time).Add" {
		return 0, false
	}
	a := call.Common().Args
	rc, _ := callOf(unspill(a[0]))
	if rc == nil || p.CalleeID(rc.Common()) != "time.Now" {
		return 0, false
	}
	return intConst(a[1])
}

// deadlineCalls lists the SetDeadline invocations on a raw connection in fn.
func deadlineCalls(p *Prog, cio *connIO, fn *ssa.Function) (arms []armSite, disarms []ssa.CallInstruction, others []ssa.CallInstruction) {
	allInstrs(fn, func(in ssa.Instruction) {
		call, ok := in.(ssa.CallInstruction)
		if !ok {
			return
		}
		cm := call.Common()
		if !cm.IsInvoke() || cm.Method.Name() != "SetDeadline" || !cio.mayBeConn(cm.Value) {
			return
		}
		if _, isPar := unspill(cm.Args[0]).(*ssa.Parameter); isPar {
			return // a conn type forwarding its own SetDeadline to the layer below
		}
		if isZeroTime(cm.Args[0]) {
			disarms = append(disarms, call)
			return
		}
		if ns, ok := p.armArg(cm.Args[0]); ok {
			if cv, isCall := call.(*ssa.Call); isCall {
				arms = append(arms, armSite{cv, ns})
				return
			}
		}
		others = append(others, call)
	})
	return
}

// deadlineScopes finds every module function that arms a handshake deadline.
func deadlineScopes(p *Prog, cio *connIO) []*ssa.Function {
	var out []*ssa.Function
	for _, fn := range p.Funcs {
		arms, _, others := deadlineCalls(p, cio, fn)
		if len(arms) > 0 || len(others) > 0 {
			out = append(out, fn)
		}
	}
	return out
}

// deadlineArmRule evaluates the typestate for scope function S.  wantNs > 0
// additionally fixes the timeout constant.
func deadlineArmRule(c *Ctx, rule string, S *ssa.Function, cio *connIO, wantNs float64) {
	p := c.P
	sk := p.FuncKey(S)
	c.Touch(sk)
	ff := p.Facts(S)
	arms, disarms, others := deadlineCalls(p, cio, S)
	o := c.Obl(rule, sk+"#arm", "the handshake deadline is SetDeadline(time.Now().Add(c)) with a positive constant c on the raw connection, exactly once in its scope")
	if len(arms) != 1 || len(others) > 0 {
		if len(arms) == 0 && len(others) == 0 {
			o.Violate("no handshake deadline is armed in %s", sk)
		} else {
			o.Violate("expected exactly one SetDeadline(time.Now().Add(const)); found %d well-formed and %d other non-zero deadline calls", len(arms), len(others))
		}
		return
	}
	A := arms[0]
	o.At(p.InstrPos(A.Call))
	if A.Ns <= 0 {
		o.Violate("timeout constant %d is not positive", A.Ns)
		return
	}
	if blockOnCycle(A.Call.Block()) {
		o.Violate("the deadline is re-armed inside a loop: it becomes an idle timeout that a peer can extend indefinitely instead of an absolute handshake deadline")
		return
	}
	if wantNs > 0 && float64(A.Ns) != wantNs {
		o.Violate("timeout constant is %d ns, expected %.0f ns", A.Ns, wantNs)
		return
	}
	o.Hold("armed with %d ns", A.Ns)

	reads, writes := cio.ioInstrs(S)
	io := append(append([]ssa.CallInstruction{}, reads...), writes...)
	o = c.Obl(rule, sk+"#armed-before-io", "every connection I/O of the handshake scope is dominated by the arming call and runs only if arming succeeded").At(p.InstrPos(A.Call))
	if len(reads) == 0 {
		o.Undecide("no handshake read found in %s (anchor lost)", sk)
	} else {
		bad := ""
		for _, x := range io {
			if !instrDominates(A.Call, x) {
				bad = fmt.Sprintf("I/O at %s is not dominated by the arming call", p.InstrPos(x))
				break
			}
			if !hasFact(ff.NC(x.Block()), func(f Fact) bool { return FactErrNilOfCall(f, A.Call) }) {
				bad = fmt.Sprintf("I/O at %s runs even if arming the deadline failed", p.InstrPos(x))
				break
			}
		}
		if bad != "" {
			o.Violate("%s", bad)
		} else {
			o.HoldNT("%d I/O instructions (%d reads) all dominated by the arming call and guarded by its success", len(io), len(reads))
		}
	}

	// disarm on success
	var deferred []*ssa.Defer
	allInstrs(S, func(in ssa.Instruction) {
		df, ok := in.(*ssa.Defer)
		if !ok {
			return
		}
		if mc, ok := df.Call.Value.(*ssa.MakeClosure); ok {
			cl := mc.Fn.(*ssa.Function)
			_, dz, _ := deadlineCalls(p, cio, cl)
			if len(dz) > 0 {
				// the disarm must be unconditional inside the closure
				if dz[0].Block() == cl.Blocks[0] {
					deferred = append(deferred, df)
				}
			}
		}
	})
	succ := ff.SuccessReturns()
	o = c.Obl(rule, sk+"#disarm-on-success", "every success return of the handshake scope is preceded by SetDeadline(time.Time{}) on the raw connection (directly dominating it, or in a deferred closure registered before the handshake I/O)")
	if len(succ) == 0 {
		o.Undecide("no success return in %s", sk)
	} else {
		bad := ""
		for _, r := range succ {
			ok := false
			for _, z := range disarms {
				if ff.DominatesSuccess(z, r) && instrDominates(A.Call, z) {
					ok = true
				}
			}
			for _, df := range deferred {
				if ff.DominatesSuccess(df, r) {
					ok = true
				}
			}
			if !ok {
				bad = fmt.Sprintf("success return at %s is reachable without removing the handshake deadline: the stale timer will kill the established connection", p.InstrPos(r))
				break
			}
		}
		if bad != "" {
			o.Violate("%s", bad)
		} else {
			o.HoldNT("%d success return(s), %d direct and %d deferred disarm call(s)", len(succ), len(disarms), len(deferred))
		}
	}
	// no handshake read after a direct disarm
	o = c.Obl(rule, sk+"#no-read-after-disarm", "no handshake read follows the removal of the deadline (an unresponsive peer could wedge the handshake)")
	bad := ""
	for _, z := range disarms {
		for _, x := range reads {
			if instrDominates(z, x) || canReachWithout(z, x, nil) {
				bad = fmt.Sprintf("read at %s can execute after the deadline was removed at %s", p.InstrPos(x), p.InstrPos(z))
			}
		}
	}
	if bad != "" {
		o.Violate("%s", bad)
	} else {
		o.HoldNT("%d disarm site(s), none followed by a handshake read", len(disarms))
	}
}
