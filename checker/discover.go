package main

// Discovery of entry points and anchors through types rather than names
// (DESIGN 2.10).

import (
	"go/types"
	"sort"

	"golang.org/x/tools/go/ssa"
)

// lookupType finds a named type of a module package (module-relative path).
func (p *Prog) lookupType(rel, name string) *types.TypeName {
	sp := p.SPkgs[rel]
	if sp == nil {
		return nil
	}
	tn, _ := sp.Pkg.Scope().Lookup(name).(*types.TypeName)
	return tn
}

// Implementers returns, for every named type of the module whose method set
// (value or pointer) implements iface, the SSA function of `method`.
func (p *Prog) Implementers(iface *types.Interface, method string) []*ssa.Function {
	var out []*ssa.Function
	for _, sp := range p.SPkgs {
		for _, m := range sp.Members {
			t, ok := m.(*ssa.Type)
			if !ok {
				continue
			}
			if _, isIface := t.Type().Underlying().(*types.Interface); isIface {
				continue
			}
			for _, T := range []types.Type{t.Type(), types.NewPointer(t.Type())} {
				if !types.Implements(T, iface) {
					continue
				}
				sel := p.SSA.MethodSets.MethodSet(T).Lookup(t.Package().Pkg, method)
				if sel == nil {
					// exported method: package is irrelevant
					sel = p.SSA.MethodSets.MethodSet(T).Lookup(nil, method)
				}
				if sel == nil {
					continue
				}
				fn := p.SSA.MethodValue(sel)
				if fn == nil {
					continue
				}
				// Promoted methods come back as synthetic wrappers; keep only
				// the module's own declarations.
				if fn.Synthetic != "" || !p.inModule(fn) {
					continue
				}
				dup := false
				for _, o := range out {
					if o == fn {
						dup = true
					}
				}
				if !dup {
					out = append(out, fn)
				}
				break
			}
		}
	}
	sort.Slice(out, func(i, j int) bool { return p.FuncKey(out[i]) < p.FuncKey(out[j]) })
	return out
}

func (p *Prog) ifaceOf(rel, name string) *types.Interface {
	tn := p.lookupType(rel, name)
	if tn == nil {
		return nil
	}
	i, _ := tn.Type().Underlying().(*types.Interface)
	return i
}

// netConnIface returns net.Conn as seen by the program.
func (p *Prog) stdIface(pkg, name string) *types.Interface {
	for _, pk := range p.SSA.AllPackages() {
		if pk.Pkg.Path() == pkg {
			if tn, ok := pk.Pkg.Scope().Lookup(name).(*types.TypeName); ok {
				i, _ := tn.Type().Underlying().(*types.Interface)
				return i
			}
		}
	}
	return nil
}

// isNetConnType: static type is net.Conn.
func isNamedType(t types.Type, pkg, name string) bool {
	n, ok := t.(*types.Named)
	if !ok {
		if pt, ok := t.(*types.Pointer); ok {
			n, ok = pt.Elem().(*types.Named)
			if !ok {
				return false
			}
		} else {
			return false
		}
	}
	return n.Obj().Pkg() != nil && n.Obj().Pkg().Path() == pkg && n.Obj().Name() == name
}

// inPkg filters functions by module-relative package.
func (p *Prog) inPkg(fns []*ssa.Function, rel string) []*ssa.Function {
	var out []*ssa.Function
	for _, f := range fns {
		if relPkg(f.Pkg.Pkg.Path()) == rel {
			out = append(out, f)
		}
	}
	return out
}

// funcsCalling lists module functions (optionally restricted to a package)
// that contain a call to one of ids.
func (p *Prog) funcsCalling(rel string, ids ...string) []*ssa.Function {
	seen := map[*ssa.Function]bool{}
	var out []*ssa.Function
	for _, id := range ids {
		for _, cs := range p.Sites(id) {
			if rel != "*" && relPkg(cs.Caller.Pkg.Pkg.Path()) != rel {
				continue
			}
			if !seen[cs.Caller] {
				seen[cs.Caller] = true
				out = append(out, cs.Caller)
			}
		}
	}
	sort.Slice(out, func(i, j int) bool { return p.FuncKey(out[i]) < p.FuncKey(out[j]) })
	return out
}

// allInstrs iterates over the instructions of fn.
func allInstrs(fn *ssa.Function, f func(in ssa.Instruction)) {
	for _, b := range fn.Blocks {
		if blockInfeasible(b) {
			continue // dead under contradictory conditions (e.g. a role test repeated in an inlined helper)
		}
		for _, in := range b.Instrs {
			f(in)
		}
	}
}

// callsInSet lists call instructions with callee id in ids across fns.
func (p *Prog) callsInSet(fns map[*ssa.Function]bool, ids ...string) []ssa.CallInstruction {
	var out []ssa.CallInstruction
	var keys []*ssa.Function
	for fn := range fns {
		if p.inModule(fn) {
			keys = append(keys, fn)
		}
	}
	sort.Slice(keys, func(i, j int) bool { return p.FuncKey(keys[i]) < p.FuncKey(keys[j]) })
	for _, fn := range keys {
		out = append(out, p.CallsIn(fn, ids...)...)
	}
	return out
}

func structOf(t types.Type) *types.Struct {
	if pt, ok := t.Underlying().(*types.Pointer); ok {
		t = pt.Elem()
	}
	st, _ := t.Underlying().(*types.Struct)
	return st
}

// isReadFull: io.ReadFull(r, buf), or io.ReadAtLeast(r, buf, min) with min
// equal to len(buf) (which is what ReadFull is).
func (p *Prog) isReadFull(call ssa.CallInstruction) bool {
	if call == nil {
		return false
	}
	cm := call.Common()
	switch p.CalleeID(cm) {
	case "io.ReadFull":
		return true
	case "io.ReadAtLeast":
		if len(cm.Args) != 3 {
			return false
		}
		buf, min := unspill(cm.Args[1]), unspill(cm.Args[2])
		// len(buf) as a constant or as the same value
		if k, ok := intConst(min); ok {
			if sl, ok := buf.(*ssa.Slice); ok {
				lo := int64(0)
				okLo := sl.Low == nil
				if sl.Low != nil {
					lo, okLo = intConst(sl.Low)
				}
				if sl.High != nil {
					if h, ok := intConst(sl.High); ok && okLo && h-lo == k {
						return true
					}
				} else if n, ok := constLen(sl.X.Type()); ok && okLo && n-lo == k {
					return true
				}
			}
			return false
		}
		if lc, _ := callOf(min); lc != nil && p.CalleeID(lc.Common()) == "builtin:len" && unspill(lc.Common().Args[0]) == buf {
			return true
		}
		if ms, ok := buf.(*ssa.MakeSlice); ok && unspill(ms.Len) == min {
			return true
		}
		if sl, ok := buf.(*ssa.Slice); ok && sl.Low == nil && sl.High != nil && unspill(sl.High) == min {
			return true
		}
		b := p.NewBounds()
		if c, ok := call.(*ssa.Call); ok {
			okp, _ := b.Prove(c.Parent(), c, func(s *scope, pr *proof) []Cons {
				l, ok := s.lenLin(cm.Args[1], pr)
				if !ok {
					return []Cons{{linConst(1)}}
				}
				return eq(l, s.lin(cm.Args[2], pr))
			})
			return okp
		}
	}
	return false
}

// ReadFullsIn lists the exact-length reads of fn.
func (p *Prog) ReadFullsIn(fn *ssa.Function) []ssa.CallInstruction {
	var out []ssa.CallInstruction
	for _, c := range p.CallsIn(fn, "io.ReadFull", "io.ReadAtLeast") {
		if p.isReadFull(c) {
			out = append(out, c)
		}
	}
	return out
}
