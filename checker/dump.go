package main

import (
	"fmt"
	"os"
	"strings"
)

// dumpFuncs prints the SSA of the module functions whose key contains pat.
func dumpFuncs(repo, pat string) {
	p, err := Load(LoadConfig{Dir: repo})
	if err != nil {
		fmt.Fprintln(os.Stderr, err)
		os.Exit(2)
	}
	for _, fn := range p.Funcs {
		if pat == "" || strings.Contains(p.FuncKey(fn), pat) {
			fmt.Printf("### %s\n", p.FuncKey(fn))
			fn.WriteTo(os.Stdout)
		}
	}
}

func dumpBounds(repo, pat string) {
	p, err := Load(LoadConfig{Dir: repo})
	if err != nil {
		fmt.Fprintln(os.Stderr, err)
		os.Exit(2)
	}
	b := p.NewBounds()
	for _, fn := range p.Funcs {
		if !strings.Contains(p.FuncKey(fn), pat) {
			continue
		}
		for _, o := range b.CheckFunc(fn) {
			st := "PROVED"
			if !o.OK {
				st = "FAILED"
			}
			fmt.Printf("%s %-40s %-6s %-28s %s  -- %s\n", st, p.FuncKey(fn), o.Kind, o.Desc, p.InstrPos(o.Instr), o.Why)
		}
	}
}

func dumpTerms(repo, pat string) {
	p, err := Load(LoadConfig{Dir: repo})
	if err != nil {
		fmt.Fprintln(os.Stderr, err)
		os.Exit(2)
	}
	for _, fn := range p.Funcs {
		if !strings.Contains(p.FuncKey(fn), pat) {
			continue
		}
		for _, r := range returnsOf(fn) {
			for i, v := range r.Results {
				t := p.newTermer()
				s := t.Term(v)
				fmt.Printf("%s return@%s #%d = %s   %v\n", p.FuncKey(fn), p.InstrPos(r), i, s, t.errs)
			}
		}
	}
}
