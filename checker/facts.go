package main

// E1 — path facts.  NC(B) is the set of branch facts (condition value,
// polarity) that hold on EVERY path from function entry to block B, computed
// from the dominator tree plus "monotone flag" phis (DESIGN 2.2, A.1).

import (
	"fmt"
	"go/constant"
	"go/token"
	"go/types"
	"sort"
	"strings"

	"golang.org/x/tools/go/ssa"
)

type Fact struct {
	Cond ssa.Value // branch condition with leading negations stripped
	Pol  bool      // the polarity it is known to have
}

type FuncFacts struct {
	p       *Prog
	fn      *ssa.Function
	nc      map[*ssa.BasicBlock][]Fact
	busy    map[*ssa.BasicBlock]bool
	pdom    map[*ssa.BasicBlock]map[*ssa.BasicBlock]bool // pdom[a][b]: b post-dominates a
	reach   map[*ssa.BasicBlock]map[*ssa.BasicBlock]bool
	mp      map[[2]ssa.Instruction]bool
	infeas  map[*ssa.BasicBlock]bool
	derived map[*ssa.BasicBlock]map[Fact]bool
}

func (p *Prog) Facts(fn *ssa.Function) *FuncFacts {
	if ff, ok := p.fa[fn]; ok {
		return ff
	}
	ff := &FuncFacts{p: p, fn: fn, nc: map[*ssa.BasicBlock][]Fact{}, busy: map[*ssa.BasicBlock]bool{}}
	p.fa[fn] = ff
	return ff
}

func stripNot(v ssa.Value, pol bool) (ssa.Value, bool) {
	for {
		u, ok := v.(*ssa.UnOp)
		if !ok || u.Op != token.NOT {
			return v, pol
		}
		v, pol = u.X, !pol
	}
}

func blockIf(b *ssa.BasicBlock) *ssa.If {
	if len(b.Instrs) == 0 {
		return nil
	}
	i, _ := b.Instrs[len(b.Instrs)-1].(*ssa.If)
	return i
}

// edgeFact returns the fact established by taking the CFG edge from→to.
func edgeFact(from, to *ssa.BasicBlock) (Fact, bool) {
	i := blockIf(from)
	if i == nil || len(from.Succs) != 2 || from.Succs[0] == from.Succs[1] {
		return Fact{}, false
	}
	var pol bool
	switch to {
	case from.Succs[0]:
		pol = true
	case from.Succs[1]:
		pol = false
	default:
		return Fact{}, false
	}
	c, pl := stripNot(i.Cond, pol)
	return Fact{c, pl}, true
}

// NC returns the necessary conditions of reaching block b.
func (ff *FuncFacts) NC(b *ssa.BasicBlock) []Fact {
	if r, ok := ff.nc[b]; ok {
		return r
	}
	if ff.busy[b] {
		return nil // cycle through a flag web: contribute nothing
	}
	ff.busy[b] = true
	var out []Fact
	add := func(f Fact) {
		for _, g := range out {
			if g == f {
				return
			}
		}
		out = append(out, f)
	}
	// Dominator chain: for every strict dominator d ending in If, if exactly
	// one successor s has d as its only predecessor and dominates b (or is b),
	// the corresponding edge fact holds.
	for d := b.Idom(); d != nil; d = d.Idom() {
		if blockIf(d) == nil || len(d.Succs) != 2 || d.Succs[0] == d.Succs[1] {
			continue
		}
		for _, s := range d.Succs {
			// the only way into s from outside is the edge d→s (its other predecessors, if any, are
			// back edges of a loop headed by s): every path to b takes that edge, and after the last
			// time it does nothing re-evaluates d's condition
			only := true
			for _, q := range s.Preds {
				if q != d && !s.Dominates(q) {
					only = false
				}
			}
			if only && s != d && !s.Dominates(d) && (s == b || s.Dominates(b)) {
				if f, ok := edgeFact(d, s); ok {
					add(f)
				}
			}
		}
	}
	// Monotone flags: expand facts whose condition is a bool phi over
	// constants (A.1).
	for i := 0; i < len(out); i++ {
		f := out[i]
		var edges [][2]*ssa.BasicBlock
		var tested *ssa.Phi
		lastWebDeep = false
		if phi, ok := f.Cond.(*ssa.Phi); ok {
			tested = phi
			edges, ok = flagEdges(phi, f.Pol, map[*ssa.Phi]bool{})
			if !ok || len(edges) == 0 {
				continue
			}
		} else if x, isNil, ok := FactNilCmp(f); ok {
			// a nil test of a phi (an error merged from several exits, e.g. of an
			// inlined helper): only the incoming edges whose value can have that
			// nil-ness are consistent with the fact
			phi, isPhi := x.(*ssa.Phi)
			if !isPhi {
				continue
			}
			tested = phi
			edges, ok = ff.nilEdges(phi, isNil, map[*ssa.Phi]bool{})
			if !ok || len(edges) == 0 {
				continue
			}
		} else {
			continue
		}
		// the derived facts describe current values (not just an earlier event) when they come
		// from the direct incoming edges of a phi whose block dominates b: the last evaluation of
		// that phi precedes b and nothing the facts mention is evaluated again in between
		valueOK := !lastWebDeep && tested != nil && (tested.Block() == b || tested.Block().Dominates(b))
		if ok0, isDer := ff.derived[b][f]; isDer && !ok0 {
			valueOK = false // learnt from an event fact: an event fact itself
		}
		var inter []Fact
		for k, e := range edges {
			fs := append([]Fact{}, ff.NC(e[0])...)
			if ef, ok := edgeFact(e[0], e[1]); ok {
				fs = append(fs, ef)
			}
			if k == 0 {
				inter = fs
			} else {
				var keep []Fact
				for _, x := range inter {
					for _, y := range fs {
						if x == y {
							keep = append(keep, x)
							break
						}
					}
				}
				inter = keep
			}
		}
		for _, x := range inter {
			n0 := len(out)
			add(x)
			if len(out) > n0 {
				if ff.derived == nil {
					ff.derived = map[*ssa.BasicBlock]map[Fact]bool{}
				}
				if ff.derived[b] == nil {
					ff.derived[b] = map[Fact]bool{}
				}
				ff.derived[b][x] = valueOK
			}
		}
	}
	delete(ff.busy, b)
	ff.nc[b] = out
	return out
}

// NCv: the necessary conditions of b that may be read as statements about the
// CURRENT values of their operands.  The facts NC derives from a merged flag
// ("the flag is set, so at some earlier point hmac.Equal returned true") are
// statements about an earlier event; they are only kept here when their
// operands cannot have been evaluated again since (nothing they are computed
// from lies on a cycle).
func (ff *FuncFacts) NCv(b *ssa.BasicBlock) []Fact {
	all := ff.NC(b)
	d := ff.derived[b]
	if len(d) == 0 {
		return all
	}
	var out []Fact
	for _, f := range all {
		valueOK, isDerived := d[f]
		if !isDerived || valueOK || stableValue(f.Cond, 0) {
			out = append(out, f)
		}
	}
	return out
}

// stableValue: v and what it is computed from are evaluated at most once per
// call of the function (no defining block lies on a cycle).
func stableValue(v ssa.Value, depth int) bool {
	if depth > 5 {
		return false
	}
	switch v.(type) {
	case *ssa.Const, *ssa.Parameter, *ssa.Global, *ssa.FreeVar, *ssa.Function, *ssa.Builtin:
		return true
	}
	in, ok := v.(ssa.Instruction)
	if !ok {
		return false
	}
	if in.Block() == nil || blockOnCycle(in.Block()) {
		return false
	}
	for _, op := range in.Operands(nil) {
		if *op != nil && !stableValue(*op, depth+1) {
			return false
		}
	}
	return true
}

// lastWebDeep: the last flagEdges/nilEdges evaluation followed a nested phi
// (its edges may belong to earlier loop iterations).
var lastWebDeep bool

// flagEdges returns the CFG edges (pred, phiBlock) that feed the constant
// `want` into the flag web of phi; ok=false if the web has a non-constant
// operand (then nothing can be concluded).
func flagEdges(phi *ssa.Phi, want bool, seen map[*ssa.Phi]bool) ([][2]*ssa.BasicBlock, bool) {
	if seen[phi] {
		return nil, true
	}
	seen[phi] = true
	var out [][2]*ssa.BasicBlock
	for i, e := range phi.Edges {
		pred := phi.Block().Preds[i]
		switch v := e.(type) {
		case *ssa.Const:
			if v.Value == nil || v.Value.Kind() != constant.Bool {
				return nil, false
			}
			if constant.BoolVal(v.Value) == want {
				out = append(out, [2]*ssa.BasicBlock{pred, phi.Block()})
			}
		case *ssa.Phi:
			lastWebDeep = true
			sub, ok := flagEdges(v, want, seen)
			if !ok {
				return nil, false
			}
			out = append(out, sub...)
		default:
			return nil, false
		}
	}
	return out, true
}

// nilEdges returns the CFG edges into phi's web whose value may be nil
// (wantNil) / may be non-nil (!wantNil).  An edge value is known nil if it is
// the nil constant, known non-nil if the path to the edge tests it != nil;
// anything else may be either.
func (ff *FuncFacts) nilEdges(phi *ssa.Phi, wantNil bool, seen map[*ssa.Phi]bool) ([][2]*ssa.BasicBlock, bool) {
	if seen[phi] {
		return nil, true
	}
	seen[phi] = true
	var out [][2]*ssa.BasicBlock
	for i, e := range phi.Edges {
		pred := phi.Block().Preds[i]
		if sub, isPhi := e.(*ssa.Phi); isPhi {
			// what the edge itself says about the merged value comes first
			if st := ff.edgeNilState(phi, i); st != 0 {
				if (st == 1) == wantNil {
					out = append(out, [2]*ssa.BasicBlock{pred, phi.Block()})
				}
				continue
			}
			lastWebDeep = true
			es, ok := ff.nilEdges(sub, wantNil, seen)
			if !ok {
				return nil, false
			}
			out = append(out, es...)
			continue
		}
		state := 0 // unknown
		if isNilConst(e) {
			state = 1
		} else {
			fs := append([]Fact{}, ff.NC(pred)...)
			if ef, ok := edgeFact(pred, phi.Block()); ok {
				fs = append(fs, ef)
			}
			for _, g := range fs {
				if y, yNil, ok := FactNilCmp(g); ok && unspill(y) == unspill(e) {
					if yNil {
						state = 1
					} else {
						state = 2
					}
				}
			}
			if _, isMI := e.(*ssa.MakeInterface); isMI {
				state = 2 // a concrete value boxed into the interface is not nil
			}
			if state == 0 {
				state = ff.edgeNilState(phi, i) // package-level error values, errors.New(...), ...
			}
		}
		if state == 0 || (state == 1) == wantNil {
			out = append(out, [2]*ssa.BasicBlock{pred, phi.Block()})
		}
	}
	return out, true
}

// NCInstr is NC of the instruction's block.
func (ff *FuncFacts) NCInstr(in ssa.Instruction) []Fact { return ff.NC(in.Block()) }

// ---- fact matchers --------------------------------------------------------

// callOf returns the call instruction that defines v, looking through Extract.
func callOf(v ssa.Value) (*ssa.Call, int) {
	switch x := v.(type) {
	case *ssa.Call:
		return x, -1
	case *ssa.Extract:
		if c, ok := x.Tuple.(*ssa.Call); ok {
			return c, x.Index
		}
	}
	return nil, -1
}

// FactCallBool matches a fact "boolean result of a call to one of ids is pol"
// and returns the call.
func (p *Prog) FactCallBool(f Fact, ids ...string) (*ssa.Call, bool) {
	c, _ := callOf(f.Cond)
	if c == nil {
		return nil, false
	}
	id := p.CalleeID(c.Common())
	for _, w := range ids {
		if id == M(w) {
			return c, true
		}
	}
	return nil, false
}

func isNilConst(v ssa.Value) bool {
	c, ok := v.(*ssa.Const)
	return ok && c.Value == nil && c.IsNil()
}

// FactNilCmp matches "x == nil" / "x != nil" facts and reports whether x is
// known nil (isNil) on this path.
func FactNilCmp(f Fact) (x ssa.Value, isNil bool, ok bool) {
	b, k := f.Cond.(*ssa.BinOp)
	if !k || (b.Op != token.EQL && b.Op != token.NEQ) {
		return nil, false, false
	}
	var other ssa.Value
	switch {
	case isNilConst(b.Y):
		other = b.X
	case isNilConst(b.X):
		other = b.Y
	default:
		return nil, false, false
	}
	return other, (b.Op == token.EQL) == f.Pol, true
}

// FactErrNilOfCall: the fact says the error result of `call` is nil.
func FactErrNilOfCall(f Fact, call *ssa.Call) bool {
	x, isNil, ok := FactNilCmp(f)
	if !ok || !isNil {
		return false
	}
	c, _ := callOf(unspill(x))
	return c == call
}

// hasFact reports whether any fact satisfies pred.
func hasFact(fs []Fact, pred func(Fact) bool) bool {
	for _, f := range fs {
		if pred(f) {
			return true
		}
	}
	return false
}

// intConst returns the integer value of a constant operand.
func intConst(v ssa.Value) (int64, bool) {
	c, ok := v.(*ssa.Const)
	if !ok || c.Value == nil {
		return 0, false
	}
	if c.Value.Kind() != constant.Int {
		return 0, false
	}
	return c.Int64(), true
}

func constString(v ssa.Value) (string, bool) {
	c, ok := v.(*ssa.Const)
	if !ok || c.Value == nil || c.Value.Kind() != constant.String {
		return "", false
	}
	return constant.StringVal(c.Value), true
}

// ---- return classification (A.2) -------------------------------------------

// returns lists the Return instructions of fn.
func returnsOf(fn *ssa.Function) []*ssa.Return {
	var out []*ssa.Return
	for _, b := range fn.Blocks {
		if len(b.Instrs) == 0 || b == fn.Recover || blockInfeasible(b) {
			continue // the recover block is only entered after a recovered panic
		}
		if r, ok := b.Instrs[len(b.Instrs)-1].(*ssa.Return); ok {
			out = append(out, r)
		}
	}
	return out
}

var errorType = types.Universe.Lookup("error").Type()

func isErrorType(t types.Type) bool { return types.Identical(t, errorType) }

// errResultIndex returns the index of the last result of type error, or -1.
func errResultIndex(fn *ssa.Function) int {
	res := fn.Signature.Results()
	for i := res.Len() - 1; i >= 0; i-- {
		if isErrorType(res.At(i).Type()) {
			return i
		}
	}
	return -1
}

// ProvablyNonNil reports whether error value v is non-nil on every path to
// block at (A.2).
func (ff *FuncFacts) ProvablyNonNil(v ssa.Value, at *ssa.BasicBlock, depth int) bool {
	if depth > 8 {
		return false
	}
	v = unspill(v)
	for _, f := range ff.NC(at) {
		if y, isNil, ok := FactNilCmp(f); ok && !isNil && unspill(y) == v {
			return true
		}
	}
	switch x := v.(type) {
	case *ssa.Const:
		return !x.IsNil()
	case *ssa.MakeInterface:
		return true
	case *ssa.UnOp:
		if x.Op == token.MUL {
			if g, ok := x.X.(*ssa.Global); ok {
				return ff.p.globalIsErrSentinel(g)
			}
		}
	case *ssa.Call:
		id := ff.p.CalleeID(x.Common())
		if id == "errors.New" || id == "fmt.Errorf" {
			return true
		}
	case *ssa.Phi:
		for i, e := range x.Edges {
			pred := x.Block().Preds[i]
			if !ff.ProvablyNonNil(e, pred, depth+1) {
				// the edge value may still be known non-nil by a fact on that edge
				if !ff.knownNonNilAt(e, pred, x.Block()) {
					return false
				}
			}
		}
		return true
	}
	for _, f := range ff.NC(at) {
		if y, isNil, ok := FactNilCmp(f); ok && !isNil && unspill(y) == v {
			return true
		}
	}
	return false
}

func (ff *FuncFacts) knownNonNilAt(v ssa.Value, pred, to *ssa.BasicBlock) bool {
	fs := append([]Fact{}, ff.NC(pred)...)
	if ef, ok := edgeFact(pred, to); ok {
		fs = append(fs, ef)
	}
	for _, f := range fs {
		if y, isNil, ok := FactNilCmp(f); ok && !isNil && unspill(y) == unspill(v) {
			return true
		}
	}
	return false
}

// globalIsErrSentinel: a package-level error variable whose only stores are in
// the package initialiser from errors.New/fmt.Errorf or a non-nil composite.
func (p *Prog) globalIsErrSentinel(g *ssa.Global) bool {
	if g.Pkg == nil {
		return false
	}
	if !isModulePkg(g.Pkg.Pkg) {
		// Exported sentinel of a dependency (io.EOF, io.ErrClosedPipe, ...):
		// package-level `var ErrX = errors.New(...)`; by convention never nil.
		pt, ok := g.Type().(*types.Pointer)
		return ok && isErrorType(pt.Elem())
	}
	st := p.gstore[g]
	if len(st) == 0 {
		return false
	}
	for _, s := range st {
		if s.Fn.Synthetic != "package initializer" {
			return false
		}
		ff := p.Facts(s.Fn)
		if !ff.ProvablyNonNil(s.Val, s.Instr.Block(), 0) {
			return false
		}
	}
	return true
}

// SuccessReturns lists the returns of fn whose error operand (or, for
// bool-status functions given by statusIdx, the status operand) may signal
// success.
func (ff *FuncFacts) SuccessReturns() []*ssa.Return {
	idx := errResultIndex(ff.fn)
	var out []*ssa.Return
	for _, r := range returnsOf(ff.fn) {
		if idx < 0 || idx >= len(r.Results) {
			out = append(out, r)
			continue
		}
		if !ff.ProvablyNonNil(r.Results[idx], r.Block(), 0) {
			out = append(out, r)
		}
	}
	return out
}

// unspill looks through go/ssa's spilling of variables into memory cells
// (results of functions with defer, variables captured by closures): a load
// from a local Alloc is replaced by the value of its unique reaching store —
// the store that dominates the load with no other write to the cell on any
// path in between (DESIGN A.3).  Writes are: stores to the cell, calls that
// receive the cell's address, calls of closures that capture and write it,
// and rundefers when a deferred closure writes it.
func unspill(v ssa.Value) ssa.Value {
	for i := 0; i < 8; i++ {
		if phi, isPhi := v.(*ssa.Phi); isPhi {
			if a := phiAlias(phi); a != nil {
				v = a
				continue
			}
			return v
		}
		u, ok := v.(*ssa.UnOp)
		if !ok || u.Op != token.MUL {
			return v
		}
		a, ok := u.X.(*ssa.Alloc)
		if !ok {
			return v
		}
		st := reachingStore(a, u)
		if st == nil {
			return v
		}
		v = st.Val
	}
	return v
}

type cellInfo struct {
	stores []*ssa.Store
	other  []ssa.Instruction // other instructions that may write the cell
	opaque bool              // address escapes in a way we do not model
}

var cellCache = map[*ssa.Alloc]*cellInfo{}

func closureWritesFreeVar(fn *ssa.Function, idx int, seen map[*ssa.Function]bool) bool {
	if seen[fn] || idx >= len(fn.FreeVars) {
		return false
	}
	seen[fn] = true
	fv := fn.FreeVars[idx]
	w := false
	for _, r := range *fv.Referrers() {
		switch x := r.(type) {
		case *ssa.Store:
			if x.Addr == ssa.Value(fv) {
				w = true
			}
		case *ssa.UnOp, *ssa.DebugRef:
		case *ssa.MakeClosure:
			for j, b := range x.Bindings {
				if b == ssa.Value(fv) && closureWritesFreeVar(x.Fn.(*ssa.Function), j, seen) {
					w = true
				}
			}
		default:
			w = true // address passed on: assume written
		}
	}
	return w
}

func cellOf(a *ssa.Alloc) *cellInfo {
	if ci, ok := cellCache[a]; ok {
		return ci
	}
	ci := &cellInfo{}
	cellCache[a] = ci
	fn := a.Parent()
	var writers []*ssa.MakeClosure
	for _, r := range *a.Referrers() {
		switch x := r.(type) {
		case *ssa.Store:
			if x.Addr == ssa.Value(a) {
				ci.stores = append(ci.stores, x)
			} else {
				ci.opaque = true // the address itself is stored somewhere
			}
		case *ssa.UnOp, *ssa.DebugRef:
		case *ssa.MakeClosure:
			for j, b := range x.Bindings {
				if b == ssa.Value(a) && closureWritesFreeVar(x.Fn.(*ssa.Function), j, map[*ssa.Function]bool{}) {
					writers = append(writers, x)
				}
			}
		case *ssa.FieldAddr, *ssa.IndexAddr, *ssa.Slice:
			ci.opaque = true // aggregate cell: not a scalar spill
		default:
			if _, isCall := r.(ssa.CallInstruction); isCall {
				ci.other = append(ci.other, r)
			} else {
				ci.opaque = true
			}
		}
	}
	if len(writers) > 0 {
		// every use of a writing closure as a call target / defer / go is a write point
		deferred := false
		for _, mc := range writers {
			for _, r := range *mc.Referrers() {
				switch x := r.(type) {
				case *ssa.Defer:
					deferred = true
				case *ssa.Call, *ssa.Go:
					ci.other = append(ci.other, x.(ssa.Instruction))
				case *ssa.DebugRef:
				default:
					ci.opaque = true // closure value escapes
				}
			}
		}
		if deferred {
			allInstrs(fn, func(in ssa.Instruction) {
				if rd, ok := in.(*ssa.RunDefers); ok {
					ci.other = append(ci.other, rd)
				}
			})
		}
	}
	return ci
}

// reachingStore returns the unique store to cell a that reaches load u, or nil.
func reachingStore(a *ssa.Alloc, u *ssa.UnOp) *ssa.Store {
	ci := cellOf(a)
	if ci.opaque || len(ci.stores) == 0 {
		return nil
	}
	// candidate: the dominating store closest to the load
	var S *ssa.Store
	for _, st := range ci.stores {
		if instrDominates(st, u) {
			if S == nil || instrDominates(S, st) {
				S = st
			}
		}
	}
	if S == nil {
		return nil
	}
	between := func(o ssa.Instruction) bool {
		if o == ssa.Instruction(S) {
			return false
		}
		return canReachWithout(S, o, map[ssa.Instruction]bool{u: true}) && canReachWithout(o, u, map[ssa.Instruction]bool{S: true})
	}
	for _, st := range ci.stores {
		if between(st) {
			return nil
		}
	}
	for _, o := range ci.other {
		if between(o) {
			return nil
		}
	}
	return S
}

// instrDominates: instruction a is executed before b on every path to b.
func instrDominates(a, b ssa.Instruction) bool {
	ab, bb := a.Block(), b.Block()
	if ab == nil || bb == nil || ab.Parent() != bb.Parent() {
		return false
	}
	if ab == bb {
		for _, in := range ab.Instrs {
			if in == a {
				return true
			}
			if in == b {
				return false
			}
		}
		return false
	}
	if ab.Dominates(bb) {
		return true
	}
	// not a dominator: a may still lie on every FEASIBLE path to b (merged
	// control flow whose arms are told apart by a flag or by the nil-ness of a
	// merged error, as after inlining a helper)
	if activeProg != nil && ab.Parent() != nil {
		return activeProg.Facts(ab.Parent()).mustPass(a, b, nil)
	}
	return false
}

// activeProg is the program under analysis (set by NewCtx); instrDominates
// uses its facts for the path-feasibility argument.
var activeProg *Prog

// webEdgesOf: the edges consistent with fact f when f tests a phi (a bool
// flag, or the nil-ness of a merged value); ok=false if f is not such a fact.
func (ff *FuncFacts) webEdgesOf(f Fact) ([][2]*ssa.BasicBlock, bool) {
	if phi, ok := f.Cond.(*ssa.Phi); ok {
		es, ok := flagEdges(phi, f.Pol, map[*ssa.Phi]bool{})
		return es, ok
	}
	if x, isNil, ok := FactNilCmp(f); ok {
		if phi, isPhi := x.(*ssa.Phi); isPhi {
			return ff.nilEdges(phi, isNil, map[*ssa.Phi]bool{})
		}
	}
	return nil, false
}

// mustPass: every feasible path from the entry to b executes a first.  Paths
// are over-approximated: all CFG paths, or — for one fact known at b (or given
// in extra) that tests a phi — the paths whose last entry into the phi's block
// is an edge consistent with the fact.
func (ff *FuncFacts) mustPass(a, b ssa.Instruction, extra []Fact) bool {
	return ff.mustPassD(a, b, extra, 0)
}

func (ff *FuncFacts) mustPassD(a, b ssa.Instruction, extra []Fact, depth int) bool {
	ab, bb := a.Block(), b.Block()
	fn := ab.Parent()
	if len(fn.Blocks) == 0 || ab == bb {
		return false
	}
	key := [2]ssa.Instruction{a, b}
	if extra == nil {
		if r, ok := ff.mp[key]; ok {
			return r
		}
	}
	// reach(from → to) avoiding ab and, optionally, never entering `never`
	reach := func(from, to, never *ssa.BasicBlock) bool {
		seen := map[*ssa.BasicBlock]bool{}
		var walk func(x *ssa.BasicBlock) bool
		walk = func(x *ssa.BasicBlock) bool {
			if x == ab || seen[x] {
				return false
			}
			seen[x] = true
			if x == to {
				return true
			}
			for _, s := range x.Succs {
				if s == never {
					continue
				}
				if walk(s) {
					return true
				}
			}
			return false
		}
		return walk(from)
	}
	res := false
	if !reach(fn.Blocks[0], bb, nil) {
		res = true
	} else {
		facts := append(append([]Fact{}, ff.NCv(bb)...), extra...)
		for _, f := range facts {
			edges, ok := ff.webEdgesOf(f)
			if !ok {
				continue
			}
			feasible := false
			for _, e := range edges {
				if e[0] == ab || e[1] == ab {
					continue
				}
				if !reach(fn.Blocks[0], e[0], nil) {
					continue
				}
				// the edge's source must itself be reachable on a feasible path that avoids a
				if depth < 3 && len(e[0].Instrs) > 0 && e[0] != ab && ff.mustPassD(a, e[0].Instrs[len(e[0].Instrs)-1], nil, depth+1) {
					continue
				}
				if e[1] == bb || reach(e[1], bb, e[1]) {
					feasible = true
					break
				}
			}
			if !feasible {
				res = true
				break
			}
		}
	}
	if extra == nil {
		if ff.mp == nil {
			ff.mp = map[[2]ssa.Instruction]bool{}
		}
		ff.mp[key] = res
	}
	return res
}

// DominatesSuccess: a lies on every feasible path on which return r reports
// success (its error result is nil).
func (ff *FuncFacts) DominatesSuccess(a ssa.Instruction, r *ssa.Return) bool {
	if instrDominates(a, r) {
		return true
	}
	idx := errResultIndex(ff.fn)
	if idx < 0 || idx >= len(r.Results) || a.Block() == r.Block() {
		return false
	}
	if phi, ok := r.Results[idx].(*ssa.Phi); ok {
		// virtual fact: the returned error is nil
		nilC := ssa.NewConst(nil, phi.Type())
		cmp := &ssa.BinOp{Op: token.EQL, X: phi, Y: nilC}
		return ff.mustPass(a, r, []Fact{{Cond: cmp, Pol: true}})
	}
	return false
}

// SuccessNC: the necessary conditions of return r reporting success.
func (ff *FuncFacts) SuccessNC(r *ssa.Return) []Fact {
	out := append([]Fact{}, ff.NC(r.Block())...)
	idx := errResultIndex(ff.fn)
	if idx < 0 || idx >= len(r.Results) {
		return out
	}
	phi, ok := r.Results[idx].(*ssa.Phi)
	if !ok {
		return out
	}
	edges, ok := ff.nilEdges(phi, true, map[*ssa.Phi]bool{})
	if !ok || len(edges) == 0 {
		return out
	}
	var inter []Fact
	for k, e := range edges {
		fs := append([]Fact{}, ff.NC(e[0])...)
		if ef, ok := edgeFact(e[0], e[1]); ok {
			fs = append(fs, ef)
		}
		if k == 0 {
			inter = fs
			continue
		}
		var keep []Fact
		for _, x := range inter {
			for _, y := range fs {
				if x == y {
					keep = append(keep, x)
					break
				}
			}
		}
		inter = keep
	}
	for _, x := range inter {
		dup := false
		for _, y := range out {
			if x == y {
				dup = true
			}
		}
		if !dup {
			out = append(out, x)
		}
	}
	return out
}

// ---- CFG utilities --------------------------------------------------------

// reachableFrom computes the blocks reachable from b (following Succs), not
// entering blocks in `without`.
func reachableFrom(b *ssa.BasicBlock, without map[*ssa.BasicBlock]bool) map[*ssa.BasicBlock]bool {
	seen := map[*ssa.BasicBlock]bool{}
	var walk func(x *ssa.BasicBlock)
	walk = func(x *ssa.BasicBlock) {
		if seen[x] || without[x] {
			return
		}
		seen[x] = true
		for _, s := range x.Succs {
			walk(s)
		}
	}
	walk(b)
	return seen
}

// PostDominates reports whether block b lies on every path from a to a
// function exit (Return or Panic).  Computed on demand by reachability: b
// post-dominates a iff no exit is reachable from a when b is removed.
func PostDominates(b, a *ssa.BasicBlock) bool {
	if a == b {
		return true
	}
	r := reachableFrom(a, map[*ssa.BasicBlock]bool{b: true})
	for x := range r {
		if len(x.Succs) == 0 {
			return false
		}
	}
	return true
}

// blockOnCycle reports whether b can reach itself.
func blockOnCycle(b *ssa.BasicBlock) bool {
	for _, s := range b.Succs {
		if reachableFrom(s, nil)[b] {
			return true
		}
	}
	return false
}

// instrIndex returns the index of in within its block.
func instrIndex(in ssa.Instruction) int {
	for i, x := range in.Block().Instrs {
		if x == in {
			return i
		}
	}
	return -1
}

// canReachWithout: is there a CFG path from instruction `from` (exclusive) to
// instruction `to` that executes none of the instructions in `via`?
func canReachWithout(from, to ssa.Instruction, via map[ssa.Instruction]bool) bool {
	type st struct {
		b *ssa.BasicBlock
		i int
	}
	seen := map[*ssa.BasicBlock]bool{}
	var scan func(b *ssa.BasicBlock, start int) bool
	scan = func(b *ssa.BasicBlock, start int) bool {
		for i := start; i < len(b.Instrs); i++ {
			in := b.Instrs[i]
			if in == to {
				return true
			}
			if via[in] {
				return false
			}
		}
		for _, s := range b.Succs {
			if seen[s] {
				continue
			}
			seen[s] = true
			if scan(s, 0) {
				return true
			}
		}
		return false
	}
	return scan(from.Block(), instrIndex(from)+1)
}

// entryReachesWithout: is there a path from function entry to `to` avoiding
// every instruction in via?
func entryReachesWithout(fn *ssa.Function, to ssa.Instruction, via map[ssa.Instruction]bool) bool {
	seen := map[*ssa.BasicBlock]bool{}
	var scan func(b *ssa.BasicBlock) bool
	scan = func(b *ssa.BasicBlock) bool {
		if seen[b] {
			return false
		}
		seen[b] = true
		for _, in := range b.Instrs {
			if in == to {
				return true
			}
			if via[in] {
				return false
			}
		}
		for _, s := range b.Succs {
			if scan(s) {
				return true
			}
		}
		return false
	}
	return scan(fn.Blocks[0])
}

// ---- error chains -----------------------------------------------------------

// SucceededCalls returns the calls whose error result is known to be nil at
// block b, following "if err == nil { err = next() }" chains: a nil fact about
// a (non-loop) phi of errors holds only along the incoming edges on which the
// incoming value is not already known non-nil, and on such an edge the
// incoming value and everything known nil there are nil too.
func (ff *FuncFacts) SucceededCalls(b *ssa.BasicBlock) map[*ssa.Call]bool {
	out := map[*ssa.Call]bool{}
	for _, f := range ff.NC(b) {
		if x, isNil, ok := FactNilCmp(f); ok && isNil && isErrorType(x.Type()) {
			for c := range ff.nilExpand(x, map[ssa.Value]bool{}, 0) {
				out[c] = true
			}
		}
	}
	return out
}

func (ff *FuncFacts) nilExpand(x ssa.Value, seen map[ssa.Value]bool, depth int) map[*ssa.Call]bool {
	out := map[*ssa.Call]bool{}
	x = unspill(x)
	if seen[x] || depth > 12 {
		return out
	}
	seen[x] = true
	if c, _ := callOf(x); c != nil {
		out[c] = true
		return out
	}
	ph, ok := x.(*ssa.Phi)
	if !ok {
		return out
	}
	blk := ph.Block()
	var results []map[*ssa.Call]bool
	for i, e := range ph.Edges {
		pred := blk.Preds[i]
		if isBackEdge(pred, blk) {
			return out // loop phi: nothing known
		}
		fs := append([]Fact{}, ff.NC(pred)...)
		if ef, ok := edgeFact(pred, blk); ok {
			fs = append(fs, ef)
		}
		infeasible := false
		for _, f := range fs {
			if y, isNil, ok := FactNilCmp(f); ok && !isNil && unspill(y) == unspill(e) {
				infeasible = true
			}
		}
		if c, ok := e.(*ssa.Const); ok && !c.IsNil() {
			infeasible = true
		}
		if infeasible {
			continue
		}
		r := ff.nilExpand(e, seen, depth+1)
		for _, f := range fs {
			if y, isNil, ok := FactNilCmp(f); ok && isNil && isErrorType(y.Type()) {
				for c := range ff.nilExpand(y, seen, depth+1) {
					r[c] = true
				}
			}
		}
		results = append(results, r)
	}
	if len(results) == 0 {
		return out
	}
	for c := range results[0] {
		all := true
		for _, r := range results[1:] {
			if !r[c] {
				all = false
			}
		}
		if all {
			out[c] = true
		}
	}
	return out
}

// ---- infeasible blocks ------------------------------------------------------

// blockInfeasible: the necessary conditions of reaching b contradict each
// other (or a constant condition has the wrong value): b never executes.
func blockInfeasible(b *ssa.BasicBlock) bool {
	if activeProg == nil || b == nil || b.Parent() == nil {
		return false
	}
	return activeProg.Facts(b.Parent()).Infeasible(b)
}

func (ff *FuncFacts) Infeasible(b *ssa.BasicBlock) bool {
	if r, ok := ff.infeas[b]; ok {
		return r
	}
	if ff.infeas == nil {
		ff.infeas = map[*ssa.BasicBlock]bool{}
	}
	ff.infeas[b] = false // cycles
	res := false
	fs := ff.NCv(b)
	for i, f := range fs {
		if k, ok := f.Cond.(*ssa.Const); ok && k.Value != nil && k.Value.Kind() == constant.Bool {
			if constant.BoolVal(k.Value) != f.Pol {
				res = true
			}
		}
		for _, g := range fs[i+1:] {
			if f.Pol != g.Pol && ff.p.sameCond(f.Cond, g.Cond, 0) {
				res = true
			}
		}
	}
	// a block all of whose predecessors are infeasible is infeasible too
	if !res && len(b.Preds) > 0 && b != b.Parent().Blocks[0] {
		all := true
		for _, pr := range b.Preds {
			if pr == b || !ff.Infeasible(pr) {
				all = false
			}
		}
		res = all
	}
	ff.infeas[b] = res
	return res
}

// sameCond: two condition values that are equal whenever both are evaluated:
// the same SSA value, loads of the same construction-only field of the same
// object, or the same comparison of such operands.
func (p *Prog) sameCond(a, b ssa.Value, d int) bool {
	a, b = unspill(a), unspill(b)
	if a == b {
		return true
	}
	if d > 3 {
		return false
	}
	if ka, ba, ok := fieldLoad(a); ok {
		if kb, bb, ok := fieldLoad(b); ok && ka == kb && p.constructionOnly(ka) && objKey(ba) == objKey(bb) {
			return true
		}
		return false
	}
	if ca, ok := a.(*ssa.Const); ok {
		if cb, ok := b.(*ssa.Const); ok {
			return ca.Value != nil && cb.Value != nil && constant.Compare(ca.Value, token.EQL, cb.Value) || ca.IsNil() && cb.IsNil()
		}
		return false
	}
	if xa, ok := a.(*ssa.BinOp); ok {
		if xb, ok := b.(*ssa.BinOp); ok && xa.Op == xb.Op {
			return p.sameCond(xa.X, xb.X, d+1) && p.sameCond(xa.Y, xb.Y, d+1)
		}
	}
	return false
}

// ---- disjunctive expansion of merged flags ---------------------------------

// Alternatives expands facts that test a bool phi (x := a || b; if x ...) or
// the nil-ness of a merged value into one fact set per incoming edge that is
// consistent with the fact: the conditions of reaching that edge, plus the
// edge's own operand when it is not a constant.  Every execution satisfies at
// least one alternative.
func (ff *FuncFacts) Alternatives(fs []Fact, depth int) [][]Fact {
	if depth > 3 {
		return [][]Fact{fs}
	}
	for i, f := range fs {
		phi, ok := f.Cond.(*ssa.Phi)
		if !ok || !isBoolType(phi.Type()) {
			continue
		}
		rest := append(append([]Fact{}, fs[:i]...), fs[i+1:]...)
		var out [][]Fact
		for k, e := range phi.Edges {
			pred := phi.Block().Preds[k]
			alt := append([]Fact{}, rest...)
			if c, isC := e.(*ssa.Const); isC {
				if c.Value == nil || c.Value.Kind() != constant.Bool || constant.BoolVal(c.Value) != f.Pol {
					continue
				}
			} else {
				cnd, pl := stripNot(e, f.Pol)
				alt = append(alt, Fact{cnd, pl})
			}
			alt = append(alt, ff.NC(pred)...)
			if ef, ok := edgeFact(pred, phi.Block()); ok {
				alt = append(alt, ef)
			}
			out = append(out, ff.Alternatives(alt, depth+1)...)
		}
		if len(out) == 0 {
			return [][]Fact{fs}
		}
		return out
	}
	return [][]Fact{fs}
}

func isBoolType(t types.Type) bool {
	b, ok := t.Underlying().(*types.Basic)
	return ok && b.Kind() == types.Bool
}

// ---- result phis of merged exits ---------------------------------------------

var phiAliasCache = map[*ssa.Phi]ssa.Value{}
var phiAliasBusy = map[*ssa.Phi]bool{}

// phiAlias: when every use of phi sits under conditions (tests of sibling phis
// of the same block: the merged error of an inlined helper, a merged ok flag)
// that leave exactly one and the same incoming edge possible, the phi is that
// edge's value wherever it is used.
func phiAlias(phi *ssa.Phi) ssa.Value {
	if activeProg == nil || phi.Block() == nil || phi.Parent() == nil {
		return nil
	}
	if v, ok := phiAliasCache[phi]; ok {
		return v
	}
	if phiAliasBusy[phi] {
		return nil
	}
	phiAliasBusy[phi] = true
	defer delete(phiAliasBusy, phi)
	ff := activeProg.Facts(phi.Parent())
	B := phi.Block()
	// all incoming edges but one are dead
	if len(phi.Edges) > 1 {
		live := -1
		nlive := 0
		for i, pred := range B.Preds {
			if !ff.EdgeInfeasible(pred, B) {
				live = i
				nlive++
			}
		}
		if nlive == 1 {
			phiAliasCache[phi] = phi.Edges[live]
			return phi.Edges[live]
		}
	}
	refs := phi.Referrers()
	res := -1
	ok := refs != nil && len(*refs) > 0
	nuse := 0
	if ok {
		for _, r := range *refs {
			if _, isDbg := r.(*ssa.DebugRef); isDbg {
				continue
			}
			var useFacts [][]Fact
			if rp, isPhi := r.(*ssa.Phi); isPhi {
				// used by another phi: what is known on the edges that carry it
				for j, e := range rp.Edges {
					if e == ssa.Value(phi) {
						pred := rp.Block().Preds[j]
						fs := append([]Fact{}, ff.NCv(pred)...)
						if ef, ok := edgeFact(pred, rp.Block()); ok {
							fs = append(fs, ef)
						}
						useFacts = append(useFacts, fs)
					}
				}
			} else {
				useFacts = append(useFacts, ff.NCv(r.Block()))
			}
			for _, factsHere := range useFacts {
				nuse++
				allowed := map[int]bool{}
				for i := range phi.Edges {
					allowed[i] = true
				}
				for _, f := range factsHere {
					sib, want, kind := siblingTest(f)
					if sib == nil || sib.Block() != B || sib == phi {
						continue
					}
					for i := range sib.Edges {
						if !allowed[i] {
							continue
						}
						switch kind {
						case "bool":
							if c, isC := sib.Edges[i].(*ssa.Const); isC && c.Value != nil && c.Value.Kind() == constant.Bool && constant.BoolVal(c.Value) != want {
								delete(allowed, i)
							}
						case "nil":
							st := ff.edgeNilState(sib, i)
							if st != 0 && (st == 1) != want {
								delete(allowed, i)
							}
						}
					}
				}
				if len(allowed) != 1 {
					ok = false
					break
				}
				for i := range allowed {
					if res >= 0 && res != i {
						ok = false
					}
					res = i
				}
			}
			if !ok {
				break
			}
		}
	}
	var out ssa.Value
	if ok && nuse > 0 && res >= 0 {
		out = phi.Edges[res]
	}
	phiAliasCache[phi] = out
	return out
}

// siblingTest: fact f tests a phi directly: (phi, wanted bool value, "bool"),
// or (phi, wanted nil-ness, "nil").
func siblingTest(f Fact) (*ssa.Phi, bool, string) {
	if phi, ok := f.Cond.(*ssa.Phi); ok {
		return phi, f.Pol, "bool"
	}
	if x, isNil, ok := FactNilCmp(f); ok {
		if phi, isPhi := x.(*ssa.Phi); isPhi {
			return phi, isNil, "nil"
		}
	}
	return nil, false, ""
}

// edgeNilState: 1 = the value arriving over edge i of phi is nil, 2 = it is
// not nil, 0 = unknown.
func (ff *FuncFacts) edgeNilState(phi *ssa.Phi, i int) int {
	e := phi.Edges[i]
	pred := phi.Block().Preds[i]
	if isNilConst(e) {
		return 1
	}
	if _, isMI := e.(*ssa.MakeInterface); isMI {
		return 2
	}
	fs := append([]Fact{}, ff.NCv(pred)...)
	if ef, ok := edgeFact(pred, phi.Block()); ok {
		fs = append(fs, ef)
	}
	for _, g := range fs {
		if y, yNil, ok := FactNilCmp(g); ok && y == e {
			if yNil {
				return 1
			}
			return 2
		}
	}
	// a package-level error value (errors.New at initialisation, never reassigned) is not nil
	if _, isPhi := e.(*ssa.Phi); !isPhi && ff.ProvablyNonNil(e, pred, 0) {
		return 2
	}
	return 0
}

// EdgeInfeasible: the CFG edge pred→blk is never taken: pred is dead, or the
// edge's own condition contradicts what is known in pred.
func (ff *FuncFacts) EdgeInfeasible(pred, blk *ssa.BasicBlock) bool {
	if ff.Infeasible(pred) {
		return true
	}
	ef, ok := edgeFact(pred, blk)
	if !ok {
		return false
	}
	if k, isC := ef.Cond.(*ssa.Const); isC && k.Value != nil && k.Value.Kind() == constant.Bool {
		return constant.BoolVal(k.Value) != ef.Pol
	}
	for _, g := range ff.NCv(pred) {
		if g.Pol != ef.Pol && ff.p.sameCond(g.Cond, ef.Cond, 0) {
			return true
		}
	}
	return false
}

// ---- path-sensitive reachability ---------------------------------------------

// canReachFeasible: `to` can be reached from the beginning of block start
// (entered from pred, which may be nil) without executing an instruction of
// avoid, along a path that is consistent with the constants it assigns to
// merged flags on its way: when the path enters a block over an edge that
// gives a bool / error / pointer phi a constant (true, false, nil, a boxed
// value), a later branch on that phi can only go the matching way.
func canReachFeasible(start, pred *ssa.BasicBlock, to ssa.Instruction, avoid map[ssa.Instruction]bool) bool {
	type env map[*ssa.Phi]int // 1 true/nil, 2 false/non-nil
	sig := func(b *ssa.BasicBlock, e env) string {
		var ks []string
		for p, v := range e {
			ks = append(ks, fmt.Sprintf("%p=%d", p, v))
		}
		sort.Strings(ks)
		return fmt.Sprintf("%p|%s", b, strings.Join(ks, ","))
	}
	seen := map[string]bool{}
	enter := func(from, b *ssa.BasicBlock, e env) env {
		ne := env{}
		for k, v := range e {
			ne[k] = v
		}
		if from == nil {
			return ne
		}
		idx := -1
		for i, p := range b.Preds {
			if p == from {
				idx = i
			}
		}
		for _, in := range b.Instrs {
			phi, ok := in.(*ssa.Phi)
			if !ok {
				break
			}
			delete(ne, phi)
			if idx < 0 || idx >= len(phi.Edges) {
				continue
			}
			switch x := phi.Edges[idx].(type) {
			case *ssa.Const:
				if x.Value != nil && x.Value.Kind() == constant.Bool {
					if constant.BoolVal(x.Value) {
						ne[phi] = 1
					} else {
						ne[phi] = 2
					}
				} else if x.IsNil() {
					ne[phi] = 1
				}
			case *ssa.MakeInterface:
				ne[phi] = 2
			case *ssa.Phi:
				if v, ok := ne[x]; ok {
					ne[phi] = v
				}
			}
		}
		return ne
	}
	var walk func(b *ssa.BasicBlock, e env) bool
	walk = func(b *ssa.BasicBlock, e env) bool {
		k := sig(b, e)
		if seen[k] || len(seen) > 4000 {
			return false
		}
		seen[k] = true
		for _, in := range b.Instrs {
			if in == to {
				return true
			}
			if avoid[in] {
				return false
			}
		}
		succs := b.Succs
		if i := blockIf(b); i != nil && len(b.Succs) == 2 {
			cond, pol := stripNot(i.Cond, true)
			known := 0
			if phi, ok := cond.(*ssa.Phi); ok {
				known = e[phi]
			} else if x, isNil, ok := FactNilCmp(Fact{cond, true}); ok {
				if phi, isPhi := x.(*ssa.Phi); isPhi && e[phi] != 0 {
					// cond is "x == nil" (isNil) or "x != nil"
					if (e[phi] == 1) == isNil {
						known = 1
					} else {
						known = 2
					}
				}
			}
			if known != 0 {
				condTrue := known == 1
				if condTrue == pol {
					succs = b.Succs[:1]
				} else {
					succs = b.Succs[1:2]
				}
			}
		}
		for _, s := range succs {
			if walk(s, enter(b, s, e)) {
				return true
			}
		}
		return false
	}
	return walk(start, enter(pred, start, env{}))
}

// reachAssuming: an instruction satisfying target can be executed after `from`
// (from the function entry of fn when from is nil) without executing an
// instruction of avoid, along a path consistent with the assumed truth values
// (1 true/nil, 2 false/non-nil) of the given values and with the constants and
// assumed values the path assigns to merged flags on its way.
func reachAssuming(fn *ssa.Function, from ssa.Instruction, target func(ssa.Instruction) bool, avoid map[ssa.Instruction]bool, assume map[ssa.Value]int) bool {
	type env map[ssa.Value]int
	sig := func(b *ssa.BasicBlock, e env) string {
		var ks []string
		for p, v := range e {
			ks = append(ks, fmt.Sprintf("%p=%d", p, v))
		}
		sort.Strings(ks)
		return fmt.Sprintf("%p|%s", b, strings.Join(ks, ","))
	}
	seen := map[string]bool{}
	enter := func(from, b *ssa.BasicBlock, e env) env {
		ne := env{}
		for k, v := range e {
			ne[k] = v
		}
		idx := -1
		for i, p := range b.Preds {
			if p == from {
				idx = i
			}
		}
		upd := map[ssa.Value]int{}
		for _, in := range b.Instrs {
			phi, ok := in.(*ssa.Phi)
			if !ok {
				break
			}
			upd[phi] = 0
			if idx < 0 || idx >= len(phi.Edges) {
				continue
			}
			switch x := phi.Edges[idx].(type) {
			case *ssa.Const:
				if x.Value != nil && x.Value.Kind() == constant.Bool {
					if constant.BoolVal(x.Value) {
						upd[phi] = 1
					} else {
						upd[phi] = 2
					}
				} else if x.IsNil() {
					upd[phi] = 1
				}
			case *ssa.MakeInterface:
				upd[phi] = 2
			default:
				v, pol := stripNot(phi.Edges[idx], true)
				if k, ok := e[v]; ok && k != 0 {
					if !pol {
						k = 3 - k
					}
					upd[phi] = k
				}
			}
		}
		for k, v := range upd {
			if v == 0 {
				delete(ne, k)
			} else {
				ne[k] = v
			}
		}
		return ne
	}
	var walk func(b *ssa.BasicBlock, e env, after ssa.Instruction) bool
	walk = func(b *ssa.BasicBlock, e env, after ssa.Instruction) bool {
		if after == nil {
			k := sig(b, e)
			if seen[k] || len(seen) > 6000 {
				return false
			}
			seen[k] = true
		}
		skipping := after != nil
		for _, in := range b.Instrs {
			if skipping {
				if in == after {
					skipping = false
				}
				continue
			}
			if avoid[in] {
				return false
			}
			if target(in) {
				return true
			}
		}
		succs := b.Succs
		if i := blockIf(b); i != nil && len(b.Succs) == 2 {
			cond, pol := stripNot(i.Cond, true)
			known := e[cond]
			if known == 0 {
				known = e[unspill(cond)]
			}
			if known == 0 {
				if x, isNil, ok := FactNilCmp(Fact{cond, true}); ok && e[x] != 0 {
					if (e[x] == 1) == isNil {
						known = 1
					} else {
						known = 2
					}
				}
			}
			if known != 0 {
				if (known == 1) == pol {
					succs = b.Succs[:1]
				} else {
					succs = b.Succs[1:2]
				}
			}
		}
		for _, s := range succs {
			if walk(s, enter(b, s, e), nil) {
				return true
			}
		}
		return false
	}
	e := env{}
	for k, v := range assume {
		e[k] = v
	}
	if from == nil {
		if len(fn.Blocks) == 0 {
			return false
		}
		return walk(fn.Blocks[0], e, nil)
	}
	return walk(from.Block(), e, from)
}
