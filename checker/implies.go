package main

// Compositional must-pass-through reasoning on top of NC (DESIGN 2.2):
//
//   SuccessImplies(fn, atom): every possible success return of fn is only
//   reachable under a branch fact matching atom, or under the success of a
//   call to a module function g with SuccessImplies(g, atom).
//
//   GuardedBy(site, atom, roots): the instruction is only reachable under
//   such a fact, or every static call site of its function is (recursively,
//   up to the root functions, which are never guarded).
//
// Both are refactor-robust: splitting a check into a helper keeps the verdict.

import (
	"fmt"
	"go/types"

	"golang.org/x/tools/go/ssa"
)

type Atom struct {
	Name  string
	Match func(p *Prog, f Fact) bool
}

// AtomCallBool: boolean result of a call to one of ids has polarity pol.
func AtomCallBool(name string, pol bool, ids ...string) Atom {
	return Atom{Name: name, Match: func(p *Prog, f Fact) bool {
		if f.Pol != pol {
			return false
		}
		_, ok := p.FactCallBool(f, ids...)
		return ok
	}}
}

// succFactCall: if fact f states that a call to a module function succeeded
// (error result nil, or single bool status true), return the callee.
func (p *Prog) succFactCall(f Fact) (*ssa.Call, *ssa.Function) {
	// error == nil
	if x, isNil, ok := FactNilCmp(f); ok && isNil {
		if c, idx := callOf(unspill(x)); c != nil {
			if sc := c.Common().StaticCallee(); sc != nil && p.inModule(sc) {
				ei := errResultIndex(sc)
				if ei >= 0 && (idx == ei || (idx == -1 && sc.Signature.Results().Len() == 1)) {
					return c, sc
				}
			}
		}
	}
	// bool status true
	if f.Pol {
		if c, idx := callOf(unspill(f.Cond)); c != nil {
			if sc := c.Common().StaticCallee(); sc != nil && p.inModule(sc) && errResultIndex(sc) < 0 {
				res := sc.Signature.Results()
				nb, bi := 0, -1
				for i := 0; i < res.Len(); i++ {
					if b, ok := res.At(i).Type().Underlying().(*types.Basic); ok && b.Kind() == types.Bool {
						nb++
						bi = i
					}
				}
				if nb == 1 && (idx == bi || (idx == -1 && res.Len() == 1)) {
					return c, sc
				}
			}
		}
	}
	return nil, nil
}

type impliesKey struct {
	fn   *ssa.Function
	atom string
}

type Implier struct {
	p    *Prog
	memo map[impliesKey]int // 0 unknown/in progress, 1 true, 2 false
	Why  map[impliesKey]string
}

func NewImplier(p *Prog) *Implier {
	return &Implier{p: p, memo: map[impliesKey]int{}, Why: map[impliesKey]string{}}
}

// factsImply: does the fact set contain the atom, directly or through the
// success of a call that implies it?
func (im *Implier) factsImply(fs []Fact, a Atom) (bool, string) {
	for _, f := range fs {
		if a.Match(im.p, f) {
			return true, fmt.Sprintf("fact %s", im.p.FactString(f))
		}
	}
	for _, f := range fs {
		if c, g := im.p.succFactCall(f); g != nil {
			if im.SuccessImplies(g, a) {
				return true, fmt.Sprintf("success of %s at %s", im.p.FuncKey(g), im.p.InstrPos(c))
			}
		}
	}
	return false, ""
}

func (im *Implier) SuccessImplies(fn *ssa.Function, a Atom) bool {
	k := impliesKey{fn, a.Name}
	switch im.memo[k] {
	case 1:
		return true
	case 2:
		return false
	}
	im.memo[k] = 2 // cycles: assume false
	ff := im.p.Facts(fn)
	succ := ff.SuccessReturns()
	// For functions whose status is a bool rather than an error, success
	// returns are those that may return true.
	if errResultIndex(fn) < 0 {
		succ = nil
		for _, r := range returnsOf(fn) {
			falseOnly := false
			for _, v := range r.Results {
				if c, ok := v.(*ssa.Const); ok && c.Value != nil && c.Value.String() == "false" {
					falseOnly = true
				}
			}
			if !falseOnly {
				succ = append(succ, r)
			}
		}
	}
	if len(succ) == 0 {
		im.Why[k] = "no success return"
		im.memo[k] = 1
		return true
	}
	for _, r := range succ {
		ok, _ := im.factsImply(ff.NC(r.Block()), a)
		if !ok {
			im.Why[k] = fmt.Sprintf("return at %s is reachable without %s", im.p.InstrPos(r), a.Name)
			return false
		}
	}
	im.memo[k] = 1
	return true
}

// GuardedBy: see file comment.  roots are entry points (never guarded from
// outside).  Returns ok and an explanation (witness on failure).
func (im *Implier) GuardedBy(in ssa.Instruction, a Atom, roots map[*ssa.Function]bool) (bool, string) {
	return im.guarded(in, a, roots, map[*ssa.Function]bool{})
}

func (im *Implier) guarded(in ssa.Instruction, a Atom, roots map[*ssa.Function]bool, busy map[*ssa.Function]bool) (bool, string) {
	fn := in.Parent()
	ff := im.p.Facts(fn)
	if ok, why := im.factsImply(ff.NC(in.Block()), a); ok {
		return true, fmt.Sprintf("%s guards %s", why, im.p.InstrPos(in))
	}
	if roots[fn] {
		return false, fmt.Sprintf("%s in entry point %s is reachable without %s", im.p.InstrPos(in), im.p.FuncKey(fn), a.Name)
	}
	if busy[fn] {
		return true, "recursive"
	}
	busy[fn] = true
	defer delete(busy, fn)
	// closures: guarded where they are created
	if fn.Parent() != nil {
		for _, mc := range im.p.prov().closure[fn] {
			if ok, why := im.guarded(mc, a, roots, busy); !ok {
				return false, why
			}
		}
		if len(im.p.prov().closure[fn]) > 0 {
			return true, "closure creation sites guarded"
		}
	}
	sites := im.p.SitesOf(fn)
	if len(sites) == 0 {
		return false, fmt.Sprintf("%s: function %s has no static callers and is reachable without %s", im.p.InstrPos(in), im.p.FuncKey(fn), a.Name)
	}
	for _, cs := range sites {
		if ok, why := im.guarded(cs.Instr, a, roots, busy); !ok {
			return false, why + " -> " + im.p.FuncKey(fn)
		}
	}
	return true, "all call sites guarded"
}

// FactString renders a fact for reports.
func (p *Prog) FactString(f Fact) string {
	s := f.Cond.String()
	if c, _ := callOf(f.Cond); c != nil {
		s = p.CalleeID(c.Common()) + "(...)"
		if e, ok := f.Cond.(*ssa.Extract); ok {
			s += fmt.Sprintf("#%d", e.Index)
		}
	} else if b, ok := f.Cond.(*ssa.BinOp); ok {
		s = p.valString(b.X) + " " + b.Op.String() + " " + p.valString(b.Y)
	}
	return fmt.Sprintf("[%s is %v]", s, f.Pol)
}

func (p *Prog) valString(v ssa.Value) string {
	v = unspill(v)
	if c, idx := callOf(v); c != nil {
		if idx >= 0 {
			return fmt.Sprintf("%s(...)#%d", p.CalleeID(c.Common()), idx)
		}
		return p.CalleeID(c.Common()) + "(...)"
	}
	if k, _, ok := fieldLoad(v); ok {
		return k.Type + "." + k.Field
	}
	if c, ok := v.(*ssa.Const); ok {
		return c.String()
	}
	if v.Name() != "" {
		return v.Name()
	}
	return v.String()
}
