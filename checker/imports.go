package main

import (
	"path/filepath"
	"strings"
)

// verifDirGlobal is set by main: where KNOWN_FINDINGS.jsonl lives.
var verifDirGlobal = "/verif"

// importObls runs the rules of another property (run) in a sub-context of c's property and adds those
// obligations whose construct satisfies keep to c, under rule names prefixed with tag (C01.R5@x of the
// source becomes <prop>.<tag>R5@x).  A property whose statement rests on a mechanism that another
// property decides (no panic / no spin / deadlines of its own transport, the replay filter, the random
// helpers, the ntor terms) thereby reports a violation of that mechanism itself.  Obligations that are
// recorded known findings of the source property are not imported (they are reported there).
func importObls(c *Ctx, srcProp string, run func(*Ctx), tag string, keep func(construct string) bool) {
	known := map[string]bool{}
	if fs, err := loadFindings(filepath.Join(verifDirGlobal, "KNOWN_FINDINGS.jsonl")); err == nil {
		for _, f := range fs {
			if f.Status == "known" && strings.HasPrefix(f.Key, srcProp+".") {
				known[strings.TrimPrefix(f.Key, srcProp+".")] = true
			}
		}
	}
	sub := NewCtx(c.P, c.Prop, c.Tier)
	importing = true
	run(sub)
	importing = false
	activeProg = c.P
	n := 0
	for _, o := range sub.Obls {
		rest := strings.TrimPrefix(o.Key, c.Prop+".")
		at := strings.Index(rest, "@")
		if at < 0 || !keep(rest[at+1:]) {
			continue
		}
		if known[rest] {
			continue
		}
		if strings.HasPrefix(rest, "meta@") || strings.Contains(rest, "@count") || strings.HasSuffix(rest, "#count") {
			continue // anti-vacuity counters of the source property
		}
		o.Key = c.Prop + "." + tag + rest
		c.Obls = append(c.Obls, o)
		n++
	}
	for k := range sub.fnSeen {
		c.fnSeen[k] = true
	}
	c.Notes = append(c.Notes, "imported "+itoa(n)+" obligation(s) of "+srcProp+" as "+tag+"*")
}

// importing is true while a property's rules run on behalf of another property: nested imports
// (C04 importing C11, C06 importing C04, ...) are not followed.
var importing bool

func itoa(n int) string {
	if n == 0 {
		return "0"
	}
	s := ""
	for n > 0 {
		s = string(rune('0'+n%10)) + s
		n /= 10
	}
	return s
}

func containsAny(s string, subs ...string) bool {
	for _, x := range subs {
		if strings.Contains(s, x) {
			return true
		}
	}
	return false
}
