package main

// Source normalisation before analysis: helper functions that do not exist in
// the reference tree (spec/functions.json) are inlined back into their
// same-package callers, so that a computation moved into a new helper (the
// commonest behaviour-preserving refactoring) is analysed in the function the
// rules are anchored in.  This is a syntactic transformation of the parsed
// files (packages.Config.ParseFile); nothing is executed.  It is only applied
// when it type-checks; otherwise the tree is analysed as written.
//
// A call  x, err := h(a, b)  of a new helper  func h(p T, q U) (R, error) { body }
// becomes
//
//	var _inl1_a0 T = a; var _inl1_a1 U = b
//	var _inl1_r0 R; var _inl1_r1 error
//	_inl1: switch { default:
//	    var p T = _inl1_a0; var q U = _inl1_a1; _, _ = p, q
//	    body with  "return e0, e1"  replaced by  "_inl1_r0, _inl1_r1 = e0, e1; break _inl1"
//	}
//	x, err := _inl1_r0, _inl1_r1
//
// go/defer statements calling a new helper become go/defer of a function
// literal with the helper's body.

import (
	"encoding/json"
	"fmt"
	"go/ast"
	"go/parser"
	"go/token"
	"go/types"
	"os"
	"path/filepath"
	"reflect"
	"sort"
	"strconv"
	"strings"

	"golang.org/x/tools/go/ast/astutil"
	"golang.org/x/tools/go/packages"
)

// refFuncs returns the function keys of the reference tree.
func refFuncs() map[string]bool {
	b, err := specFS.ReadFile("spec/functions.json")
	if err != nil {
		return nil
	}
	var keys []string
	if json.Unmarshal(b, &keys) != nil {
		return nil
	}
	out := map[string]bool{}
	for _, k := range keys {
		out[k] = true
	}
	return out
}

// declKey mirrors Prog.FuncKey for a declaration: "<relpkg>:<name>",
// "<relpkg>:(*T).name", "<relpkg>:(T).name".
func declKey(rel string, d *ast.FuncDecl) string {
	name := d.Name.Name
	if d.Recv != nil && len(d.Recv.List) == 1 {
		t := d.Recv.List[0].Type
		ptr := false
		if st, ok := t.(*ast.StarExpr); ok {
			ptr = true
			t = st.X
		}
		if ix, ok := t.(*ast.IndexExpr); ok {
			t = ix.X
		}
		if id, ok := t.(*ast.Ident); ok {
			if ptr {
				name = "(*" + id.Name + ")." + name
			} else {
				name = "(" + id.Name + ")." + name
			}
		}
	}
	return rel + ":" + name
}

type inlCallee struct {
	key      string
	file     string // file that holds the declaration
	declOff  int    // offset of the FuncDecl
	eligible bool
	why      string
	uses     int // identifier uses in the package
	planned  int // uses that are inlinable calls
	exported bool
}

type inlSite struct {
	callee   *inlCallee
	recvMode string // "", "same", "addr", "deref"
}

type inlinePlan struct {
	stmts   map[string]map[int][]int    // file → statement offset → offsets of the calls to hoist, in evaluation order
	sites   map[string]map[int]*inlSite // file → offset of the call's Fun expression → site
	callees map[string]*inlCallee       // key → callee
	byFile  map[string][]*inlCallee
	delete  map[string]map[int]bool // file → decl offsets to delete
	counter int
	Notes   []string
	applied int
}

func (pl *inlinePlan) empty() bool { return pl == nil || len(pl.sites) == 0 }

// planInlines inspects the type-checked packages of the first load.
func planInlines(pkgs []*packages.Package) *inlinePlan {
	ref := refFuncs()
	if len(ref) == 0 {
		return nil
	}
	pl := &inlinePlan{stmts: map[string]map[int][]int{}, sites: map[string]map[int]*inlSite{}, callees: map[string]*inlCallee{}, byFile: map[string][]*inlCallee{}, delete: map[string]map[int]bool{}}
	for _, pk := range pkgs {
		if pk.Types == nil || !isModulePkg(pk.Types) {
			continue
		}
		rel := relPkg(pk.PkgPath)
		fset := pk.Fset
		objCallee := map[types.Object]*inlCallee{}
		for _, f := range pk.Syntax {
			fname := fset.Position(f.Pos()).Filename
			for _, d := range f.Decls {
				fd, ok := d.(*ast.FuncDecl)
				if !ok || fd.Body == nil {
					continue
				}
				k := declKey(rel, fd)
				if alt := altRecvKey(k); alt != "" && ref[alt] {
					continue // an existing method whose receiver changed between value and pointer
				}
				if ref[k] || fd.Name.Name == "init" || fd.Name.Name == "main" || fd.Name.Name == "_" {
					continue
				}
				c := &inlCallee{key: k, file: fname, declOff: fset.Position(fd.Pos()).Offset, eligible: true, exported: fd.Name.IsExported()}
				if fd.Type.TypeParams != nil {
					c.eligible, c.why = false, "generic"
				}
				if fd.Recv != nil {
					if len(fd.Recv.List) != 1 {
						c.eligible, c.why = false, "receiver"
					} else if t := fd.Recv.List[0].Type; true {
						if st, ok := t.(*ast.StarExpr); ok {
							t = st.X
						}
						if _, ok := t.(*ast.Ident); !ok {
							c.eligible, c.why = false, "generic receiver"
						}
					}
				}
				obj := pk.TypesInfo.Defs[fd.Name]
				inspectNoLit(fd.Body, func(n ast.Node) {
					switch x := n.(type) {
					case *ast.DeferStmt:
						// the one defer that can be inlined: `defer mu.Unlock()` as a top-level statement of
						// the body with no return before it; it is run before every rewritten return
						if !unlockDeferAt(fd.Body, x) {
							c.eligible, c.why = false, "defer"
						}
					case *ast.CallExpr:
						if id, ok := x.Fun.(*ast.Ident); ok && id.Name == "recover" {
							c.eligible, c.why = false, "recover"
						}
					}
				})
				// direct recursion
				ast.Inspect(fd.Body, func(n ast.Node) bool {
					if id, ok := n.(*ast.Ident); ok && obj != nil && pk.TypesInfo.Uses[id] == obj {
						c.eligible, c.why = false, "recursive"
					}
					return true
				})
				pl.callees[k] = c
				pl.byFile[fname] = append(pl.byFile[fname], c)
				if obj != nil {
					objCallee[obj] = c
				}
			}
		}
		if len(objCallee) == 0 {
			continue
		}
		// uses
		for id, obj := range pk.TypesInfo.Uses {
			if c := objCallee[obj]; c != nil {
				_ = id
				c.uses++
			}
		}
		// call sites in hoistable positions of list statements
		for _, f := range pk.Syntax {
			fname := fset.Position(f.Pos()).Filename
			resolve := func(call *ast.CallExpr) (*inlCallee, string) {
				var obj types.Object
				mode := ""
				switch fun := call.Fun.(type) {
				case *ast.Ident:
					obj = pk.TypesInfo.Uses[fun]
				case *ast.SelectorExpr:
					sel := pk.TypesInfo.Selections[fun]
					if sel == nil || sel.Kind() != types.MethodVal || len(sel.Index()) != 1 {
						return nil, ""
					}
					obj = sel.Obj()
					fn, _ := obj.(*types.Func)
					if fn == nil {
						return nil, ""
					}
					sig := fn.Type().(*types.Signature)
					_, wantPtr := sig.Recv().Type().(*types.Pointer)
					_, havePtr := pk.TypesInfo.TypeOf(fun.X).Underlying().(*types.Pointer)
					switch {
					case wantPtr == havePtr:
						mode = "same"
					case wantPtr:
						mode = "addr"
					default:
						mode = "deref"
					}
				default:
					return nil, ""
				}
				c := objCallee[obj]
				if c == nil || !c.eligible {
					return nil, ""
				}
				return c, mode
			}
			nres := func(call *ast.CallExpr) int {
				if tv, ok := pk.TypesInfo.Types[call]; ok {
					if tup, ok := tv.Type.(*types.Tuple); ok {
						return tup.Len()
					}
					if tv.IsVoid() {
						return 0
					}
				}
				return 1
			}
			isPureCall := func(call *ast.CallExpr) bool {
				if tv, ok := pk.TypesInfo.Types[call.Fun]; ok {
					if tv.IsType() {
						return true // conversion
					}
					if tv.IsBuiltin() {
						if id, ok := call.Fun.(*ast.Ident); ok {
							switch id.Name {
							case "len", "cap", "new", "make", "append", "min", "max", "real", "imag", "complex":
								return true
							}
						}
					}
				}
				return false
			}
			forEachListStmt(f, func(s ast.Stmt) {
				var order []int
				whole, _ := stmtCall(s)
				impure := false
				var walk func(e ast.Expr, cond bool)
				walkAll := func(es []ast.Expr, cond bool) {
					for _, e := range es {
						walk(e, cond)
					}
				}
				walk = func(e ast.Expr, cond bool) {
					switch x := e.(type) {
					case nil:
					case *ast.FuncLit:
					case *ast.ParenExpr:
						walk(x.X, cond)
					case *ast.BinaryExpr:
						walk(x.X, cond)
						walk(x.Y, cond || x.Op == token.LAND || x.Op == token.LOR)
					case *ast.UnaryExpr:
						walk(x.X, cond)
						if x.Op == token.ARROW {
							impure = true
						}
					case *ast.StarExpr:
						walk(x.X, cond)
					case *ast.SelectorExpr:
						walk(x.X, cond)
					case *ast.IndexExpr:
						walk(x.X, cond)
						walk(x.Index, cond)
					case *ast.SliceExpr:
						walk(x.X, cond)
						walk(x.Low, cond)
						walk(x.High, cond)
						walk(x.Max, cond)
					case *ast.TypeAssertExpr:
						walk(x.X, cond)
					case *ast.KeyValueExpr:
						walk(x.Key, cond)
						walk(x.Value, cond)
					case *ast.CompositeLit:
						walkAll(x.Elts, cond)
					case *ast.CallExpr:
						// what is evaluated before the call's own operands must be pure; the operands
						// themselves move with the call
						impureBefore := impure
						c, mode := resolve(x)
						n := nres(x)
						if c != nil && !cond && !impureBefore && (n == 1 || x == whole) {
							impure = false
						}
						if sel, ok := x.Fun.(*ast.SelectorExpr); ok {
							walk(sel.X, cond)
						} else if _, ok := x.Fun.(*ast.Ident); !ok {
							walk(x.Fun, cond)
						}
						walkAll(x.Args, cond)
						okHere := c != nil && !cond && !impureBefore && (n == 1 || x == whole)
						if okHere {
							impure = impureBefore
						}
						if okHere {
							off := fset.Position(x.Pos()).Offset
							if pl.sites[fname] == nil {
								pl.sites[fname] = map[int]*inlSite{}
							}
							if pl.sites[fname][off] == nil {
								pl.sites[fname][off] = &inlSite{callee: c, recvMode: mode}
								c.planned++
								order = append(order, off)
							}
						} else if !isPureCall(x) {
							impure = true
						}
					}
				}
				switch x := s.(type) {
				case *ast.ExprStmt:
					walk(x.X, false)
				case *ast.AssignStmt:
					walkAll(x.Rhs, false)
				case *ast.ReturnStmt:
					walkAll(x.Results, false)
				case *ast.SendStmt:
					walk(x.Chan, false)
					walk(x.Value, false)
				case *ast.IfStmt:
					if x.Init != nil {
						switch in := x.Init.(type) {
						case *ast.ExprStmt:
							if c, ok := in.X.(*ast.CallExpr); ok {
								whole = c
							}
							walk(in.X, false)
						case *ast.AssignStmt:
							if len(in.Rhs) == 1 {
								if c, ok := in.Rhs[0].(*ast.CallExpr); ok && (in.Tok == token.DEFINE || in.Tok == token.ASSIGN) {
									whole = c
								}
							}
							walkAll(in.Rhs, false)
						}
					} else {
						walk(x.Cond, false)
					}
				case *ast.SwitchStmt:
					if x.Init == nil {
						walk(x.Tag, false)
					}
				case *ast.GoStmt, *ast.DeferStmt:
					var call *ast.CallExpr
					if g, ok := x.(*ast.GoStmt); ok {
						call = g.Call
					} else {
						call = x.(*ast.DeferStmt).Call
					}
					if c, mode := resolve(call); c != nil {
						off := fset.Position(call.Pos()).Offset
						if pl.sites[fname] == nil {
							pl.sites[fname] = map[int]*inlSite{}
						}
						if pl.sites[fname][off] == nil {
							pl.sites[fname][off] = &inlSite{callee: c, recvMode: mode}
							c.planned++
							order = append(order, off)
						}
					}
				}
				if len(order) > 0 {
					if pl.stmts[fname] == nil {
						pl.stmts[fname] = map[int][]int{}
					}
					pl.stmts[fname][fset.Position(s.Pos()).Offset] = order
				}
			})
		}
	}
	for _, c := range pl.callees {
		if c.eligible && c.uses > 0 && c.planned == c.uses {
			if pl.delete[c.file] == nil {
				pl.delete[c.file] = map[int]bool{}
			}
			pl.delete[c.file][c.declOff] = true
		}
	}
	var keys []string
	for k, c := range pl.callees {
		st := "kept as a call"
		switch {
		case !c.eligible:
			st = "not inlined (" + c.why + ")"
		case c.planned > 0 && c.planned == c.uses:
			st = fmt.Sprintf("inlined at all %d call sites and removed", c.planned)
		case c.planned > 0:
			st = fmt.Sprintf("inlined at %d of %d uses", c.planned, c.uses)
		}
		keys = append(keys, k+": "+st)
	}
	sort.Strings(keys)
	pl.Notes = keys
	return pl
}

// inspectNoLit walks n without entering function literals.
func inspectNoLit(n ast.Node, f func(ast.Node)) {
	ast.Inspect(n, func(x ast.Node) bool {
		if x == nil {
			return false
		}
		if _, ok := x.(*ast.FuncLit); ok && x != n {
			return false
		}
		f(x)
		return true
	})
}

// stmtCall returns the call expression that constitutes the statement's
// inlinable position, with its context.
func stmtCall(s ast.Stmt) (*ast.CallExpr, string) {
	switch x := s.(type) {
	case *ast.ExprStmt:
		if c, ok := x.X.(*ast.CallExpr); ok {
			return c, "expr"
		}
	case *ast.AssignStmt:
		if len(x.Rhs) == 1 && (x.Tok == token.DEFINE || x.Tok == token.ASSIGN) {
			if c, ok := x.Rhs[0].(*ast.CallExpr); ok {
				return c, "assign"
			}
		}
	case *ast.ReturnStmt:
		if len(x.Results) == 1 {
			if c, ok := x.Results[0].(*ast.CallExpr); ok {
				return c, "return"
			}
		}
	case *ast.GoStmt:
		return x.Call, "go"
	case *ast.DeferStmt:
		return x.Call, "defer"
	case *ast.IfStmt:
		if x.Init != nil {
			if c, ctx := stmtCall(x.Init); c != nil && (ctx == "expr" || ctx == "assign") {
				return c, "if-" + ctx
			}
		}
	}
	return nil, ""
}

// forEachStmtCall visits the calls in inlinable statement positions: members
// of a statement list (block, case or comm clause body).
func forEachStmtCall(root ast.Node, f func(call *ast.CallExpr, ctx string)) {
	ast.Inspect(root, func(n ast.Node) bool {
		var list []ast.Stmt
		switch x := n.(type) {
		case *ast.BlockStmt:
			list = x.List
		case *ast.CaseClause:
			list = x.Body
		case *ast.CommClause:
			list = x.Body
		}
		for _, s := range list {
			if ls, ok := s.(*ast.LabeledStmt); ok {
				s = ls.Stmt
			}
			if c, ctx := stmtCall(s); c != nil {
				f(c, ctx)
			}
		}
		return true
	})
}

// forEachListStmt visits the statements that are members of a statement list
// (labels stripped).
func forEachListStmt(root ast.Node, f func(s ast.Stmt)) {
	ast.Inspect(root, func(n ast.Node) bool {
		var list []ast.Stmt
		switch x := n.(type) {
		case *ast.BlockStmt:
			list = x.List
		case *ast.CaseClause:
			list = x.Body
		case *ast.CommClause:
			list = x.Body
		}
		for _, s := range list {
			if ls, ok := s.(*ast.LabeledStmt); ok {
				s = ls.Stmt
			}
			f(s)
		}
		return true
	})
}

// ---- transformation -------------------------------------------------------

type inlTransformer struct {
	primary     *ast.File
	primaryName string
	pl          *inlinePlan
	fset        *token.FileSet
	srcOf       func(filename string) ([]byte, error)
	stack       []string
	err         error
	// imports that bodies inlined from other files of the package need (path -> name, "" = default)
	needImports map[string]string
}

func (pl *inlinePlan) parseFile(overlay map[string][]byte) func(fset *token.FileSet, filename string, src []byte) (*ast.File, error) {
	return func(fset *token.FileSet, filename string, src []byte) (*ast.File, error) {
		const mode = parser.AllErrors | parser.ParseComments
		f, err := parser.ParseFile(fset, filename, src, mode)
		if err != nil || (pl.sites[filename] == nil && pl.delete[filename] == nil) {
			return f, err
		}
		tr := &inlTransformer{pl: pl, fset: fset, srcOf: func(fn string) ([]byte, error) {
			if fn == filename {
				return src, nil
			}
			if b, ok := overlay[fn]; ok {
				return b, nil
			}
			return os.ReadFile(fn)
		}}
		tr.primary, tr.primaryName = f, filename
		tr.file(f, filename)
		if tr.err != nil {
			return nil, tr.err
		}
		return f, nil
	}
}

func (tr *inlTransformer) off(p token.Pos) int { return tr.fset.Position(p).Offset }

func (tr *inlTransformer) file(f *ast.File, filename string) {
	// delete dead helpers first (their bodies need no rewriting)
	del := tr.pl.delete[filename]
	var decls []ast.Decl
	for _, d := range f.Decls {
		if fd, ok := d.(*ast.FuncDecl); ok && del[tr.off(fd.Pos())] {
			continue
		}
		decls = append(decls, d)
	}
	f.Decls = decls
	for _, d := range f.Decls {
		if fd, ok := d.(*ast.FuncDecl); ok && fd.Body != nil {
			tr.node(fd.Body, filename)
		}
	}
	// bodies inlined from another file of the package bring their imports along (an import that was already
	// there is left alone; one that turns out unused is referenced by a blank declaration below)
	var paths []string
	for p := range tr.needImports {
		paths = append(paths, p)
	}
	sort.Strings(paths)
	for _, p := range paths {
		have := false
		for _, im := range f.Imports {
			if q, err := strconv.Unquote(im.Path.Value); err == nil && q == p {
				have = true
			}
		}
		if !have {
			astutil.AddNamedImport(tr.fset, f, tr.needImports[p], p)
		}
	}
	// unused imports may result from deleting helpers: keep them alive is not
	// possible syntactically; the type checker tolerates nothing here, so a
	// deletion that orphans an import makes the load fall back.
}

// node rewrites every statement list below n.
func (tr *inlTransformer) node(n ast.Node, _ string) {
	ast.Inspect(n, func(x ast.Node) bool {
		switch b := x.(type) {
		case *ast.BlockStmt:
			b.List = tr.list(b.List)
		case *ast.CaseClause:
			b.Body = tr.list(b.Body)
		case *ast.CommClause:
			b.Body = tr.list(b.Body)
		}
		return true
	})
}

func (tr *inlTransformer) list(list []ast.Stmt) []ast.Stmt {
	var out []ast.Stmt
	for _, s := range list {
		if _, labeled := s.(*ast.LabeledStmt); labeled || !s.Pos().IsValid() || len(tr.stack) > 4 {
			out = append(out, s)
			continue
		}
		pos := tr.fset.Position(s.Pos())
		order := tr.pl.stmts[pos.Filename][pos.Offset]
		if len(order) == 0 {
			out = append(out, s)
			continue
		}
		cur := s
		dropped := false
		for _, off := range order {
			site := tr.pl.sites[pos.Filename][off]
			if site == nil {
				continue
			}
			// locate the call inside the statement
			var call *ast.CallExpr
			ast.Inspect(cur, func(n ast.Node) bool {
				if c, ok := n.(*ast.CallExpr); ok && call == nil && c.Pos().IsValid() {
					if p := tr.fset.Position(c.Pos()); p.Offset == off && p.Filename == pos.Filename {
						call = c
					}
				}
				return call == nil
			})
			if call == nil {
				continue
			}
			// go / defer
			if g, ok := cur.(*ast.GoStmt); ok && g.Call == call {
				if lit := tr.expandLit(call, site); lit != nil {
					g.Call = lit
					tr.pl.applied++
				}
				continue
			}
			if d, ok := cur.(*ast.DeferStmt); ok && d.Call == call {
				if lit := tr.expandLit(call, site); lit != nil {
					d.Call = lit
					tr.pl.applied++
				}
				continue
			}
			pre, rnames := tr.expand(call, site)
			if pre == nil {
				continue
			}
			var rex []ast.Expr
			for _, n := range rnames {
				rex = append(rex, ident(n))
			}
			done := false
			// the call is the whole right-hand side / result / expression
			whole := func(st ast.Stmt) bool {
				switch x := st.(type) {
				case *ast.ExprStmt:
					if x.X == ast.Expr(call) {
						return true
					}
				case *ast.AssignStmt:
					if len(x.Rhs) == 1 && x.Rhs[0] == ast.Expr(call) && len(x.Lhs) == len(rex) && len(rex) > 0 {
						x.Rhs = rex
						done = true
					}
				case *ast.ReturnStmt:
					if len(x.Results) == 1 && x.Results[0] == ast.Expr(call) && len(rex) > 0 {
						x.Results = rex
						done = true
					}
				}
				return false
			}
			if whole(cur) {
				// expression statement: results are discarded
				if len(rnames) > 0 {
					cur = discard(rnames...)
				} else {
					dropped = true
				}
				done = true
			}
			if is, ok := cur.(*ast.IfStmt); ok && !done && is.Init != nil {
				if whole(is.Init) {
					if len(rnames) > 0 {
						is.Init = discard(rnames...)
					} else {
						is.Init = nil
					}
					done = true
				}
			}
			if !done {
				if len(rex) != 1 {
					continue // cannot be used as a value: leave the call (pre is dropped)
				}
				astutil.Apply(cur, func(c *astutil.Cursor) bool {
					if c.Node() == ast.Node(call) {
						c.Replace(rex[0])
						done = true
						return false
					}
					return !done
				}, nil)
			}
			if done {
				out = append(out, pre...)
				tr.pl.applied++
			}
		}
		if !dropped {
			out = append(out, cur)
		}
	}
	return out
}

func ident(name string) *ast.Ident { return &ast.Ident{Name: name} }

func varDecl(name string, typ ast.Expr, val ast.Expr) ast.Stmt {
	vs := &ast.ValueSpec{Names: []*ast.Ident{ident(name)}, Type: typ}
	if val != nil {
		vs.Values = []ast.Expr{val}
	}
	return &ast.DeclStmt{Decl: &ast.GenDecl{Tok: token.VAR, Specs: []ast.Spec{vs}}}
}

func discard(names ...string) ast.Stmt {
	as := &ast.AssignStmt{Tok: token.ASSIGN}
	for _, n := range names {
		as.Lhs = append(as.Lhs, ident("_"))
		as.Rhs = append(as.Rhs, ident(n))
	}
	return as
}

// calleeDecl re-parses the callee's file and returns its declaration (a
// private copy whose positions are valid in tr.fset).
func (tr *inlTransformer) calleeDecl(c *inlCallee) *ast.FuncDecl {
	src, err := tr.srcOf(c.file)
	if err != nil {
		return nil
	}
	f, err := parser.ParseFile(tr.fset, c.file, src, parser.AllErrors)
	if err != nil {
		return nil
	}
	for _, d := range f.Decls {
		if fd, ok := d.(*ast.FuncDecl); ok && tr.off(fd.Pos()) == c.declOff {
			if tr.primaryName != c.file {
				// the body may use packages that only the helper's own file imports
				used := map[string]bool{}
				ast.Inspect(fd, func(n ast.Node) bool {
					if se, ok := n.(*ast.SelectorExpr); ok {
						if id, ok := se.X.(*ast.Ident); ok {
							used[id.Name] = true
						}
					}
					return true
				})
				for _, im := range f.Imports {
					path, err := strconv.Unquote(im.Path.Value)
					if err != nil {
						continue
					}
					name := ""
					if im.Name != nil {
						name = im.Name.Name
					}
					local := name
					if local == "" {
						local = path[strings.LastIndex(path, "/")+1:]
					}
					if used[local] || (name == "" && !strings.Contains(path, ".") && used[local]) {
						if tr.needImports == nil {
							tr.needImports = map[string]string{}
						}
						tr.needImports[path] = name
					}
				}
			}
			// go/types insists that every valid position lies in one of the
			// files being checked: map the copy's positions into the primary
			// instance of the file when it is the file under transformation,
			// otherwise drop them.
			var shift token.Pos
			same := tr.primary != nil && tr.primaryName == c.file
			if same {
				shift = tr.primary.FileStart - f.FileStart
			}
			ast.Inspect(fd, func(n ast.Node) bool {
				if n == nil {
					return false
				}
				v := reflect.ValueOf(n)
				if v.Kind() != reflect.Ptr || v.Elem().Kind() != reflect.Struct {
					return true
				}
				e := v.Elem()
				for i := 0; i < e.NumField(); i++ {
					fl := e.Field(i)
					if fl.Type() == posType && fl.CanSet() {
						p := token.Pos(fl.Int())
						if p.IsValid() && same {
							fl.SetInt(int64(p + shift))
						} else {
							fl.SetInt(0)
						}
					}
				}
				return true
			})
			return fd
		}
	}
	return nil
}

var posType = reflect.TypeOf(token.NoPos)

type inlParam struct {
	name string
	typ  ast.Expr
	arg  ast.Expr
}

// prepare fetches a private copy of the callee and binds the call's arguments.
func (tr *inlTransformer) prepare(call *ast.CallExpr, site *inlSite) (*ast.FuncDecl, []inlParam) {
	c := site.callee
	for _, k := range tr.stack {
		if k == c.key {
			return nil, nil
		}
	}
	fd := tr.calleeDecl(c)
	if fd == nil || fd.Body == nil {
		return nil, nil
	}
	// nested new helpers inside the callee body
	tr.stack = append(tr.stack, c.key)
	tr.node(fd.Body, c.file)
	tr.stack = tr.stack[:len(tr.stack)-1]

	var params []inlParam
	if fd.Recv != nil {
		sel, ok := call.Fun.(*ast.SelectorExpr)
		if !ok {
			return nil, nil
		}
		var recv ast.Expr = sel.X
		switch site.recvMode {
		case "addr":
			recv = &ast.UnaryExpr{Op: token.AND, X: recv}
		case "deref":
			recv = &ast.StarExpr{X: recv}
		}
		name := "_"
		if len(fd.Recv.List[0].Names) == 1 {
			name = fd.Recv.List[0].Names[0].Name
		}
		params = append(params, inlParam{name, fd.Recv.List[0].Type, recv})
	}
	ai := 0
	nfields := 0
	if fd.Type.Params != nil {
		nfields = len(fd.Type.Params.List)
	}
	for fi := 0; fi < nfields; fi++ {
		fld := fd.Type.Params.List[fi]
		names := fld.Names
		if len(names) == 0 {
			names = []*ast.Ident{ident("_")}
		}
		for _, nm := range names {
			typ := fld.Type
			if ell, ok := typ.(*ast.Ellipsis); ok {
				// variadic: the remaining arguments form a slice
				st := &ast.ArrayType{Elt: ell.Elt}
				var val ast.Expr
				if call.Ellipsis.IsValid() {
					if ai >= len(call.Args) {
						return nil, nil
					}
					val = call.Args[ai]
				} else {
					val = &ast.CompositeLit{Type: st, Elts: append([]ast.Expr(nil), call.Args[imin(ai, len(call.Args)):]...)}
				}
				ai = len(call.Args)
				params = append(params, inlParam{nm.Name, st, val})
				continue
			}
			if ai >= len(call.Args) {
				return nil, nil // f(g()) with a multi-valued g: not handled
			}
			params = append(params, inlParam{nm.Name, typ, call.Args[ai]})
			ai++
		}
	}
	if ai != len(call.Args) {
		return nil, nil
	}
	return fd, params
}

// expandLit: go/defer of a new helper becomes go/defer of a function literal
// with the helper's signature and body.
func (tr *inlTransformer) expandLit(call *ast.CallExpr, site *inlSite) *ast.CallExpr {
	fd, params := tr.prepare(call, site)
	if fd == nil {
		return nil
	}
	ft := &ast.FuncType{Params: &ast.FieldList{}, Results: fd.Type.Results}
	var args []ast.Expr
	for _, p := range params {
		ft.Params.List = append(ft.Params.List, &ast.Field{Names: []*ast.Ident{ident(p.name)}, Type: p.typ})
		args = append(args, p.arg)
	}
	return &ast.CallExpr{Fun: &ast.FuncLit{Type: ft, Body: fd.Body}, Args: args}
}

// expand returns the statements that evaluate the call in place (argument
// temporaries, result temporaries, the helper's body) and the names of the
// result temporaries.
func (tr *inlTransformer) expand(call *ast.CallExpr, site *inlSite) ([]ast.Stmt, []string) {
	fd, params := tr.prepare(call, site)
	if fd == nil {
		return nil, nil
	}
	tr.pl.counter++
	pfx := fmt.Sprintf("_inl%d", tr.pl.counter)

	// results
	type result struct {
		tmp, name string
		typ       ast.Expr
	}
	var results []result
	if fd.Type.Results != nil {
		for _, fld := range fd.Type.Results.List {
			names := fld.Names
			if len(names) == 0 {
				names = []*ast.Ident{nil}
			}
			for _, nm := range names {
				r := result{tmp: fmt.Sprintf("%s_r%d", pfx, len(results)), typ: fld.Type}
				if nm != nil && nm.Name != "_" {
					r.name = nm.Name
				}
				results = append(results, r)
			}
		}
	}

	out := []ast.Stmt{}
	// argument temporaries, evaluated in the caller's scope in order
	var anames []string
	for i, p := range params {
		an := fmt.Sprintf("%s_a%d", pfx, i)
		anames = append(anames, an)
		out = append(out, varDecl(an, p.typ, p.arg))
	}
	var rnames []string
	for _, r := range results {
		out = append(out, varDecl(r.tmp, r.typ, nil))
		rnames = append(rnames, r.tmp)
	}

	// body
	var body []ast.Stmt
	var used []string
	for i, p := range params {
		if p.name == "_" {
			body = append(body, discard(anames[i]))
			continue
		}
		body = append(body, varDecl(p.name, p.typ, ident(anames[i])))
		used = append(used, p.name)
	}
	if len(used) > 0 {
		body = append(body, discard(used...))
	}
	var named []string
	for _, r := range results {
		if r.name != "" {
			body = append(body, varDecl(r.name, r.typ, nil))
			named = append(named, r.name)
		}
	}
	if len(named) > 0 {
		body = append(body, discard(named...))
	}
	label := pfx
	nret := 0
	renameLabels(fd.Body, pfx)
	ok := true
	// a top-level `defer mu.Unlock()` (see unlockDeferAt) is taken out and run before every rewritten return
	var unlockFun ast.Expr
	for i, st := range fd.Body.List {
		if d, isD := st.(*ast.DeferStmt); isD {
			unlockFun = d.Call.Fun
			fd.Body.List = append(append([]ast.Stmt{}, fd.Body.List[:i]...), fd.Body.List[i+1:]...)
			break
		}
	}
	mkReturn := func(rs *ast.ReturnStmt) ast.Stmt {
		nret++
		var stmts []ast.Stmt
		switch {
		case len(results) == 0:
		case len(rs.Results) == 0:
			// bare return with named results
			as := &ast.AssignStmt{Tok: token.ASSIGN}
			for _, r := range results {
				as.Lhs = append(as.Lhs, ident(r.tmp))
				if r.name == "" {
					ok = false
					return rs
				}
				as.Rhs = append(as.Rhs, ident(r.name))
			}
			stmts = append(stmts, as)
		default:
			as := &ast.AssignStmt{Tok: token.ASSIGN, Rhs: rs.Results}
			for _, r := range results {
				as.Lhs = append(as.Lhs, ident(r.tmp))
			}
			stmts = append(stmts, as)
		}
		if unlockFun != nil {
			stmts = append(stmts, &ast.ExprStmt{X: &ast.CallExpr{Fun: unlockFun}})
		}
		stmts = append(stmts, &ast.BranchStmt{Tok: token.BREAK, Label: ident(label)})
		return &ast.BlockStmt{List: stmts}
	}
	fd.Body.List = rewriteReturns(fd.Body.List, mkReturn)
	if !ok {
		return nil, nil
	}
	body = append(body, fd.Body.List...)
	if unlockFun != nil && len(results) == 0 {
		// a helper without results may fall off its end
		body = append(body, &ast.ExprStmt{X: &ast.CallExpr{Fun: unlockFun}})
	}
	if nret > 0 {
		sw := &ast.SwitchStmt{Body: &ast.BlockStmt{List: []ast.Stmt{&ast.CaseClause{Body: body}}}}
		out = append(out, &ast.LabeledStmt{Label: ident(label), Stmt: sw})
	} else {
		out = append(out, &ast.BlockStmt{List: body})
	}
	return out, rnames
}

// unlockDeferAt: d is `defer X.Unlock()` / `defer X.RUnlock()`, a top-level statement of body, the only defer of
// the body, and no statement before it contains a return.
func unlockDeferAt(body *ast.BlockStmt, d *ast.DeferStmt) bool {
	sel, ok := d.Call.Fun.(*ast.SelectorExpr)
	if !ok || len(d.Call.Args) != 0 || (sel.Sel.Name != "Unlock" && sel.Sel.Name != "RUnlock") {
		return false
	}
	nDefer := 0
	inspectNoLit(body, func(n ast.Node) {
		if _, ok := n.(*ast.DeferStmt); ok {
			nDefer++
		}
	})
	if nDefer != 1 {
		return false
	}
	for _, st := range body.List {
		if st == ast.Stmt(d) {
			return true
		}
		hasRet := false
		inspectNoLit(st, func(n ast.Node) {
			if _, ok := n.(*ast.ReturnStmt); ok {
				hasRet = true
			}
		})
		if hasRet {
			return false
		}
	}
	return false
}

// rewriteReturns replaces the return statements of a body (not those of
// nested function literals).
func rewriteReturns(list []ast.Stmt, f func(*ast.ReturnStmt) ast.Stmt) []ast.Stmt {
	var rw func(s ast.Stmt) ast.Stmt
	rwList := func(l []ast.Stmt) []ast.Stmt {
		for i, s := range l {
			l[i] = rw(s)
		}
		return l
	}
	rw = func(s ast.Stmt) ast.Stmt {
		switch x := s.(type) {
		case *ast.ReturnStmt:
			return f(x)
		case *ast.BlockStmt:
			x.List = rwList(x.List)
		case *ast.IfStmt:
			x.Body.List = rwList(x.Body.List)
			if x.Else != nil {
				x.Else = rw(x.Else)
			}
		case *ast.ForStmt:
			x.Body.List = rwList(x.Body.List)
		case *ast.RangeStmt:
			x.Body.List = rwList(x.Body.List)
		case *ast.SwitchStmt:
			x.Body.List = rwList(x.Body.List)
		case *ast.TypeSwitchStmt:
			x.Body.List = rwList(x.Body.List)
		case *ast.SelectStmt:
			x.Body.List = rwList(x.Body.List)
		case *ast.CaseClause:
			x.Body = rwList(x.Body)
		case *ast.CommClause:
			x.Body = rwList(x.Body)
		case *ast.LabeledStmt:
			x.Stmt = rw(x.Stmt)
		}
		return s
	}
	return rwList(list)
}

// renameLabels makes the labels of an inlined body unique.
func renameLabels(body *ast.BlockStmt, sfx string) {
	labels := map[string]bool{}
	inspectNoLit(body, func(n ast.Node) {
		if ls, ok := n.(*ast.LabeledStmt); ok {
			labels[ls.Label.Name] = true
		}
	})
	if len(labels) == 0 {
		return
	}
	inspectNoLit(body, func(n ast.Node) {
		switch x := n.(type) {
		case *ast.LabeledStmt:
			x.Label = ident(x.Label.Name + sfx)
		case *ast.BranchStmt:
			if x.Label != nil && labels[x.Label.Name] {
				x.Label = ident(x.Label.Name + sfx)
			}
		}
	})
}

// writeRefFuncs writes the function keys of the tree at dir to path.
func writeRefFuncs(dir, path string) error {
	p, err := Load(LoadConfig{Dir: dir, NoInline: true})
	if err != nil {
		return err
	}
	seen := map[string]bool{}
	for _, pk := range p.Pkgs {
		rel := relPkg(pk.PkgPath)
		for _, f := range pk.Syntax {
			for _, d := range f.Decls {
				if fd, ok := d.(*ast.FuncDecl); ok {
					seen[declKey(rel, fd)] = true
				}
			}
		}
	}
	// other build configurations declare further functions (termmon_linux.go ...): union over the matrix
	for _, bc := range thoroughMatrix[1:] {
		q, err := Load(LoadConfig{Dir: dir, GOOS: bc.goos, GOARCH: bc.goarch, NoInline: true})
		if err != nil {
			return err
		}
		for _, pk := range q.Pkgs {
			rel := relPkg(pk.PkgPath)
			for _, f := range pk.Syntax {
				for _, d := range f.Decls {
					if fd, ok := d.(*ast.FuncDecl); ok {
						seen[declKey(rel, fd)] = true
					}
				}
			}
		}
	}
	var keys []string
	for k := range seen {
		keys = append(keys, k)
	}
	sort.Strings(keys)
	b, _ := json.MarshalIndent(keys, "", " ")
	return os.WriteFile(filepath.Clean(path), append(b, '\n'), 0o644)
}

func imin(a, b int) int {
	if a < b {
		return a
	}
	return b
}
