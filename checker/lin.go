package main

// Linear integer terms over SSA values: Σ aᵢ·vᵢ + c.  Used to compare slice
// bounds structurally (layout rules) and by the bounds engine (E8).

import (
	"fmt"
	"go/token"
	"go/types"
	"sort"
	"strings"

	"golang.org/x/tools/go/ssa"
)

type Lin struct {
	T map[string]int64 // canonical atom → coefficient
	C int64
}

func linConst(c int64) Lin { return Lin{T: map[string]int64{}, C: c} }

func (a Lin) clone() Lin {
	b := Lin{T: map[string]int64{}, C: a.C}
	for k, v := range a.T {
		b.T[k] = v
	}
	return b
}

func (a Lin) Add(b Lin) Lin {
	r := a.clone()
	r.C += b.C
	for k, v := range b.T {
		r.T[k] += v
		if r.T[k] == 0 {
			delete(r.T, k)
		}
	}
	return r
}

func (a Lin) Scale(k int64) Lin {
	r := Lin{T: map[string]int64{}, C: a.C * k}
	if k == 0 {
		return r
	}
	for n, v := range a.T {
		r.T[n] = v * k
	}
	return r
}

func (a Lin) Sub(b Lin) Lin { return a.Add(b.Scale(-1)) }

func (a Lin) IsConst() (int64, bool) { return a.C, len(a.T) == 0 }

func (a Lin) Equal(b Lin) bool {
	d := a.Sub(b)
	c, ok := d.IsConst()
	return ok && c == 0
}

func (a Lin) String() string {
	var ks []string
	for k := range a.T {
		ks = append(ks, k)
	}
	sort.Strings(ks)
	var sb strings.Builder
	for _, k := range ks {
		c := a.T[k]
		switch {
		case c == 1:
			fmt.Fprintf(&sb, "+%s", k)
		case c == -1:
			fmt.Fprintf(&sb, "-%s", k)
		default:
			fmt.Fprintf(&sb, "%+d*%s", c, k)
		}
	}
	if a.C != 0 || len(ks) == 0 {
		fmt.Fprintf(&sb, "%+d", a.C)
	}
	return strings.TrimPrefix(sb.String(), "+")
}

// linCtx holds the atom naming for one function.
type linCtx struct {
	p *Prog
	// wrapOK: treat unsigned +,-,* as exact (layout comparisons, where both
	// sides wrap alike); the bounds engine leaves it false.
	wrapOK bool
	names  map[ssa.Value]string
	// rep maps an atom name to one SSA value bearing it.
	rep map[string]ssa.Value
}

func (p *Prog) newLin() *linCtx {
	return &linCtx{p: p, names: map[ssa.Value]string{}, rep: map[string]ssa.Value{}, wrapOK: true}
}

func isIntType(t types.Type) bool {
	b, ok := t.Underlying().(*types.Basic)
	return ok && b.Info()&types.IsInteger != 0
}

// intRange returns the value range of an integer type (for the target word
// size given by sizes).
func intWidth(t types.Type, wordBits int) (bits int, signed bool) {
	b := t.Underlying().(*types.Basic)
	switch b.Kind() {
	case types.Int8:
		return 8, true
	case types.Int16:
		return 16, true
	case types.Int32:
		return 32, true
	case types.Int64:
		return 64, true
	case types.Int:
		return wordBits, true
	case types.Uint8:
		return 8, false
	case types.Uint16:
		return 16, false
	case types.Uint32:
		return 32, false
	case types.Uint64:
		return 64, false
	case types.Uint, types.Uintptr:
		return wordBits, false
	}
	return 64, true
}

// atomName gives a canonical name to a non-linear value.  len(x) of the same
// object gets the same name; SSA values are otherwise identified by address.
func (lc *linCtx) atomName(v ssa.Value) string {
	if n, ok := lc.names[v]; ok {
		return n
	}
	var n string
	switch x := v.(type) {
	case *ssa.Call:
		if b, ok := x.Common().Value.(*ssa.Builtin); ok && (b.Name() == "len" || b.Name() == "cap") {
			n = b.Name() + "(" + lc.refName(x.Common().Args[0]) + ")"
		}
	}
	if n == "" {
		n = lc.refName(v)
	}
	lc.names[v] = n
	if _, ok := lc.rep[n]; !ok {
		lc.rep[n] = v
	}
	return n
}

// refName names a value by SSA identity (parameters and named registers by
// name for readability).
func (lc *linCtx) refName(v ssa.Value) string {
	switch x := v.(type) {
	case *ssa.Parameter:
		return x.Name()
	case *ssa.Const:
		return x.String()
	}
	// loads of a field that is only written while its object is being
	// constructed designate the same value wherever they occur
	if k, _, ok := fieldLoad(v); ok && lc.p.constructionOnly(k) {
		return objKey(v)
	}
	if v.Name() != "" {
		return v.Name()
	}
	return fmt.Sprintf("%p", v)
}

// constructionOnly: every store to the field targets an object allocated in
// the same function and block as the store (the object is still private), so
// after construction the field never changes.
func (p *Prog) constructionOnly(k FieldKey) bool {
	if r, ok := p.consOnly[k]; ok {
		return r
	}
	res := len(p.stores[k]) > 0 && !p.reflectWritten(k.Type)
	for _, s := range p.stores[k] {
		a, ok := s.Base.(*ssa.Alloc)
		if !ok || a.Parent() != s.Fn || a.Block() != s.Instr.Block() {
			res = false
		}
	}
	p.consOnly[k] = res
	return res
}

// Of computes the linear form of an integer SSA value.
func (lc *linCtx) Of(v ssa.Value) Lin {
	return lc.of(v, 0)
}

func (lc *linCtx) of(v ssa.Value, d int) Lin {
	if d > 40 {
		return lc.atom(v)
	}
	v = unspill(v)
	switch x := v.(type) {
	case *ssa.Const:
		if c, ok := intConst(x); ok {
			return linConst(c)
		}
	case *ssa.BinOp:
		if !isIntType(x.Type()) {
			break
		}
		// unsigned arithmetic wraps: kept opaque here; the bounds engine adds
		// "no wrap ⇒ linear" as a case split (binopFacts)
		if _, signed := intWidth(x.Type(), 64); !signed && (x.Op == token.ADD || x.Op == token.SUB || x.Op == token.MUL || x.Op == token.SHL) {
			if !lc.wrapOK {
				break
			}
		}
		switch x.Op {
		case token.ADD:
			return lc.of(x.X, d+1).Add(lc.of(x.Y, d+1))
		case token.SUB:
			return lc.of(x.X, d+1).Sub(lc.of(x.Y, d+1))
		case token.MUL:
			a, b := lc.of(x.X, d+1), lc.of(x.Y, d+1)
			if c, ok := a.IsConst(); ok {
				return b.Scale(c)
			}
			if c, ok := b.IsConst(); ok {
				return a.Scale(c)
			}
		case token.SHL:
			if c, ok := intConst(x.Y); ok && c >= 0 && c < 32 {
				return lc.of(x.X, d+1).Scale(1 << uint(c))
			}
		}
	case *ssa.Convert:
		// value-preserving only if widening within the same signedness or to a
		// wider signed type; otherwise opaque (E8 adds range facts separately)
		if isIntType(x.Type()) && isIntType(x.X.Type()) {
			tb, ts := intWidth(x.Type(), 32)
			fb, fs := intWidth(x.X.Type(), 32)
			tb64, _ := intWidth(x.Type(), 64)
			_ = tb64
			if (ts == fs && tb >= fb) || (ts && !fs && tb > fb) {
				return lc.of(x.X, d+1)
			}
		}
	case *ssa.ChangeType:
		if isIntType(x.Type()) {
			return lc.of(x.X, d+1)
		}
	}
	return lc.atom(v)
}

func (lc *linCtx) atom(v ssa.Value) Lin {
	return Lin{T: map[string]int64{lc.atomName(v): 1}}
}
