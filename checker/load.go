package main

// Loading of /repo's current working tree into type-checked syntax + SSA and
// the module-wide indices (functions by key, stores per field, call sites per
// callee) every engine builds on.  Nothing in /repo is executed.

import (
	"fmt"
	"go/token"
	"go/types"
	"os"
	"sort"
	"strings"
	"time"

	"golang.org/x/tools/go/callgraph"
	"golang.org/x/tools/go/callgraph/cha"
	"golang.org/x/tools/go/callgraph/vta"
	"golang.org/x/tools/go/packages"
	"golang.org/x/tools/go/ssa"
	"golang.org/x/tools/go/ssa/ssautil"
)

const modulePath = "gitlab.com/yawning/obfs4.git"

// minPackages is the number of packages the module has today; loading fewer
// means the build was not covered and no verdict may be given.
const minPackages = 18

type LoadConfig struct {
	Dir     string
	GOOS    string
	GOARCH  string
	Overlay map[string][]byte
	// NoInline: analyse the tree as written (do not inline helpers that the
	// reference tree does not have).
	NoInline bool
}

type CallSite struct {
	Instr  ssa.CallInstruction
	Caller *ssa.Function
}

type StoreSite struct {
	Instr ssa.Instruction // *ssa.Store, or a composite-literal initialisation
	Val   ssa.Value
	Fn    *ssa.Function
	// Base is the struct pointer the field address was taken from (FieldAddr.X).
	Base ssa.Value
}

type FieldKey struct {
	Type  string // named struct type, types.TypeString with module-relative qualifier
	Field string
}

type Prog struct {
	Cfg    LoadConfig
	Fset   *token.FileSet
	Pkgs   []*packages.Package
	SSA    *ssa.Program
	SPkgs  map[string]*ssa.Package // module-relative path ("" for the root) → package
	Funcs  []*ssa.Function         // all source functions of the module (incl. anonymous, init)
	byKey  map[string]*ssa.Function
	stores map[FieldKey][]*StoreSite
	gstore map[*ssa.Global][]*StoreSite
	sites  map[string][]*CallSite // callee id → call sites in module functions
	fnSite map[*ssa.Function][]*CallSite
	fa     map[*ssa.Function]*FuncFacts

	cgVTA    *callgraph.Graph
	cgCHA    *callgraph.Graph
	pi       *provIndex
	consOnly map[FieldKey]bool
	// InlineNotes: what the helper-inlining normalisation did (inline.go).
	InlineNotes []string
}

func relPkg(path string) string {
	if path == modulePath {
		return ""
	}
	return strings.TrimPrefix(path, modulePath+"/")
}

func isModulePkg(p *types.Package) bool {
	return p != nil && (p.Path() == modulePath || strings.HasPrefix(p.Path(), modulePath+"/"))
}

// Load type-checks the module rooted at cfg.Dir and builds SSA for its
// packages.  Any parse or type error aborts: a tree that does not build has
// no verdict.
func Load(cfg LoadConfig) (*Prog, error) {
	env := append(os.Environ(), "GOFLAGS=-mod=mod", "GOPROXY=off", "GOSUMDB=off", "GOTOOLCHAIN=local", "GOWORK=off")
	if cfg.GOOS != "" {
		env = append(env, "GOOS="+cfg.GOOS, "CGO_ENABLED=0")
	}
	if cfg.GOARCH != "" {
		env = append(env, "GOARCH="+cfg.GOARCH, "CGO_ENABLED=0")
	}
	pc := &packages.Config{
		Mode:    packages.LoadSyntax | packages.NeedModule,
		Dir:     cfg.Dir,
		Env:     env,
		Overlay: cfg.Overlay,
		Tests:   false,
	}
	pkgs, err := packages.Load(pc, "./...")
	// a failing `go list` under memory or CPU pressure shows up as missing export data of standard
	// packages ("no metadata for io"): that says nothing about the tree — load again before giving up
	for attempt := 0; attempt < 3 && transientLoadFailure(pkgs, err); attempt++ {
		time.Sleep(time.Duration(attempt+1) * 2 * time.Second)
		pkgs, err = packages.Load(pc, "./...")
	}
	if err != nil {
		return nil, fmt.Errorf("load: %w", err)
	}
	loadErrs := func(pkgs []*packages.Package) []string {
		var errs []string
		packages.Visit(pkgs, nil, func(p *packages.Package) {
			for _, e := range p.Errors {
				errs = append(errs, e.Error())
			}
		})
		return errs
	}
	if errs := loadErrs(pkgs); len(errs) > 0 {
		return nil, fmt.Errorf("load: tree does not type-check: %s", strings.Join(errs, "; "))
	}
	// normalisation: inline helpers the reference tree does not have (inline.go)
	var inlineNotes []string
	if !cfg.NoInline {
		if pl := planInlines(pkgs); !pl.empty() {
			pc2 := *pc
			pc2.ParseFile = pl.parseFile(cfg.Overlay)
			pkgs2, err2 := packages.Load(&pc2, "./...")
			for attempt := 0; attempt < 3 && transientLoadFailure(pkgs2, err2); attempt++ {
				time.Sleep(time.Duration(attempt+1) * 2 * time.Second)
				pkgs2, err2 = packages.Load(&pc2, "./...")
			}
			switch {
			case err2 != nil:
				inlineNotes = append(inlineNotes, "helper inlining abandoned: "+err2.Error())
			case len(loadErrs(pkgs2)) > 0:
				inlineNotes = append(inlineNotes, "helper inlining abandoned (result does not type-check): "+strings.Join(loadErrs(pkgs2), "; "))
			default:
				pkgs = pkgs2
				inlineNotes = append(inlineNotes, pl.Notes...)
			}
		} else if pl != nil {
			for _, n := range pl.Notes {
				inlineNotes = append(inlineNotes, n)
			}
		}
	}
	if len(pkgs) < minPackages {
		return nil, fmt.Errorf("load: only %d packages loaded, expected at least %d", len(pkgs), minPackages)
	}
	p := &Prog{Cfg: cfg, Pkgs: pkgs, SPkgs: map[string]*ssa.Package{}, byKey: map[string]*ssa.Function{},
		stores: map[FieldKey][]*StoreSite{}, gstore: map[*ssa.Global][]*StoreSite{},
		sites: map[string][]*CallSite{}, fnSite: map[*ssa.Function][]*CallSite{}, fa: map[*ssa.Function]*FuncFacts{}, consOnly: map[FieldKey]bool{}}
	if len(pkgs) > 0 {
		p.Fset = pkgs[0].Fset
	}
	p.InlineNotes = inlineNotes
	// The module must not use unsafe, cgo or linkname: otherwise the writer
	// and call-site tables below are not exhaustive.
	for _, pk := range pkgs {
		for imp := range pk.Imports {
			if imp == "unsafe" || imp == "C" || imp == "reflect" {
				return nil, fmt.Errorf("load: package %s imports %q; store/call tables would not be exhaustive", pk.PkgPath, imp)
			}
		}
		for _, f := range pk.Syntax {
			for _, cg := range f.Comments {
				if strings.Contains(cg.Text(), "go:linkname") {
					return nil, fmt.Errorf("load: go:linkname in %s", pk.PkgPath)
				}
			}
		}
	}
	prog, spkgs := ssautil.Packages(pkgs, ssa.InstantiateGenerics)
	prog.Build()
	p.SSA = prog
	for i, sp := range spkgs {
		if sp == nil {
			return nil, fmt.Errorf("load: no SSA for %s", pkgs[i].PkgPath)
		}
		p.SPkgs[relPkg(sp.Pkg.Path())] = sp
	}
	for fn := range ssautil.AllFunctions(prog) {
		if fn.Pkg == nil || !isModulePkg(fn.Pkg.Pkg) || fn.Blocks == nil {
			continue
		}
		if fn.Synthetic != "" && fn.Synthetic != "package initializer" {
			continue
		}
		p.Funcs = append(p.Funcs, fn)
	}
	sort.Slice(p.Funcs, func(i, j int) bool { return p.FuncKey(p.Funcs[i]) < p.FuncKey(p.Funcs[j]) })
	for _, fn := range p.Funcs {
		p.byKey[p.FuncKey(fn)] = fn
	}
	p.index()
	return p, nil
}

// FuncKey is the stable, position-free name of a module function:
// "<module-relative package>:<RelString>", e.g.
// "transports/obfs4:(*obfs4Conn).Write", "obfs4proxy:copyLoop$1".
func (p *Prog) FuncKey(fn *ssa.Function) string {
	if fn.Pkg == nil {
		return fn.String()
	}
	return refRecvForm(relPkg(fn.Pkg.Pkg.Path()) + ":" + fn.RelString(fn.Pkg.Pkg))
}

var refKeys map[string]bool

// refRecvForm: a method whose receiver changed between value and pointer
// keeps the key it has in the reference tree ("pkg:(T).m" / "pkg:(*T).m").
func refRecvForm(key string) string {
	if refKeys == nil {
		refKeys = refFuncs()
		if refKeys == nil {
			refKeys = map[string]bool{}
		}
	}
	if refKeys[key] {
		return key
	}
	if alt := altRecvKey(key); alt != "" && refKeys[alt] {
		return alt
	}
	return key
}

// altRecvKey flips "(T).m" <-> "(*T).m" in "pkg:(T).m".
func altRecvKey(key string) string {
	i := strings.Index(key, ":(")
	if i < 0 {
		return ""
	}
	rest := key[i+2:]
	if strings.HasPrefix(rest, "*") {
		return key[:i+2] + rest[1:]
	}
	return key[:i+2] + "*" + rest
}

func (p *Prog) Func(key string) *ssa.Function { return p.byKey[key] }

func (p *Prog) Pos(pos token.Pos) string {
	if !pos.IsValid() {
		return "-"
	}
	ps := p.Fset.Position(pos)
	f := ps.Filename
	if i := strings.Index(f, p.Cfg.Dir+"/"); i == 0 {
		f = f[len(p.Cfg.Dir)+1:]
	}
	return fmt.Sprintf("%s:%d", f, ps.Line)
}

func (p *Prog) InstrPos(in ssa.Instruction) string {
	pos := in.Pos()
	if !pos.IsValid() {
		// fall back to nearest instruction of the block with a position
		if b := in.Block(); b != nil {
			for _, o := range b.Instrs {
				if o.Pos().IsValid() {
					pos = o.Pos()
					break
				}
			}
		}
	}
	return p.Pos(pos)
}

func typeKey(t types.Type) string {
	return types.TypeString(t, func(pk *types.Package) string {
		if isModulePkg(pk) {
			return relPkg(pk.Path())
		}
		return pk.Path()
	})
}

// fieldKeyOf returns the (struct type, field name) for a FieldAddr/Field.
func fieldKeyOf(structPtrOrVal types.Type, idx int) (FieldKey, bool) {
	t := structPtrOrVal
	if pt, ok := t.Underlying().(*types.Pointer); ok {
		t = pt.Elem()
	}
	st, ok := t.Underlying().(*types.Struct)
	if !ok || idx >= st.NumFields() {
		return FieldKey{}, false
	}
	return FieldKey{Type: typeKey(t), Field: st.Field(idx).Name()}, true
}

// CalleeID names the target of a call independently of positions:
//   - static function / method: types.Func.FullName(), e.g. "crypto/hmac.Equal",
//     "(*bytes.Buffer).Write";
//   - interface invoke: "(net.Conn).Write" (the method's FullName);
//   - builtin: "builtin:append";
//   - closure literal called directly: the anonymous function's FuncKey;
//   - anything else: "dynamic".
func (p *Prog) CalleeID(c *ssa.CallCommon) string {
	if c.IsInvoke() {
		return c.Method.FullName()
	}
	switch v := c.Value.(type) {
	case *ssa.Builtin:
		return "builtin:" + v.Name()
	case *ssa.Function:
		return p.fnID(v)
	case *ssa.MakeClosure:
		if fn, ok := v.Fn.(*ssa.Function); ok {
			return p.fnID(fn)
		}
	}
	return "dynamic"
}

func (p *Prog) fnID(fn *ssa.Function) string {
	if o := fn.Object(); o != nil {
		if f, ok := o.(*types.Func); ok {
			id := f.FullName()
			// keep the reference tree's receiver form for module methods
			if fn.Pkg != nil && isModulePkg(fn.Pkg.Pkg) && fn.Signature.Recv() != nil {
				key := relPkg(fn.Pkg.Pkg.Path()) + ":" + fn.RelString(fn.Pkg.Pkg)
				if ref := refRecvForm(key); ref != key {
					// "(pkgpath.T).m" <-> "(*pkgpath.T).m"
					if strings.HasPrefix(id, "(*") {
						id = "(" + id[2:]
					} else if strings.HasPrefix(id, "(") {
						id = "(*" + id[1:]
					}
				}
			}
			return id
		}
	}
	if fn.Origin() != nil {
		if o := fn.Origin().Object(); o != nil {
			return o.(*types.Func).FullName()
		}
	}
	if fn.Pkg != nil {
		return "closure:" + p.FuncKey(fn)
	}
	return fn.String()
}

// M expands "$M" in a callee id to the module path.
func M(id string) string { return strings.ReplaceAll(id, "$M", modulePath) }

func (p *Prog) index() {
	for _, fn := range p.Funcs {
		for _, b := range fn.Blocks {
			for _, in := range b.Instrs {
				switch in := in.(type) {
				case *ssa.Store:
					p.indexStore(fn, in, in.Addr, in.Val)
				}
				if ci, ok := in.(ssa.CallInstruction); ok {
					id := p.CalleeID(ci.Common())
					cs := &CallSite{Instr: ci, Caller: fn}
					p.sites[id] = append(p.sites[id], cs)
					if sc := ci.Common().StaticCallee(); sc != nil {
						p.fnSite[sc] = append(p.fnSite[sc], cs)
					}
				}
			}
		}
	}
}

func (p *Prog) indexStore(fn *ssa.Function, in ssa.Instruction, addr, val ssa.Value) {
	switch a := addr.(type) {
	case *ssa.FieldAddr:
		if k, ok := fieldKeyOf(a.X.Type(), a.Field); ok {
			p.stores[k] = append(p.stores[k], &StoreSite{Instr: in, Val: val, Fn: fn, Base: a.X})
		}
	case *ssa.Global:
		p.gstore[a] = append(p.gstore[a], &StoreSite{Instr: in, Val: val, Fn: fn})
	}
}

// Stores returns every store to the named field anywhere in the module.
// typ is module-relative, e.g. "transports/obfs4.obfs4Conn".
func (p *Prog) Stores(typ, field string) []*StoreSite {
	all := p.stores[FieldKey{typ, field}]
	var out []*StoreSite
	for _, s := range all {
		if !blockInfeasible(s.Instr.Block()) {
			out = append(out, s)
		}
	}
	return out
}

func liveSites(all []*CallSite) []*CallSite {
	var out []*CallSite
	for _, s := range all {
		if !blockInfeasible(s.Instr.Block()) {
			out = append(out, s)
		}
	}
	return out
}

// Sites returns the call sites (in module functions) of the callee id.
func (p *Prog) Sites(id string) []*CallSite { return liveSites(p.sites[M(id)]) }

// SitesOf returns the static call sites of a module function.
func (p *Prog) SitesOf(fn *ssa.Function) []*CallSite { return liveSites(p.fnSite[fn]) }

// CallsIn lists the call instructions of fn (not of its closures) whose callee
// id is one of ids.
func (p *Prog) CallsIn(fn *ssa.Function, ids ...string) []ssa.CallInstruction {
	var out []ssa.CallInstruction
	want := map[string]bool{}
	for _, id := range ids {
		want[M(id)] = true
	}
	for _, b := range fn.Blocks {
		if blockInfeasible(b) {
			continue
		}
		for _, in := range b.Instrs {
			if ci, ok := in.(ssa.CallInstruction); ok && want[p.CalleeID(ci.Common())] {
				out = append(out, ci)
			}
		}
	}
	return out
}

// Graphs builds (lazily) the CHA and VTA call graphs of the whole program.
func (p *Prog) Graphs() (*callgraph.Graph, *callgraph.Graph) {
	if p.cgCHA == nil {
		p.cgCHA = cha.CallGraph(p.SSA)
		p.cgVTA = vta.CallGraph(ssautil.AllFunctions(p.SSA), p.cgCHA)
	}
	return p.cgCHA, p.cgVTA
}

// Callees resolves the possible module-function targets of a call: the static
// callee, or for interface/dynamic calls the VTA edges.
func (p *Prog) Callees(ci ssa.CallInstruction) []*ssa.Function {
	if sc := ci.Common().StaticCallee(); sc != nil {
		return []*ssa.Function{sc}
	}
	_, g := p.Graphs()
	n := g.Nodes[ci.Parent()]
	var out []*ssa.Function
	if n == nil {
		return nil
	}
	for _, e := range n.Out {
		if e.Site == ci {
			out = append(out, e.Callee.Func)
		}
	}
	return out
}

// Reachable returns the module functions reachable from roots through static
// calls, closures created, `go`/`defer`, and VTA-resolved interface calls.
func (p *Prog) Reachable(roots ...*ssa.Function) map[*ssa.Function]bool {
	return p.ReachableSkip(nil, roots...)
}

// ReachableSkip is Reachable without following the calls for which skip
// returns true.
func (p *Prog) ReachableSkip(skip func(ssa.CallInstruction) bool, roots ...*ssa.Function) map[*ssa.Function]bool {
	seen := map[*ssa.Function]bool{}
	var visit func(fn *ssa.Function)
	visit = func(fn *ssa.Function) {
		if fn == nil || seen[fn] {
			return
		}
		seen[fn] = true
		if fn.Blocks == nil || fn.Pkg == nil || !isModulePkg(fn.Pkg.Pkg) {
			return
		}
		for _, b := range fn.Blocks {
			for _, in := range b.Instrs {
				if mc, ok := in.(*ssa.MakeClosure); ok {
					visit(mc.Fn.(*ssa.Function))
				}
				if ci, ok := in.(ssa.CallInstruction); ok {
					if skip != nil && skip(ci) {
						continue
					}
					for _, c := range p.Callees(ci) {
						visit(c)
					}
				}
			}
		}
	}
	for _, r := range roots {
		visit(r)
	}
	return seen
}

func (p *Prog) inModule(fn *ssa.Function) bool {
	return fn != nil && fn.Pkg != nil && isModulePkg(fn.Pkg.Pkg) && fn.Blocks != nil
}

// transientLoadFailure: the loader itself failed (not the tree): an error of the driver, or "no
// metadata for <std package>" / "could not import <std package>" diagnostics.
func transientLoadFailure(pkgs []*packages.Package, err error) bool {
	if err != nil {
		return true
	}
	transient := false
	packages.Visit(pkgs, nil, func(p *packages.Package) {
		for _, e := range p.Errors {
			if strings.Contains(e.Msg, "no metadata for") || e.Kind == packages.ListError && strings.Contains(e.Msg, "signal: killed") {
				transient = true
			}
		}
	})
	return transient
}
