// obfsvet decides the properties of /verif/properties.jsonl for the obfs4proxy
// tree by static analysis of its type-checked SSA form.  See /verif/DESIGN.md.
package main

import (
	"flag"
	"fmt"
	"os"
	"runtime/debug"
	"sort"
	"strconv"
	"strings"
	"sync"
	"time"
)

var registry = map[string]*PropInfo{}

var analysisMu sync.Mutex

func register(pi *PropInfo) { registry[pi.ID] = pi }

type buildCfg struct{ goos, goarch string }

func (b buildCfg) String() string { return b.goos + "/" + b.goarch }

var quickMatrix = []buildCfg{{"linux", "amd64"}}
var thoroughMatrix = []buildCfg{{"linux", "amd64"}, {"linux", "386"}, {"linux", "arm64"}, {"windows", "amd64"}, {"windows", "386"},
	{"darwin", "amd64"}, {"freebsd", "amd64"}, {"freebsd", "386"}}

func runOne(info *PropInfo, repo, tier string, bc buildCfg, overlay map[string][]byte) (c *Ctx, err error) {
	p, lerr := Load(LoadConfig{Dir: repo, GOOS: bc.goos, GOARCH: bc.goarch, Overlay: overlay})
	if lerr != nil {
		return nil, lerr
	}
	// the analyses share process-wide caches and the notion of "the program under
	// analysis": loading runs in parallel, analysing does not
	analysisMu.Lock()
	defer analysisMu.Unlock()
	c = NewCtx(p, info.ID, tier)
	func() {
		defer func() {
			if r := recover(); r != nil {
				c.Obl("meta", "checker-panic", "the checker must not crash: a crashed rule has decided nothing").
					Undecide("panic in rule code: %v\n%s", r, debug.Stack())
			}
		}()
		info.Run(c)
	}()
	for _, o := range c.Obls {
		o.Config = bc.String()
	}
	return c, nil
}

func main() {
	prop := flag.String("prop", "", "property id (C01..C20) or 'all'")
	tier := flag.String("tier", "", "quick|thorough (default: $VERIF_TIER or quick)")
	repo := flag.String("repo", "/repo", "repository to analyse")
	verif := flag.String("verif", "/verif", "verification directory (evidence, findings)")
	replay := flag.String("replay", "", "replay file: re-evaluate that obligation's property and print the obligation")
	selfcheck := flag.Bool("selfcheck", false, "run the seeded-break self-validation for the property")
	list := flag.Bool("list", false, "list obligations with verdicts")
	archive := flag.Bool("archive", false, "replay the archived sub-agent changes of the property in memory (part of the thorough tier)")
	trm := flag.String("term", "", "print the E7 terms of the results of module functions whose key contains this string")
	bnd := flag.String("bounds", "", "evaluate the bounds obligations of module functions whose key contains this string")
	dump := flag.String("dump", "", "print the SSA of module functions whose key contains this string")
	ncf := flag.String("nc", "", "print the necessary conditions of every block of module functions whose key contains this string")
	wfuncs := flag.String("write-funcs", "", "write the function keys of -repo (the reference tree) to this file and exit")
	flag.Parse()
	verifDirGlobal = *verif
	refRecvForm("") // initialise the reference-function table before anything runs in parallel
	if *ncf != "" {
		p, err := Load(LoadConfig{Dir: *repo})
		if err != nil {
			fmt.Fprintln(os.Stderr, err)
			os.Exit(2)
		}
		activeProg = p
		for _, fn := range p.Funcs {
			if !strings.Contains(p.FuncKey(fn), *ncf) {
				continue
			}
			fmt.Println("###", p.FuncKey(fn))
			ff := p.Facts(fn)
			for _, b := range fn.Blocks {
				var fs []string
				for _, f := range ff.NC(b) {
					fs = append(fs, p.FactString(f))
				}
				fmt.Printf("%d (%s) infeasible=%v: %s\n", b.Index, b.Comment, ff.Infeasible(b), strings.Join(fs, " ; "))
			}
		}
		return
	}
	if *wfuncs != "" {
		if err := writeRefFuncs(*repo, *wfuncs); err != nil {
			fmt.Fprintln(os.Stderr, "obfsvet:", err)
			os.Exit(2)
		}
		return
	}
	if *tier == "" {
		*tier = os.Getenv("VERIF_TIER")
	}
	if *tier != "thorough" {
		*tier = "quick"
	}
	seed, _ := strconv.ParseInt(os.Getenv("VERIF_SEED"), 10, 64)
	if *trm != "" {
		dumpTerms(*repo, *trm)
		return
	}
	if *bnd != "" {
		dumpBounds(*repo, *bnd)
		return
	}
	if *dump != "" {
		dumpFuncs(*repo, *dump)
		return
	}
	if *replay != "" {
		os.Exit(doReplay(*replay, *repo, *verif))
	}
	if *prop == "" {
		fmt.Fprintln(os.Stderr, "usage: obfsvet -prop Cxx [-tier quick|thorough] [-repo /repo]")
		os.Exit(2)
	}
	ids := []string{*prop}
	if *prop == "all" {
		ids = nil
		for id := range registry {
			ids = append(ids, id)
		}
		sort.Strings(ids)
	}
	exit := 0
	for _, id := range ids {
		info := registry[id]
		if info == nil {
			fmt.Fprintf(os.Stderr, "obfsvet: unknown property %q\n", id)
			os.Exit(2)
		}
		rc := runProp(info, *repo, *verif, *tier, seed, *list)
		if rc == 0 && *selfcheck || rc == 0 && *tier == "thorough" {
			if src := runSeeds(info, *repo, *verif); src != 0 {
				rc = src
			}
		}
		if rc == 0 && (*archive || *tier == "thorough") {
			if src := runArchive(info, *repo, *verif); src != 0 {
				rc = src
			}
		}
		if rc > exit {
			exit = rc
		}
	}
	os.Exit(exit)
}

func runProp(info *PropInfo, repo, verif, tier string, seed int64, list bool) int {
	start := time.Now()
	matrix := quickMatrix
	if tier == "thorough" {
		matrix = thoroughMatrix
	}
	res := &runResult{funcs: map[string]bool{}, assumed: map[string]bool{}, excluded: map[string]bool{}}
	type out struct {
		c   *Ctx
		err error
		bc  buildCfg
	}
	outs := make([]out, len(matrix))
	var wg sync.WaitGroup
	sem := make(chan struct{}, 4)
	for i, bc := range matrix {
		wg.Add(1)
		go func(i int, bc buildCfg) {
			defer wg.Done()
			sem <- struct{}{}
			defer func() { <-sem }()
			c, err := runOne(info, repo, tier, bc, nil)
			outs[i] = out{c, err, bc}
		}(i, bc)
	}
	wg.Wait()
	for _, o := range outs {
		if o.err != nil {
			fmt.Fprintf(os.Stderr, "obfsvet: %s: %v\n", o.bc, o.err)
			return 2
		}
		res.configs = append(res.configs, o.bc.String())
		res.obls = append(res.obls, o.c.Obls...)
		for k := range o.c.fnSeen {
			res.funcs[k] = true
		}
		for k := range o.c.Assumed {
			res.assumed[k] = true
		}
		for k := range o.c.Excluded {
			res.excluded[k] = true
		}
		res.notes = append(res.notes, o.c.Notes...)
		for _, n := range o.c.P.InlineNotes {
			res.notes = append(res.notes, "normalisation ("+o.bc.String()+"): "+n)
		}
	}
	if list {
		for _, o := range res.obls {
			fmt.Printf("%-9s %s  [%s] %s\n", o.Verdict, o.Key, o.Pos, o.Msg)
		}
	}
	cmd := "obfsvet " + strings.Join(os.Args[1:], " ")
	return finish(info, tier, seed, res, verif, start, cmd)
}
