package main

import (
	"fmt"
	"go/token"
	"go/types"

	"golang.org/x/tools/go/ssa"
)

// meekRdBufInvariant decides the heap invariant behind meekConn.Read's
// assertion panic("empty read buffer"):  rdBuf == nil  or  rdBuf.Len() > 0
// whenever no method of the connection is running.  (A) every store to the
// field stores nil or a buffer that is provably non-empty at the store; (B)
// after every operation that consumes from the buffer held in the field, every
// return is preceded by a re-check  rdBuf.Len() == 0  whose empty arm sets the
// field to nil.
func meekRdBufInvariant(c *Ctx, p *Prog, rule string) {
	const tM = "transports/meeklite.meekConn"
	ob := c.Obl(rule, tM+".rdBuf#nil-or-nonempty", "the carry-over buffer of meek's Read is nil or non-empty between calls (Read panics on an empty one): every store puts nil or a provably non-empty buffer there, and after consuming from it every return is preceded by a Len() == 0 test whose empty arm resets the field to nil")
	stores := p.Stores(tM, "rdBuf")
	isBuf := false
	for _, fn := range p.Funcs {
		if isBuf {
			break
		}
		allInstrs(fn, func(in ssa.Instruction) {
			if fa, ok := in.(*ssa.FieldAddr); ok {
				if k, ok := fieldKeyOf(fa.X.Type(), fa.Field); ok && k.Type == tM && k.Field == "rdBuf" {
					if pt, ok := fa.Type().Underlying().(*types.Pointer); ok {
						if isNamedType(pt.Elem(), "bytes", "Buffer") {
							isBuf = true
						}
					}
				}
			}
		})
	}
	if !isBuf {
		ob.HoldNT("the field is not a *bytes.Buffer in this tree: the emptiness assertion does not apply (index and slice bounds are decided by the bounds rule)")
		return
	}
	bad := ""
	bd := p.NewBounds()
	nStore := 0
	for _, st := range stores {
		if k, ok := st.Val.(*ssa.Const); ok && k.IsNil() {
			continue
		}
		nStore++
		v := unspill(st.Val)
		fn := st.Fn
		ff := p.Facts(fn)
		// operations on the buffer object v in this function
		var ops []ssa.CallInstruction
		allInstrs(fn, func(in ssa.Instruction) {
			if call, ok := in.(ssa.CallInstruction); ok {
				if r, _, _ := recvOf(call); r != nil && unspill(r) == v {
					ops = append(ops, call)
				}
			}
		})
		ok := false
		// (a) guarded by v.Len() > 0, nothing consumed from v between the test and the store
		for _, f := range ff.NC(st.Instr.Block()) {
			bo, isB := f.Cond.(*ssa.BinOp)
			if !isB {
				continue
			}
			lc, _ := callOf(unspill(bo.X))
			if lc == nil || p.CalleeID(lc.Common()) != "(*bytes.Buffer).Len" || unspill(lc.Common().Args[0]) != v {
				continue
			}
			k, isK := intConst(bo.Y)
			op := bo.Op
			if !f.Pol {
				op = negOp(op)
			}
			if !isK || !(k == 0 && (op == token.GTR || op == token.NEQ) || k == 1 && op == token.GEQ) {
				continue
			}
			clean := true
			for _, o := range ops {
				_, m, _ := recvOf(o)
				if accReadMethods[m] {
					continue
				}
				if canReachWithout(lc, o, nil) && canReachWithout(o, st.Instr, nil) {
					clean = false
				}
			}
			if clean {
				ok = true
			}
		}
		// (b) a buffer made over a slice that is provably non-empty, untouched before the store
		if nb, _ := callOf(v); !ok && nb != nil && p.CalleeID(nb.Common()) == "bytes.NewBuffer" {
			touched := false
			for _, o := range ops {
				_, m, _ := recvOf(o)
				if !accReadMethods[m] && canReachWithout(o, st.Instr, nil) {
					touched = true
				}
			}
			if si, isI := st.Instr.(*ssa.Store); isI && !touched {
				okp, _ := bd.Prove(fn, si, func(s *scope, pr *proof) []Cons {
					l, okl := s.lenLin(nb.Common().Args[0], pr)
					if !okl {
						return nil
					}
					return []Cons{geC(l, 1)}
				})
				ok = okp
			}
		}
		if !ok {
			bad = fmt.Sprintf("the buffer stored in rdBuf at %s is not provably non-empty: the next Read would hit panic(\"empty read buffer\")", p.InstrPos(st.Instr))
		}
	}
	// (B) consumers of the buffer held in the field
	nCons := 0
	for _, fn := range p.Funcs {
		var lens []ssa.Instruction
		var nilStores = map[ssa.Instruction]bool{}
		var cons []ssa.CallInstruction
		allInstrs(fn, func(in ssa.Instruction) {
			switch x := in.(type) {
			case ssa.CallInstruction:
				r, m, _ := recvOf(x)
				if r == nil || !isFieldLoad(r, tM, "rdBuf") {
					return
				}
				if m == "Len" {
					lens = append(lens, x)
				} else if !accReadMethods[m] {
					cons = append(cons, x)
				}
			case *ssa.Store:
				if k, ok := fieldAddrKey(x.Addr); ok && k.Type == tM && k.Field == "rdBuf" {
					if kc, ok := x.Val.(*ssa.Const); ok && kc.IsNil() {
						nilStores[x] = true
					}
				}
			}
		})
		for _, cn := range cons {
			nCons++
			lenSet := map[ssa.Instruction]bool{}
			for _, l := range lens {
				if canReachWithout(cn, l, nil) {
					lenSet[l] = true
				}
			}
			for _, r := range returnsOf(fn) {
				if !canReachWithout(cn, r, nil) {
					continue
				}
				if canReachWithout(cn, r, lenSet) {
					bad = fmt.Sprintf("after consuming from rdBuf at %s the return at %s is reachable without re-checking rdBuf.Len(): an emptied buffer stays in the field", p.InstrPos(cn), p.InstrPos(r))
				}
			}
			// each re-check: its "empty" arm stores nil before returning
			for l := range lenSet {
				lv := l.(ssa.Value)
				blk := l.Block()
				ifi := blockIf(blk)
				if ifi == nil {
					bad = "the result of rdBuf.Len() at " + p.InstrPos(l) + " is not tested"
					continue
				}
				cond, pol := stripNot(ifi.Cond, true)
				bo, isB := cond.(*ssa.BinOp)
				if !isB || unspill(bo.X) != lv {
					bad = "the result of rdBuf.Len() at " + p.InstrPos(l) + " is not compared with 0"
					continue
				}
				k, isK := intConst(bo.Y)
				// successor index taken when the buffer is empty
				emptyIdx := -1
				for si := 0; si < 2; si++ {
					op := bo.Op
					if (si == 0) != pol {
						op = negOp(op)
					}
					if isK && (k == 0 && (op == token.EQL || op == token.LEQ) || k == 1 && op == token.LSS) {
						emptyIdx = si
					}
				}
				if emptyIdx < 0 {
					bad = "the test of rdBuf.Len() at " + p.InstrPos(l) + " does not single out the empty buffer"
					continue
				}
				s := blk.Succs[emptyIdx]
				if len(s.Instrs) == 0 {
					continue
				}
				for _, r := range returnsOf(fn) {
					first := s.Instrs[0]
					if nilStores[first] {
						continue
					}
					if (first == ssa.Instruction(r) || canReachWithout(first, r, nil)) && (first == ssa.Instruction(r) || canReachWithout(first, r, nilStores)) {
						bad = fmt.Sprintf("the empty arm of the re-check at %s reaches the return at %s without setting rdBuf to nil", p.InstrPos(l), p.InstrPos(r))
					}
				}
			}
		}
	}
	if nStore == 0 && bad == "" {
		bad = "no store of a buffer into rdBuf found"
	}
	if bad != "" {
		ob.Violate("%s", bad)
	} else {
		ob.HoldNT("%d non-nil store(s), each of a provably non-empty buffer; %d consuming site(s), each followed by the Len()==0 → nil re-check", nStore, nCons)
	}
}

// meekResponseRules: (a) what roundTrip buffers per response is bounded by the reader it hands to
// io.ReadAll (io.LimitReader with a constant <= 65536) — not by a header the peer controls;
// (b) roundTrip never reports success without the body it read: a return with a nil error returns
// the io.ReadAll result (an "empty response" shortcut keyed on Content-Length drops chunked bodies).
func meekResponseRules(c *Ctx, p *Prog, rule string) {
	rt := p.Func("transports/meeklite:(*meekConn).roundTrip")
	ob := c.Obl(rule, "transports/meeklite:(*meekConn).roundTrip#bounded-complete-read", "every response body is read through io.ReadAll(io.LimitReader(body, n)) with a constant n <= 65536 (the peer cannot make the client buffer more), and roundTrip reports success only with what that read returned")
	if rt == nil {
		ob.Undecide("roundTrip not found")
		return
	}
	bad := ""
	var reads []*ssa.Call
	for _, fn := range p.Funcs {
		if fn.Pkg == nil || relPkg(fn.Pkg.Pkg.Path()) != "transports/meeklite" {
			continue
		}
		for _, call := range p.CallsIn(fn, "io.ReadAll", "io/ioutil.ReadAll") {
			cv, ok := call.(*ssa.Call)
			if !ok {
				continue
			}
			reads = append(reads, cv)
			lr, _ := callOf(unspill(stripConv(cv.Common().Args[0])))
			if mi, isMI := unspill(cv.Common().Args[0]).(*ssa.MakeInterface); isMI {
				lr, _ = callOf(unspill(mi.X))
			}
			if lr == nil || p.CalleeID(lr.Common()) != "io.LimitReader" {
				bad = "io.ReadAll at " + p.InstrPos(cv) + " reads an unlimited body: a response without Content-Length (chunked) is buffered whole"
				continue
			}
			if k, ok := intConst(lr.Common().Args[1]); !ok || k <= 0 || k > 65536 {
				bad = "the limit at " + p.InstrPos(lr) + " is not a constant <= 65536"
			}
		}
	}
	if len(reads) == 0 && bad == "" {
		bad = "no io.ReadAll of the response body found"
	}
	ei := errResultIndex(rt)
	for _, r := range returnsOf(rt) {
		ev := unspill(r.Results[ei])
		if k, ok := ev.(*ssa.Const); !ok || !k.IsNil() {
			// error value not constantly nil: data may be anything only if it is the read's own result pair
			if dk, isK := unspill(r.Results[0]).(*ssa.Const); isK && dk.IsNil() {
				continue
			}
		}
		rc, idx := callOf(unspill(r.Results[0]))
		isRead := false
		for _, rd := range reads {
			if rc == rd && idx == 0 {
				isRead = true
			}
		}
		if !isRead {
			bad = "the return at " + p.InstrPos(r) + " can report success without the body io.ReadAll returned"
		}
	}
	if bad != "" {
		ob.Violate("%s", bad)
	} else {
		ob.HoldNT("%d read(s), each io.ReadAll(io.LimitReader(.., <= 65536)); success returns hand out the read's result", len(reads))
	}
}
