package main

import (
	"golang.org/x/tools/go/ssa"
)

// privateCopyOf: v is a freshly allocated slice that holds exactly the bytes
// of src by the time each instruction of `by` executes:
//
//	bytes.Clone(src) | append(nil / empty / fresh, src...) |
//	make([]byte, n) with n == len(src) proved, filled by a copy(v, src) that dominates `by`
//
// (the copy's destination may be v itself or a load of the field v was just stored in).
func (p *Prog) privateCopyOf(fn *ssa.Function, v, src ssa.Value, by []ssa.Instruction) (bool, string) {
	v, src = unspill(v), unspill(src)
	if cc, _ := callOf(v); cc != nil {
		switch p.CalleeID(cc.Common()) {
		case "bytes.Clone":
			if unspill(cc.Common().Args[0]) == src {
				return true, "bytes.Clone"
			}
			return false, "bytes.Clone of something else"
		case "builtin:append":
			a := cc.Common().Args
			if len(a) != 2 || unspill(a[1]) != src {
				return false, "append of something else"
			}
			for _, o := range p.Origins(a[0]) {
				switch x := o.(type) {
				case *ssa.Alloc:
				case *ssa.MakeSlice:
					if k, ok := intConst(x.Len); !ok || k != 0 {
						return false, "appended to a non-empty slice"
					}
				case *ssa.Slice:
					if _, isAlloc := x.X.(*ssa.Alloc); !isAlloc {
						return false, "appended to shared storage"
					}
					if x.High == nil {
						return false, "appended to a non-empty slice"
					} else if k, ok := intConst(x.High); !ok || k != 0 {
						return false, "appended to a non-empty slice"
					}
				case *ssa.Const:
					if !x.IsNil() {
						return false, "appended to shared storage"
					}
				default:
					return false, "appended to shared storage"
				}
			}
			return true, "append(fresh, src...)"
		}
		return false, "not a copy"
	}
	// make([]byte, n): a MakeSlice, or (constant n) a slice of a new array
	var ms ssa.Value
	switch x := v.(type) {
	case *ssa.MakeSlice:
		ms = x
	case *ssa.Slice:
		if a, isA := x.X.(*ssa.Alloc); isA && x.Low == nil && len(*a.Referrers()) == 1 {
			ms = x
		}
	}
	if ms == nil {
		return false, "not a copy"
	}
	// where v lives: itself, or the field it was stored in
	var fieldOf *FieldKey
	var fieldBase ssa.Value
	var fieldStore *ssa.Store
	for _, r := range *ms.Referrers() {
		if st, isSt := r.(*ssa.Store); isSt && st.Val == ms {
			if fa, isFA := st.Addr.(*ssa.FieldAddr); isFA {
				if k, ok := fieldKeyOf(fa.X.Type(), fa.Field); ok {
					kk := k
					fieldOf, fieldBase, fieldStore = &kk, unspill(fa.X), st
				}
			}
		}
	}
	for _, cp := range p.CallsIn(fn, "builtin:copy") {
		a := cp.Common().Args
		if unspill(a[1]) != src {
			continue
		}
		dst := unspill(a[0])
		okDst := dst == ms
		if !okDst && fieldOf != nil {
			if k, base, ok := fieldLoad(dst); ok && k == *fieldOf && unspill(base) == fieldBase && instrDominates(fieldStore, cp) {
				okDst = true
			}
		}
		if !okDst {
			continue
		}
		dom := true
		for _, b := range by {
			if !instrDominates(cp, b) {
				dom = false
			}
		}
		if !dom {
			continue
		}
		cc, isC := cp.(*ssa.Call)
		if !isC {
			continue
		}
		okp, why := p.NewBounds().Prove(fn, cc, func(s *scope, pr *proof) []Cons {
			l1, ok1 := s.lenLin(ms, pr)
			l2, ok2 := s.lenLin(src, pr)
			if !ok1 || !ok2 {
				return nil
			}
			return eq(l1, l2)
		})
		if !okp {
			return false, "the fresh slice is not provably as long as the source (" + why + ")"
		}
		return true, "make + copy"
	}
	return false, "a fresh slice that is never filled from the source"
}
