package main

// E2 — value provenance: abstract locations, a module-wide write index and
// backward slices over SSA def-use edges (DESIGN 2.3, A.3).  Field-based and
// flow-insensitive across functions; within a function a query can demand that
// a write dominates the read.

import (
	"go/token"
	"go/types"

	"golang.org/x/tools/go/ssa"
)

// Loc is an abstract memory location.
type Loc struct {
	Kind  byte      // 'a' local object (Alloc/MakeSlice), 'f' struct field, 'g' global, 'v' pointee of an opaque value
	V     ssa.Value // for 'a','g','v'
	F     FieldKey  // for 'f'
	Deref int       // extra dereferences (pointee of the pointer/interface/slice stored at the location)
}

type Write struct {
	Instr ssa.Instruction
	Vals  []ssa.Value // value stored, or the other operands of a call that receives the location
	Fn    *ssa.Function
	Call  bool
}

type provIndex struct {
	writes  map[Loc][]*Write
	closure map[*ssa.Function][]*ssa.MakeClosure
	alias   map[*ssa.Function]int // callee returns (a view of) parameter i; -1 none
}

func namedStruct(t types.Type) bool {
	if pt, ok := t.Underlying().(*types.Pointer); ok {
		t = pt.Elem()
	}
	if _, ok := t.(*types.Named); !ok {
		return false
	}
	_, ok := t.Underlying().(*types.Struct)
	return ok
}

func (p *Prog) prov() *provIndex {
	if p.pi != nil {
		return p.pi
	}
	pi := &provIndex{writes: map[Loc][]*Write{}, closure: map[*ssa.Function][]*ssa.MakeClosure{}, alias: map[*ssa.Function]int{}}
	p.pi = pi
	for _, fn := range p.Funcs {
		for _, b := range fn.Blocks {
			for _, in := range b.Instrs {
				if mc, ok := in.(*ssa.MakeClosure); ok {
					f := mc.Fn.(*ssa.Function)
					pi.closure[f] = append(pi.closure[f], mc)
				}
			}
		}
	}
	for _, fn := range p.Funcs {
		for _, b := range fn.Blocks {
			for _, in := range b.Instrs {
				switch in := in.(type) {
				case *ssa.Store:
					for _, l := range p.Backing(in.Addr) {
						pi.writes[l] = append(pi.writes[l], &Write{Instr: in, Vals: []ssa.Value{in.Val}, Fn: fn})
					}
				case *ssa.MapUpdate:
					for _, l := range p.Backing(in.Map) {
						pi.writes[l] = append(pi.writes[l], &Write{Instr: in, Vals: []ssa.Value{in.Key, in.Value}, Fn: fn})
					}
				case *ssa.Send:
					for _, l := range p.Backing(in.Chan) {
						pi.writes[l] = append(pi.writes[l], &Write{Instr: in, Vals: []ssa.Value{in.X}, Fn: fn})
					}
				}
				ci, ok := in.(ssa.CallInstruction)
				if !ok {
					continue
				}
				p.indexCallWrites(fn, ci)
			}
		}
	}
	return pi
}

func refLike(t types.Type) bool {
	switch t.Underlying().(type) {
	case *types.Pointer, *types.Slice, *types.Interface, *types.Map, *types.Chan, *types.Signature:
		return true
	}
	return false
}

// pureCallees never write through their arguments.
var pureCallees = map[string]bool{
	"crypto/hmac.Equal": true, "bytes.Index": true, "bytes.IndexByte": true, "bytes.Equal": true, "bytes.Clone": true,
	"crypto/subtle.ConstantTimeCompare": true, "crypto/subtle.ConstantTimeByteEq": true,
	"encoding/hex.EncodeToString": true, "strconv.FormatInt": true, "strconv.Itoa": true, "strconv.Atoi": true,
	"fmt.Sprintf": true, "fmt.Errorf": true, "errors.New": true, "errors.Is": true,
	"builtin:len": true, "builtin:cap": true, "builtin:print": true, "builtin:println": true, "builtin:panic": true,
	"(encoding/binary.bigEndian).Uint16": true, "(encoding/binary.bigEndian).Uint32": true, "(encoding/binary.bigEndian).Uint64": true,
	"(encoding/binary.littleEndian).Uint16": true, "(encoding/binary.littleEndian).Uint32": true, "(encoding/binary.littleEndian).Uint64": true,
	"crypto/sha256.Sum256": true, "crypto/sha512.Sum512": true, "(*bytes.Buffer).Len": true, "(*bytes.Buffer).Bytes": true,
	"bytes.NewBuffer": true, "bytes.NewReader": true, "time.Now": true, "(time.Time).Add": true, "(time.Time).After": true,
	"(time.Time).Sub": true, "(time.Time).Unix": true, "os.IsNotExist": true, "path.Join": true,
	"strings.TrimSuffix": true, "strings.ToUpper": true, "net.SplitHostPort": true,
	"golang.org/x/crypto/hkdf.Extract": true,
}

func (p *Prog) indexCallWrites(fn *ssa.Function, ci ssa.CallInstruction) {
	pi := p.pi
	c := ci.Common()
	id := p.CalleeID(c)
	if pureCallees[id] {
		return
	}
	var ops []ssa.Value
	if c.IsInvoke() {
		ops = append(ops, c.Value)
	} else if mc, ok := c.Value.(*ssa.MakeClosure); ok {
		ops = append(ops, mc.Bindings...)
	}
	ops = append(ops, c.Args...)
	if id == "builtin:copy" && len(c.Args) == 2 {
		for _, l := range p.Backing(c.Args[0]) {
			pi.writes[l] = append(pi.writes[l], &Write{Instr: ci, Vals: []ssa.Value{c.Args[1]}, Fn: fn, Call: true})
		}
		return
	}
	if id == "builtin:append" {
		// append(dst, src...) writes src into dst's backing (when it fits)
		if len(c.Args) >= 2 {
			for _, l := range p.Backing(c.Args[0]) {
				pi.writes[l] = append(pi.writes[l], &Write{Instr: ci, Vals: c.Args[1:], Fn: fn, Call: true})
			}
		}
		return
	}
	if id == "golang.org/x/crypto/nacl/secretbox.Open" || id == "golang.org/x/crypto/nacl/secretbox.Seal" {
		// only the output operand is written; box/message, nonce and key are read
		for _, l := range p.Backing(c.Args[0]) {
			pi.writes[l] = append(pi.writes[l], &Write{Instr: ci, Vals: c.Args[1:], Fn: fn, Call: true})
		}
		return
	}
	if id == "builtin:delete" {
		for _, l := range p.Backing(c.Args[0]) {
			pi.writes[l] = append(pi.writes[l], &Write{Instr: ci, Vals: c.Args[1:], Fn: fn, Call: true})
		}
		return
	}
	for i, a := range ops {
		if !refLike(a.Type()) {
			continue
		}
		var others []ssa.Value
		for j, o := range ops {
			if j != i {
				others = append(others, o)
			}
		}
		for _, l := range p.Backing(a) {
			// the object the reference points to
			pi.writes[l] = append(pi.writes[l], &Write{Instr: ci, Vals: others, Fn: fn, Call: true})
		}
	}
}

// aliasParam: does fn return a (converted) view of one of its parameters on
// every return?  (The repository's Bytes() accessors.)
func (p *Prog) aliasParam(fn *ssa.Function) int {
	pi := p.prov()
	if r, ok := pi.alias[fn]; ok {
		return r
	}
	pi.alias[fn] = -1
	if fn.Blocks == nil || fn.Signature.Results().Len() != 1 {
		return -1
	}
	res := -1
	for _, r := range returnsOf(fn) {
		v := r.Results[0]
		for {
			switch x := v.(type) {
			case *ssa.ChangeType:
				v = x.X
				continue
			case *ssa.Convert:
				v = x.X
				continue
			case *ssa.SliceToArrayPointer:
				v = x.X
				continue
			}
			break
		}
		par, ok := v.(*ssa.Parameter)
		if !ok {
			return -1
		}
		idx := -1
		for i, q := range fn.Params {
			if q == par {
				idx = i
			}
		}
		if idx < 0 || (res >= 0 && res != idx) {
			return -1
		}
		res = idx
	}
	pi.alias[fn] = res
	return res
}

// Backing returns the abstract locations an address-like or reference-like
// value designates.
func (p *Prog) Backing(v ssa.Value) []Loc {
	return p.backing(v, map[ssa.Value]bool{}, 0)
}

func (p *Prog) backing(v ssa.Value, seen map[ssa.Value]bool, depth int) []Loc {
	if seen[v] || depth > 30 {
		return nil
	}
	seen[v] = true
	switch x := v.(type) {
	case *ssa.Alloc:
		return []Loc{{Kind: 'a', V: x}}
	case *ssa.MakeSlice:
		return []Loc{{Kind: 'a', V: x}}
	case *ssa.MakeMap:
		return []Loc{{Kind: 'a', V: x}}
	case *ssa.MakeChan:
		return []Loc{{Kind: 'a', V: x}}
	case *ssa.Slice:
		return p.backing(x.X, seen, depth+1)
	case *ssa.FieldAddr:
		if namedStruct(x.X.Type()) {
			if k, ok := fieldKeyOf(x.X.Type(), x.Field); ok {
				return []Loc{{Kind: 'f', F: k}}
			}
		}
		return p.backing(x.X, seen, depth+1)
	case *ssa.IndexAddr:
		return p.backing(x.X, seen, depth+1)
	case *ssa.Global:
		return []Loc{{Kind: 'g', V: x}}
	case *ssa.UnOp:
		if x.Op == token.MUL {
			var out []Loc
			for _, l := range p.backing(x.X, seen, depth+1) {
				l.Deref++
				out = append(out, l)
			}
			return out
		}
	case *ssa.Phi:
		var out []Loc
		for _, e := range x.Edges {
			out = append(out, p.backing(e, seen, depth+1)...)
		}
		return out
	case *ssa.ChangeType:
		return p.backing(x.X, seen, depth+1)
	case *ssa.Convert:
		return p.backing(x.X, seen, depth+1)
	case *ssa.MakeInterface:
		return p.backing(x.X, seen, depth+1)
	case *ssa.ChangeInterface:
		return p.backing(x.X, seen, depth+1)
	case *ssa.SliceToArrayPointer:
		return p.backing(x.X, seen, depth+1)
	case *ssa.TypeAssert:
		return p.backing(x.X, seen, depth+1)
	case *ssa.FreeVar:
		var out []Loc
		fn := x.Parent()
		idx := -1
		for i, fv := range fn.FreeVars {
			if fv == x {
				idx = i
			}
		}
		for _, mc := range p.prov().closure[fn] {
			if idx >= 0 && idx < len(mc.Bindings) {
				out = append(out, p.backing(mc.Bindings[idx], seen, depth+1)...)
			}
		}
		if len(out) > 0 {
			return out
		}
	case *ssa.Call:
		c := x.Common()
		if b, ok := c.Value.(*ssa.Builtin); ok && b.Name() == "append" {
			return append(p.backing(c.Args[0], seen, depth+1), Loc{Kind: 'v', V: x})
		}
		if sc := c.StaticCallee(); sc != nil && p.inModule(sc) {
			if i := p.aliasParam(sc); i >= 0 && i < len(c.Args) {
				return p.backing(c.Args[i], seen, depth+1)
			}
		}
	}
	return []Loc{{Kind: 'v', V: v}}
}

// ---- backward slices ------------------------------------------------------

type SliceOpt struct {
	// At: when set, a write inside At's function is only followed if it
	// dominates At (must-depend queries).
	At ssa.Instruction
	// Interproc: follow parameters to the arguments at every static call site.
	Interproc bool
	// Stop: treat the value as a leaf.
	Stop func(ssa.Value) bool
	// NoMem: do not follow memory (loads stop at the address expression).
	NoMem bool
	// CallDeps overrides the default "result depends on all operands" summary.
	CallDeps func(c *ssa.Call) ([]ssa.Value, bool)
	// NoDescend: do not look inside module callees (by default the returned
	// values of a statically resolved module function are followed into its
	// body, in addition to the operands of the call, so that a computation
	// moved into a helper keeps its provenance).
	NoDescend bool
}

type SliceRes struct {
	p    *Prog
	Seen map[ssa.Value]bool
	Locs map[Loc]bool
	// Writes followed
	Writes map[*Write]bool
	// Descended: calls of module functions whose bodies were followed.
	Descended map[*ssa.Call]bool
	stack     []*ssa.Call
}

func (p *Prog) Slice(v ssa.Value, opt SliceOpt) *SliceRes {
	p.prov()
	r := &SliceRes{p: p, Seen: map[ssa.Value]bool{}, Locs: map[Loc]bool{}, Writes: map[*Write]bool{}, Descended: map[*ssa.Call]bool{}}
	r.visit(v, &opt, 0)
	return r
}

func (r *SliceRes) visitMem(locs []Loc, opt *SliceOpt, depth int) {
	if opt.NoMem {
		return
	}
	for _, l := range locs {
		if r.Locs[l] {
			continue
		}
		r.Locs[l] = true
		for _, w := range r.p.pi.writes[l] {
			if opt.At != nil && w.Fn == opt.At.Parent() && !instrDominates(w.Instr, opt.At) {
				continue
			}
			r.Writes[w] = true
			if cv, ok := w.Instr.(ssa.Value); ok && w.Call {
				r.Seen[cv] = true // the call that filled the location is part of its provenance
			}
			for _, x := range w.Vals {
				r.visit(x, opt, depth+1)
			}
		}
	}
}

func (r *SliceRes) visit(v ssa.Value, opt *SliceOpt, depth int) {
	if v == nil || r.Seen[v] || depth > 200 {
		return
	}
	r.Seen[v] = true
	if opt.Stop != nil && opt.Stop(v) {
		return
	}
	p := r.p
	switch x := v.(type) {
	case *ssa.Const, *ssa.Builtin, *ssa.Function:
		return
	case *ssa.Global:
		r.visitMem([]Loc{{Kind: 'g', V: x}}, opt, depth)
	case *ssa.Parameter:
		if opt.Interproc {
			fn := x.Parent()
			idx := -1
			for i, q := range fn.Params {
				if q == x {
					idx = i
				}
			}
			for _, cs := range p.fnSite[fn] {
				args := cs.Instr.Common().Args
				if idx >= 0 && idx < len(args) {
					r.visit(args[idx], opt, depth+1)
				}
			}
		}
		if refLike(x.Type()) {
			r.visitMem([]Loc{{Kind: 'v', V: x}}, opt, depth)
		}
	case *ssa.FreeVar:
		fn := x.Parent()
		for i, fv := range fn.FreeVars {
			if fv == x {
				for _, mc := range p.pi.closure[fn] {
					if i < len(mc.Bindings) {
						r.visit(mc.Bindings[i], opt, depth+1)
					}
				}
			}
		}
	case *ssa.Alloc:
		r.visitMem([]Loc{{Kind: 'a', V: x}}, opt, depth)
	case *ssa.MakeSlice:
		r.visit(x.Len, opt, depth+1)
		r.visit(x.Cap, opt, depth+1)
		r.visitMem([]Loc{{Kind: 'a', V: x}}, opt, depth)
	case *ssa.MakeMap, *ssa.MakeChan:
		r.visitMem([]Loc{{Kind: 'a', V: v}}, opt, depth)
	case *ssa.UnOp:
		if x.Op == token.MUL {
			// load: the address computation, the location's writers and, for
			// reference-typed contents, the pointee's writers
			r.visitAddr(x.X, opt, depth+1)
			locs := p.Backing(x.X)
			r.visitMem(locs, opt, depth)
			if refLike(x.Type()) {
				var d []Loc
				for _, l := range locs {
					l.Deref++
					d = append(d, l)
				}
				r.visitMem(d, opt, depth)
			}
			return
		}
		r.visit(x.X, opt, depth+1)
	case *ssa.BinOp:
		r.visit(x.X, opt, depth+1)
		r.visit(x.Y, opt, depth+1)
	case *ssa.Phi:
		for _, e := range x.Edges {
			r.visit(e, opt, depth+1)
		}
	case *ssa.Extract:
		if c, ok := x.Tuple.(*ssa.Call); ok {
			r.descend(c, x.Index, opt, depth)
		}
		r.visit(x.Tuple, opt, depth+1)
	case *ssa.Call:
		r.descend(x, -1, opt, depth)
		if opt.CallDeps != nil {
			if deps, ok := opt.CallDeps(x); ok {
				for _, d := range deps {
					r.visit(d, opt, depth+1)
				}
				return
			}
		}
		c := x.Common()
		if c.IsInvoke() {
			r.visit(c.Value, opt, depth+1)
		} else if _, isFn := c.Value.(*ssa.Function); !isFn {
			if _, isB := c.Value.(*ssa.Builtin); !isB {
				r.visit(c.Value, opt, depth+1)
			}
		}
		for _, a := range c.Args {
			r.visit(a, opt, depth+1)
		}
		if refLike(x.Type()) {
			r.visitMem(p.Backing(x), opt, depth)
		}
	case *ssa.Slice:
		r.visit(x.Low, opt, depth+1)
		r.visit(x.High, opt, depth+1)
		r.visit(x.Max, opt, depth+1)
		if _, isPtr := x.X.Type().Underlying().(*types.Pointer); isPtr {
			r.visitAddr(x.X, opt, depth+1)
			r.visitMem(p.Backing(x.X), opt, depth)
		} else {
			r.visit(x.X, opt, depth+1)
		}
	case *ssa.IndexAddr, *ssa.FieldAddr:
		r.visitAddr(v, opt, depth+1)
		r.visitMem(p.Backing(v), opt, depth)
	case *ssa.Index:
		r.visit(x.X, opt, depth+1)
		r.visit(x.Index, opt, depth+1)
	case *ssa.Field:
		r.visit(x.X, opt, depth+1)
	case *ssa.Lookup:
		r.visit(x.X, opt, depth+1)
		r.visit(x.Index, opt, depth+1)
	case *ssa.Convert:
		r.visit(x.X, opt, depth+1)
	case *ssa.ChangeType:
		r.visit(x.X, opt, depth+1)
	case *ssa.ChangeInterface:
		r.visit(x.X, opt, depth+1)
	case *ssa.MakeInterface:
		r.visit(x.X, opt, depth+1)
	case *ssa.SliceToArrayPointer:
		r.visit(x.X, opt, depth+1)
	case *ssa.TypeAssert:
		r.visit(x.X, opt, depth+1)
	case *ssa.MakeClosure:
		for _, b := range x.Bindings {
			r.visit(b, opt, depth+1)
		}
	case *ssa.Range:
		r.visit(x.X, opt, depth+1)
	case *ssa.Next:
		r.visit(x.Iter, opt, depth+1)
	case *ssa.Select:
		for _, s := range x.States {
			r.visit(s.Chan, opt, depth+1)
			r.visit(s.Send, opt, depth+1)
		}
	default:
		if in, ok := v.(ssa.Instruction); ok {
			for _, op := range in.Operands(nil) {
				if *op != nil {
					r.visit(*op, opt, depth+1)
				}
			}
		}
	}
}

// descend follows the values returned by a statically resolved module callee
// (result index idx, or all results when idx < 0).  Recursion and deep chains
// fall back to the operand summary alone.
func (r *SliceRes) descend(c *ssa.Call, idx int, opt *SliceOpt, depth int) {
	if opt.NoDescend || len(r.stack) >= 6 {
		return
	}
	sc := c.Common().StaticCallee()
	if sc == nil || !r.p.inModule(sc) || len(sc.Blocks) == 0 {
		return
	}
	for _, s := range r.stack {
		if s.Common().StaticCallee() == sc {
			return
		}
	}
	r.Descended[c] = true
	r.stack = append(r.stack, c)
	for _, ret := range returnsOf(sc) {
		for i, res := range ret.Results {
			if idx < 0 || i == idx {
				r.visit(res, opt, depth+1)
			}
		}
	}
	r.stack = r.stack[:len(r.stack)-1]
}

// visitAddr follows the values an address computation depends on (base
// pointers and indices), without loading.
func (r *SliceRes) visitAddr(a ssa.Value, opt *SliceOpt, depth int) {
	switch x := a.(type) {
	case *ssa.FieldAddr:
		r.Seen[x] = true
		r.visit(x.X, opt, depth+1)
	case *ssa.IndexAddr:
		r.Seen[x] = true
		r.visit(x.Index, opt, depth+1)
		if _, isPtr := x.X.Type().Underlying().(*types.Pointer); isPtr {
			r.visitAddr(x.X, opt, depth+1)
		} else {
			r.visit(x.X, opt, depth+1)
		}
	case *ssa.Alloc, *ssa.Global:
		r.Seen[x] = true
	default:
		r.visit(a, opt, depth+1)
	}
}

// DependsOn reports whether the slice reached value w.
func (r *SliceRes) DependsOn(w ssa.Value) bool { return r.Seen[w] }

// DependsOnCall reports whether the slice contains a call to one of ids.
func (r *SliceRes) DependsOnCall(ids ...string) *ssa.Call {
	for v := range r.Seen {
		if c, ok := v.(*ssa.Call); ok {
			id := r.p.CalleeID(c.Common())
			for _, w := range ids {
				if id == M(w) {
					return c
				}
			}
		}
	}
	return nil
}

// DependsOnField reports whether the slice loaded from the given field.
func (r *SliceRes) DependsOnField(typ, field string) bool {
	for l := range r.Locs {
		if l.Kind == 'f' && l.F.Type == typ && l.F.Field == field {
			return true
		}
	}
	return false
}

// Params lists the parameters reached.
func (r *SliceRes) Params() []*ssa.Parameter {
	var out []*ssa.Parameter
	for v := range r.Seen {
		if q, ok := v.(*ssa.Parameter); ok {
			out = append(out, q)
		}
	}
	return out
}

// ---- small value helpers --------------------------------------------------

// stripConv removes value-preserving conversions.
func stripConv(v ssa.Value) ssa.Value {
	for {
		switch x := v.(type) {
		case *ssa.ChangeType:
			v = x.X
		case *ssa.Convert:
			v = x.X
		case *ssa.MakeInterface:
			v = x.X
		case *ssa.ChangeInterface:
			v = x.X
		case *ssa.SliceToArrayPointer:
			v = x.X
		default:
			return unspill(v)
		}
	}
}

// fieldLoad matches a load of field `field` of struct type typ and returns
// the base pointer.
func fieldLoad(v ssa.Value) (FieldKey, ssa.Value, bool) {
	v = unspill(v)
	switch x := v.(type) {
	case *ssa.UnOp:
		if x.Op != token.MUL {
			return FieldKey{}, nil, false
		}
		fa, ok := x.X.(*ssa.FieldAddr)
		if !ok {
			return FieldKey{}, nil, false
		}
		k, ok := fieldKeyOf(fa.X.Type(), fa.Field)
		return k, fa.X, ok
	case *ssa.Field:
		k, ok := fieldKeyOf(x.X.Type(), x.Field)
		return k, x.X, ok
	}
	return FieldKey{}, nil, false
}

// isFieldLoad: v is a load of typ.field.
func isFieldLoad(v ssa.Value, typ, field string) bool {
	k, _, ok := fieldLoad(v)
	return ok && k.Type == typ && k.Field == field
}

// fieldAddrKey matches &x.f (possibly with an IndexAddr/Slice on top).
func fieldAddrKey(v ssa.Value) (FieldKey, bool) {
	for {
		switch x := v.(type) {
		case *ssa.FieldAddr:
			return fieldKeyOf(x.X.Type(), x.Field)
		case *ssa.IndexAddr:
			v = x.X
		case *ssa.Slice:
			v = x.X
		default:
			return FieldKey{}, false
		}
	}
}

// ---- value flow (aliasing) ------------------------------------------------

// Origins follows only value copies (phis, conversions, interface boxing,
// parameters to the arguments of all static call sites, free variables to
// their bindings, loads to the plain stores into the same abstract location)
// and returns the values the copies originate from: allocations, call
// results, parameters of uncalled functions, globals, constants.
func (p *Prog) Origins(v ssa.Value) []ssa.Value {
	out, _ := p.OriginsVia(v)
	return out
}

// OriginsVia is Origins plus the fields the value was loaded from on its way
// (the objects it was parked in).
func (p *Prog) OriginsVia(v ssa.Value) ([]ssa.Value, []FieldKey) {
	p.prov()
	seen := map[ssa.Value]bool{}
	var out []ssa.Value
	var via []FieldKey
	var visit func(v ssa.Value, d int)
	visit = func(v ssa.Value, d int) {
		if v == nil || seen[v] || d > 100 {
			return
		}
		seen[v] = true
		switch x := v.(type) {
		case *ssa.Phi:
			for _, e := range x.Edges {
				visit(e, d+1)
			}
		case *ssa.ChangeType:
			visit(x.X, d+1)
		case *ssa.Convert:
			visit(x.X, d+1)
		case *ssa.MakeInterface:
			visit(x.X, d+1)
		case *ssa.ChangeInterface:
			visit(x.X, d+1)
		case *ssa.TypeAssert:
			visit(x.X, d+1)
		case *ssa.Extract:
			if ta, ok := x.Tuple.(*ssa.TypeAssert); ok && x.Index == 0 {
				visit(ta.X, d+1)
				return
			}
			out = append(out, v)
		case *ssa.Parameter:
			fn := x.Parent()
			idx := -1
			for i, q := range fn.Params {
				if q == x {
					idx = i
				}
			}
			sites := p.fnSite[fn]
			if len(sites) == 0 || idx < 0 {
				out = append(out, v)
				return
			}
			for _, cs := range sites {
				args := cs.Instr.Common().Args
				if idx < len(args) {
					visit(args[idx], d+1)
				}
			}
		case *ssa.FreeVar:
			fn := x.Parent()
			for i, fv := range fn.FreeVars {
				if fv == x {
					for _, mc := range p.pi.closure[fn] {
						if i < len(mc.Bindings) {
							visit(mc.Bindings[i], d+1)
						}
					}
				}
			}
		case *ssa.UnOp:
			if x.Op != token.MUL {
				out = append(out, v)
				return
			}
			if k, _, ok := fieldLoad(x); ok {
				via = append(via, k)
			}
			found := false
			for _, l := range p.Backing(x.X) {
				for _, w := range p.pi.writes[l] {
					if !w.Call {
						if _, isStore := w.Instr.(*ssa.Store); isStore {
							found = true
							visit(w.Vals[0], d+1)
						}
					}
				}
			}
			if !found {
				out = append(out, v)
			}
		case *ssa.Call:
			c := x.Common()
			if sc := c.StaticCallee(); sc != nil && p.inModule(sc) {
				if i := p.aliasParam(sc); i >= 0 && i < len(c.Args) {
					visit(c.Args[i], d+1)
					return
				}
			}
			out = append(out, v)
		default:
			out = append(out, v)
		}
	}
	visit(v, 0)
	return out, via
}
