package main

// Obligations, verdicts, known findings and evidence files (DESIGN 3).

import (
	"bufio"
	"encoding/json"
	"fmt"
	"os"
	"path/filepath"
	"sort"
	"strings"
	"time"
)

type Verdict string

const (
	Holds     Verdict = "holds"
	Violated  Verdict = "violated"
	Undecided Verdict = "undecided"
)

type Obligation struct {
	Key        string   `json:"key"`
	Rule       string   `json:"rule"`
	Verdict    Verdict  `json:"verdict"`
	Pos        string   `json:"pos,omitempty"`
	Msg        string   `json:"msg,omitempty"`
	Facts      []string `json:"facts,omitempty"`
	Nontrivial bool     `json:"nontrivial"`
	Config     string   `json:"config,omitempty"`
}

type Ctx struct {
	P     *Prog
	Prop  string
	Tier  string
	Obls  []*Obligation
	Notes []string
	// bookkeeping for evidence
	fnSeen    map[string]bool
	sitesSeen int
	Assumed   map[string]bool
	Excluded  map[string]bool
}

func NewCtx(p *Prog, prop, tier string) *Ctx {
	activeProg = p
	return &Ctx{P: p, Prop: prop, Tier: tier, fnSeen: map[string]bool{}, Assumed: map[string]bool{}, Excluded: map[string]bool{}}
}

// Obl registers an obligation <prop>.<rule>@<construct>; rule text explains
// the rule that is applied.
func (c *Ctx) Obl(rule, construct, ruleText string) *Obligation {
	o := &Obligation{Key: c.Prop + "." + rule + "@" + construct, Rule: ruleText, Verdict: Undecided, Msg: "not evaluated"}
	c.Obls = append(c.Obls, o)
	return o
}

func (o *Obligation) At(pos string) *Obligation { o.Pos = pos; return o }

func (o *Obligation) Hold(format string, a ...any) *Obligation {
	o.Verdict = Holds
	o.Msg = fmt.Sprintf(format, a...)
	return o
}

// HoldNT marks the obligation as held by a non-trivial argument (path,
// provenance or arithmetic reasoning rather than a constant lookup).
func (o *Obligation) HoldNT(format string, a ...any) *Obligation {
	o.Hold(format, a...)
	o.Nontrivial = true
	return o
}

func (o *Obligation) Violate(format string, a ...any) *Obligation {
	o.Verdict = Violated
	o.Msg = fmt.Sprintf(format, a...)
	o.Nontrivial = true
	return o
}

func (o *Obligation) Undecide(format string, a ...any) *Obligation {
	o.Verdict = Undecided
	o.Msg = fmt.Sprintf(format, a...)
	return o
}

func (o *Obligation) Fact(format string, a ...any) *Obligation {
	o.Facts = append(o.Facts, fmt.Sprintf(format, a...))
	return o
}

// Check sets holds/violated from a boolean.
func (o *Obligation) Check(ok bool, holdMsg, violMsg string) *Obligation {
	if ok {
		return o.HoldNT("%s", holdMsg)
	}
	return o.Violate("%s", violMsg)
}

func (c *Ctx) Touch(fnKey string) { c.fnSeen[fnKey] = true }
func (c *Ctx) Assume(s string)    { c.Assumed[s] = true }
func (c *Ctx) Exclude(s string)   { c.Excluded[s] = true }

// ---- known findings -------------------------------------------------------

type Finding struct {
	Status   string `json:"status"` // "known" | "fixed"
	Property string `json:"property"`
	Key      string `json:"key"`
	What     string `json:"what"`
	Commit   string `json:"commit,omitempty"`
}

func loadFindings(path string) ([]Finding, error) {
	f, err := os.Open(path)
	if err != nil {
		if os.IsNotExist(err) {
			return nil, nil
		}
		return nil, err
	}
	defer f.Close()
	var out []Finding
	sc := bufio.NewScanner(f)
	sc.Buffer(make([]byte, 1<<20), 1<<20)
	for sc.Scan() {
		line := strings.TrimSpace(sc.Text())
		if line == "" || strings.HasPrefix(line, "#") {
			continue
		}
		var fd Finding
		if err := json.Unmarshal([]byte(line), &fd); err != nil {
			return nil, fmt.Errorf("%s: %w", path, err)
		}
		out = append(out, fd)
	}
	return out, sc.Err()
}

// ---- evidence -------------------------------------------------------------

type PropInfo struct {
	ID          string
	Level       string
	Explanation string
	NotCovered  []string
	Trusted     []string
	MinObls     int
	Run         func(c *Ctx)
}

type runResult struct {
	obls     []*Obligation
	configs  []string
	funcs    map[string]bool
	assumed  map[string]bool
	excluded map[string]bool
	notes    []string
}

func writeJSON(path string, v any) error {
	if err := os.MkdirAll(filepath.Dir(path), 0o755); err != nil {
		return err
	}
	b, err := json.MarshalIndent(v, "", " ")
	if err != nil {
		return err
	}
	tmp := path + ".tmp"
	if err := os.WriteFile(tmp, append(b, '\n'), 0o644); err != nil {
		return err
	}
	return os.Rename(tmp, path)
}

func sortedKeys(m map[string]bool) []string {
	var out []string
	for k := range m {
		out = append(out, k)
	}
	sort.Strings(out)
	return out
}

// finish evaluates the verdicts against the findings file, writes evidence and
// replay files, prints the protocol lines and returns the exit code.
func finish(info *PropInfo, tier string, seed int64, res *runResult, verifDir string, start time.Time, cmdline string) int {
	findings, ferr := loadFindings(filepath.Join(verifDir, "KNOWN_FINDINGS.jsonl"))
	if ferr != nil {
		fmt.Fprintf(os.Stderr, "obfsvet: cannot read findings: %v\n", ferr)
		return 2
	}
	known := map[string]Finding{}
	for _, f := range findings {
		if f.Status == "known" && f.Property == info.ID {
			known[f.Key] = f
		}
	}
	// distinct obligations by key (the same key is evaluated once per build config)
	byKey := map[string][]*Obligation{}
	var order []string
	for _, o := range res.obls {
		if _, ok := byKey[o.Key]; !ok {
			order = append(order, o.Key)
		}
		byKey[o.Key] = append(byKey[o.Key], o)
	}
	sort.Strings(order)
	distinct, discharged, nontrivial, violations := 0, 0, 0, 0
	var bad []*Obligation
	knownHit := map[string]bool{}
	for _, k := range order {
		distinct++
		ok := true
		nt := false
		var firstBad *Obligation
		for _, o := range byKey[k] {
			if o.Verdict != Holds {
				ok = false
				if firstBad == nil {
					firstBad = o
				}
			}
			nt = nt || o.Nontrivial
		}
		if nt {
			nontrivial++
		}
		if ok {
			discharged++
			continue
		}
		if _, isKnown := known[k]; isKnown && firstBad.Verdict == Violated {
			knownHit[k] = true
			continue
		}
		bad = append(bad, firstBad)
	}
	if distinct < info.MinObls {
		bad = append(bad, &Obligation{Key: info.ID + ".meta@obligation-count", Rule: "anti-vacuity: at least the obligations confirmed on the reference tree must be evaluated",
			Verdict: Undecided, Msg: fmt.Sprintf("only %d distinct obligations evaluated, expected at least %d", distinct, info.MinObls)})
	}
	// samples: a few written-out obligations, preferring non-trivial ones
	var samples []any
	for _, k := range order {
		o := byKey[k][0]
		if o.Nontrivial && len(samples) < 8 {
			samples = append(samples, o)
		}
	}
	for _, k := range order {
		if len(samples) >= 4 {
			break
		}
		samples = append(samples, byKey[k][0])
	}
	var allObls []any
	for _, k := range order {
		o := byKey[k][0]
		allObls = append(allObls, map[string]any{"key": o.Key, "verdict": o.Verdict, "pos": o.Pos, "msg": o.Msg})
	}
	violations = len(bad)
	replayDir := filepath.Join(verifDir, "evidence", "replay")
	var lines []string
	for i, o := range bad {
		rp := filepath.Join(replayDir, fmt.Sprintf("%s-%d.json", info.ID, i+1))
		_ = writeJSON(rp, map[string]any{"property": info.ID, "obligation": o, "tier": tier, "repo": res.configs})
		fmt.Printf("%s %s\n    rule: %s\n    at:   %s\n    why:  %s\n", strings.ToUpper(string(o.Verdict)), o.Key, o.Rule, o.Pos, o.Msg)
		for _, f := range o.Facts {
			fmt.Printf("    fact: %s\n", f)
		}
		lines = append(lines, fmt.Sprintf("VIOLATION property=%s replay=%s", info.ID, rp))
	}
	for k := range knownHit {
		fmt.Printf("KNOWN-FINDING: property=%s %s [%s]\n", info.ID, known[k].What, k)
	}
	for k, f := range known {
		if !knownHit[k] {
			fmt.Fprintf(os.Stderr, "obfsvet: note: known finding %s (%s) no longer reproduces (stale entry)\n", k, f.What)
		}
	}
	ev := map[string]any{
		"property_id": info.ID,
		"tier":        tier,
		"seed":        seed,
		"level":       info.Level,
		"wall_s":      time.Since(start).Seconds(),
		"violations":  violations,
		"assumptions": append(append([]string{}, info.Trusted...), sortedKeys(res.assumed)...),
		"coverage": map[string]any{
			"explanation":         info.Explanation,
			"obligations":         distinct,
			"discharged":          discharged,
			"known_findings":      len(knownHit),
			"evaluations":         len(res.obls),
			"distinct_nontrivial": nontrivial,
			"rule":                "one obligation per (rule, construct) instance found in the resolved program; evaluations = obligations x build configurations; non-trivial = decided by a path, provenance, ownership or arithmetic argument rather than a constant lookup",
			"samples":             samples,
			"all_obligations":     allObls,
			"functions_analysed":  sortedKeys(res.funcs),
			"build_configs":       res.configs,
			"checker_cmd":         cmdline,
			"trusted_base":        info.Trusted,
			"not_covered":         info.NotCovered,
			"excluded":            sortedKeys(res.excluded),
			"notes":               res.notes,
			"exhaustive":          false,
		},
	}
	if err := writeJSON(filepath.Join(verifDir, "evidence", info.ID+".json"), ev); err != nil {
		fmt.Fprintf(os.Stderr, "obfsvet: cannot write evidence: %v\n", err)
		return 2
	}
	fmt.Printf("%s tier=%s obligations=%d discharged=%d known-findings=%d failing=%d configs=%d (%.1fs)\n",
		info.ID, tier, distinct, discharged, len(knownHit), violations, len(res.configs), time.Since(start).Seconds())
	for _, l := range lines {
		fmt.Println(l)
	}
	if violations > 0 {
		return 1
	}
	return 0
}
