package main

import (
	"fmt"
	"go/types"
	"sort"
	"strings"

	"golang.org/x/tools/go/ssa"
)

// retains: the memory designated by v (a []byte handed in by the caller) can
// still be referenced after fn returned: v or a view of it is stored into
// memory that outlives the call, sent on a channel, captured by a goroutine
// or deferred closure that may run later, or handed to a module function
// that does one of these.  Reading it, copying from it, appending it to
// something else and handing it to an io.Writer (which must not retain it)
// are not retention.  Returns a description of the first retention found.
func (p *Prog) retains(fn *ssa.Function, v ssa.Value, depth int, seen map[ssa.Value]bool) string {
	if depth > 5 || seen[v] {
		return ""
	}
	seen[v] = true
	refs := v.Referrers()
	if refs == nil {
		return ""
	}
	for _, r := range *refs {
		switch x := r.(type) {
		case *ssa.Send:
			if x.X == v {
				return "sent on a channel at " + p.InstrPos(x)
			}
		case *ssa.Store:
			if x.Val != v {
				continue
			}
			// a local variable cell (spilled local): follow its loads; anything else outlives the call
			if al, ok := x.Addr.(*ssa.Alloc); ok {
				for _, rr := range *al.Referrers() {
					switch y := rr.(type) {
					case *ssa.UnOp:
						if why := p.retains(fn, y, depth, seen); why != "" {
							return why
						}
					case *ssa.MakeClosure:
						if why := p.retains(fn, y, depth, seen); why != "" {
							return why
						}
					}
				}
				continue
			}
			return "stored at " + p.InstrPos(x)
		case *ssa.Slice, *ssa.Phi, *ssa.MakeInterface, *ssa.ChangeType, *ssa.Convert, *ssa.ChangeInterface:
			val := r.(ssa.Value)
			if cv, ok := r.(*ssa.Convert); ok && isStringLike(cv.Type()) {
				continue // string(b) copies
			}
			if why := p.retains(fn, val, depth, seen); why != "" {
				return why
			}
		case *ssa.MakeClosure:
			// captured: retention only if the closure can run after the call (go / stored / sent);
			// a closure called or deferred in place runs before fn returns
			for _, rr := range *x.Referrers() {
				switch rr.(type) {
				case *ssa.Go:
					return "captured by a goroutine started at " + p.InstrPos(rr)
				case *ssa.Call, *ssa.Defer:
				default:
					if why := p.retains(fn, x, depth, seen); why != "" {
						return why
					}
				}
			}
		case *ssa.Go:
			for _, a := range x.Call.Args {
				if a == v {
					return "handed to a goroutine started at " + p.InstrPos(x)
				}
			}
		case ssa.CallInstruction:
			cm := x.Common()
			id := p.CalleeID(cm)
			for ai, a := range cm.Args {
				if a != v {
					continue
				}
				switch {
				case id == "builtin:append" && ai == 0:
					// the result aliases v's storage
					if val, ok := x.(ssa.Value); ok {
						if why := p.retains(fn, val, depth, seen); why != "" {
							return why
						}
					}
				case strings.HasPrefix(id, "builtin:"):
				case id == "bytes.NewBuffer" || id == "bytes.NewReader":
					if val, ok := x.(ssa.Value); ok {
						if why := p.retains(fn, val, depth, seen); why != "" {
							return why
						}
					}
				default:
					if sc := cm.StaticCallee(); sc != nil && p.inModule(sc) && sc.Blocks != nil && ai < len(sc.Params) {
						if why := p.retains(sc, sc.Params[ai], depth+1, seen); why != "" {
							return "handed to " + p.FuncKey(sc) + ", where it is " + why
						}
					}
					// library callees and io.Writer.Write do not retain their argument
				}
			}
		}
	}
	return ""
}

// noRetainedWriteArg: the relay forwards with io.Copy, which reuses ONE buffer per direction; a
// transport whose Write keeps a reference to the caller's slice beyond the call forwards bytes
// that the next read has already overwritten.
func noRetainedWriteArg(c *Ctx, p *Prog, rule string) {
	var fns []*ssa.Function
	for _, fn := range p.Funcs {
		if fn.Name() != "Write" || fn.Signature.Recv() == nil || fn.Pkg == nil || !strings.HasPrefix(relPkg(fn.Pkg.Pkg.Path()), "transports/") {
			continue
		}
		sg := fn.Signature
		if sg.Params().Len() != 1 || sg.Results().Len() != 2 || !isByteSlice(sg.Params().At(0).Type()) {
			continue
		}
		if _, ok := sg.Results().At(0).Type().Underlying().(*types.Basic); !ok {
			continue
		}
		fns = append(fns, fn)
	}
	sort.Slice(fns, func(i, j int) bool { return p.FuncKey(fns[i]) < p.FuncKey(fns[j]) })
	ob := c.Obl(rule, "transport-writes#count", "anti-vacuity: the Write methods of the transports' connections are found")
	if len(fns) < 3 {
		ob.Undecide("found %d", len(fns))
	} else {
		ob.Hold("%d", len(fns))
	}
	for _, fn := range fns {
		c.Touch(p.FuncKey(fn))
		ob := c.Obl(rule, p.FuncKey(fn)+"#arg-not-retained", "Write does not keep a reference to the caller's slice beyond the call (io.Copy reuses its buffer for the next read): whatever is queued or stored is a copy")
		var b *ssa.Parameter
		for _, q := range fn.Params {
			if isByteSlice(q.Type()) {
				b = q
			}
		}
		if b == nil {
			ob.Undecide("no []byte parameter")
			continue
		}
		if why := p.retains(fn, b, 0, map[ssa.Value]bool{}); why != "" {
			ob.Violate("the caller's slice is %s", why)
		} else {
			ob.HoldNT("read, copied or encoded only")
		}
	}
	_ = fmt.Sprint
}

// wholeSliceToStream: the stream transports (obfs2, obfs3) encrypt through a cipher.StreamWriter; Write
// must hand the caller's WHOLE slice to it and report its count — a bounded staging copy silently
// truncates long writes (io.Copy never notices, a single large Write does).
func wholeSliceToStream(c *Ctx, p *Prog, rule, fnKey string) {
	ob := c.Obl(rule, fnKey+"#whole-slice", "every successful return of Write is the result of the stream writer's Write(b) on the caller's slice itself: all of b is encrypted and sent, and the count reported is the writer's")
	fn := p.Func(fnKey)
	if fn == nil {
		ob.Undecide("not found")
		return
	}
	c.Touch(p.FuncKey(fn))
	var b *ssa.Parameter
	for _, q := range fn.Params {
		if isByteSlice(q.Type()) {
			b = q
		}
	}
	ff := p.Facts(fn)
	bad := ""
	n := 0
	for _, r := range returnsOf(fn) {
		if ff.ProvablyNonNil(r.Results[1], r.Block(), 0) {
			continue // a failure return
		}
		call, idx := callOf(unspill(r.Results[0]))
		okW := false
		if call != nil && idx == 0 {
			recv, m, args := recvOf(call)
			if m == "Write" && len(args) == 1 && unspill(args[0]) == ssa.Value(b) && recv != nil &&
				strings.HasSuffix(types.TypeString(recv.Type(), nil), "crypto/cipher.StreamWriter") {
				// the StreamWriter encrypts into a buffer of its own: the caller's bytes stay as they were
				okW = true
			}
		}
		if !okW {
			bad = "the return at " + p.InstrPos(r) + " does not report StreamWriter.Write(b) of the caller's whole slice"
		} else {
			n++
		}
	}
	if n == 0 && bad == "" {
		bad = "no successful return found"
	}
	if bad != "" {
		ob.Violate("%s", bad)
	} else {
		ob.HoldNT("return conn.tx.Write(b)")
	}
}

// wholeSliceFromStream: the mirror image for Read — every return that can deliver bytes hands back count AND
// error of one (*cipher.StreamReader).Read(b) on the caller's slice.  The stream reader decrypts whatever
// the connection delivered even when it delivered it together with an error; a hand-written "check err, then
// XORKeyStream" hands the last bytes of a stream to the caller still encrypted.
func wholeSliceFromStream(c *Ctx, p *Prog, rule, fnKey string) {
	ob := c.Obl(rule, fnKey+"#stream-reader-result", "every return of Read that can deliver bytes is the (n, err) pair of the cipher.StreamReader's Read(b) on the caller's slice: bytes that arrive together with an error are decrypted like all others")
	fn := p.Func(fnKey)
	if fn == nil {
		ob.Undecide("not found")
		return
	}
	c.Touch(p.FuncKey(fn))
	var b *ssa.Parameter
	for _, q := range fn.Params {
		if isByteSlice(q.Type()) {
			b = q
		}
	}
	bad := ""
	n := 0
	for _, r := range returnsOf(fn) {
		if len(r.Results) != 2 {
			continue
		}
		if k, ok := intConst(unspill(r.Results[0])); ok && k == 0 {
			continue // delivers nothing
		}
		c0, i0 := callOf(unspill(r.Results[0]))
		c1, i1 := callOf(unspill(r.Results[1]))
		okR := false
		if c0 != nil && c0 == c1 && i0 == 0 && i1 == 1 {
			recv, m, args := recvOf(c0)
			if m == "Read" && len(args) == 1 && unspill(args[0]) == ssa.Value(b) && recv != nil &&
				strings.HasSuffix(types.TypeString(recv.Type(), nil), "crypto/cipher.StreamReader") {
				okR = true
			}
		}
		if !okR {
			bad = "the return at " + p.InstrPos(r) + " is not the (n, err) of StreamReader.Read(b) on the caller's slice"
		} else {
			n++
		}
	}
	if n == 0 && bad == "" {
		bad = "no delivering return found"
	}
	if bad != "" {
		ob.Violate("%s", bad)
	} else {
		ob.HoldNT("return conn.rx.Read(b)")
	}
}
