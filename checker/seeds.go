package main

// Self-validation (DESIGN 3.5, A.6): every rule carries seeded breaks — small
// edits of /repo's sources applied in memory through the go/packages overlay
// (never written to disk) — that must type-check and must be flagged on the
// intended obligation, and benign edits that must stay silent.  A seed whose
// `old` text no longer occurs exactly once is skipped (the tree changed).

import (
	"embed"
	"encoding/json"
	"fmt"
	"os"
	"path/filepath"
	"runtime/debug"
	"strings"
)

//go:embed seeds/*.json
var seedFS embed.FS

type Seed struct {
	Name   string   `json:"name"`
	File   string   `json:"file"`
	Old    string   `json:"old"`
	New    string   `json:"new"`
	Edits  []Edit   `json:"edits,omitempty"` // additional edits (same or other files)
	Expect []string `json:"expect"`          // obligation-key prefixes, one of which must fail; ["silent"] = none may fail
}

type Edit struct {
	File string `json:"file"`
	Old  string `json:"old"`
	New  string `json:"new"`
}

func loadSeeds(id string) ([]Seed, error) {
	b, err := seedFS.ReadFile("seeds/" + id + ".json")
	if err != nil {
		return nil, nil // no seeds for this property
	}
	var out []Seed
	if err := json.Unmarshal(b, &out); err != nil {
		return nil, fmt.Errorf("seeds/%s.json: %w", id, err)
	}
	return out, nil
}

type seedOutcome struct {
	Name    string   `json:"name"`
	Status  string   `json:"status"` // flagged | silent-ok | MISSED | FALSE-ALARM | skipped | no-compile
	Failing []string `json:"failing,omitempty"`
	Detail  string   `json:"detail,omitempty"`
}

func failingKeys(c *Ctx, known map[string]bool) []string {
	var out []string
	for _, o := range c.Obls {
		if o.Verdict != Holds && !known[o.Key] {
			out = append(out, o.Key)
		}
	}
	return out
}

func runSeeds(info *PropInfo, repo, verif string) int {
	seeds, err := loadSeeds(info.ID)
	if err != nil {
		fmt.Fprintln(os.Stderr, "obfsvet:", err)
		return 2
	}
	if len(seeds) == 0 {
		return 0
	}
	findings, _ := loadFindings(filepath.Join(verif, "KNOWN_FINDINGS.jsonl"))
	known := map[string]bool{}
	for _, f := range findings {
		if f.Status == "known" {
			known[f.Key] = true
		}
	}
	var outs []seedOutcome
	dead := 0
	for _, s := range seeds {
		out := seedOutcome{Name: s.Name}
		overlay := map[string][]byte{}
		edits := append([]Edit{{s.File, s.Old, s.New}}, s.Edits...)
		skip := ""
		for _, e := range edits {
			path := filepath.Join(repo, e.File)
			src, ok := overlay[path]
			if !ok {
				b, err := os.ReadFile(path)
				if err != nil {
					skip = err.Error()
					break
				}
				src = b
			}
			if strings.Count(string(src), e.Old) != 1 {
				skip = fmt.Sprintf("text to replace occurs %d times in %s", strings.Count(string(src), e.Old), e.File)
				break
			}
			overlay[path] = []byte(strings.Replace(string(src), e.Old, e.New, 1))
		}
		if skip != "" {
			out.Status, out.Detail = "skipped", skip
			outs = append(outs, out)
			continue
		}
		c, err := runOne(info, repo, "quick", quickMatrix[0], overlay)
		if err != nil {
			out.Status, out.Detail = "no-compile", err.Error()
			outs = append(outs, out)
			dead++
			continue
		}
		out.Failing = failingKeys(c, known)
		wantSilent := len(s.Expect) == 1 && s.Expect[0] == "silent"
		switch {
		case wantSilent && len(out.Failing) == 0:
			out.Status = "silent-ok"
		case wantSilent:
			out.Status = "FALSE-ALARM"
			dead++
		default:
			hit := false
			for _, k := range out.Failing {
				for _, e := range s.Expect {
					if strings.HasPrefix(k, e) {
						hit = true
					}
				}
			}
			if hit {
				out.Status = "flagged"
			} else {
				out.Status = "MISSED"
				dead++
			}
		}
		outs = append(outs, out)
		debug.FreeOSMemory()
	}
	nf, ns, nk := 0, 0, 0
	for _, o := range outs {
		switch o.Status {
		case "flagged":
			nf++
		case "silent-ok":
			ns++
		case "skipped":
			nk++
		}
		if o.Status != "flagged" && o.Status != "silent-ok" {
			fmt.Printf("seed %-40s %s %s %v\n", o.Name, o.Status, o.Detail, o.Failing)
		}
	}
	fmt.Printf("%s self-validation: %d seeds, %d flagged, %d benign silent, %d skipped, %d dead\n", info.ID, len(outs), nf, ns, nk, dead)
	_ = writeJSON(filepath.Join(verif, "evidence", "selfcheck", info.ID+".json"), outs)
	if dead > 0 {
		fmt.Fprintf(os.Stderr, "obfsvet: %s: %d seeded break(s) not handled as expected: a rule is dead or over-eager\n", info.ID, dead)
		return 2
	}
	return 0
}

func doReplay(path, repo, verif string) int {
	b, err := os.ReadFile(path)
	if err != nil {
		fmt.Fprintln(os.Stderr, err)
		return 2
	}
	var r struct {
		Property   string     `json:"property"`
		Obligation Obligation `json:"obligation"`
	}
	if err := json.Unmarshal(b, &r); err != nil {
		fmt.Fprintln(os.Stderr, err)
		return 2
	}
	info := registry[r.Property]
	if info == nil {
		fmt.Fprintln(os.Stderr, "unknown property", r.Property)
		return 2
	}
	c, err := runOne(info, repo, "quick", quickMatrix[0], nil)
	if err != nil {
		fmt.Fprintln(os.Stderr, err)
		return 2
	}
	for _, o := range c.Obls {
		if o.Key == r.Obligation.Key {
			fmt.Printf("%s %s\n  rule: %s\n  at:   %s\n  why:  %s\n", o.Verdict, o.Key, o.Rule, o.Pos, o.Msg)
			for _, f := range o.Facts {
				fmt.Printf("  fact: %s\n", f)
			}
			if o.Verdict != Holds {
				fmt.Printf("VIOLATION property=%s replay=%s\n", r.Property, path)
				return 1
			}
			return 0
		}
	}
	fmt.Printf("obligation %s no longer exists on the current tree\n", r.Obligation.Key)
	return 1
}
