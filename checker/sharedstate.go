package main

import (
	"go/token"
	"sort"
	"strings"

	"golang.org/x/tools/go/ssa"
)

// sharedDigestRule: connections are served concurrently, so a running hash, a
// stream cipher or a byte buffer that is used while deriving keys or coding a
// stream must belong to the call or to the connection; one kept in a
// package-level variable is shared by all connections of the process (two
// overlapping handshakes then hash each other's input).  Decided: no method
// of a hash.Hash / cipher.Stream / *bytes.Buffer value loaded from a
// package-level variable of the module is called in the given packages
// (outside package initialisers).
func sharedDigestRule(c *Ctx, p *Prog, rule string, relPkgs ...string) {
	ob := c.Obl(rule, "no-shared-digest-state:"+strings.Join(relPkgs, ","), "hash, stream-cipher and buffer objects used by the protocol code are local to the call or owned by the connection, never package-level variables shared by concurrently served connections")
	in := map[string]bool{}
	for _, r := range relPkgs {
		in[r] = true
	}
	var fns []*ssa.Function
	for _, fn := range p.Funcs {
		if fn.Pkg != nil && in[relPkg(fn.Pkg.Pkg.Path())] && fn.Name() != "init" && !strings.HasPrefix(fn.Name(), "init#") {
			fns = append(fns, fn)
		}
	}
	sort.Slice(fns, func(i, j int) bool { return p.FuncKey(fns[i]) < p.FuncKey(fns[j]) })
	bad := ""
	n := 0
	var fromGlobal func(v ssa.Value, d int) *ssa.Global
	fromGlobal = func(v ssa.Value, d int) *ssa.Global {
		if d > 6 {
			return nil
		}
		switch x := unspill(v).(type) {
		case *ssa.UnOp:
			if x.Op == token.MUL {
				if g, ok := x.X.(*ssa.Global); ok && g.Pkg != nil && strings.HasPrefix(g.Pkg.Pkg.Path(), modulePath) {
					return g
				}
			}
		case *ssa.Global:
			if x.Pkg != nil && strings.HasPrefix(x.Pkg.Pkg.Path(), modulePath) {
				return x
			}
		case *ssa.Phi:
			for _, e := range x.Edges {
				if g := fromGlobal(e, d+1); g != nil {
					return g
				}
			}
		case *ssa.MakeInterface:
			return fromGlobal(x.X, d+1)
		case *ssa.ChangeInterface:
			return fromGlobal(x.X, d+1)
		case *ssa.TypeAssert:
			return fromGlobal(x.X, d+1)
		}
		return nil
	}
	for _, fn := range fns {
		allInstrs(fn, func(ins ssa.Instruction) {
			call, ok := ins.(ssa.CallInstruction)
			if !ok {
				return
			}
			// a read buffer in a package-level variable is shared by all connections that are being served
			{
				cm := call.Common()
				id := p.CalleeID(cm)
				var buf ssa.Value
				switch {
				case cm.IsInvoke() && cm.Method.Name() == "Read" && len(cm.Args) == 1:
					buf = cm.Args[0]
				case (id == "io.ReadFull" || id == "io.ReadAtLeast") && len(cm.Args) >= 2:
					buf = cm.Args[1]
				case id == "builtin:copy":
					buf = cm.Args[0]
				}
				for d := 0; buf != nil && d < 6; d++ {
					switch x := unspill(buf).(type) {
					case *ssa.Slice:
						buf = x.X
						continue
					case *ssa.UnOp:
						if g, ok := x.X.(*ssa.Global); ok && g.Pkg != nil && strings.HasPrefix(g.Pkg.Pkg.Path(), modulePath) && x.Op == token.MUL {
							n++
							bad = "the buffer filled at " + p.InstrPos(call) + " is the package-level variable " + g.Name() + ", which every connection of the process shares"
						}
					case *ssa.Global:
						if x.Pkg != nil && strings.HasPrefix(x.Pkg.Pkg.Path(), modulePath) {
							n++
							bad = "the buffer filled at " + p.InstrPos(call) + " is the package-level variable " + x.Name() + ", which every connection of the process shares"
						}
					}
					break
				}
			}
			r, m, _ := recvOf(call)
			if r == nil {
				return
			}
			stateful := false
			t := r.Type().String()
			switch {
			case t == "hash.Hash" || t == "hash.Hash64" || t == "hash.Hash32":
				stateful = m == "Write" || m == "Reset" || m == "Sum" || m == "Sum64"
			case t == "crypto/cipher.Stream":
				stateful = m == "XORKeyStream"
			case t == "*bytes.Buffer":
				stateful = !accReadMethods[m] || m == "Bytes"
			case strings.HasSuffix(t, "crypto/cipher.StreamReader") || strings.HasSuffix(t, "crypto/cipher.StreamWriter"):
				stateful = true
			}
			if !stateful {
				return
			}
			n++
			if g := fromGlobal(r, 0); g != nil {
				bad = m + " at " + p.InstrPos(call) + " works on the package-level variable " + g.Name() + ", which every connection of the process shares"
			}
		})
	}
	if bad != "" {
		ob.Violate("%s", bad)
	} else if n == 0 {
		ob.Undecide("no hash / cipher / buffer operation found in %v", relPkgs)
	} else {
		ob.HoldNT("%d stateful operations, none on a package-level object", n)
	}
}
