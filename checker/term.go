package main

// E7 — layout reconstruction from def-use chains (DESIGN 2.8): the expression
// tree of a byte-string value over constructors cat / slice / hash / literal,
// with mutable accumulators (bytes.Buffer, hash.Hash) read as the
// concatenation of the writes that dominate the read.  Printed canonically so
// that it can be compared with a spec term.  Nothing is executed.

import (
	"fmt"
	"go/token"
	"go/types"
	"sort"
	"strconv"
	"strings"

	"golang.org/x/tools/go/ssa"
)

type termer struct {
	p     *Prog
	depth int
	errs  []string
	at    ssa.Instruction // the use site for flow-sensitive reads of local objects
	// resolvePhi, when set, picks the incoming value of a phi under an assumption
	// the caller makes (e.g. "this endpoint is the initiator"); nil = cannot tell.
	resolvePhi func(*ssa.Phi) ssa.Value
}

func (p *Prog) newTermer() *termer { return &termer{p: p} }

func (t *termer) fail(format string, a ...any) string {
	t.errs = append(t.errs, fmt.Sprintf(format, a...))
	return "?"
}

// cat flattens nested concatenations and merges adjacent literals.
func catTerms(parts []string) string {
	var flat []string
	for _, s := range parts {
		if strings.HasPrefix(s, "cat(") && strings.HasSuffix(s, ")") {
			flat = append(flat, splitTop(s[4:len(s)-1])...)
		} else if s != `""` {
			flat = append(flat, s)
		}
	}
	var out []string
	for _, s := range flat {
		if n := len(out); n > 0 && isLit(out[n-1]) && isLit(s) {
			out[n-1] = out[n-1][:len(out[n-1])-1] + s[1:]
			continue
		}
		out = append(out, s)
	}
	if len(out) == 1 {
		return out[0]
	}
	return "cat(" + strings.Join(out, ",") + ")"
}

func isLit(s string) bool { return len(s) >= 2 && s[0] == '"' && s[len(s)-1] == '"' }

// splitTop splits "a,b(c,d),e" at top-level commas.
func splitTop(s string) []string {
	var out []string
	depth, start, inq := 0, 0, false
	for i := 0; i < len(s); i++ {
		switch s[i] {
		case '"':
			inq = !inq
		case '(', '[':
			if !inq {
				depth++
			}
		case ')', ']':
			if !inq {
				depth--
			}
		case ',':
			if !inq && depth == 0 {
				out = append(out, s[start:i])
				start = i + 1
			}
		}
	}
	return append(out, s[start:])
}

// simpleGetter: fn is `return recv.field` (possibly converted); returns field.
func (p *Prog) simpleGetter(fn *ssa.Function) (FieldKey, bool) {
	if fn == nil || fn.Blocks == nil || len(fn.Params) != 1 {
		return FieldKey{}, false
	}
	rs := returnsOf(fn)
	if len(rs) != 1 || len(rs[0].Results) != 1 {
		return FieldKey{}, false
	}
	k, base, ok := fieldLoad(stripConv(rs[0].Results[0]))
	if !ok || base != ssa.Value(fn.Params[0]) {
		return FieldKey{}, false
	}
	return k, true
}

// Term returns the canonical term of byte-string (or scalar) value v.
func (t *termer) Term(v ssa.Value) string {
	t.depth++
	defer func() { t.depth-- }()
	if t.depth > 40 {
		return t.fail("term too deep")
	}
	p := t.p
	v = unspill(v)
	switch x := v.(type) {
	case *ssa.Const:
		if s, ok := constString(x); ok {
			return fmt.Sprintf("%q", s)
		}
		if x.IsNil() {
			return `""`
		}
		return x.Value.String()
	case *ssa.Parameter:
		// positional, so that renaming a parameter changes nothing
		return fmt.Sprintf("$%d", paramIndex(x.Parent(), x))
	case *ssa.FreeVar:
		return "$free:" + x.Name()
	case *ssa.MakeSlice:
		if k, ok := intConst(x.Len); ok && k == 0 {
			return `""` // empty, whatever its capacity
		}
		return t.filledBy(x)
	case *ssa.Convert:
		return t.Term(x.X)
	case *ssa.ChangeType:
		return t.Term(x.X)
	case *ssa.MakeInterface:
		return t.Term(x.X)
	case *ssa.ChangeInterface:
		return t.Term(x.X)
	case *ssa.SliceToArrayPointer:
		return t.Term(x.X)
	case *ssa.Slice:
		if x.High != nil {
			if k, ok := intConst(x.High); ok && k == 0 {
				return `""` // empty prefix: only the capacity of the base matters
			}
		}
		base := t.Term(x.X)
		if x.Low == nil && x.High == nil {
			return base
		}
		lo, hi := "", ""
		if x.Low != nil {
			lo = t.scalar(x.Low)
		}
		if x.High != nil {
			hi = t.scalar(x.High)
			// arr[:N] of an [N]T is the whole array
			if k, ok := intConst(x.High); ok {
				if n, okN := constLen(x.X.Type()); okN && n == k {
					hi = ""
				}
			}
		}
		if lo == "0" {
			lo = ""
		}
		if lo == "" && hi == "" {
			return base
		}
		return base + "[" + lo + ":" + hi + "]"
	case *ssa.BinOp:
		return "(" + t.scalar(x.X) + x.Op.String() + t.scalar(x.Y) + ")"
	case *ssa.UnOp:
		if x.Op == token.MUL {
			if g, ok := x.X.(*ssa.Global); ok {
				return t.globalTerm(g)
			}
			if k, base, ok := fieldLoad(x); ok {
				if st := t.p.forwardedFieldStore(x, k, base); st != nil {
					return t.Term(st.Val)
				}
				return t.fieldTerm(k, base)
			}
			if a, ok := x.X.(*ssa.Alloc); ok {
				return t.allocTerm(a, x)
			}
			if ia, ok := x.X.(*ssa.IndexAddr); ok {
				return t.Term(ia.X) + "[" + t.scalar(ia.Index) + "]"
			}
		}
	case *ssa.Alloc:
		return t.allocTerm(x, nil)
	case *ssa.Extract:
		if c, ok := x.Tuple.(*ssa.Call); ok {
			return t.callTerm(c, x.Index)
		}
	case *ssa.Call:
		return t.callTerm(x, -1)
	case *ssa.Phi:
		if t.resolvePhi != nil {
			if r := t.resolvePhi(x); r != nil && r != ssa.Value(x) {
				return t.Term(r)
			}
		}
		var alts []string
		for _, e := range x.Edges {
			alts = append(alts, t.Term(e))
		}
		same := true
		for _, a := range alts {
			if a != alts[0] {
				same = false
			}
		}
		if same && len(alts) > 0 {
			return alts[0]
		}
		return "phi(" + strings.Join(alts, "|") + ")"
	case *ssa.Global:
		return "&" + globalKey(x)
	case *ssa.FieldAddr:
		if k, ok := fieldKeyOf(x.X.Type(), x.Field); ok {
			return t.Term(x.X) + "." + k.Field
		}
	case *ssa.Function:
		return p.fnID(x)
	}
	return t.fail("unsupported value %T at %s", v, p.Pos(v.Pos()))
}

func (t *termer) scalar(v ssa.Value) string {
	if c, ok := intConst(v); ok {
		return fmt.Sprint(c)
	}
	return t.Term(v)
}

// globalTerm: a package-level []byte/string built in the initialiser.
func (t *termer) globalTerm(g *ssa.Global) string {
	p := t.p
	if g.Pkg == nil || !isModulePkg(g.Pkg.Pkg) {
		return "&" + g.Pkg.Pkg.Path() + "." + g.Name()
	}
	st := p.gstore[g]
	if len(st) == 1 && st[0].Fn.Synthetic == "package initializer" {
		return t.Term(st[0].Val)
	}
	if len(st) == 0 {
		return "&" + globalKey(g)
	}
	return t.fail("global %s has %d writers", globalKey(g), len(st))
}

// allocTerm: content of a local object at the point of use t.at: the latest
// writer that dominates the use (a store of the whole object, a copy() into
// it, or a call with a known out-parameter); a local bytes.Buffer by value is
// the concatenation of the writes that dominate the use.
func (t *termer) allocTerm(a *ssa.Alloc, load ssa.Instruction) string {
	at := t.at
	if at == nil {
		at = load
	}
	if isNamedType(a.Type(), "bytes", "Buffer") {
		return t.accumAt(a, at)
	}
	type writer struct {
		in      ssa.Instruction
		term    func() string
		unknown string // non-empty: something that may write the object in a way that is not modelled
		// copy of pieceLen bytes to constant offset pieceLo (pieceLo < 0: not such a piece)
		pieceLo, pieceLen int64
		src               func() string
	}
	var ws []writer
	var scan func(v ssa.Value, lo string)
	scan = func(v ssa.Value, lo string) {
		for _, r := range *v.Referrers() {
			switch x := r.(type) {
			case *ssa.Store:
				if x.Addr == v {
					x := x
					ws = append(ws, writer{in: x, term: func() string { return t.Term(x.Val) }})
				}
			case *ssa.Slice:
				l := lo
				if x.Low != nil {
					l = t.scalar(x.Low)
				}
				scan(x, l)
			case *ssa.IndexAddr:
				for _, rr := range *x.Referrers() {
					if st, ok := rr.(*ssa.Store); ok && st.Addr == ssa.Value(x) {
						ws = append(ws, writer{in: st, unknown: "element store"})
					}
				}
			case *ssa.Call:
				cm := x.Common()
				id := t.p.CalleeID(cm)
				switch {
				case id == "builtin:copy" && cm.Args[0] == v:
					w := writer{in: x, term: func() string {
						src := t.Term(cm.Args[1])
						if lo == "0" || lo == "" {
							return src
						}
						return "at(" + lo + "," + src + ")"
					}, pieceLo: -1}
					// a piece of a tiling: constant offset, source of known length that fits the destination
					if l, err := strconv.ParseInt(lo, 10, 64); err == nil || lo == "" {
						if n, ok := constSliceLen(cm.Args[1]); ok {
							if dn, okd := constSliceLen(v); !okd || n <= dn {
								w.pieceLo, w.pieceLen = l, n
								w.src = func() string { return t.Term(cm.Args[1]) }
							}
						}
					}
					ws = append(ws, w)
				case (id == "golang.org/x/crypto/curve25519.ScalarMult") && cm.Args[0] == v:
					ws = append(ws, writer{in: x, term: func() string { return "X25519(" + t.Term(cm.Args[1]) + "," + t.Term(cm.Args[2]) + ")" }})
				case (id == "golang.org/x/crypto/curve25519.ScalarBaseMult") && cm.Args[0] == v:
					ws = append(ws, writer{in: x, term: func() string { return "X25519base(" + t.Term(cm.Args[1]) + ")" }})
				case (id == "io.ReadFull" || id == "io.ReadAtLeast") && t.p.isReadFull(x) && cm.Args[1] == v:
					ws = append(ws, writer{in: x, term: func() string { return "read(" + t.Term(cm.Args[0]) + ")" }})
				case id == M("$M/common/csrand.Bytes") && cm.Args[0] == v:
					ws = append(ws, writer{in: x, term: func() string { return "random" }})
				default:
					// h.Sum(arr[:0]) appends the digest into the array's storage from offset 0
					if rv, m, args := recvOf(x); rv != nil && m == "Sum" && len(args) == 1 && args[0] == v {
						sl, isSl := v.(*ssa.Slice)
						hiZero := false
						if isSl && sl.High != nil {
							k, ok := intConst(sl.High)
							hiZero = ok && k == 0
						}
						n, okN := constLen(a.Type())
						if hiZero && (lo == "0" || lo == "") && okN && n == int64(t.p.hashSize(rv)) {
							ws = append(ws, writer{in: x, term: func() string { return t.callTerm(x, -1) }})
						} else {
							ws = append(ws, writer{in: x, unknown: "Sum into part of the object"})
						}
						continue
					}
					for ai, arg := range cm.Args {
						if arg == v && t.p.callMayWriteArg(x, ai, 0) {
							ws = append(ws, writer{in: x, unknown: "passed to " + id})
						}
					}
				}
			}
		}
	}
	scan(a, "0")
	known := 0
	for _, w := range ws {
		if w.unknown == "" {
			known++
		}
	}
	if known == 0 {
		for _, w := range ws {
			if at == nil || w.in == at || canReachWithout(w.in, at, nil) || instrDominates(w.in, at) {
				return t.fail("local object at %s: %s at %s is not modelled", t.p.Pos(a.Pos()), w.unknown, t.p.InstrPos(w.in))
			}
		}
		if l, ok := constLen(a.Type()); ok {
			return fmt.Sprintf("zeros(%d)", l)
		}
		return t.fail("local object at %s is never written", t.p.Pos(a.Pos()))
	}
	// a fill pattern: copies of known lengths to constant offsets, each dominating the use, that
	// tile the whole object without overlap — the content is their concatenation in offset order
	if total, okT := constLen(a.Type()); okT && at != nil {
		var pieces []*writer
		tiled := true
		for i := range ws {
			w := &ws[i]
			if w.in == at {
				continue
			}
			reaches := instrDominates(w.in, at) || canReachWithout(w.in, at, nil)
			if !reaches {
				continue
			}
			if w.unknown != "" || w.src == nil || w.pieceLo < 0 || !instrDominates(w.in, at) || blockOnCycle(w.in.Block()) {
				tiled = false
				break
			}
			pieces = append(pieces, w)
		}
		if tiled && len(pieces) >= 2 {
			sort.Slice(pieces, func(i, j int) bool { return pieces[i].pieceLo < pieces[j].pieceLo })
			off := int64(0)
			for _, w := range pieces {
				if w.pieceLo != off {
					tiled = false
				}
				off += w.pieceLen
			}
			if tiled && off == total {
				var parts []string
				for _, w := range pieces {
					saved := t.at
					t.at = w.in
					parts = append(parts, w.src())
					t.at = saved
				}
				return catTerms(parts)
			}
		}
	}
	// otherwise the last whole-object writer that dominates the use
	var best *writer
	for i := range ws {
		w := &ws[i]
		if w.unknown != "" || at != nil && !instrDominates(w.in, at) {
			continue
		}
		if best == nil || instrDominates(best.in, w.in) {
			best = w
		}
	}
	if best == nil {
		return t.fail("no writer of the local object at %s dominates its use", t.p.Pos(a.Pos()))
	}
	// anything that may write the object after the writer taken and before the use
	for i := range ws {
		w := &ws[i]
		if w == best || w.in == at || instrDominates(w.in, best.in) {
			continue
		}
		if at != nil && !(instrDominates(w.in, at) || canReachWithout(w.in, at, nil)) {
			continue
		}
		if w.unknown != "" {
			return t.fail("local object at %s: %s at %s after the write at %s is not modelled", t.p.Pos(a.Pos()), w.unknown, t.p.InstrPos(w.in), t.p.InstrPos(best.in))
		}
		if at != nil && !instrDominates(w.in, at) {
			return t.fail("local object at %s: the write at %s may or may not happen before the use", t.p.Pos(a.Pos()), t.p.InstrPos(w.in))
		}
	}
	saved := t.at
	t.at = best.in
	defer func() { t.at = saved }()
	return best.term()
}

// hashSize: digest length of a hash.Hash value where its constructor is visible (0 otherwise).
func (p *Prog) hashSize(h ssa.Value) int {
	t := p.newTermer()
	name := t.hashName(h)
	switch {
	case strings.HasPrefix(name, "hmac-sha256"), strings.HasPrefix(name, "sha256"):
		return 32
	case strings.HasPrefix(name, "hmac-sha512"), strings.HasPrefix(name, "sha512"):
		return 64
	case strings.HasPrefix(name, "hmac-sha1"), strings.HasPrefix(name, "sha1"):
		return 20
	}
	return 0
}

// readOnlyCallees never write through their slice / pointer arguments.
var readOnlyCallees = map[string]bool{
	"bytes.Equal": true, "crypto/hmac.Equal": true, "crypto/subtle.ConstantTimeCompare": true, "bytes.Index": true, "bytes.NewBuffer": false,
	"encoding/hex.EncodeToString": true, "encoding/base64.(*Encoding).EncodeToString": true, "(*encoding/base64.Encoding).EncodeToString": true,
	"builtin:len": true, "builtin:cap": true, "builtin:append": true, "builtin:print": true, "builtin:println": true,
	"encoding/binary.bigEndian.Uint16": true, "encoding/binary.bigEndian.Uint32": true, "encoding/binary.bigEndian.Uint64": true,
	"(encoding/binary.bigEndian).Uint16": true, "(encoding/binary.bigEndian).Uint32": true, "(encoding/binary.bigEndian).Uint64": true,
	"crypto/sha256.Sum256": true, "crypto/sha512.Sum512": true, "crypto/aes.NewCipher": true, "crypto/hmac.New": true, "string": true,
	"golang.org/x/crypto/curve25519.ScalarMult": true, "golang.org/x/crypto/curve25519.ScalarBaseMult": true, "golang.org/x/crypto/curve25519.X25519": true,
}

// callMayWriteArg: the call may modify the memory its ai-th argument designates.
func (p *Prog) callMayWriteArg(call ssa.CallInstruction, ai int, depth int) bool {
	cm := call.Common()
	id := p.CalleeID(cm)
	if id == "builtin:copy" {
		return ai == 0
	}
	if readOnlyCallees[id] {
		return false
	}
	if _, m, _ := recvOf(call); m != "" {
		off := 0
		if !cm.IsInvoke() {
			off = 1
		}
		if ai >= off && (accWriteMethods[m] || m == "Equal" || m == "SetBytes" || m == "Seal" && ai-off >= 1 || m == "Open" && ai-off >= 1) {
			// io.Writer-style methods read their argument (Seal/Open: only the dst argument is written)
			return false
		}
	}
	if fn := cm.StaticCallee(); fn != nil && p.inModule(fn) && fn.Blocks != nil && depth < 4 {
		if ai < len(fn.Params) {
			return p.paramMayBeWritten(fn, fn.Params[ai], depth+1)
		}
	}
	return true
}

func (p *Prog) paramMayBeWritten(fn *ssa.Function, v ssa.Value, depth int) bool {
	refs := v.Referrers()
	if refs == nil {
		return false
	}
	for _, r := range *refs {
		switch x := r.(type) {
		case *ssa.Store:
			if x.Addr == v {
				return true
			}
			if x.Val == v {
				return true // escapes into memory
			}
		case *ssa.Slice, *ssa.IndexAddr, *ssa.FieldAddr, *ssa.Convert, *ssa.ChangeType, *ssa.SliceToArrayPointer:
			if p.paramMayBeWritten(fn, x.(ssa.Value), depth) {
				return true
			}
		case *ssa.Phi:
			return true
		case ssa.CallInstruction:
			for ai, a := range x.Common().Args {
				if a == v && p.callMayWriteArg(x, ai, depth) {
					return true
				}
			}
			if x.Common().IsInvoke() && x.Common().Value == v {
				return true
			}
		case *ssa.MakeInterface, *ssa.MakeClosure:
			return true
		}
	}
	return false
}

// accumAt: content of a local bytes.Buffer (by value) at instruction at.
func (t *termer) accumAt(a *ssa.Alloc, at ssa.Instruction) string {
	var parts []string
	type op struct {
		in  ssa.CallInstruction
		arg ssa.Value
	}
	var ops []op
	bad := ""
	for _, r := range *a.Referrers() {
		switch x := r.(type) {
		case *ssa.Store:
			if x.Addr == ssa.Value(a) {
				parts = append(parts, t.Term(x.Val))
			}
		case *ssa.Call:
			rv, m, args := recvOf(x)
			if rv != ssa.Value(a) {
				continue
			}
			if at != nil && (x == at || !instrDominates(x, at)) {
				if at != nil && x != at && canReachWithout(x, at, nil) {
					bad = "a conditional write at " + t.p.InstrPos(x)
				}
				continue
			}
			if accWriteMethods[m] && len(args) >= 1 {
				ops = append(ops, op{x, args[0]})
			} else if !accReadMethods[m] {
				bad = m + " at " + t.p.InstrPos(x)
			}
		}
	}
	if bad != "" {
		return t.fail("buffer at %s: %s", t.p.Pos(a.Pos()), bad)
	}
	for i := 1; i < len(ops); i++ {
		for j := i; j > 0 && instrDominates(ops[j].in, ops[j-1].in); j-- {
			ops[j], ops[j-1] = ops[j-1], ops[j]
		}
	}
	for _, o := range ops {
		saved := t.at
		t.at = o.in
		parts = append(parts, t.Term(o.arg))
		t.at = saved
	}
	return catTerms(parts)
}

// accumContent: concatenation of what was written into the accumulator that
// `read` reads.
func (t *termer) accumContent(read ssa.CallInstruction) string {
	ops, _, why := t.p.AccumSeq(read)
	if why != "" {
		return t.fail("accumulator at %s: %s", t.p.InstrPos(read), why)
	}
	var parts []string
	// a by-value parameter copied into the local buffer is its initial content
	if recv, _, _ := recvOf(read); recv != nil {
		if a, ok := stripConv(recv).(*ssa.Alloc); ok {
			for _, r := range *a.Referrers() {
				if st, ok := r.(*ssa.Store); ok && st.Addr == ssa.Value(a) {
					parts = append(parts, t.Term(st.Val))
				}
			}
		}
	}
	for _, op := range ops {
		switch {
		case op.Method == "Param":
			parts = append(parts, t.Term(op.Args[0]))
		case op.Method == "Init" || accWriteMethods[op.Method]:
			if len(op.Args) >= 1 {
				saved := t.at
				if in, ok := op.Call.(ssa.Instruction); ok {
					t.at = in
				}
				parts = append(parts, t.Term(op.Args[0]))
				t.at = saved
			}
		case op.Method == "Reset":
		default:
			return t.fail("accumulator operation %s at %s", op.Method, t.p.InstrPos(op.Call))
		}
	}
	return catTerms(parts)
}

func (t *termer) callTerm(c *ssa.Call, idx int) string {
	p := t.p
	cm := c.Common()
	id := p.CalleeID(cm)
	// the arguments have the content they had when the call was made
	savedAt := t.at
	t.at = c
	defer func() { t.at = savedAt }()
	if cm.IsInvoke() {
		switch cm.Method.Name() {
		case "Sum":
			if len(cm.Args) == 1 && isNilConst(cm.Args[0]) {
				return t.hashName(cm.Value) + "{" + t.accumContent(c) + "}"
			}
			if len(cm.Args) == 1 {
				// Sum(b) appends the digest to b
				return catTerms([]string{t.Term(cm.Args[0]), t.hashName(cm.Value) + "{" + t.accumContent(c) + "}"})
			}
		}
		return t.fail("unsupported interface call %s at %s", id, p.InstrPos(c))
	}
	switch id {
	case "builtin:append":
		var parts []string
		for _, a := range cm.Args {
			parts = append(parts, t.Term(a))
		}
		return catTerms(parts)
	case "(*math/rand.Rand).Perm":
		return "Perm(" + t.scalar(cm.Args[1]) + ")"
	case "(*math/rand.Rand).Intn":
		return "Intn(" + t.scalar(cm.Args[1]) + ")"
	case "builtin:len":
		return "len(" + t.Term(cm.Args[0]) + ")"
	case "(*bytes.Buffer).Bytes", "(*bytes.Buffer).String":
		return t.accumContent(c)
	case "bytes.NewBuffer", "bytes.NewBufferString":
		return t.Term(cm.Args[0])
	case "bytes.Clone":
		return t.Term(cm.Args[0])
	case "strconv.FormatInt":
		return "fmt" + t.scalar(cm.Args[1]) + "(" + t.Term(cm.Args[0]) + ")"
	case "strconv.Itoa":
		return "fmt10(" + t.Term(cm.Args[0]) + ")"
	case "strconv.AppendInt":
		return catTerms([]string{t.Term(cm.Args[0]), "fmt" + t.scalar(cm.Args[2]) + "(" + t.Term(cm.Args[1]) + ")"})
	case "crypto/sha256.Sum256":
		return "sha256{" + t.Term(cm.Args[0]) + "}"
	case "crypto/sha512.Sum512":
		return "sha512{" + t.Term(cm.Args[0]) + "}"
	case "golang.org/x/crypto/hkdf.New":
		h := "?"
		if f, ok := cm.Args[0].(*ssa.Function); ok {
			h = strings.TrimSuffix(strings.TrimPrefix(p.fnID(f), "crypto/"), ".New")
		}
		return "hkdf-" + h + "[ikm=" + t.Term(cm.Args[1]) + ";salt=" + t.Term(cm.Args[2]) + ";info=" + t.Term(cm.Args[3]) + "]"
	case "golang.org/x/crypto/hkdf.Extract":
		h := "?"
		if f, ok := cm.Args[0].(*ssa.Function); ok {
			h = strings.TrimSuffix(strings.TrimPrefix(p.fnID(f), "crypto/"), ".New")
		}
		return "hkdf-extract-" + h + "[ikm=" + t.Term(cm.Args[1]) + ";salt=" + t.Term(cm.Args[2]) + "]"
	case "golang.org/x/crypto/hkdf.Expand":
		h := "?"
		if f, ok := cm.Args[0].(*ssa.Function); ok {
			h = strings.TrimSuffix(strings.TrimPrefix(p.fnID(f), "crypto/"), ".New")
		}
		// Expand(h, Extract(h, ikm, salt), info) is what hkdf.New(h, ikm, salt, info) does
		if ec, _ := callOf(unspill(cm.Args[1])); ec != nil && p.CalleeID(ec.Common()) == "golang.org/x/crypto/hkdf.Extract" && ec.Common().Args[0] == cm.Args[0] {
			return "hkdf-" + h + "[ikm=" + t.Term(ec.Common().Args[1]) + ";salt=" + t.Term(ec.Common().Args[2]) + ";info=" + t.Term(cm.Args[2]) + "]"
		}
		return "hkdf-expand-" + h + "[prk=" + t.Term(cm.Args[1]) + ";info=" + t.Term(cm.Args[2]) + "]"
	case "crypto/aes.NewCipher":
		return "aes[" + t.Term(cm.Args[0]) + "]"
	case "crypto/cipher.NewCTR":
		return "ctr[" + t.Term(cm.Args[0]) + ";iv=" + t.Term(cm.Args[1]) + "]"
	case "crypto/hmac.New":
		h := "?"
		if f, ok := cm.Args[0].(*ssa.Function); ok {
			h = strings.TrimSuffix(strings.TrimPrefix(p.fnID(f), "crypto/"), ".New")
		}
		return "hmac-" + h + "[" + t.Term(cm.Args[1]) + "]"
	case "(encoding/binary.bigEndian).Uint32":
		return "be32(" + t.Term(cm.Args[1]) + ")"
	case "(encoding/binary.bigEndian).Uint16":
		return "be16(" + t.Term(cm.Args[1]) + ")"
	case "time.Now":
		return "now"
	case "(time.Time).Unix":
		return "unix(" + t.Term(cm.Args[0]) + ")"
	}
	if sc := cm.StaticCallee(); sc != nil && p.inModule(sc) {
		if i := p.aliasParam(sc); i >= 0 && i < len(cm.Args) {
			return t.Term(cm.Args[i])
		}
		if k, ok := p.simpleGetter(sc); ok {
			return t.fieldTerm(k, cm.Args[0])
		}
		var args []string
		for _, a := range cm.Args {
			if _, isPtr := a.Type().Underlying().(*types.Pointer); isPtr || refLike(a.Type()) || isIntType(a.Type()) || isNamedType(a.Type(), "bytes", "Buffer") {
				saved := t.at
				t.at = c
				args = append(args, t.Term(a))
				t.at = saved
			}
		}
		s := sc.Name() + "(" + strings.Join(args, ",") + ")"
		if idx > 0 {
			s += fmt.Sprintf("#%d", idx)
		}
		return s
	}
	return t.fail("unsupported call %s at %s", id, p.InstrPos(c))
}

// hashName: "hmac-sha256[key]" / "sha256" from the object's constructor.
func (t *termer) hashName(v ssa.Value) string {
	p := t.p
	var names []string
	for _, o := range p.Origins(v) {
		c, _ := callOf(o)
		if c == nil {
			return t.fail("hash object of unknown origin")
		}
		switch p.CalleeID(c.Common()) {
		case "crypto/hmac.New":
			h := "?"
			if f, ok := c.Common().Args[0].(*ssa.Function); ok {
				h = strings.TrimSuffix(strings.TrimPrefix(p.fnID(f), "crypto/"), ".New")
			}
			names = append(names, "hmac-"+h+"["+t.Term(c.Common().Args[1])+"]")
		case "crypto/sha256.New":
			names = append(names, "sha256")
		case "crypto/sha512.New":
			names = append(names, "sha512")
		case "github.com/dchest/siphash.New":
			names = append(names, "siphash["+t.Term(c.Common().Args[0])+"]")
		default:
			return t.fail("hash constructor %s", p.CalleeID(c.Common()))
		}
	}
	if len(names) != 1 {
		return t.fail("hash object has %d origins", len(names))
	}
	return names[0]
}

// fieldTerm names a field by its struct type when that is a module type (so
// that the name of the variable holding the object does not matter).
func (t *termer) fieldTerm(k FieldKey, base ssa.Value) string {
	bt := base.Type()
	if pt, ok := bt.Underlying().(*types.Pointer); ok {
		bt = pt.Elem()
	}
	if n, ok := bt.(*types.Named); ok && isModulePkg(n.Obj().Pkg()) {
		// nested path: keep the outer object's term when it is itself a field
		if _, _, isF := fieldLoad(unspill(base)); isF {
			return t.Term(base) + "." + k.Field
		}
		if c, _ := callOf(unspill(base)); c != nil {
			if sc := c.Common().StaticCallee(); sc != nil {
				if _, ok := t.p.simpleGetter(sc); ok {
					return t.Term(base) + "." + k.Field
				}
			}
		}
		if q, isPar := unspill(base).(*ssa.Parameter); isPar {
			isRecv := q.Parent().Signature.Recv() != nil && paramIndex(q.Parent(), q) == 0
			if !isRecv {
				return t.Term(base) + "." + k.Field
			}
		}
		return "<" + n.Obj().Name() + ">." + k.Field
	}
	return t.Term(base) + "." + k.Field
}

// filledBy: content of a make()d slice: what the calls that receive it put in.
func (t *termer) filledBy(ms *ssa.MakeSlice) string {
	var parts []string
	for _, r := range *ms.Referrers() {
		c, ok := r.(*ssa.Call)
		if !ok {
			continue
		}
		cm := c.Common()
		switch t.p.CalleeID(cm) {
		case "io.ReadFull":
			if cm.Args[1] == ssa.Value(ms) {
				parts = append(parts, "read("+t.Term(cm.Args[0])+","+t.scalar(ms.Len)+")")
			}
		case "io.ReadAtLeast":
			// ReadAtLeast(r, buf, len(buf)) is ReadFull(r, buf)
			if cm.Args[1] == ssa.Value(ms) && t.scalar(cm.Args[2]) == t.scalar(ms.Len) {
				parts = append(parts, "read("+t.Term(cm.Args[0])+","+t.scalar(ms.Len)+")")
			}
		case "builtin:copy":
			if cm.Args[0] == ssa.Value(ms) {
				parts = append(parts, t.Term(cm.Args[1]))
			}
		case "builtin:append":
			// handled at the append's own term
		case M("$M/common/csrand.Bytes"):
			parts = append(parts, "random("+t.scalar(ms.Len)+")")
		}
	}
	if len(parts) == 1 {
		return parts[0]
	}
	if len(parts) == 0 {
		if k, ok := intConst(ms.Len); ok && k == 0 {
			return `""`
		}
		return "zeros(" + t.scalar(ms.Len) + ")"
	}
	return t.fail("make at %s filled %d times", t.p.Pos(ms.Pos()), len(parts))
}

// forwardedFieldStore: a store to the same field of the same object earlier
// in the same function that dominates the load, with no possible write to
// the field in between (store-to-load forwarding, DESIGN 2.8).
func (p *Prog) forwardedFieldStore(load *ssa.UnOp, k FieldKey, base ssa.Value) *ssa.Store {
	fn := load.Parent()
	bk := objKey(base)
	var best *ssa.Store
	allInstrs(fn, func(in ssa.Instruction) {
		st, ok := in.(*ssa.Store)
		if !ok {
			return
		}
		fa, ok := st.Addr.(*ssa.FieldAddr)
		if !ok {
			return
		}
		fk, ok := fieldKeyOf(fa.X.Type(), fa.Field)
		if !ok || fk != k || objKey(fa.X) != bk || !instrDominates(st, load) {
			return
		}
		if best == nil || instrDominates(best, st) {
			best = st
		}
	})
	if best == nil || storeBetween(p, best, load, k) {
		return nil
	}
	return best
}

// constSliceLen: the length of a slice / array value where it is a compile-time constant.
func constSliceLen(v ssa.Value) (int64, bool) {
	v = unspill(v)
	if n, ok := constLen(v.Type()); ok {
		return n, true
	}
	switch x := v.(type) {
	case *ssa.Slice:
		lo := int64(0)
		if x.Low != nil {
			k, ok := intConst(x.Low)
			if !ok {
				return 0, false
			}
			lo = k
		}
		if x.High != nil {
			k, ok := intConst(x.High)
			if !ok {
				return 0, false
			}
			return k - lo, true
		}
		if n, ok := constLen(x.X.Type()); ok {
			return n - lo, true
		}
		if n, ok := constSliceLen(x.X); ok {
			return n - lo, true
		}
	case *ssa.MakeSlice:
		return intConst(x.Len)
	case *ssa.Convert:
		if s, ok := constString(x.X); ok {
			return int64(len(s)), true
		}
	case *ssa.Const:
		if s, ok := constString(x); ok {
			return int64(len(s)), true
		}
	}
	return 0, false
}
