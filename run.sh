#!/bin/sh
# Wrapper around the static checker: builds it offline if needed, then runs it
# against /repo's current working tree.  Usage: ./run.sh -prop C03 [-tier quick|thorough]
set -e
cd "$(dirname "$0")"
export GOFLAGS=-mod=mod GOPROXY=off GOSUMDB=off GOTOOLCHAIN=local GONOSUMDB=* GONOSUMCHECK=1
unset GOWORK
BIN=bin/obfsvet
need=0
[ -x "$BIN" ] || need=1
if [ $need -eq 0 ] && [ -n "$(find checker -newer "$BIN" \( -name '*.go' -o -name '*.json' -o -name 'go.mod' \) -print -quit)" ]; then need=1; fi
if [ $need -eq 1 ]; then
	mkdir -p bin
	(cd checker && go build -o ../bin/obfsvet.tmp.$$ . && mv ../bin/obfsvet.tmp.$$ ../bin/obfsvet) || { echo "run.sh: cannot build the checker" >&2; exit 2; }
fi
exec "$BIN" -verif "$(pwd)" "$@"
