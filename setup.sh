#!/bin/sh
# Offline build of the checker (MANIFEST.setup_cmd).
set -e
cd "$(dirname "$0")"
export GOFLAGS=-mod=mod GOPROXY=off GOSUMDB=off GOTOOLCHAIN=local
unset GOWORK
mkdir -p bin evidence
(cd checker && go build -o ../bin/obfsvet .)
echo "obfsvet built"
