#!/bin/bash
# bn.sh <benign-id> <prop> [extra obfsvet flags] — run one property's check on the scratch copy /tmp/bn/<id>
# (a copy of /repo HEAD with /verif/benign/<id>/patch.diff applied); prints failing obligations with reasons.
id=$1; P=$2; shift 2
[ -d /tmp/bn/$id ] || { mkdir -p /tmp/bn/$id && (cd /repo && git archive HEAD | tar -x -C /tmp/bn/$id) && (cd /tmp/bn/$id && patch -p1 -s < /verif/benign/$id/patch.diff); }
mkdir -p /tmp/seedrun; cp /verif/KNOWN_FINDINGS.jsonl /tmp/seedrun/
${OBFSVET:-/verif/bin/obfsvet} -prop $P -repo /tmp/bn/$id -verif /tmp/seedrun "$@" | grep -A4 -E "^(VIOLATED|UNDECIDED)" | grep -v "^--" | cut -c1-900
