#!/bin/bash
# bn_all.sh [ids...] — run every property's quick check on the scratch copies of the benign refactorings
# (/tmp/bn/<id>, created on demand from /repo HEAD + /verif/benign/<id>/patch.diff); print which checks fire.
cd /verif
IDS="$@"; [ -z "$IDS" ] && IDS=$(ls benign | grep -E "^C[0-9]+-" | sort)
mkdir -p /tmp/bnrun; 
total=0; silent=0
for id in $IDS; do
  [ -d /tmp/bn/$id ] || { mkdir -p /tmp/bn/$id && (cp -a /tmp/headcopy/. /tmp/bn/$id/ 2>/dev/null || (cd /repo && git archive HEAD | tar -x -C /tmp/bn/$id)) && (cd /tmp/bn/$id && patch -p1 -s < /verif/benign/$id/patch.diff); }
  mkdir -p /tmp/bnrun/$id; cp KNOWN_FINDINGS.jsonl /tmp/bnrun/$id/
  for P in $(seq -f "C%02g" 1 20); do
    ( ${OBFSVET:-bin/obfsvet} -prop $P -tier quick -repo /tmp/bn/$id -verif /tmp/bnrun/$id > /tmp/bnrun/$id/$P.log 2>&1; echo $? > /tmp/bnrun/$id/$P.rc ) &
  done
  wait
  fired=""
  for P in $(seq -f "C%02g" 1 20); do [ "$(cat /tmp/bnrun/$id/$P.rc)" != "0" ] && fired="$fired $P"; done
  total=$((total+1))
  if [ -z "$fired" ]; then silent=$((silent+1)); echo "$id: silent"; else echo "$id: FIRED$fired"; fi
done
echo "$silent of $total silent"
