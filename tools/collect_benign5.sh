#!/bin/bash
# collect_benign3.sh — archive the round-5 ("everyday maintenance commits") behaviour-preserving changes written by
# sub-agents under /tmp/wtf/Cxx/_out/N as /verif/benign/Cxx-dN (patch must apply to /repo HEAD).
cd /verif
for i in $(seq -w 1 20); do for n in 1 2 3 4; do
  src=/tmp/wtf/C$i/_out/$n; dst=benign/C$i-f$n
  [ -f $src/patch.diff ] || continue
  [ -d $dst ] && continue
  (cd /repo && git apply --check $src/patch.diff 2>/dev/null) || { echo "does not apply: $src"; continue; }
  mkdir -p $dst; cp $src/patch.diff $dst/; cp $src/README.md $dst/ 2>/dev/null
  echo "kept $dst"
done; done
