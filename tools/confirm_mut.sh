#!/bin/bash
# confirm_mut.sh <worktree> <n> <demo-pkg-dir> [check-prop...]
# Confirms a sub-agent mutation: applies _out/<n>/patch.diff in the scratch worktree, builds, runs the
# full suite (must pass), runs the demo (must fail), reverts, runs the demo on the clean tree (must pass),
# then runs the named property checks against the mutated tree (read-only, -repo <worktree>).
set -u
WT=$1; N=$2; PKG=$3; shift 3
export GOFLAGS=-mod=mod GOPROXY=off GOSUMDB=off GOTOOLCHAIN=local; unset GOWORK
OUT=$WT/_out/$N
cd "$WT" || exit 2
git checkout -q -- . ; git clean -fdq -e _out
git apply --check "$OUT/patch.diff" || { echo "RESULT patch-does-not-apply"; exit 1; }
git apply "$OUT/patch.diff"
echo "== build"; go build ./... || { echo "RESULT no-build"; git checkout -q -- .; exit 1; }
echo "== suite (mutated)"; go test -vet=off -count=1 ./... 2>&1 | grep -v "no test files" | tail -12
suite=${PIPESTATUS[0]}
DEMOS=$(ls "$OUT"/*_test.go 2>/dev/null)
RX=$(grep -h '^func Test' $DEMOS | sed -E 's/^func (Test[A-Za-z0-9_]*).*/\1/' | paste -sd'|')
RX="^(${RX})\$" 
for d in $DEMOS; do cp "$d" "$PKG/zz_$(basename $d)"; done
echo "== demo (mutated; must fail)"; timeout 120 go test -vet=off -count=1 -run "$RX" "./$PKG" 2>&1 | tail -15
demo_mut=${PIPESTATUS[0]}
for d in $DEMOS; do rm -f "$PKG/zz_$(basename $d)"; done
# checks on the mutated tree
SR=/tmp/seedrun/$(basename $WT); mkdir -p $SR; cp /verif/KNOWN_FINDINGS.jsonl $SR/
for P in "$@"; do
  echo "== check $P (mutated)"; /verif/bin/obfsvet -prop $P -repo "$WT" -verif $SR | grep -E "^(VIOLATED|UNDECIDED|VIOLATION|C[0-9]+ tier)" | head -12
done
git checkout -q -- .
for d in $DEMOS; do cp "$d" "$PKG/zz_$(basename $d)"; done
echo "== demo (clean; must pass)"; timeout 120 go test -vet=off -count=1 -run "$RX" "./$PKG" 2>&1 | tail -5
demo_clean=${PIPESTATUS[0]}
for d in $DEMOS; do rm -f "$PKG/zz_$(basename $d)"; done
git checkout -q -- . ; git clean -fdq -e _out
echo "RESULT suite=$suite demo_mut=$demo_mut demo_clean=$demo_clean (want 0, nonzero, 0)"
