#!/usr/bin/env python3
"""keep_mut.py <worktree> <n> <seed-id> <property> <demo-pkg-dir> <needs> <caught-by> [<summary>]
Archive a confirmed sub-agent mutation under /verif/seeded/<seed-id>/."""
import sys, os, shutil, json, glob
wt, n, sid, prop, pkg, needs, caught = sys.argv[1:8]
summary = sys.argv[8] if len(sys.argv) > 8 else ""
src = os.path.join(wt, "_out", n)
dst = os.path.join("/verif/seeded", sid)
os.makedirs(dst, exist_ok=True)
shutil.copy(os.path.join(src, "patch.diff"), os.path.join(dst, "patch.diff"))
demos = []
for f in sorted(os.listdir(src)):
    if f in ("patch.diff",):
        continue
    p = os.path.join(src, f)
    if os.path.isdir(p):
        if os.path.exists(os.path.join(dst, f)): shutil.rmtree(os.path.join(dst, f))
        shutil.copytree(p, os.path.join(dst, f)); demos.append(f + "/")
    else:
        # demo test files are stored with a .txt suffix so that `go` never picks them up inside /verif
        name = f + ".txt" if f.endswith(".go") else f
        shutil.copy(p, os.path.join(dst, name)); demos.append(name)
meta = {
 "id": sid, "property": prop, "summary": summary,
 "needs_to_manifest": needs,
 "demo": {"files": demos, "copy_into": pkg, "run": f"cp demo_test.go.txt {pkg}/zz_demo_test.go && go test -vet=off -count=1 -run 'Demo|C[0-9][0-9]' ./{pkg}"},
 "confirmed": {"by": "tools/confirm_mut.sh in a scratch git worktree of /repo HEAD (removed afterwards)",
               "patch_applies": True, "builds": True, "existing_suite_on_mutant": "pass", "demo_on_mutant": "fails", "demo_on_clean_tree": "passes"},
 "detected_by": caught,
}
json.dump(meta, open(os.path.join(dst, "meta.json"), "w"), indent=1)
print("kept", dst, demos)
