#!/usr/bin/env python3
# mk87.py — regenerate the bullet list of DESIGN.md 8.7 from ADDENDA in mkmanifest.py
import re, os, importlib.util
HERE = os.path.dirname(os.path.dirname(os.path.abspath(__file__)))
spec = importlib.util.spec_from_file_location("mkmanifest", os.path.join(HERE, "tools", "mkmanifest.py"))
m = importlib.util.module_from_spec(spec); spec.loader.exec_module(m)
d = open(os.path.join(HERE, "DESIGN.md")).read()
a = d.index("### 8.7 Rules added after section 4 was written")
b = d.index("Engine changes of the same period", a)
head = ("### 8.7 Rules added after section 4 was written\n"
        "Section 4 describes the rules as planned and first built.  The rules below were added in rounds 2 to 9 (8.6); "
        "`MANIFEST.json` (`level_claimed.text`) and the evidence files name them too.\n\n")
bul = "".join("* **%s.**%s\n" % (k, m.ADDENDA[k]) for k in sorted(m.ADDENDA))
open(os.path.join(HERE, "DESIGN.md"), "w").write(d[:a] + head + bul + "\n" + d[b:])
print("8.7:", len(m.ADDENDA), "properties")
