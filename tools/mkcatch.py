#!/usr/bin/env python3
"""mkcatch.py — regenerate the 'which checks catch which changes' table of DESIGN.md (between the
<!-- CATCH-TABLE:BEGIN --> / <!-- CATCH-TABLE:END --> markers) from seeded/*/meta.json and
seeded/CATCH_MATRIX.json (written by tools/regress_mutants.sh)."""
import json, os, re, glob
root = "/verif"
mat = json.load(open(f"{root}/seeded/CATCH_MATRIX.json")) if os.path.exists(f"{root}/seeded/CATCH_MATRIX.json") else {}
rows = []
for d in sorted(glob.glob(f"{root}/seeded/C*-*")):
    sid = os.path.basename(d)
    mp = os.path.join(d, "meta.json")
    if not os.path.exists(mp):
        continue
    m = json.load(open(mp))
    mm = mat.get(sid, {})
    own = m["property"]
    keys = mm.get("keys", {}).get(own, [])
    others = [p for p in mm.get("caught_by", []) if p != own]
    def short(k):
        k = re.sub(r"^C\d\d\.", "", k)
        return "`" + k.replace("|", "\\|") + "`"
    kk = ", ".join(short(k) for k in keys[:3]) + (" …" if len(keys) > 3 else "")
    if not kk:
        kk = m.get("detected_by", "?")
    summ = m.get("summary", "").replace("|", "\\|")
    rows.append(f"| {sid} | {summ} | {kk} | {', '.join(others) if others else '—'} |")
tbl = "| change | what it breaks | obligations of its own property that report it | also reported by |\n|---|---|---|---|\n" + "\n".join(rows)
s = open(f"{root}/DESIGN.md").read()
b, e = "<!-- CATCH-TABLE:BEGIN -->", "<!-- CATCH-TABLE:END -->"
if b in s and e in s:
    s = s[:s.index(b) + len(b)] + "\n" + tbl + "\n" + s[s.index(e):]
    open(f"{root}/DESIGN.md", "w").write(s)
    print("table updated:", len(rows), "rows")
else:
    print(tbl)
