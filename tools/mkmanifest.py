#!/usr/bin/env python3
"""Generate /verif/MANIFEST.json from the table below (kept next to the checker
so that MANIFEST never claims a property whose rules are not running)."""
import json, os, sys
HERE = os.path.dirname(os.path.dirname(os.path.abspath(__file__)))

# id -> (technique, level text, level note, design ref)
CLAIMED = {
 "C07": ("ordered-effect analysis of the byte buffers and field-element objects (which instruction writes what, in dominance order), constant mask evaluation, value-origin and guard (necessary-condition) rules, E7 scalar terms for the low-order-point selectors, global-write/receiver ownership rule for re-entrancy, over go/ssa",
         "Decides only the structural clauses around the arithmetic: encode ORs exactly tweak&0xc0 into byte 31 after serialising, decode loads once from a private copy masked with 0x3f before any field operation, masks complementary; public key and representative come from one unmodified u and the public key is written only on success; the dirty multiply adds a low-order point keyed by the three low bits of privateKey[0] before conversion; NewKeypair retries with a fresh key until success, private key/tweak from disjoint digest bytes, ToPublic argument order; package-level elements are read-only outside init. NOT decided: the Elligator 2 map and its inverse, round trip, DH agreement, coset coverage (field arithmetic over 2^256 inputs).",
         "go/types+go/ssa faithful; field.Element methods write only their receiver; elligator2.MontgomeryFlavor is the map", "DESIGN.md section 4, C07"),
 "C09": ("relational bounds analysis with per-path Fourier-Motzkin refutation (burst arithmetic of padBurst over all tail/target pairs, makePacket's appended length, paranoid-mode length guards, makePacket precondition and panic unreachability), type-level array bounds of network writes, value-origin rules (targets and delays are samples), guard-set and E7 term agreement for seed adoption and the three construction sites, over go/ssa",
         "Decides: frames and IAT-mode writes are slices of [1448]byte arrays; burst targets / paranoid lengths / delays are samples of the connection's distributions; only a client adopts a 24-byte seed, lenDist from the payload and iatDist from SHA-256 of it, the server sends the seed its own distribution uses and construction sites agree; makePacket appends exactly 21+len(data)+padLen; every success path of padBurst ends on the target (mod 1448) or the target plus a header and the latter only when the needed padding is at most a header; paranoid writes have at least the sampled length buffered; panics on the Write path unreachable except the recorded finding F1 (zero sample in paranoid mode). Termination of the paranoid resampling loop and timing are not decided.",
         "go/types+go/ssa faithful; contract table (bytes.Buffer, secretbox.Seal, Sample in [minValue,maxValue])", "DESIGN.md section 4, C09"),
 "C12": ("effect/ownership analysis of the table generation (no nondeterministic source, draws only on the seeded generator, must-written-before-read dataflow over Reset), E7 expression shape of Sample/IntRange/Int63/NextBlock, relational bounds analysis (E8) for IntRange's [min,max] ensures and the table size, lock-region rule over go/ssa",
         "Decides: the tables are a function of seed, bounds and bias flag only (no other randomness, no map iteration, no carry-over from the previous Reset, non-nil seeds at every call site); Sample = minValue + values[i or alias[i]] with an unmodified permutation prefix; generator layout seed[0:16]/seed[16:24], OFB step, returned copy, 63-bit big-endian outputs; IntRange in [min,max] with range (max+1)-min; 1 <= table size <= 100; Reset/Sample in one critical section. Probabilities and alias-table exactness (floating point) are not decided.",
         "go/types+go/ssa faithful; math/rand.Rand deterministic over its Source; contract table", "DESIGN.md section 4, C12"),
 "C15": ("relational bounds analysis of the parsers, must-pass-through (packet and handshake MACs), accumulator-state reachability rule for the re-run parser, freshness/ownership of partial-packet state, typestate of ticket use, E7 layout terms vs spec, C10 instances over go/ssa",
         "Decides: all parser/builder bounds (the F2 defect was found here and fixed); only MAC-verified payload-flag packets surface, MAC over header-then-body ciphertext, header layout agreement, private copies of partial MAC/header; tickets deleted before being handed out, expired ones refused, persisted issue time kept, fallback to UniformDH with no prior write; handshake MAC guard and no retry after feeding the running HMAC; handshake layouts, key-material offsets, constants; deadline/loop/short-read/fault rules. Byte-exact delivery against a conforming server is not decided.",
         "go/types+go/ssa faithful; contract table; checker/spec/scramblesuit.json", "DESIGN.md section 4, C15"),
 "C13": ("structural/def-use rules on the UniformDH big-integer dataflow, E7 role table of the obfs3 key derivation vs spec, closed guard sets for the magic scan, single-writer/ownership for the buffer hand-over, deadline typestate over go/ssa",
         "Decides: even exponent before Exp, coin selects X / p-X, FillBytes into 192-byte buffers, 192-byte import check; INIT/RESP streams and magics per role as specified; whole-buffer scan with the 8194/8226 bounds and exact drop; reader rewired only on empty buffer and the buffer object never replaced; padding draws in [0,4097]; deadlines. Modular arithmetic, AES-CTR and byte-exact delivery are not decided.",
         "go/types+go/ssa faithful; math/big semantics; checker/spec/obfs3.json", "DESIGN.md section 4, C13"),
 "C14": ("E7 expression trees of the key derivations and a role table (which stream each role sends/receives with) compared with spec terms; must-pass-through for magic/PADLEN with acceptance-set check; exact-read discipline; deadline typestate over go/ssa",
         "Decides conformance of the obfs2 key derivation, labels, constants and role assignment to the specification; that success requires the magic and PADLEN <= 8192 and accepts all of [0,8192]; that the handshake consumes exactly seed[16], header[8], padding[PADLEN] with io.ReadFull outside loops and sends seed | E(magic|padlen|padding) big-endian; deadlines armed/removed. Byte-exact delivery under segmentation is not decided.",
         "go/types+go/ssa faithful; checker/spec/obfs2.json transcribes the obfs2 spec", "DESIGN.md section 4, C14"),
 "C17": ("who-may-call rules on read primitives, E7 term for the private buffer, def-use/phi provenance of Target and the argument string with edge-fact sets, relational bounds, deadline typestate, reply-before-failure-return pairing over go/ssa",
         "Decides: all input arrives through ReadByte/io.ReadFull into private buffers (segmentation independence); Target = host of the received address-type arm + big-endian port; argument string = username [+ password unless single NUL], parsed bytewise, stored in Args; all reader indices in bounds; 5 s deadline armed/disarmed; flush with unread input fails; every failure path replies with the proper code. The argument parser's input/output relation (escape automaton) is not decided.",
         "go/types+go/ssa faithful; bufio/io.ReadFull semantics; contract table", "DESIGN.md section 4, C17"),
 "C16": ("relational bounds proof of the body size, slice-identity and phi/def-use rules for the carry-over, single-writer/who-calls ownership, entry-block typestate for the closed check, value-origin (freshness) analysis over go/ssa",
         "Decides: body = sndBuf[:wrSz] with wrSz <= 65536 proved; carry-over is exactly sndBuf[wrSz:] and is prepended next time, queued writes are appended in arrival order; one session id; RoundTrip only in roundTrip, called synchronously from the single worker; Read and Write test the close signal first and fail when closed; responses and enqueued writes are private allocations; the worker leaves its loop on close. Stream integrity under all timings is a scheduling property and is not decided.",
         "go/types+go/ssa faithful; io.ReadAll allocates; contract table", "DESIGN.md section 4, C16"),
 "C11": ("lock-region analysis (single Lock + deferred Unlock dominating every guarded access, helper closure), dominance (compaction before lookup), control-equivalent pairing of map/list mutations with closed-world enumeration, closed guard sets for eviction over go/ssa",
         "Decides the structural necessary conditions only: one critical section around lookup+insert, all accesses to map/list under the mutex, compaction with the caller's time before the lookup, map/list mutated only in matching same-block pairs on the same entry, CSPRNG key with a single writer, eviction only when full (re-tested per entry, capacity 102400), TTL disabled or age >= ttl, reset on negative age. Behaviour over histories and linearizability are not decided.",
         "go/types+go/ssa faithful; sync.Mutex/container/list behave as documented", "DESIGN.md section 4, C11"),
 "C18": ("typestate/ordering of the file-replacement helper with error-chain analysis, who-may-call rules for in-place writes, must-pass-through for regeneration and write-back, provenance of advertised arguments over go/ssa",
         "Decides that every persistent file is replaced by temp-in-same-dir -> write -> sync -> close -> rename with the rename guarded by all three successes and the target never touched before it; that no in-place create/truncate of a state path exists (named exemptions); that a new identity is generated only under os.IsNotExist of the state-file read; that every successful start writes the possibly overridden state back and advertises cert/iat-mode from it; that the cert writer/reader agree and the client accepts every advertised iat-mode. File-system behaviour under power loss is not decided.",
         "go/types+go/ssa faithful; POSIX rename replaces atomically", "DESIGN.md section 4, C18"),
 "C19": ("pairing/dominance rules over the relay closures (defers, channel capacity vs send sites, wait-before-return), start/finish pairing, check-before-blocking reachability over go/ssa",
         "Decides the structural necessary conditions: two crossed io.Copy copiers that each defer Close of both connections and Done, an error channel that can hold every send, return only after Wait; every handler start is immediately followed by a deferred finish and the count has a single writer; the monitor loop evaluates its zero-handler exit condition on every path into the blocking select. Interleavings themselves are not decided.",
         "go/types+go/ssa faithful; io.Copy forwards everything it read before returning", "DESIGN.md section 4, C19"),
 "C20": ("type lemma via types.Implements + closed allow-list information flow over the SSA of the scrubbers + taint-with-sanitisers at the log call sites",
         "Decides that with scrubbing on, whenever a net.Error is in the chain (which every address-carrying standard error type is, by types.Implements), the text ElideError returns is built only from constants, three allow-listed cause/operation fields, %T formatting, errno text and recursive scrubber calls; ElideAddr returns only constants and the port; with unsafe logging both return their input; every log call in package main prints only sanitised errors/addresses (named exemptions). The field allow-list is trusted: DNSError.Err text produced by the Go resolver may itself embed resolver addresses.",
         "go/types+go/ssa faithful; field table of checker/c20.go; syscall.Errno text is address-free", "DESIGN.md section 4, C20"),
 "C08": ("E7 expression-tree reconstruction of the ntor computations compared with spec terms + no-write-through-parameter ownership rules over go/ssa",
         "Decides that status, KEY_SEED and AUTH of both roles are the deployed expressions over the right operands (each X25519 output zero-tested before reuse, all five inputs hashed in the deployed order, roles crossed correctly), that Kdf is one length-independent HKDF stream, and that Kdf/handshakes/key constructors neither modify nor mangle their inputs. Equality with an independent computation is not decided.",
         "go/types+go/ssa faithful; checker/spec/ntor.json transcribes the deployed ntor", "DESIGN.md section 4, C08"),
 "C01": ("layout agreement (linear-term comparison), ownership/who-writes, closed-world guard sets, typestate (drain-before-block), loop-exit and phi-web analysis, reader/writer field partition over go/ssa",
         "Decides structural necessary conditions of exact delivery: writer/reader packet layout agree; only the authenticated, length-validated payload slice reaches the application buffer and nothing else gates it; encoder/decoder frame lock-step and all-or-nothing field reads; Write chops b without gaps and flushes all frames; handshake remainder kept and decoded before blocking; loops exit only with data or fatal error; short-read discipline incl. bytes returned with an error; Read and Write paths share no unsynchronised mutable state. Equality of delivered bytes under all chunkings/interleavings is not decided.",
         "go/types+go/ssa faithful; bytes.Buffer/encoding/binary behave as documented", "DESIGN.md section 4, C01"),
 "C05": ("must-pass-through, writer ownership, sticky-flag and control-equivalence rules, phi-web error analysis, relational bounds, key-range resolution over go/ssa",
         "Decides that Decode succeeds only after secretbox.Open ok with the invalid-length flag clear, opens with its own nonce/key (single initialiser), advances the sequence only on success, stores only in-range lengths, that Read never loses a fatal error, that only authenticated payload surfaces, that all parser bounds hold, and that the two directions use different key blocks. Cryptographic strength is not decided.",
         "go/types+go/ssa faithful; secretbox.Open is an authenticated open; library contracts in checker/contracts.go", "DESIGN.md section 4, C05"),
 "C06": ("constants from types.Info and SSA use sites vs spec tables; E7 expression-tree reconstruction of handshake/transcript/KDF layouts compared with spec terms; key-range resolution; structural shape rules over go/ssa",
         "Decides conformance of every constant, offset, order, label, endianness and direction of the obfs4 wire format against tables transcribed from the protocol spec (76 obligations). Actual interoperation and the primitives are not decided.",
         "go/types+go/ssa faithful; checker/spec/obfs4_wire.json transcribes the deployed format", "DESIGN.md section 4, C06"),
 "C10": ("relational bounds analysis (dominating linear facts + contracts + callee summaries, Fourier-Motzkin entailment) + deadline typestate + loop/back-edge rules + channel-closure ownership over go/ssa",
         "Decides, for all functions reachable from the network entry points: every slice/index/make/library-precondition obligation holds and every explicit panic is unreachable on every path (named exclusions listed in the evidence); handshake deadlines are armed before all I/O, not in a loop, and removed on every success path; handshake read loops are size-bounded and never spin; read faults are returned as fatal errors; closable channels are closed once and sends are protected; raw Read buffers are only used as buf[:n]. One known finding (paranoid-IAT zero-length panic). Liveness in general and data-phase memory bounds are not decided.",
         "go/types+go/ssa faithful; the library contract table in checker/contracts.go; field-interval invariants assume initialised-before-use", "DESIGN.md section 4, C10; section 2.9"),
 "C02": ("must-pass-through (dominance, compositional success-implies) + value provenance + ownership over go/ssa",
         "Decides on every path that Dial succeeds only after the response MAC check, a successful ntor.ClientHandshake on the right operands and a true CompareAuth between that call's AUTH and the received AUTH bytes; HMAC key = identity|node-id; link keys installed only after the parser succeeded, from Kdf of its seed; raw connection closed on failure; CompareAuth constant-time on both full operands; keypairs originate from a per-connection NewKeypair(true). Cryptographic strength is not decided.",
         "go/types+go/ssa faithful; hmac.Equal is constant-time equality", "DESIGN.md section 4, C02"),
 "C04": ("must-pass-through with monotone-flag phis + accumulator sequence reconstruction + constants/ownership over go/ssa",
         "Decides that WrapConn succeeds only after hmac.Equal==true and ReplayFilter.TestAndSet==false on the very MAC slice compared (stamped time.Now()), the MAC input is resp[:pos+16]|decimal(Unix()/3600+off) for off in exactly {-1,0,+1}, the filter is the single per-factory one, its TTL covers the 3 h window and the reply is bound to the matched hour. Filter behaviour over histories is C11.",
         "go/types+go/ssa faithful; hmac/strconv/time behave as documented", "DESIGN.md section 4, C04"),
 "C03": ("must-pass-through (dominance) + who-writes/who-calls + provenance allow-list over go/ssa",
         "Decides structural necessary conditions of the statement on every path of the server code: no raw-connection write site is reachable before the handshake validation succeeded, every post-read failure return funnels through the delayed closer, the close deadline is a function of accept time, per-bridge closeDelay and constants only, 30 s/60 constants, single deferred Close, deadline armed before first read. Wall-clock behaviour is not decided.",
         "go/types+go/ssa faithful; net.Conn implementations honour the interface contract; io.Copy(io.Discard, r) only reads", "DESIGN.md section 4, C03"),
}

# Rules added after the first version of the table (rounds 2 and 3 of the sub-agent experiments); appended to
# the level text so that the manifest names what is decided today.
ADDENDA = {
 "C04": " Also decided: the clock is read and the replay filter consulted in one critical section (defect F9 was found here and fixed): simultaneous handshakes reach the filter in the order of their time stamps.",
 "C11": " Also decided: compactFilter is left only when the list is exhausted, after a reset, or at an entry younger than the TTL (no memoised early exit); explicit-unlock critical sections are recognised.",
 "C01": " Also decided: a well-formed packet (3 <= n <= 1427, length <= n-3) is never rejected by the reader; chopping by a loop-carried offset is recognised; the distributions shared by the reader and writer goroutines are sampled and re-seeded in one critical section each (C12's lock rule, as R9).",
 "C02": " Also decided: no hash/cipher/buffer object of the handshake code is a package-level variable (shared by concurrent connections). All ntor terms (status per exponent, KEY_SEED and AUTH as functions of the secret input) are compared with the spec, not only the status.",
 "C05": " Also decided: no hash/cipher/buffer object of the frame code is a package-level variable. The framing rules of C06.R3 (nonce = prefix | full 64-bit counter, counter start, wrap refusal, key-block layout) are imported as RN3.",
 "C06": " Also decided: the accept side of the packet reader (no well-formed packet rejected, including the header-only packet); the hour the reply and the verification are bound to (C04's hour rules, imported as RH2/RH5).",
 "C08": " Also decided: no shared (package-level) hash object in common/ntor; append to an input slice and io.Writer.Write of it do not count as modifying the input.",
 "C10": " Also decided: meek's carry-over buffer is nil or non-empty between calls (the invariant behind panic(\"empty read buffer\"), formerly excluded); the obfs4 leftover flag is cleared whenever the read is skipped (C01.R5/R6 imported as RS5/RS6). C12's lock rule for the shared distributions (R9) and meek's bounded response read (io.ReadAll only over io.LimitReader(.., <= 65536)) are part of this property too.",
 "C12": " Also decided: both worklists of genTables are provably empty when the tables are published and every removed index is settled; csrand.Intn/Float64 are exactly Rand.Intn/Float64 of the package generator built over the CSPRNG source (range by delegation; a hand-rolled conversion is undecided). The alias tables are built from weight*n/(sum of all weights) with the sum taken on every path.",
 "C13": " Also decided: nothing but SetBit modifies the exponent between load and Exp; the handshake receive buffer is written only by the magic scanner with the bytes of its own read; the handshake itself reads its fixed-size fields with io.ReadFull; no shared hash state.",
 "C14": " Also decided: mac()/kdf use call-local hash objects (no package-level hash shared by concurrent handshakes).",
 "C15": " Also decided (rules shared with obfs4): the bytes that follow the server response are kept (Next(n)) and are parsed before the data phase blocks on the network again (defect F8 was found here and fixed); Read never replaces a pending fatal error by the decoded buffer's result; serialize reports success only through the file write; no shared hash state. C13's UniformDH structure rules (fixed-width 192-byte public value and shared secret) are imported as RU1.",
 "C16": " Also decided: the carry-over buffer of Read is nil or non-empty between calls (every store, every consuming site). Every response body is read through io.ReadAll(io.LimitReader(.., <= 65536)) and roundTrip reports success only with what that read returned; no transport Write retains the caller's slice.",
 "C18": " Also decided: every field of the persisted state that the load path reads is filled in by both writers (generation and explicit arguments); the identity key is derived by plain base-point multiplication at generation and at reload (NewKeypair(false) / KeypairFromHex).",
 "C19": " io.CopyBuffer counts as io.Copy only with a staging buffer allocated by the copier goroutine itself. The handler event channel is unbuffered; start/finish pairing is judged over +1/-1 events on it (helper calls or direct sends); no transport Write keeps the caller's slice beyond the call (io.Copy reuses its buffer).",
 "C20": " Also decided: the scrubbing switch is written only by log.Init, with its own argument, on every successful path.",
}

NOT_YET = "only the structural clauses named in DESIGN.md are statically decidable and their rules are not implemented yet"

def main():
    props = [json.loads(l) for l in open(os.path.join(HERE, "properties.jsonl"))]
    checks, na = [], []
    for p in props:
        pid = p["id"]
        if pid in CLAIMED:
            tech, text, note, ref = CLAIMED[pid]
            checks.append({
                "property_id": pid,
                "quick_cmd": f"./run.sh -prop {pid} -tier quick",
                "thorough_cmd": f"./run.sh -prop {pid} -tier thorough",
                "evidence_file": f"/verif/evidence/{pid}.json",
                "replay_cmd_template": "./run.sh -replay {path}",
                "engine": "obfsvet",
                "level_claimed": {"category": "other", "text": text + ADDENDA.get(pid, ""), "design_ref": ref},
                "level_note": note,
                "technique": "static analysis: " + tech,
            })
        else:
            na.append({"property_id": pid, "reason": NOT_YET})
    m = {
        "version": 1,
        "setup_cmd": "./setup.sh",
        "hooks": {"guard": "verif", "enable": "no hooks are needed: the checker reads /repo's sources, nothing is instrumented",
                  "baseline_off_cmd": "cd /repo && go build ./... && go test -vet=off -count=1 ./...",
                  "source_commits": [], "add_only": True},
        "engines": [{"name": "obfsvet", "path": "/verif/checker", "serves_properties": sorted(CLAIMED),
                     "kind_free_text": "repository-specific static analyser over go/packages + go/ssa (x/tools v0.29.0): path facts, provenance, ownership, typestate, constants, linear bounds"}],
        "checks": checks,
        "not_applicable": na,
        "notes": "All checks are static: they load /repo's current working tree, type-check it and analyse its SSA form; nothing in /repo is executed. thorough = same rules over the GOOS/GOARCH build matrix plus seeded-break self-validation of every rule plus an in-memory replay of the archived sub-agent changes of the property (seeded/: must be reported; benign/: must stay silent).",
    }
    json.dump(m, open(os.path.join(HERE, "MANIFEST.json"), "w"), indent=1)
    print("claimed:", sorted(CLAIMED), "not_applicable:", [x["property_id"] for x in na])

if __name__ == "__main__":
    main()
