#!/bin/bash
# mt.sh <seeded-id> <prop> — run one property's quick check on a scratch copy (/tmp/mt/<id>) of /repo HEAD
# with the archived breaking change /verif/seeded/<id>/patch.diff applied.  ${OBFSVET:-bin/obfsvet}.
cd /verif
id=$1; P=$2
[ -d /tmp/mt/$id ] || { mkdir -p /tmp/mt/$id && (cd /repo && git archive HEAD | tar -x -C /tmp/mt/$id) && (cd /tmp/mt/$id && patch -p1 -s < /verif/seeded/$id/patch.diff); }
mkdir -p /tmp/mtrun/$id; cp KNOWN_FINDINGS.jsonl /tmp/mtrun/$id/
${OBFSVET:-bin/obfsvet} -prop $P -tier quick -repo /tmp/mt/$id -verif /tmp/mtrun/$id
