#!/bin/bash
# regress_mutants.sh [ids...] — for every archived change under /verif/seeded/<id>/ : apply it to /repo
# (git -C /repo apply), run the quick check of EVERY property against the mutated tree, undo it
# (git -C /repo apply -R; the tree must be clean afterwards), and record which checks reported a violation.
# Evidence of these runs goes to a scratch directory, never to /verif/evidence.
# Output: /verif/seeded/CATCH_MATRIX.json  (id -> {own: bool, caught_by: [props], keys: {...}})
set -u
cd /verif
export GOFLAGS=-mod=mod GOPROXY=off GOSUMDB=off GOTOOLCHAIN=local; unset GOWORK
./run.sh -prop C01 -tier quick >/dev/null 2>&1   # make sure bin/obfsvet is current
SCR=$(mktemp -d /tmp/regr.XXXXXX)
trap 'rm -rf "$SCR"' EXIT
if [ -n "$(git -C /repo status --porcelain)" ]; then echo "/repo is not clean"; exit 2; fi
MERGE=0; [ $# -gt 0 ] && MERGE=1   # named ids: merge into the existing matrix
IDS="$@"; [ -z "$IDS" ] && IDS=$(ls seeded | grep -E '^C[0-9]+-[0-9]+$' | sort)
PROPS=$(seq -f "C%02g" 1 20)
echo "{" > "$SCR/matrix.json"; first=1
for id in $IDS; do
  prop=${id%%-*}
  git -C /repo apply "/verif/seeded/$id/patch.diff" || { echo "$id: patch does not apply"; continue; }
  mkdir -p "$SCR/$id"; cp KNOWN_FINDINGS.jsonl "$SCR/$id/"
  for P in $PROPS; do
    ( bin/obfsvet -prop $P -tier quick -repo /repo -verif "$SCR/$id" > "$SCR/$id/$P.log" 2>&1; echo $? > "$SCR/$id/$P.rc" ) &
  done
  wait
  git -C /repo apply -R "/verif/seeded/$id/patch.diff"
  if [ -n "$(git -C /repo status --porcelain)" ]; then echo "$id: /repo not clean after undo"; git -C /repo status --porcelain; exit 2; fi
  caught=""; keys=""
  for P in $PROPS; do
    rc=$(cat "$SCR/$id/$P.rc")
    if [ "$rc" != "0" ]; then
      caught="$caught\"$P\","
      ks=$(grep -E "^(VIOLATED|UNDECIDED) " "$SCR/$id/$P.log" | awk '{print $2}' | sort -u | sed 's/\\/\\\\/g; s/"/\\"/g' | awk '{printf "\"%s\",", $0}')
      keys="$keys\"$P\":[${ks%,}],"
    fi
  done
  own=false; case "$caught" in *"\"$prop\""*) own=true;; esac
  [ $first = 1 ] || echo "," >> "$SCR/matrix.json"; first=0
  printf ' "%s": {"property":"%s","own_check_fires":%s,"caught_by":[%s],"keys":{%s}}' "$id" "$prop" "$own" "${caught%,}" "${keys%,}" >> "$SCR/matrix.json"
  echo "$id own=$own caught_by=[${caught%,}]"
done
echo "}" >> "$SCR/matrix.json"
python3 -c "import json,sys; d=json.load(open('$SCR/matrix.json')); import os; old=(json.load(open('/verif/seeded/CATCH_MATRIX.json')) if ('$MERGE'=='1' and os.path.exists('/verif/seeded/CATCH_MATRIX.json')) else {}); old.update(d); d=old; json.dump(d,open('/verif/seeded/CATCH_MATRIX.json','w'),indent=1,sort_keys=True); print(len(d),'changes;', sum(1 for v in d.values() if v['own_check_fires']),'caught by their own property check')"
