#!/bin/bash
# round5.sh <prop> — confirm the round-6 sub-agent changes of one property (/tmp/wt10/<prop>/_out/N), report
# whether the property's own check catches them (unseen), and archive each confirmed one as seeded/<prop>-{25,26,27}.
P=$1
cd /verif
for n in 1 2; do
  d=/tmp/wt10/$P/_out/$n
  [ -f $d/patch.diff ] || continue
  pkg=$(head -1 $d/README.md | sed -n 's/^PKG:[ ]*//p' | tr -d '`' | awk '{print $1}')
  [ -z "$pkg" ] && pkg=$(grep -m1 -o 'PKG: *[^ ]*' $d/README.md | sed 's/PKG: *//' | tr -d '`')
  pkg=${pkg%/}
  out=$(tools/confirm_mut.sh /tmp/wt10/$P $n "$pkg" $(seq -f "C%02g" 1 20) 2>&1)
  res=$(echo "$out" | grep "^RESULT")
  all=$(echo "$out" | grep -E "^VIOLATED|^UNDECIDED" | awk '{print $2}' | sort -u)
  viol=$(echo "$all" | grep "^$P\." | head -4 | tr '\n' ' ')
  other=$(echo "$all" | grep -v "^$P\." | cut -d. -f1 | sort -u | tr '\n' ' ')
  id=$P-$((n+27))
  echo "$id pkg=$pkg $res caught=[${viol}] others=[${other}]"
  if echo "$res" | grep -q "suite=0 demo_mut=[1-9][0-9]* demo_clean=0"; then
    summ=$(grep -m1 '^#' $d/README.md | sed 's/^#* *//' | cut -c1-200)
    det="${viol:-NOT CAUGHT by the own check when first run (round 10); other checks that fired: [${other}]}"
    python3 tools/keep_mut.py /tmp/wt10/$P $n $id $P "$pkg" "see README.md" "round 10, unseen: ${det}" "$summ" >/dev/null
  else
    echo "   NOT CONFIRMED: $id"; echo "$out" | tail -25 | sed 's/^/      /'
  fi
done
