#!/bin/bash
# round2.sh <prop> — confirm the round-2 sub-agent changes of one property (/tmp/wt2/<prop>/_out/N) and
# report whether the property's check catches them.
P=$1
for n in 1 2 3; do
  d=/tmp/wt2/$P/_out/$n
  [ -f $d/patch.diff ] || continue
  pkg=$(head -1 $d/README.md | sed -n 's/^PKG:[ ]*//p' | tr -d '`' | awk '{print $1}')
  [ -z "$pkg" ] && pkg=$(grep -m1 -o 'PKG: *[^ ]*' $d/README.md | sed 's/PKG: *//')
  out=$(tools/confirm_mut.sh /tmp/wt2/$P $n "$pkg" $P 2>&1)
  res=$(echo "$out" | grep "^RESULT")
  viol=$(echo "$out" | grep -E "^VIOLATED|^UNDECIDED" | awk '{print $2}' | tr '\n' ' ')
  echo "$P-r2-$n pkg=$pkg $res caught=[${viol}]"
done
