#!/bin/bash
# round5.sh <prop> — confirm the round-3 sub-agent changes of one property (/tmp/wt5/<prop>/_out/N), report
# whether the property's own check catches them (unseen), and archive each confirmed one as seeded/<prop>-{13,14,15}.
P=$1
cd /verif
for n in 1 2 3; do
  d=/tmp/wt5/$P/_out/$n
  [ -f $d/patch.diff ] || continue
  pkg=$(head -1 $d/README.md | sed -n 's/^PKG:[ ]*//p' | tr -d '`' | awk '{print $1}')
  [ -z "$pkg" ] && pkg=$(grep -m1 -o 'PKG: *[^ ]*' $d/README.md | sed 's/PKG: *//' | tr -d '`')
  pkg=${pkg%/}
  out=$(tools/confirm_mut.sh /tmp/wt5/$P $n "$pkg" $P 2>&1)
  res=$(echo "$out" | grep "^RESULT")
  viol=$(echo "$out" | grep -E "^VIOLATED|^UNDECIDED" | awk '{print $2}' | sort -u | tr '\n' ' ')
  id=$P-$((n+12))
  echo "$id pkg=$pkg $res caught=[${viol}]"
  if echo "$res" | grep -q "suite=0 demo_mut=[1-9][0-9]* demo_clean=0"; then
    summ=$(grep -m1 '^#' $d/README.md | sed 's/^#* *//' | cut -c1-200)
    det="${viol:-NOT CAUGHT when first run (round 5)}"
    python3 tools/keep_mut.py /tmp/wt5/$P $n $id $P "$pkg" "see README.md" "round 5, unseen: ${det}" "$summ" >/dev/null
  else
    echo "   NOT CONFIRMED: $id"; echo "$out" | tail -25 | sed 's/^/      /'
  fi
done
