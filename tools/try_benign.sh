#!/bin/bash
# try_benign.sh <patch.diff> [label] — false-alarm hunt: apply a behaviour-preserving refactoring to /repo
# (git -C /repo apply), run the quick check of every property against it, undo (apply -R, tree must be
# clean), print the checks that fire with their obligation keys.  Evidence goes to a scratch directory.
set -u
PATCH=$(readlink -f "$1"); LABEL=${2:-$(basename $(dirname "$PATCH"))}
cd /verif
export GOFLAGS=-mod=mod GOPROXY=off GOSUMDB=off GOTOOLCHAIN=local; unset GOWORK
SCR=$(mktemp -d /tmp/benign.XXXXXX); trap 'rm -rf "$SCR"' EXIT
cp KNOWN_FINDINGS.jsonl "$SCR/"
[ -z "$(git -C /repo status --porcelain)" ] || { echo "/repo not clean"; exit 2; }
git -C /repo apply "$PATCH" || { echo "$LABEL: patch does not apply"; exit 1; }
( cd /repo && go build ./... ) > "$SCR/build.log" 2>&1 || { echo "$LABEL: DOES NOT BUILD"; cat "$SCR/build.log" | head -5; }
for P in $(seq -f "C%02g" 1 20); do
  ( bin/obfsvet -prop $P -tier quick -repo /repo -verif "$SCR" > "$SCR/$P.log" 2>&1; echo $? > "$SCR/$P.rc" ) &
done
wait
git -C /repo apply -R "$PATCH"
[ -z "$(git -C /repo status --porcelain)" ] || { echo "$LABEL: /repo not clean after undo"; git -C /repo status --porcelain; exit 2; }
fired=""
for P in $(seq -f "C%02g" 1 20); do
  if [ "$(cat $SCR/$P.rc)" != "0" ]; then
    fired="$fired $P"
    grep -E "^(VIOLATED|UNDECIDED) " "$SCR/$P.log" | sed "s/^/    $LABEL $P: /" | cut -c1-260
    grep -E "^    why:" "$SCR/$P.log" | head -3 | cut -c1-400 | sed "s/^/      /"
  fi
done
if [ -z "$fired" ]; then echo "$LABEL: silent"; else echo "$LABEL: FIRED$fired"; fi
