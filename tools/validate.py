#!/usr/bin/env python3
"""Validate MANIFEST.json and every evidence file against the given schemas."""
import json, glob, sys, os
import jsonschema
HERE = os.path.dirname(os.path.dirname(os.path.abspath(__file__)))
ok = True
def v(path, schema):
    global ok
    try:
        jsonschema.validate(json.load(open(path)), json.load(open(schema)))
    except Exception as e:
        ok = False
        print("INVALID", path, str(e)[:300])
v(os.path.join(HERE, "MANIFEST.json"), "/root/.vp/MANIFEST.schema.json")
for f in sorted(glob.glob(os.path.join(HERE, "evidence", "C*.json"))):
    v(f, "/root/.vp/EVIDENCE.schema.json")
print("valid" if ok else "FAILED")
sys.exit(0 if ok else 1)
